"""pyvc engine: interpreter of the Python subset over symbolic values."""
from __future__ import annotations

import ast
import z3

from .core import *  # noqa
from . import core


class ReturnSig(Exception):

  def __init__(self, value):
    self.value = value


class BreakSig(Exception):
  pass


class ContinueSig(Exception):
  pass


class RaiseSig(Exception):

  def __init__(self, exc):
    self.exc = exc  # ExcV


class PathEnd(Exception):
  """End of an inductive-step path (loop body finished, invariant obliged)."""


MUTATORS = {'append', 'clear', 'extend', 'pop', 'insert', 'remove', 'sort',
            'reverse', 'update', 'add', 'discard', 'setdefault', 'popitem',
            'shuffle', 'write', 'close'}


class Loop:
  """Sidecar contract of one loop.

  inv(s) -> z3 Bool over the loop-head state `s` (State).  decreases(s) -> Int
  (must be >= 0 at the head when the guard holds and strictly decrease).
  sorts: {var: maker(ctx, base) -> value} for variables whose value at loop
  entry does not determine their sort (e.g. None-initialised).  expect: regex
  the unparsed loop header must match (binding check).  mutates: extra names
  whose heap cells the body mutates.  maybe_unbound: body-local names that
  need not be bound after >= 1 iterations.
  """

  def __init__(self, inv=None, decreases=None, sorts=None, expect=None,
               mutates=(), name=None, unroll=False, pointwise=False,
               ghost=None, maybe_unbound=(), after=None, hints=None,
               ghost_step=None, head_hints=None):
    self.head_hints = head_hints  # head_hints(head_state) -> [LemmaInst], available to the body of the inductive step
    self.inv = inv or (lambda s: z3.BoolVal(True))
    self.decreases = decreases
    self.sorts = sorts or {}
    self.expect = expect
    self.mutates = tuple(mutates)
    self.name = name
    self.unroll = unroll
    self.pointwise = pointwise
    self.ghost = ghost
    self.maybe_unbound = tuple(maybe_unbound)
    self.after = after
    self.ghost_step = ghost_step  # ghost code run at the end of every iteration
    self.hints = hints  # hints(tail_state) -> [LemmaInst]: proved-lemma instances


class State:
  """Read-only view of a loop-head (or any) state for contract lambdas."""

  def __init__(self, ctx, it=None, old=None):
    self.ctx = ctx
    self.it = it
    self._old = old

  def raw(self, name):
    return self.ctx.lookup(name)

  def __getitem__(self, name):
    v = self.ctx.lookup(name)
    return self.ctx.engine.term_of(self.ctx, v)

  def bound(self, name):
    try:
      v = self.ctx.lookup(name)
    except KeyError:
      return False
    if isinstance(v, MaybeUnbound):
      return v.bound
    return True

  def g(self, name):
    return self.ctx.ghost[name]

  def old(self, name):
    return self._old[name]

  def head(self, name):
    """Value at the head of the current iteration (inductive-step paths)."""
    return self._head[name]

  def attr(self, name, field):
    v = self.ctx.lookup(name)
    return self.ctx.engine.term_of(self.ctx,
                                   self.ctx.engine.getattr(self.ctx, v, field))


def assigned_names(stmts):
  """Names (re)bound by a statement list, not descending into nested defs."""
  out = []

  def tgt(t):
    if isinstance(t, ast.Name):
      out.append(t.id)
    elif isinstance(t, (ast.Tuple, ast.List)):
      for e in t.elts:
        tgt(e)
    elif isinstance(t, ast.Starred):
      tgt(t.value)

  def walk(node):
    if isinstance(node, (ast.FunctionDef, ast.Lambda, ast.ClassDef,
                         ast.AsyncFunctionDef)):
      if isinstance(node, ast.FunctionDef):
        out.append(node.name)
      return
    if isinstance(node, ast.Assign):
      for t in node.targets:
        tgt(t)
    elif isinstance(node, (ast.AugAssign, ast.AnnAssign)):
      tgt(node.target)
    elif isinstance(node, (ast.For,)):
      tgt(node.target)
    elif isinstance(node, ast.With):
      for it in node.items:
        if it.optional_vars is not None:
          tgt(it.optional_vars)
    elif isinstance(node, ast.NamedExpr):
      tgt(node.target)
    elif isinstance(node, ast.ExceptHandler) and node.name:
      out.append(node.name)
    for ch in ast.iter_child_nodes(node):
      walk(ch)

  for s in stmts:
    walk(s)
  return list(dict.fromkeys(out))


def mutated_names(stmts):
  """Names whose referenced object may be mutated in the statements."""
  out = []

  def base_name(e):
    while isinstance(e, (ast.Attribute, ast.Subscript)):
      e = e.value
    return e.id if isinstance(e, ast.Name) else None

  def walk(node):
    if isinstance(node, (ast.FunctionDef, ast.Lambda, ast.ClassDef)):
      return
    if isinstance(node, (ast.Assign, ast.AugAssign, ast.AnnAssign)):
      ts = node.targets if isinstance(node, ast.Assign) else [node.target]
      stack = list(ts)
      while stack:
        t = stack.pop()
        if isinstance(t, (ast.Tuple, ast.List)):
          stack.extend(t.elts)
        elif isinstance(t, (ast.Subscript, ast.Attribute)):
          n = base_name(t)
          if n:
            out.append((n, t))
    if isinstance(node, ast.Call):
      f = node.func
      if isinstance(f, ast.Name) and f.id == 'next' and node.args:
        n = base_name(node.args[0])
        if n:
          out.append((n, node.args[0]))
      if isinstance(f, ast.Attribute) and f.attr in MUTATORS:
        n = base_name(f.value)
        if n:
          out.append((n, f.value))
        for a in node.args:
          n = base_name(a)
          if n:
            out.append((n, a))
    if isinstance(node, ast.Delete):
      for t in node.targets:
        n = base_name(t)
        if n and not isinstance(t, ast.Name):
          out.append((n, t))
    for ch in ast.iter_child_nodes(node):
      walk(ch)

  for s in stmts:
    walk(s)
  return out


def loop_ordinals(fdef):
  """id(loop node) -> ordinal in source order, not descending into nested defs."""
  cache = getattr(fdef, '_pyvc_loops', None)
  if cache is not None:
    return cache
  found = []

  def walk(node, top):
    if not top and isinstance(node, (ast.FunctionDef, ast.Lambda, ast.ClassDef)):
      return
    if isinstance(node, (ast.For, ast.While)):
      found.append(node)
    for ch in ast.iter_child_nodes(node):
      walk(ch, False)

  walk(fdef, True)
  found.sort(key=lambda n: (n.lineno, n.col_offset))
  cache = {id(n): i for i, n in enumerate(found)}
  fdef._pyvc_loops = cache
  return cache


def contains_yield(stmts):
  for s in stmts:
    for n in ast.walk(s):
      if isinstance(n, (ast.Yield, ast.YieldFrom)):
        return True
  return False


def is_generator(fdef):
  """does the function itself (not a nested def) contain a yield?"""
  def walk(n):
    for c in ast.iter_child_nodes(n):
      if isinstance(c, (ast.FunctionDef, ast.AsyncFunctionDef, ast.Lambda, ast.ClassDef)):
        continue
      if isinstance(c, (ast.Yield, ast.YieldFrom)):
        return True
      if walk(c):
        return True
    return False
  return walk(fdef)


class Engine:

  def __init__(self, globals_=None, quick_prune=True):
    self.globals = dict(BUILTINS)
    if globals_:
      self.globals.update(globals_)
    self.quick_prune = quick_prune
    self.max_paths = 4000
    self.on_empty_list = None  # script hook: what `[]` allocates
    self.on_empty_dict = None  # script hook: what `{}` allocates
    self.sources = []  # repo files whose module-level names are visible
    self._gcache = {}
    self.stats = {'paths': 0}

  def resolve_global(self, ctx, name):
    """Names not given a contract by the proof script are looked up in the
    module the running function was extracted from (then in self.sources):
    literal constants, module-level `NAME = <expr>` (evaluated here, e.g.
    `_tree_add_eq = jax.jit(tree_add, donate_argnums=0)`), functions (inlined
    callees; decorators are applied through the library table) and classes."""
    try:
      f = ctx.cur_frame().get('$func')
    except Exception:
      f = None
    rel = getattr(f, 'relpath', None) if f is not None else None
    for r in ([rel] if rel else []) + [s for s in self.sources if s != rel]:
      key = (r, name)
      if key in self._gcache:
        return self._gcache[key]
      v = self._resolve_in(ctx, r, name)
      if v is not None:
        self._gcache[key] = v
        return v
    return None

  def _resolve_in(self, ctx, relpath, name):
    from . import extract
    try:
      src, tree = extract.parse(relpath)
    except Undecided:
      return None
    for n in tree.body:
      if isinstance(n, ast.FunctionDef) and n.name == name:
        ex = extract.Extracted(relpath, name)
        fv = ex.funcv()
        for d in reversed(n.decorator_list):
          dec = self._eval_module_expr(ctx, relpath, d)
          fv = self.call_value(ctx, dec, [fv], {})
        if hasattr(fv, 'name') and not getattr(fv, 'name', None):
          fv.name = name
        return (fv,)
      if isinstance(n, ast.ClassDef) and n.name == name:
        methods = {}
        for m in n.body:
          if isinstance(m, ast.FunctionDef):
            fv = extract.Extracted(relpath, f'{name}.{m.name}').funcv()
            mdecs = [ast.unparse(d) for d in m.decorator_list]
            if 'classmethod' in mdecs:
              fv = ClassMethodV(fv)
            elif 'staticmethod' in mdecs:
              fv = StaticMethodV(fv)
            elif 'property' in mdecs:
              fv = PropertyV(fv)
            elif any(d.startswith('abc.') for d in mdecs):
              continue
            methods[m.name] = fv
        bases = []
        for b in n.bases:
          if isinstance(b, ast.Name):
            try:
              bv = ctx.lookup(b.id)
              if isinstance(bv, ClassModel):
                bases.append(bv)
            except KeyError:
              pass
        fields = None
        decs = [ast.unparse(d) for d in n.decorator_list]
        if any('dataclass' in d for d in decs):
          fields = []
          for m in n.body:
            if isinstance(m, ast.AnnAssign) and isinstance(m.target, ast.Name):
              if m.value is None:
                fields.append((m.target.id, core._NODEFAULT))
              else:
                fields.append((m.target.id, self._eval_module_expr(ctx, relpath, m.value)))
        cm = ClassModel(name, methods, fields=fields, bases=tuple(bases))
        for mv in methods.values():
          if isinstance(mv, ClassMethodV):
            mv.cls = cm
        return (cm,)
      if isinstance(n, ast.Assign):
        for t in n.targets:
          if isinstance(t, ast.Name) and t.id == name:
            try:
              return (ast.literal_eval(n.value),)
            except Exception:
              return (self._eval_module_expr(ctx, relpath, n.value),)
      if isinstance(n, ast.ImportFrom) and n.module and n.module.startswith('fedjax'):
        # `from fedjax.core import tree_util` / `from fedjax.core.typing import Params`
        import os
        for al in n.names:
          if (al.asname or al.name) == name:
            base = n.module.replace('.', '/')
            as_module = f'{base}/{al.name}.py'
            if os.path.exists(os.path.join(extract.REPO, as_module)):
              return (SrcModule(as_module),)
            if os.path.exists(os.path.join(extract.REPO, base + '.py')):
              return self._resolve_in(ctx, base + '.py', al.name)
    return None

  def _eval_module_expr(self, ctx, relpath, node):
    """Evaluates a module-level expression in a frame whose globals are that module."""
    stub = FuncV(ast.parse('def _m(): pass').body[0], (), name='<module>')
    stub.relpath = relpath
    fid = ctx.push_frame(())
    ctx.frames[fid]['$func'] = stub
    try:
      return self.eval(ctx, node)
    finally:
      ctx.pop_frame()

  # ------------------------------------------------------------------ driver
  def explore(self, sink, fn_name, body):
    """Runs body(ctx) once per decision schedule (fork-by-replay)."""
    work = [[]]
    n = 0
    while work:
      sched = work.pop()
      n += 1
      if n > self.max_paths:
        raise Undecided(f'path explosion in {fn_name}')
      ctx = Ctx(self, sink, fn_name, sched)
      try:
        body(ctx)
      except (PathEnd, PathDead):
        pass
      work.extend(ctx.pending)
    self.stats['paths'] += n
    return n

  def final_locals(self, ctx):
    """Locals of the most recently finished inlined call."""
    return ctx.frames[ctx.tags['$last_frame']]

  def run_function(self, ctx, funcv, args, kwargs=None):
    """Executes a FuncV to completion on this path.

    Returns ('return', value) or ('raise', ExcV).  Generators 'return' None
    after their last yield (yields are reported through ctx.on_yield).
    """
    try:
      v = self.inline_call(ctx, funcv, list(args), dict(kwargs or {}))
      return ('return', v)
    except RaiseSig as r:
      return ('raise', r.exc)

  # ------------------------------------------------------------------ calls
  def bind_params(self, ctx, funcv, args, kwargs):
    a = funcv.fdef.args
    names = [x.arg for x in a.posonlyargs + a.args]
    bound = {}
    args = list(args)
    if len(args) > len(names) and not a.vararg:
      ctx.oblige('call.arity', False, kind='definedness',
                 detail=f'TypeError: too many arguments to {funcv.name}')
      raise PathDead()
    for n, v in zip(names, args):
      bound[n] = v
    if a.vararg:
      bound[a.vararg.arg] = tuple(args[len(names):])
    kwonly = [x.arg for x in a.kwonlyargs]
    extra = {}
    for k, v in kwargs.items():
      if k in names or k in kwonly:
        if k in bound:
          ctx.oblige('call.dupkw', False, kind='definedness',
                     detail=f'TypeError: multiple values for {k}')
        bound[k] = v
      elif a.kwarg:
        extra[k] = v
      else:
        ctx.oblige('call.kw', False, kind='definedness',
                   detail=f'TypeError: {funcv.name}() got an unexpected keyword {k}')
        raise PathDead()
    if a.kwarg:
      bound[a.kwarg.arg] = ctx.alloc(DictCell.from_py(extra))
    # defaults
    defaults = a.defaults
    for n, d in zip(names[len(names) - len(defaults):], defaults):
      if n not in bound:
        bound[n] = self.eval_default(ctx, funcv, d)
    for n, d in zip(kwonly, a.kw_defaults):
      if n not in bound and d is not None:
        bound[n] = self.eval_default(ctx, funcv, d)
    for n in names + kwonly:
      if n not in bound:
        ctx.oblige('call.missing', False, kind='definedness',
                   detail=f'TypeError: {funcv.name}() missing argument {n}')
        raise PathDead()
    return bound

  def eval_default(self, ctx, funcv, d):
    fid = ctx.push_frame(funcv.frames)
    try:
      return self.eval(ctx, d)
    finally:
      ctx.pop_frame()

  def inline_call(self, ctx, funcv, args, kwargs):
    bound = self.bind_params(ctx, funcv, args, kwargs)
    fid = ctx.push_frame(funcv.frames)
    ctx.frames[fid].update(bound)
    # nonlocal / global declarations
    nl = []
    for n in ast.walk(funcv.fdef):
      if isinstance(n, ast.Nonlocal):
        nl.extend(n.names)
    if nl:
      ctx.frames[fid]['$nonlocal'] = tuple(nl)
    ctx.frames[fid]['$func'] = funcv
    try:
      if isinstance(funcv.fdef, ast.Lambda):
        return self.eval(ctx, funcv.fdef.body)
      self.exec_block(ctx, funcv.fdef.body)
      return None
    except ReturnSig as r:
      return r.value
    finally:
      ctx.tags['$last_frame'] = ctx.pop_frame()

  def call_value(self, ctx, f, args, kwargs):
    if isinstance(f, Val):
      return f.call(ctx, list(args), dict(kwargs))
    raise Unsupported(f'call of non-callable {f!r}')

  def call_method(self, ctx, obj, name, args, kwargs=None):
    kwargs = kwargs or {}
    if isinstance(obj, Val):
      return obj.method(ctx, name, list(args), kwargs)
    if isinstance(obj, tuple):
      if name == 'index':
        raise Unsupported('tuple.index')
    if isinstance(obj, (str, bytes)):
      try:
        return getattr(obj, name)(*args, **kwargs)
      except TypeError:
        return StrV()  # e.g. sep.join(<symbolic strings>)
    raise Unsupported(f'method {name} on {obj!r}')

  # ------------------------------------------------------------- protocols
  def term_of(self, ctx, v):
    """z3 term that represents a value in contract formulas."""
    if isinstance(v, MaybeUnbound):
      v = v.val
    if isinstance(v, Ref):
      c = v.cell(ctx)
      if isinstance(c, ListCell):
        return c.seq
      if hasattr(c, 'term'):
        return c.term(ctx)
      return v
    if isinstance(v, (bool, int, float)):
      return to_z3(v)
    if hasattr(v, 'term'):
      return v.term
    return v

  def getattr(self, ctx, v, name):
    if isinstance(v, Val):
      return v.getattr(ctx, name)
    if v is None:
      ctx.oblige(f'attr.{name}', False, kind='definedness',
                 detail=f"AttributeError: 'NoneType' object has no attribute {name}")
      raise PathDead()
    if isinstance(v, tuple) and hasattr(v, '_fields') and name in v._fields:
      return getattr(v, name)
    if is_z3(v) and name in ('shape', 'dtype', 'size', 'ndim'):
      # scalars/arrays as plain terms: handled by domain wrappers only
      raise Unsupported(f'attribute {name} of a raw term')
    raise Unsupported(f'getattr({v!r}, {name})')

  def getitem(self, ctx, v, idx):
    if isinstance(v, Val):
      return v.getitem(ctx, idx)
    if isinstance(v, tuple):
      if isinstance(idx, SliceV):
        if any(is_z3(x) for x in (idx.lo, idx.hi, idx.step)):
          raise Unsupported('symbolic slice of tuple')
        return v[idx.lo:idx.hi:idx.step]
      if is_z3(idx):
        idx = z3.simplify(idx)
        if not z3.is_int_value(idx):
          raise Unsupported('symbolic index into tuple')
        idx = idx.as_long()
      if not -len(v) <= idx < len(v):
        ctx.oblige('index.tuple', False, kind='definedness',
                   detail='IndexError: tuple index out of range')
        raise PathDead()
      return v[idx]
    if isinstance(v, z3.SeqRef):
      if isinstance(idx, SliceV):
        return seq_slice(v, idx.lo, idx.hi)[0]
      n = z3.Length(v)
      i = to_z3(idx)
      ctx.oblige('index.seq', z3.And(i >= -n, i < n), kind='definedness',
                 detail='IndexError')
      return v[z3.If(i < 0, i + n, i)]
    if v is None:
      ctx.oblige('subscript.none', False, kind='definedness',
                 detail="TypeError: 'NoneType' object is not subscriptable")
      raise PathDead()
    if isinstance(v, dict) and isinstance(idx, (str, bytes, int, bool)) and not isinstance(idx, z3.ExprRef):
      # a module-level constant table (resolved from the source by literal evaluation)
      if idx not in v:
        raise RaiseSig(ExcV('KeyError'))
      return v[idx]
    raise Unsupported(f'subscript of {v!r}')

  def truth(self, ctx, v):
    if isinstance(v, MaybeUnbound):
      v = v.val
    if isinstance(v, bool):
      return v
    if isinstance(v, z3.BoolRef):
      return v
    if v is None:
      return False
    if isinstance(v, (int, float)):
      return v != 0
    if isinstance(v, z3.ArithRef):
      return v != 0
    if isinstance(v, (tuple, str, bytes, list, dict, set, frozenset)):
      return len(v) != 0
    if isinstance(v, z3.SeqRef):
      return z3.Length(v) != 0
    if isinstance(v, Val):
      return v.truth(ctx)
    raise Unsupported(f'truth of {v!r}')

  def length(self, ctx, v):
    if isinstance(v, (tuple, str, bytes, list, dict)):
      return len(v)
    if isinstance(v, z3.SeqRef):
      return z3.Length(v)
    if isinstance(v, Val):
      return v.length(ctx)
    raise Unsupported(f'len of {v!r}')

  def fresh_like(self, ctx, v, base):
    if isinstance(v, MaybeUnbound):
      v = v.val
    if isinstance(v, bool):
      return ctx.fresh(base, 'bool')
    if isinstance(v, int):
      return ctx.fresh(base, 'int')
    if isinstance(v, float):
      return ctx.fresh(base, 'real')
    if is_z3(v):
      return ctx.fresh(base, v.sort())
    if isinstance(v, tuple):
      return tuple(self.fresh_like(ctx, x, f'{base}_{i}')
                   for i, x in enumerate(v))
    if isinstance(v, Val):
      return v.fresh_like(ctx, base)
    if v is None:
      raise Undecided(f'loop variable {base} is None at loop entry: give its '
                      'sort in Loop(sorts=...)')
    raise Unsupported(f'havoc of {v!r}')

  def iterate(self, ctx, v):
    if isinstance(v, MaybeUnbound):
      v = v.val
    if isinstance(v, IterSpec):
      return v
    if isinstance(v, (tuple, list)):
      return IterSpec(items=list(v))
    if isinstance(v, z3.SeqRef):
      return IterSpec(seq=v, codec=Codec(v.sort().basis()))
    if isinstance(v, Val):
      return v.iterate(ctx)
    raise Unsupported(f'iteration over {v!r}')

  # ----------------------------------------------------------- expressions
  def eval(self, ctx, e):
    m = getattr(self, 'e_' + type(e).__name__, None)
    if m is None:
      raise Unsupported(f'expression {type(e).__name__} at line {getattr(e, "lineno", "?")}')
    if hasattr(e, 'lineno'):
      ctx.lineno = e.lineno
    return m(ctx, e)

  def e_Constant(self, ctx, e):
    return e.value

  def e_Name(self, ctx, e):
    try:
      v = ctx.lookup(e.id)
    except KeyError:
      # a local of this function that is not bound on this path?
      ctx.oblige(f'bound.{e.id}', False, kind='definedness',
                 detail=f'UnboundLocalError/NameError: {e.id} read before assignment')
      raise PathDead()
    if isinstance(v, MaybeUnbound):
      ctx.oblige(f'bound.{e.id}', v.bound, kind='definedness',
                 detail=f'UnboundLocalError: {e.id} may be unbound here')
      return v.val
    return v

  def e_Tuple(self, ctx, e):
    out = []
    for x in e.elts:
      if isinstance(x, ast.Starred):
        v = self.eval(ctx, x.value)
        out.extend(self.concrete_items(ctx, v))
      else:
        out.append(self.eval(ctx, x))
    return tuple(out)

  def concrete_items(self, ctx, v):
    spec = self.iterate(ctx, v)
    if spec.items is None:
      raise Unsupported('unpacking a symbolic-length iterable')
    return spec.items

  def e_List(self, ctx, e):
    items = list(self.e_Tuple(ctx, e))
    if not items and self.on_empty_list is not None:
      return self.on_empty_list(ctx)
    return ctx.alloc(PyListCell(items))

  def e_Set(self, ctx, e):
    return SetV(tuple(self.eval(ctx, x) for x in e.elts))

  def e_Dict(self, ctx, e):
    if e.keys and e.keys[0] is None:
      src = self.eval(ctx, e.values[0])
      if hasattr(src, 'dict_display'):
        extra = []
        for k, v in zip(e.keys[1:], e.values[1:]):
          if k is None:
            raise Unsupported('several ** in a dict display')
          extra.append((self.eval(ctx, k), self.eval(ctx, v)))
        return src.dict_display(ctx, extra)
      return self._dict_from(ctx, e, first=src)
    return self._dict_from(ctx, e)

  def _dict_from(self, ctx, e, first=None):
    if not e.keys and getattr(self, 'on_empty_dict', None) is not None:
      return self.on_empty_dict(ctx)
    d = DictCell()
    ref = ctx.alloc(d)
    for i, (k, v) in enumerate(zip(e.keys, e.values)):
      if k is None:
        src = first if (i == 0 and first is not None) else self.eval(ctx, v)
        self.call_method(ctx, ref, 'update', [src])
      else:
        kk = self.eval(ctx, k)
        vv = self.eval(ctx, v)
        self.setitem(ctx, ref, kk, vv)
    return ref

  def e_JoinedStr(self, ctx, e):
    parts = []
    for v in e.values:
      if isinstance(v, ast.Constant):
        parts.append(v.value)
      elif isinstance(v, ast.FormattedValue):
        spec = None
        if v.format_spec is not None:
          sp = v.format_spec
          if all(isinstance(x, ast.Constant) for x in sp.values):
            spec = ''.join(x.value for x in sp.values)
          else:
            spec = '?'
        try:
          val = self.eval(ctx, v.value)
        except Unsupported:
          val = StrV()
        parts.append((val, spec, v.conversion))
    return FStrV(parts).normalized()

  def e_Attribute(self, ctx, e):
    v = self.eval(ctx, e.value)
    return self.getattr(ctx, v, e.attr)

  def e_Subscript(self, ctx, e):
    v = self.eval(ctx, e.value)
    idx = self.eval(ctx, e.slice)
    return self.getitem(ctx, v, idx)

  def e_Slice(self, ctx, e):
    lo = self.eval(ctx, e.lower) if e.lower else None
    hi = self.eval(ctx, e.upper) if e.upper else None
    st = self.eval(ctx, e.step) if e.step else None
    return SliceV(lo, hi, st)

  def e_Lambda(self, ctx, e):
    return FuncV(e, self.lexical(ctx), name='<lambda>')

  def lexical(self, ctx):
    f = ctx.cur_frame()
    return tuple(f['$parents']) + (ctx.stack[-1],)

  def e_IfExp(self, ctx, e):
    c = self.truth(ctx, self.eval(ctx, e.test))
    if ctx.branch(c):
      return self.eval(ctx, e.body)
    return self.eval(ctx, e.orelse)

  def e_BoolOp(self, ctx, e):
    is_and = isinstance(e.op, ast.And)
    if ctx.tags.get('$nobranch'):
      # pure boolean operands (pointwise comprehensions): no forking; each
      # operand is evaluated under the guard of the previous ones
      acc = []
      base = len(ctx.pc)
      try:
        for x in e.values:
          t = self.truth(ctx, self.eval(ctx, x))
          acc.append(t)
          ctx.pc.append(zbool(t) if is_and else zbool(znot(t)))
      finally:
        del ctx.pc[base:]
      return zand(*acc) if is_and else zor(*acc)
    v = None
    for i, x in enumerate(e.values):
      v = self.eval(ctx, x)
      if i == len(e.values) - 1:
        return v
      t = self.truth(ctx, v)
      b = ctx.branch(t)
      if is_and and not b:
        return v if not is_bool(v) else False
      if not is_and and b:
        return v if not is_bool(v) else True
    return v

  def e_UnaryOp(self, ctx, e):
    v = self.eval(ctx, e.operand)
    if isinstance(e.op, ast.Not):
      return znot(self.truth(ctx, v))
    if isinstance(e.op, ast.USub):
      if isinstance(v, Val):
        return v.binop(ctx, 'Neg', None, False)
      return -v
    if isinstance(e.op, ast.UAdd):
      return v
    if isinstance(e.op, ast.Invert):
      if isinstance(v, Val):
        return v.binop(ctx, 'Invert', None, False)
      if is_bool(v):
        raise Unsupported('~bool')
    raise Unsupported(f'unary {type(e.op).__name__}')

  def e_BinOp(self, ctx, e):
    a = self.eval(ctx, e.left)
    b = self.eval(ctx, e.right)
    return self.binop(ctx, type(e.op).__name__, a, b)

  def binop(self, ctx, op, a, b):
    if isinstance(a, Val):
      return a.binop(ctx, op, b, False)
    if isinstance(b, Val):
      return b.binop(ctx, op, a, True)
    if isinstance(a, tuple) and isinstance(b, tuple) and op == 'Add':
      return a + b
    if isinstance(a, (str, bytes)) and isinstance(b, (str, bytes)):
      if op == 'Add':
        return a + b
    if isinstance(a, (str, bytes)) and op == 'Mod':
      return StrV()
    if isinstance(a, z3.SeqRef) and isinstance(b, z3.SeqRef) and op == 'Add':
      return z3.Concat(a, b)
    if isinstance(a, z3.FPRef) or isinstance(b, z3.FPRef):
      return self.fp_arith(ctx, op, a, b)
    if is_num(a) and is_num(b):
      return self.arith(ctx, op, a, b)
    raise Unsupported(f'binop {op} on {a!r}, {b!r}')

  def fp_arith(self, ctx, op, a, b):
    """IEEE-754 arithmetic, round-to-nearest-even (FP-mode obligations)."""
    def conv(x, s):
      if isinstance(x, z3.FPRef):
        return x
      if isinstance(x, bool):
        x = int(x)
      if isinstance(x, (int, float)):
        return z3.FPVal(x, s)
      raise Unsupported(f'mixing {x!r} with floating point')
    s = a.sort() if isinstance(a, z3.FPRef) else b.sort()
    a, b = conv(a, s), conv(b, s)
    rm = z3.RNE()
    if op == 'Add':
      return z3.fpAdd(rm, a, b)
    if op == 'Sub':
      return z3.fpSub(rm, a, b)
    if op == 'Mult':
      return z3.fpMul(rm, a, b)
    if op == 'Div':
      return z3.fpDiv(rm, a, b)  # IEEE: x/0 = inf, 0/0 = NaN (no exception)
    raise Unsupported(f'floating point {op}')

  def arith(self, ctx, op, a, b):
    if isinstance(a, z3.FPRef) or isinstance(b, z3.FPRef):
      return self.fp_arith(ctx, op, a, b)
    if isinstance(a, bool):
      a = int(a)
    if isinstance(b, bool):
      b = int(b)
    if isinstance(a, z3.BoolRef):
      a = z3.If(a, 1, 0)
    if isinstance(b, z3.BoolRef):
      b = z3.If(b, 1, 0)
    conc = not is_z3(a) and not is_z3(b)
    if op == 'Add':
      return a + b
    if op == 'Sub':
      return a - b
    if op == 'Mult':
      return a * b
    if op in ('FloorDiv', 'Mod'):
      if is_real(a) or is_real(b):
        raise Unsupported('float floor division')
      ctx.oblige('div.zero', to_z3(b) != 0 if is_z3(b) else b != 0,
                 kind='definedness', detail='ZeroDivisionError')
      return py_floordiv(a, b) if op == 'FloorDiv' else py_mod(a, b)
    if op == 'Div':
      ctx.oblige('div.zero', to_z3(b) != 0 if is_z3(b) else b != 0,
                 kind='definedness', detail='ZeroDivisionError')
      if conc:
        return a / b
      ra = z3.ToReal(a) if is_int(to_z3(a)) else to_z3(a)
      rb = z3.ToReal(b) if is_int(to_z3(b)) else to_z3(b)
      return ra / rb
    if op in ('LShift', 'RShift', 'BitAnd', 'BitOr', 'BitXor'):
      if conc and isinstance(a, int) and isinstance(b, int):
        return {'LShift': a << b, 'RShift': a >> b, 'BitAnd': a & b, 'BitOr': a | b,
                'BitXor': a ^ b}[op]
      if op == 'LShift' and isinstance(b, int) and 0 <= b < 64:
        return a * (1 << b)
      if op == 'RShift' and isinstance(b, int) and 0 <= b < 64:
        return py_floordiv(a, 1 << b)
      raise Unsupported(f'symbolic {op}')
    if op == 'Pow':
      if conc:
        return a ** b
      if not is_z3(b) and isinstance(b, int) and 0 <= b <= 4:
        r = 1
        for _ in range(b):
          r = r * a
        return r
      if getattr(self, 'on_pow', None) is not None:
        return self.on_pow(ctx, a, b)
      raise Unsupported('symbolic power')
    raise Unsupported(f'arith {op}')

  def e_Compare(self, ctx, e):
    left = self.eval(ctx, e.left)
    result = None
    for i, (op, r) in enumerate(zip(e.ops, e.comparators)):
      right = self.eval(ctx, r)
      c = self.compare(ctx, type(op).__name__, left, right)
      result = c if result is None else zand(result, c)
      left = right
      if i < len(e.ops) - 1:
        # chained comparison short-circuits; operands here are side-effect free
        pass
    return result

  def compare(self, ctx, op, a, b):
    if isinstance(a, MaybeUnbound):
      a = a.val
    if op in ('Is', 'IsNot'):
      r = self.identical(ctx, a, b)
      return r if op == 'Is' else znot(r)
    if op in ('In', 'NotIn'):
      r = self.contains(ctx, b, a)
      return r if op == 'In' else znot(r)
    if isinstance(a, Val) and not isinstance(a, (SliceV,)):
      return a.compare(ctx, op, b)
    if isinstance(b, Val):
      flip = {'Lt': 'Gt', 'Gt': 'Lt', 'LtE': 'GtE', 'GtE': 'LtE', 'Eq': 'Eq',
              'NotEq': 'NotEq'}
      return b.compare(ctx, flip[op], a)
    if a is None or b is None:
      if op == 'Eq':
        return a is None and b is None
      if op == 'NotEq':
        return not (a is None and b is None)
      ctx.oblige('cmp.none', False, kind='definedness',
                 detail='TypeError: ordering comparison with None')
      raise PathDead()
    if isinstance(a, (str, bytes, tuple)) and isinstance(b, (str, bytes, tuple)) \
        and not any(is_z3(x) for x in (a if isinstance(a, tuple) else ())) \
        and not any(is_z3(x) for x in (b if isinstance(b, tuple) else ())):
      return {'Eq': a == b, 'NotEq': a != b, 'Lt': a < b, 'LtE': a <= b,
              'Gt': a > b, 'GtE': a >= b}[op]
    if isinstance(a, tuple) and isinstance(b, tuple) and op in ('Eq', 'NotEq'):
      if len(a) != len(b):
        return op == 'NotEq'
      r = zand(*[self.compare(ctx, 'Eq', x, y) for x, y in zip(a, b)])
      return r if op == 'Eq' else znot(r)
    if isinstance(a, z3.FPRef) or isinstance(b, z3.FPRef):
      s = a.sort() if isinstance(a, z3.FPRef) else b.sort()
      fa = a if isinstance(a, z3.FPRef) else z3.FPVal(a, s)
      fb = b if isinstance(b, z3.FPRef) else z3.FPVal(b, s)
      return {'Eq': z3.fpEQ(fa, fb), 'NotEq': z3.Not(z3.fpEQ(fa, fb)), 'Lt': z3.fpLT(fa, fb),
              'LtE': z3.fpLEQ(fa, fb), 'Gt': z3.fpGT(fa, fb), 'GtE': z3.fpGEQ(fa, fb)}[op]
    if is_num(a) and is_num(b):
      if isinstance(a, z3.BoolRef) or isinstance(b, z3.BoolRef):
        if isinstance(a, (bool, z3.BoolRef)) and isinstance(b, (bool, z3.BoolRef)):
          if op == 'Eq':
            return zbool(a) == zbool(b)
          if op == 'NotEq':
            return zbool(a) != zbool(b)
        a = z3.If(zbool(a), 1, 0) if is_bool(a) else a
        b = z3.If(zbool(b), 1, 0) if is_bool(b) else b
      if not is_z3(a) and not is_z3(b):
        return {'Eq': a == b, 'NotEq': a != b, 'Lt': a < b, 'LtE': a <= b,
                'Gt': a > b, 'GtE': a >= b}[op]
      a, b = to_z3(a), to_z3(b)
      return {'Eq': a == b, 'NotEq': a != b, 'Lt': a < b, 'LtE': a <= b,
              'Gt': a > b, 'GtE': a >= b}[op]
    if is_z3(a) and is_z3(b) and a.sort() == b.sort():
      if op == 'Eq':
        return a == b
      if op == 'NotEq':
        return a != b
    raise Unsupported(f'compare {op} on {a!r}, {b!r}')

  def identical(self, ctx, a, b):
    if isinstance(a, OptV) and b is None:
      return a.is_none
    if isinstance(b, OptV) and a is None:
      return b.is_none
    if a is None or b is None:
      return a is None and b is None
    if isinstance(a, OptV) and isinstance(b, OptV):
      return zor(zand(a.is_none, b.is_none),
                 zand(znot(a.is_none), znot(b.is_none),
                      self.identical(ctx, a.val, b.val)))
    if isinstance(a, OptV):
      return zand(znot(a.is_none), self.identical(ctx, a.val, b))
    if isinstance(b, OptV):
      return self.identical(ctx, b, a)
    if isinstance(a, Ref) and isinstance(b, Ref):
      return a.addr == b.addr
    if isinstance(a, bool) and isinstance(b, bool):
      return a == b
    if hasattr(a, 'identity') and hasattr(b, 'identity'):
      return a.identity(ctx) == b.identity(ctx)
    if is_z3(a) and is_z3(b) and a.sort() == b.sort():
      return a == b
    if isinstance(a, Val) and isinstance(b, Val) and type(a) is not type(b):
      return False
    raise Unsupported(f'identity of {a!r}, {b!r}')

  def contains(self, ctx, container, item):
    if isinstance(container, Val):
      return container.contains(ctx, item)
    if isinstance(container, (tuple, list)):
      return zor(*[self.compare(ctx, 'Eq', item, x) for x in container])
    if isinstance(container, (str, bytes)) and isinstance(item, (str, bytes)):
      return item in container
    raise Unsupported(f'in {container!r}')

  def setitem(self, ctx, obj, idx, value):
    if isinstance(obj, Val):
      return obj.setitem(ctx, idx, value)
    raise Unsupported(f'store into {obj!r}')

  def e_Call(self, ctx, e):
    # method call?
    args = []
    kwargs = {}

    def eval_args():
      for a in e.args:
        if isinstance(a, ast.Starred):
          args.extend(self.concrete_items(ctx, self.eval(ctx, a.value)))
        else:
          args.append(self.eval(ctx, a))
      for k in e.keywords:
        v = self.eval(ctx, k.value)
        if k.arg is None:
          kwargs.update(self.concrete_dict(ctx, v))
        else:
          kwargs[k.arg] = v

    if isinstance(e.func, ast.Attribute):
      recv = self.eval(ctx, e.func.value)
      eval_args()
      ctx.lineno = e.lineno
      if isinstance(recv, (Module, ClassModel, SrcModule)):
        f = recv.getattr(ctx, e.func.attr)
        return self.call_value(ctx, f, args, kwargs)
      return self.call_method(ctx, recv, e.func.attr, args, kwargs)
    f = self.eval(ctx, e.func)
    eval_args()
    ctx.lineno = e.lineno
    return self.call_value(ctx, f, args, kwargs)

  def concrete_dict(self, ctx, v):
    if isinstance(v, dict):
      return v
    if isinstance(v, Ref) and isinstance(v.cell(ctx), DictCell):
      c = v.cell(ctx)
      if c.sym is not None:
        raise Unsupported('** of a symbolic dict')
      return {k: val for k, val in c.items}
    raise Unsupported(f'** of {v!r}')

  def e_ListComp(self, ctx, e):
    return self.comprehension(ctx, e, 'list')

  def e_GeneratorExp(self, ctx, e):
    return self.comprehension(ctx, e, 'gen')

  def e_SetComp(self, ctx, e):
    return self.comprehension(ctx, e, 'set')

  def e_DictComp(self, ctx, e):
    return self.comprehension(ctx, e, 'dict')

  def comprehension(self, ctx, e, kind):
    if len(e.generators) != 1:
      raise Unsupported('nested comprehension')
    g = e.generators[0]
    src = self.eval(ctx, g.iter)
    if isinstance(src, Val) and hasattr(src, 'comprehend'):
      return src.comprehend(ctx, self, e, g, kind)
    if isinstance(src, Ref) and hasattr(src.cell(ctx), 'comprehend'):
      return src.cell(ctx).comprehend(ctx, src, self, e, g, kind)
    spec = self.iterate(ctx, src)
    if spec.items is None:
      raise Unsupported('comprehension over a symbolic-length iterable '
                        f'({type(src).__name__}) at line {e.lineno}')
    out = []
    fid = ctx.push_frame(self.lexical(ctx))
    try:
      for item in spec.items:
        self.assign(ctx, g.target, item)
        ok = True
        for cond in g.ifs:
          if not ctx.branch(self.truth(ctx, self.eval(ctx, cond))):
            ok = False
            break
        if not ok:
          continue
        if kind == 'dict':
          out.append((self.eval(ctx, e.key), self.eval(ctx, e.value)))
        else:
          out.append(self.eval(ctx, e.elt))
    finally:
      ctx.pop_frame()
    if kind == 'dict':
      return ctx.alloc(DictCell.from_py(dict(out)) if all(
          isinstance(k, (str, bytes, int)) for k, _ in out) else DictCell(out))
    if kind == 'set':
      return SetV(tuple(out))
    if kind == 'gen':
      return tuple(out)
    return ctx.alloc(PyListCell(out))

  def e_Yield(self, ctx, e):
    v = self.eval(ctx, e.value) if e.value is not None else None
    if ctx.on_yield is None:
      raise Undecided('yield without a generator contract (on_yield)')
    ctx.on_yield(ctx, v)
    return None

  def e_YieldFrom(self, ctx, e):
    """`yield from X`: a generator function of the source called in X reports its yields to ctx.on_yield while it is
    inlined; a concrete sequence is yielded item by item; a contract value may define yield_from(ctx)."""
    v = self.eval(ctx, e.value)
    if v is None:
      return None
    if hasattr(v, 'yield_from'):
      return v.yield_from(ctx)
    if isinstance(v, (tuple, list)):
      for item in v:
        if ctx.on_yield is None:
          raise Undecided('yield from without a generator contract (on_yield)')
        ctx.on_yield(ctx, item)
      return None
    raise Unsupported(f'yield from {type(v).__name__}')

  def e_Starred(self, ctx, e):
    raise Unsupported('starred expression')

  def e_NamedExpr(self, ctx, e):
    v = self.eval(ctx, e.value)
    self.assign(ctx, e.target, v)
    return v

  # ------------------------------------------------------------ statements
  def exec_block(self, ctx, stmts):
    for s in stmts:
      self.exec(ctx, s)

  def exec(self, ctx, s):
    m = getattr(self, 's_' + type(s).__name__, None)
    if m is None:
      raise Unsupported(f'statement {type(s).__name__} at line {s.lineno}')
    ctx.lineno = s.lineno
    return m(ctx, s)

  def s_Pass(self, ctx, s):
    pass

  def s_Expr(self, ctx, s):
    if isinstance(s.value, ast.Constant):
      return  # docstring
    self.eval(ctx, s.value)

  def s_Return(self, ctx, s):
    raise ReturnSig(self.eval(ctx, s.value) if s.value is not None else None)

  def s_Break(self, ctx, s):
    raise BreakSig()

  def s_Continue(self, ctx, s):
    raise ContinueSig()

  def s_Global(self, ctx, s):
    raise Unsupported('global statement')

  def s_Nonlocal(self, ctx, s):
    pass  # handled at function entry

  def s_Import(self, ctx, s):
    raise Unsupported('import inside function')

  def s_Raise(self, ctx, s):
    if s.exc is None:
      exc = ctx.tags.get('$handling')
      if exc is None:
        raise Unsupported('bare raise outside handler')
      raise RaiseSig(exc)
    v = self.eval(ctx, s.exc)
    if isinstance(v, ExcClass):
      v = ExcV(v.name)
    if not isinstance(v, ExcV):
      raise Unsupported(f'raise of {v!r}')
    raise RaiseSig(v)

  def s_Assert(self, ctx, s):
    c = self.truth(ctx, self.eval(ctx, s.test))
    if not ctx.branch(c):
      raise RaiseSig(ExcV('AssertionError'))

  def s_Delete(self, ctx, s):
    for t in s.targets:
      if isinstance(t, ast.Name):
        ctx.delete(t.id)
      elif isinstance(t, ast.Subscript):
        obj = self.eval(ctx, t.value)
        idx = self.eval(ctx, t.slice)
        self.call_method(ctx, obj, '__delitem__', [idx])
      else:
        raise Unsupported('del target')

  def s_FunctionDef(self, ctx, s):
    loops = {}
    cur = ctx.cur_frame().get('$func')
    if cur is not None:
      pre = f'{s.name}.'
      loops = {k[len(pre):]: v for k, v in cur.loops.items()
               if isinstance(k, str) and k.startswith(pre)}
    f = FuncV(s, self.lexical(ctx), name=s.name, loops=loops)
    for d in reversed(s.decorator_list):
      dec = self.eval(ctx, d)
      f = self.call_value(ctx, dec, [f], {})
    ctx.store(s.name, f)

  def s_Assign(self, ctx, s):
    v = self.eval(ctx, s.value)
    for t in s.targets:
      self.assign(ctx, t, v)

  def s_AnnAssign(self, ctx, s):
    if s.value is not None:
      self.assign(ctx, s.target, self.eval(ctx, s.value))

  def s_AugAssign(self, ctx, s):
    t = s.target
    op = type(s.op).__name__
    if isinstance(t, ast.Name):
      cur = self.e_Name(ctx, t)
      v = self.eval(ctx, s.value)
      if isinstance(cur, Ref) and op == 'Add' and isinstance(
          cur.cell(ctx), (ListCell, PyListCell)):
        self.call_method(ctx, cur, 'extend', [v])
        return
      ctx.store(t.id, self.binop(ctx, op, cur, v))
    elif isinstance(t, ast.Attribute):
      obj = self.eval(ctx, t.value)
      cur = self.getattr(ctx, obj, t.attr)
      v = self.eval(ctx, s.value)
      self.setattr(ctx, obj, t.attr, self.binop(ctx, op, cur, v))
    elif isinstance(t, ast.Subscript):
      obj = self.eval(ctx, t.value)
      idx = self.eval(ctx, t.slice)
      cur = self.getitem(ctx, obj, idx)
      v = self.eval(ctx, s.value)
      self.setitem(ctx, obj, idx, self.binop(ctx, op, cur, v))
    else:
      raise Unsupported('augassign target')

  def setattr(self, ctx, obj, name, value):
    if isinstance(obj, Val):
      return obj.setattr(ctx, name, value)
    raise Unsupported(f'attribute store on {obj!r}')

  def assign(self, ctx, t, v):
    if isinstance(t, ast.Name):
      ctx.store(t.id, v)
    elif isinstance(t, (ast.Tuple, ast.List)):
      if isinstance(v, tuple):
        items = list(v)
      else:
        if hasattr(v, 'unpack'):
          items = v.unpack(ctx, len(t.elts))
        else:
          items = self.concrete_items(ctx, v)
      if any(isinstance(x, ast.Starred) for x in t.elts):
        raise Unsupported('starred unpacking')
      if len(items) != len(t.elts):
        ctx.oblige('unpack.arity', False, kind='definedness',
                   detail='ValueError: wrong number of values to unpack')
        raise PathDead()
      for tt, vv in zip(t.elts, items):
        self.assign(ctx, tt, vv)
    elif isinstance(t, ast.Attribute):
      obj = self.eval(ctx, t.value)
      self.setattr(ctx, obj, t.attr, v)
    elif isinstance(t, ast.Subscript):
      obj = self.eval(ctx, t.value)
      idx = self.eval(ctx, t.slice)
      self.setitem(ctx, obj, idx, v)
    else:
      raise Unsupported(f'assignment target {type(t).__name__}')

  def s_If(self, ctx, s):
    c = self.truth(ctx, self.eval(ctx, s.test))
    if ctx.branch(c):
      self.exec_block(ctx, s.body)
    else:
      self.exec_block(ctx, s.orelse)

  def s_With(self, ctx, s):
    mgrs = []
    for it in s.items:
      m = self.eval(ctx, it.context_expr)
      v = self.call_method(ctx, m, '__enter__', [])
      if it.optional_vars is not None:
        self.assign(ctx, it.optional_vars, v)
      mgrs.append(m)
    try:
      self.exec_block(ctx, s.body)
    except (ReturnSig, BreakSig, ContinueSig):
      for m in reversed(mgrs):
        self.call_method(ctx, m, '__exit__', [None, None, None])
      raise
    except RaiseSig as r:
      for m in reversed(mgrs):
        self.call_method(ctx, m, '__exit__', [r.exc, r.exc, None])
      raise
    for m in reversed(mgrs):
      self.call_method(ctx, m, '__exit__', [None, None, None])

  def exc_matches(self, ctx, exc, type_expr):
    if type_expr is None:
      return True
    t = self.eval(ctx, type_expr)
    names = []
    for x in (t if isinstance(t, tuple) else (t,)):
      if isinstance(x, ExcClass):
        names.append(x.name)
      else:
        raise Unsupported(f'except {x!r}')
    for n in names:
      if n == 'BaseException' or exc.name == n or n in EXC_PARENTS.get(exc.name, ()) or \
          (n == 'Exception' and exc.name not in ('KeyboardInterrupt', 'SystemExit', 'GeneratorExit')):
        return True
    return False

  def s_Try(self, ctx, s):
    def run_final():
      if s.finalbody:
        self.exec_block(ctx, s.finalbody)
    try:
      try:
        self.exec_block(ctx, s.body)
      except RaiseSig as r:
        for h in s.handlers:
          if self.exc_matches(ctx, r.exc, h.type):
            if h.name:
              ctx.store(h.name, r.exc)
            old = ctx.tags.get('$handling')
            ctx.tags['$handling'] = r.exc
            try:
              self.exec_block(ctx, h.body)
            finally:
              ctx.tags['$handling'] = old
            break
        else:
          raise
      else:
        self.exec_block(ctx, s.orelse)
    except (ReturnSig, BreakSig, ContinueSig, RaiseSig):
      run_final()
      raise
    run_final()

  # ---------------------------------------------------------------- loops
  def loop_spec(self, ctx, s):
    funcv = ctx.cur_frame().get('$func')
    idx = None
    spec = None
    if funcv is not None:
      idx = loop_ordinals(funcv.fdef).get(id(s))
      spec = funcv.loops.get(idx)
    header = ast.unparse(s.iter) if isinstance(s, ast.For) else ast.unparse(s.test)
    if funcv is not None:
      # contracts may also be bound by a regex on the loop header ('re:<regex>'),
      # which survives the insertion of other loops around them
      import re as _re
      for k, v in funcv.loops.items():
        if isinstance(k, str) and k.startswith('re:') and _re.search(k[3:], header):
          spec = v
          break
    if spec is not None and spec.expect is not None:
      import re
      if not re.search(spec.expect, header):
        # the ordinal moved (a loop was added/removed around it): re-bind by the
        # header pattern if that is unambiguous
        cands = [v for v in funcv.loops.values()
                 if v.expect is not None and re.search(v.expect, header)]
        if len(cands) == 1:
          spec = cands[0]
        else:
          raise Undecided(
              f'loop contract binding lost in {funcv.name}: loop #{idx} header '
              f'{header!r} does not match {spec.expect!r}')
    elif spec is None and funcv is not None:
      import re
      cands = [v for v in funcv.loops.values()
               if v.expect is not None and re.search(v.expect, header)]
      if len(cands) == 1:
        spec = cands[0]
    return spec, idx, header

  def s_While(self, ctx, s):
    spec, idx, header = self.loop_spec(ctx, s)
    if s.orelse:
      raise Unsupported('while-else')

    def cond(c):
      return self.truth(c, self.eval(c, s.test))

    self.run_loop(ctx, s, spec, idx, header, cond, lambda c: None,
                  lambda c: None, None)

  def call_with_func(self, ctx, e, f):
    """e_Call for a call expression whose function value is already evaluated."""
    args, kwargs = [], {}
    for a in e.args:
      if isinstance(a, ast.Starred):
        args.extend(self.concrete_items(ctx, self.eval(ctx, a.value)))
      else:
        args.append(self.eval(ctx, a))
    for k in e.keywords:
      v = self.eval(ctx, k.value)
      if k.arg is None:
        kwargs.update(self.concrete_dict(ctx, v))
      else:
        kwargs[k.arg] = v
    ctx.lineno = e.lineno
    return self.call_value(ctx, f, args, kwargs)

  def for_over_generator(self, ctx, s, f):
    """`for x in gen(...): BODY` with gen a generator function of the source: the generator runs under its
    own loop contracts and BODY is executed at each of its yields (the loop is the generator's loop)."""
    saved = ctx.on_yield
    depth = len(ctx.stack)

    def on_y(c, v):
      c.on_yield = saved
      tail = c.stack[depth:]      # the generator's frames: the loop body runs in the frame of the for statement
      del c.stack[depth:]
      try:
        self.assign(c, s.target, v)
        try:
          self.exec_block(c, s.body)
        except ContinueSig:
          pass
        except BreakSig:
          raise Unsupported('break out of a loop over a generator')
      finally:
        c.stack.extend(tail)
        c.on_yield = on_y
    ctx.on_yield = on_y
    try:
      self.call_with_func(ctx, s.iter, f)
    finally:
      ctx.on_yield = saved

  def s_For(self, ctx, s):
    spec, idx, header = self.loop_spec(ctx, s)
    if s.orelse:
      raise Unsupported('for-else')
    if isinstance(s.iter, ast.Call) and not isinstance(s.iter.func, ast.Attribute):
      f = self.eval(ctx, s.iter.func)
      if isinstance(f, FuncV) and is_generator(f.fdef):
        return self.for_over_generator(ctx, s, f)
      src = self.call_with_func(ctx, s.iter, f)
    else:
      src = self.eval(ctx, s.iter)
    if hasattr(src, 'pointwise_binding'):
      return self.run_pointwise(ctx, s, src)
    it = self.iterate(ctx, src)
    if it.items is not None:
      # concrete structure: unroll
      for item in it.items:
        self.assign(ctx, s.target, item)
        try:
          self.exec_block(ctx, s.body)
        except BreakSig:
          break
        except ContinueSig:
          continue
      return
    hid = f'$it{idx}'
    if it.rng is not None:
      start, stop, step = it.rng
      if is_z3(step):
        stepz = z3.simplify(step)
        # sign must be known: oblige step > 0 (range(…, 0) raises; negative
        # symbolic steps are outside the subset)
        ctx.oblige('range.step', stepz > 0, kind='definedness',
                   detail='range() step must be positive (0 raises ValueError)')
        pos = True
      else:
        if step == 0:
          ctx.oblige('range.step', False, kind='definedness',
                     detail='ValueError: range() arg 3 must not be zero')
          raise PathDead()
        pos = step > 0
      ctx.store(hid, start)

      def cond(c):
        v = to_z3(c.lookup(hid))
        return v < to_z3(stop) if pos else v > to_z3(stop)

      def pre(c):
        self.assign(c, s.target, c.lookup(hid))

      def adv(c):
        c.store(hid, c.lookup(hid) + step)

      def last(c):
        self.assign(c, s.target, c.lookup(hid) - step)

      return self.run_loop(ctx, s, spec, idx, header, cond, pre, adv, hid,
                           last=last)
    if it.seq is not None:
      seq, codec = it.seq, it.codec
      if it.pos is not None:
        posref = it.pos

        def getpos(c):
          return c.heap[posref.addr].pos

        def setpos(c, v):
          cell = c.heap[posref.addr].clone()
          cell.pos = v
          c.set_cell(posref.addr, cell)
      else:
        ctx.store(hid, 0)

        def getpos(c):
          return c.lookup(hid)

        def setpos(c, v):
          c.store(hid, v)

      def cond(c):
        return to_z3(getpos(c)) < z3.Length(seq)

      enum_start = getattr(it, 'enum_start', None)

      item_fn = getattr(it, 'item_fn', None)   # e.g. zip over several symbolic sequences

      def item_at(p):
        v = item_fn(p) if item_fn is not None else codec.dec(seq[p])
        return v if enum_start is None else (p + enum_start, v)

      def pre(c):
        p = to_z3(getpos(c))
        self.assign(c, s.target, item_at(p))
        setpos(c, p + 1)  # python advances the iterator before the body runs

      def adv(c):
        pass

      def last(c):
        p = to_z3(getpos(c))
        self.assign(c, s.target, item_at(p - 1))

      return self.run_loop(ctx, s, spec, idx, header, cond, pre, adv,
                           hid if it.pos is None else None,
                           extra_havoc=[it.pos] if it.pos is not None else [],
                           last=last, itget=getpos)
    if it.custom is not None:
      return it.custom.run_for(ctx, self, s, spec, idx, header)
    raise Unsupported('for over this iterable')

  @staticmethod
  def _inv_formula(inv):
    if isinstance(inv, dict):
      return zand(*inv.values())
    return inv

  @staticmethod
  def _oblige_inv(ctx, inv, name, detail):
    if isinstance(inv, dict):
      # named conjuncts: each is its own obligation (all of them are assumed
      # together at the loop head)
      # proved in order; an earlier conjunct may be used for a later one
      for k, f in inv.items():
        ctx.oblige(f'{name}.{k}', f, kind='invariant', detail=f'{detail}: {k}')
    else:
      ctx.oblige(name, inv, kind='invariant', detail=detail)

  def resolve_quiet(self, ctx, expr):
    """Side-effect-free resolution of the object a store/mutator call targets:
    `x`, `x.a.b`; for `x[i]` / `x[i:j]` stores the container `x` itself.
    Returns None for names that are not bound yet (body-local objects)."""
    if isinstance(expr, ast.Subscript):
      return self.resolve_quiet(ctx, expr.value)
    if isinstance(expr, ast.Name):
      try:
        v = ctx.lookup(expr.id)
      except KeyError:
        return None
      return v.val if isinstance(v, MaybeUnbound) else v
    if isinstance(expr, ast.Attribute):
      base = self.resolve_quiet(ctx, expr.value)
      if isinstance(base, Ref):
        c = base.cell(ctx)
        if isinstance(c, ObjCell):
          return c.fields.get(expr.attr)
      return None
    return None

  def run_pointwise(self, ctx, s, src):
    """`for k, v in d.items(): ... out[k] = f(k, v)` over a symbolic key set.

    The body is executed once at an arbitrary key.  Side conditions (else
    Undecided): no branching, no break/continue/return/yield; the only heap
    effect is `dictcell[k] = value` on dict cells (recorded as a symbolic
    layer); locals assigned in the body are not read before being assigned in
    the body (no loop-carried data) nor after the loop.
    """
    key, item = src.pointwise_binding(ctx)
    names = assigned_names(s.body) + assigned_names(
        [ast.Assign(targets=[s.target], value=ast.Constant(0), lineno=s.lineno)])
    for n in dict.fromkeys(names):
      ctx.store(n, UnknownBinding(n))
    if ctx.tags.get('$pointwise') is not None:
      raise Unsupported('nested pointwise loops')
    layers = []
    ctx.tags['$pointwise'] = (key, src, layers)
    depth = ctx.dpos
    try:
      self.assign(ctx, s.target, item)
      try:
        self.exec_block(ctx, s.body)
      except (BreakSig, ContinueSig, ReturnSig):
        raise Unsupported('control transfer inside a pointwise loop')
      if ctx.dpos != depth:
        raise Unsupported('branching inside a pointwise loop body')
    finally:
      ctx.tags['$pointwise'] = None
    for n in dict.fromkeys(names):
      ctx.store(n, UnknownBinding(n))

  def run_loop(self, ctx, s, spec, idx, header, cond, pre, adv, hid,
               extra_havoc=(), last=None, itget=None):
    fn = ctx.fn_name
    lname = (spec.name if spec and spec.name else f'loop{idx}')
    if spec is None:
      raise Undecided(f'loop #{idx} ({header!r}) in {fn} has no sidecar invariant')
    if spec.unroll:
      n = 0
      while True:
        c = cond(ctx)
        if not ctx.branch(c):
          return
        n += 1
        if n > spec.unroll:
          raise Undecided(f'unroll bound {spec.unroll} exceeded for loop #{idx}')
        pre(ctx)
        try:
          self.exec_block(ctx, s.body)
        except BreakSig:
          return
        except ContinueSig:
          pass
        adv(ctx)
    body = s.body
    names = assigned_names(body)
    if isinstance(s, ast.For):
      names = assigned_names([ast.Assign(targets=[s.target], value=ast.Constant(0),
                                         lineno=s.lineno)]) + names
    if hid:
      names.append(hid)
    names = list(dict.fromkeys(names))
    # objects mutated in the body
    mut_addrs = []
    for n, expr in mutated_names(body):
      v = self.resolve_quiet(ctx, expr)
      if isinstance(v, Ref):
        mut_addrs.append(v.addr)
    for n in spec.mutates:
      v = ctx.lookup(n) if isinstance(n, str) else n
      if isinstance(v, Ref):
        mut_addrs.append(v.addr)
    for r in extra_havoc:
      mut_addrs.append(r.addr)
    mut_addrs = list(dict.fromkeys(mut_addrs))

    def _it(c):
      return c.lookup(hid) if hid else (itget(c) if itget else None)
    entry_state = State(ctx, it=_it(ctx))
    old = {}
    for n in names:
      try:
        old[n] = self.term_of(ctx, ctx.lookup(n))
      except KeyError:
        pass
    for k, v in ctx.ghost.items():
      old['$' + k] = v
    entry_state._old = old
    # 1. invariant holds on entry
    self._oblige_inv(ctx, spec.inv(entry_state), f'{lname}.inv.init',
                     f'loop invariant holds on entry ({header})')
    # alternative A: zero iterations, precise state
    alt = ctx.choose(3)
    if alt == 0:
      c = cond(ctx)
      ctx.assume(znot(c) if not isinstance(c, bool) else (not c))
      if isinstance(c, bool) and c:
        raise PathDead()
      if spec.after:
        spec.after(State(ctx, old=old))
      return
    # havoc
    unbound_before = []
    for n in names:
      try:
        cur = ctx.lookup(n)
      except KeyError:
        cur = UNBOUND
      if n in spec.sorts:
        ctx.store(n, spec.sorts[n](ctx, n))
        continue
      if cur is UNBOUND:
        unbound_before.append(n)
        continue
      ctx.store(n, self.fresh_like(ctx, cur, n))
    for a in mut_addrs:
      ctx.heap[a] = ctx.heap[a].havoc(ctx, ctx.heap[a].label or f'obj{a}')
    ghost_names = spec.ghost
    if ghost_names is None:
      ghost_names = list(ctx.ghost) if (contains_yield(body) or spec.ghost_step) else []
    for g in ghost_names:
      ctx.ghost[g] = self.fresh_like(ctx, ctx.ghost[g], '$' + g)
    head = State(ctx, it=_it(ctx), old=old)
    ctx.assume(self._inv_formula(spec.inv(head)))
    if alt == 1:
      # inductive step
      c = cond(ctx)
      ctx.assume(c)
      if spec.head_hints:
        for h in spec.head_hints(head):
          if not isinstance(h, LemmaInst):
            raise Undecided('loop head hints must be proved-lemma instances')
          ctx.assume(h.formula)
      measure0 = spec.decreases(head) if spec.decreases else None
      if measure0 is not None:
        ctx.oblige(f'{lname}.decreases.bounded', to_z3(measure0) >= 0,
                   kind='termination', detail='variant is non-negative when the guard holds')
      headvals = {}
      for n, v in ctx.cur_frame().items():
        if not n.startswith('$') or n == hid:
          try:
            headvals[n] = self.term_of(ctx, v)
          except Exception:
            pass
      for k, v in ctx.ghost.items():
        headvals['$' + k] = v
      epoch = next(ctx.names)
      ctx.loop_guard.append((epoch, set(mut_addrs)))
      try:
        pre(ctx)
        try:
          self.exec_block(ctx, body)
        except ContinueSig:
          pass
        except BreakSig:
          ctx.loop_guard.pop()
          if spec.after:
            spec.after(State(ctx, old=old))
          return  # continue after the loop from the break state
        if spec.ghost_step:
          spec.ghost_step(State(ctx, old=old))
        adv(ctx)
      finally:
        if ctx.loop_guard and ctx.loop_guard[-1][0] == epoch:
          ctx.loop_guard.pop()
      tail = State(ctx, it=_it(ctx), old=old)
      tail._head = headvals
      if spec.hints:
        for h in spec.hints(tail):
          if isinstance(h, LemmaInst):
            ctx.assume(h.formula)
          elif isinstance(h, tuple) and h[0] == 'assert':
            # an intermediate proof step: obliged here, then available
            ctx.oblige(f'{lname}.step.{h[1]}', h[2], kind='invariant',
                       detail='intermediate assertion of the inductive step')
          else:
            raise Undecided('loop hints must be proved-lemma instances or assert steps')
      self._oblige_inv(ctx, spec.inv(tail), f'{lname}.inv.preserved',
                       f'loop invariant is preserved by the body ({header})')
      if measure0 is not None:
        ctx.oblige(f'{lname}.decreases', to_z3(spec.decreases(tail)) < to_z3(measure0),
                   kind='termination', detail='variant strictly decreases')
      raise PathEnd()
    # alt == 2: exit after >= 1 iterations
    c = cond(ctx)
    ctx.assume(znot(c) if not isinstance(c, bool) else (not c))
    if last is not None:
      last(ctx)
    for n in unbound_before:
      try:
        ctx.lookup(n)
      except KeyError:
        # first assigned inside the body, unknown sort: reading it after the
        # loop is outside the subset unless Loop(sorts=...) names it
        ctx.store(n, UnknownBinding(n))
    if spec.after:
      spec.after(State(ctx, old=old))


class UnknownBinding(Val):

  def __init__(self, name):
    self.name = name

  def _fail(self, *a, **k):
    raise Undecided(f'variable {self.name} is first assigned in a loop body and '
                    'read after the loop: give its sort in Loop(sorts=...)')

  getattr = call = getitem = length = truth = iterate = binop = compare = _fail


EXC_PARENTS = {
    'KeyError': ('LookupError',), 'IndexError': ('LookupError',),
    'UnboundLocalError': ('NameError',), 'FileNotFoundError': ('OSError', 'IOError'),
    'FileExistsError': ('OSError', 'IOError'), 'PermissionError': ('OSError', 'IOError'),
    'ConnectionError': ('OSError', 'IOError'), 'LZMAError': (), 'HTTPError': ('OSError', 'IOError'),
    'ZeroDivisionError': ('ArithmeticError',),
    'UnpicklingError': ('PickleError',),
    'NotFoundError': ('OpError',),
}


# ---------------------------------------------------------------------------
# dict and set values


class DictCell(Cell):
  """A dict with concrete key structure: ordered list of (key, value).

  Keys are python constants (str/bytes/int) or engine values compared by `is`.
  """

  def __init__(self, items=None, owner='local', label=''):
    self.items = list(items or [])
    self.sym = None
    self.layers = []  # pointwise layers: (source, key const, value)
    self.owner = owner
    self.label = label

  @staticmethod
  def from_py(d):
    return DictCell(list(d.items()))

  def clone(self):
    c = copy.copy(self)
    c.items = list(self.items)
    c.layers = list(self.layers)
    return c

  def _find(self, ctx, key):
    for i, (k, v) in enumerate(self.items):
      if self._keyeq(k, key):
        return i
    return None

  @staticmethod
  def _keyeq(a, b):
    if is_z3(a) or is_z3(b):
      if is_z3(a) and is_z3(b) and a.eq(b):
        return True
      raise Unsupported('symbolic key in a concrete-structure dict')
    if isinstance(a, Val) or isinstance(b, Val):
      return a is b
    return type(a) == type(b) and a == b

  def getitem(self, ctx, ref, key):
    i = self._find(ctx, key)
    if i is None:
      ctx.oblige('key.present', False, kind='definedness',
                 detail=f'KeyError: {key!r}')
      raise PathDead()
    return self.items[i][1]

  def setitem(self, ctx, ref, key, value):
    self.check_write(ctx, ref, 'setitem')
    pw = ctx.tags.get('$pointwise')
    if pw is not None and is_z3(key) and key.eq(pw[0]):
      c = self.clone()
      c.layers.append((pw[1], pw[0], value))
      ctx.set_cell(ref.addr, c)
      return
    c = self.clone()
    i = self._find(ctx, key)
    if i is None:
      c.items.append((key, value))
    else:
      c.items[i] = (key, value)
    ctx.set_cell(ref.addr, c)

  def length(self, ctx, ref):
    return len(self.items)

  def contains(self, ctx, ref, key):
    return self._find(ctx, key) is not None

  def iterate(self, ctx, ref):
    return IterSpec(items=[k for k, _ in self.items])

  def method(self, ctx, ref, name, args, kwargs):
    if name == 'items':
      return tuple((k, v) for k, v in self.items)
    if name == 'keys':
      return tuple(k for k, _ in self.items)
    if name == 'values':
      return tuple(v for _, v in self.items)
    if name == 'get':
      i = self._find(ctx, args[0])
      if i is None:
        return args[1] if len(args) > 1 else None
      return self.items[i][1]
    if name == 'update':
      src = args[0] if args else None
      if src is not None:
        pairs = self.engine_pairs(ctx, src)
        for k, v in pairs:
          ctx.heap[ref.addr].setitem(ctx, ref, k, v)
      for k, v in kwargs.items():
        ctx.heap[ref.addr].setitem(ctx, ref, k, v)
      return None
    if name == 'copy':
      return ctx.alloc(DictCell(self.items))
    if name == 'pop':
      self.check_write(ctx, ref, 'pop')
      i = self._find(ctx, args[0])
      if i is None:
        if len(args) > 1:
          return args[1]
        ctx.oblige('key.present', False, kind='definedness', detail='KeyError in pop')
        raise PathDead()
      c = self.clone()
      v = c.items.pop(i)[1]
      ctx.set_cell(ref.addr, c)
      return v
    if name == '__delitem__':
      return self.method(ctx, ref, 'pop', args, kwargs) and None
    raise Unsupported(f'dict.{name}')

  def engine_pairs(self, ctx, src):
    if isinstance(src, Ref) and isinstance(src.cell(ctx), DictCell):
      return list(src.cell(ctx).items)
    if isinstance(src, dict):
      return list(src.items())
    if hasattr(src, 'concrete_pairs'):
      return src.concrete_pairs(ctx)
    raise Unsupported(f'dict update from {src!r}')

  def compare(self, ctx, ref, op, other):
    raise Unsupported('dict comparison')

  def havoc(self, ctx, base):
    c = self.clone()
    c.items = [(k, ctx.engine.fresh_like(ctx, v, f'{base}[{k}]'))
               for k, v in self.items]
    return c


class SetV(Val):
  """A small concrete set of values (immutable)."""

  def __init__(self, items):
    self.items = tuple(items)

  def contains(self, ctx, item):
    return zor(*[ctx.engine.compare(ctx, 'Eq', item, x) for x in self.items])

  def length(self, ctx):
    return len(self.items)

  def iterate(self, ctx):
    return IterSpec(items=list(self.items))


# ---------------------------------------------------------------------------
# builtins


def _b_len(ctx, v):
  return ctx.engine.length(ctx, v)


def _b_min(ctx, *args, **kw):
  if len(args) == 1:
    args = ctx.engine.concrete_items(ctx, args[0])
  args = [a._need(ctx, 'min') if isinstance(a, OptV) else a for a in args]
  r = args[0]
  for a in args[1:]:
    if isinstance(r, Val) or isinstance(a, Val):
      raise Unsupported('min of structured values')
    r = zmin(r, a)
  return r


def _b_max(ctx, *args, **kw):
  if len(args) == 1:
    args = ctx.engine.concrete_items(ctx, args[0])
  args = [a._need(ctx, 'max') if isinstance(a, OptV) else a for a in args]
  r = args[0]
  for a in args[1:]:
    if isinstance(r, Val) or isinstance(a, Val):
      raise Unsupported('max of structured values')
    r = zmax(r, a)
  return r


def _b_range(ctx, *args):
  if len(args) == 1:
    return IterSpecV(IterSpec(rng=(0, args[0], 1)))
  if len(args) == 2:
    return IterSpecV(IterSpec(rng=(args[0], args[1], 1)))
  return IterSpecV(IterSpec(rng=tuple(args)))


class IterSpecV(Val):

  def __init__(self, spec):
    self.spec = spec

  def iterate(self, ctx):
    s = self.spec
    if s.rng is not None and not any(is_z3(x) for x in s.rng):
      lo, hi, st = s.rng
      if (hi - lo) // (st or 1) <= 64:
        return IterSpec(items=list(range(lo, hi, st)))
    return s

  def length(self, ctx):
    s = self.spec
    if s.rng is not None:
      lo, hi, st = s.rng
      if st == 1:
        return zmax(to_z3(hi) - to_z3(lo), 0) if is_z3(hi) or is_z3(lo) else max(hi - lo, 0)
    raise Unsupported('len(range) with step')


def _b_slice(ctx, *args):
  if len(args) == 1:
    return SliceV(None, args[0], None)
  if len(args) == 2:
    return SliceV(args[0], args[1], None)
  return SliceV(*args)


def _b_isinstance(ctx, v, t):
  if isinstance(t, TypeTag):
    return t.check(ctx, v)
  if isinstance(t, tuple):
    return zor(*[_b_isinstance(ctx, v, x) for x in t])
  if isinstance(t, ClassModel):
    if isinstance(v, Ref) and isinstance(v.cell(ctx), ObjCell):
      c = v.cell(ctx).cls
      while c is not None:
        if c is t or c.name == t.name:
          return True
        c = c.bases[0] if c.bases else None
      return False
    return False
  raise Unsupported(f'isinstance(_, {t!r})')


class TypeTag(Val):
  """Builtin types used in isinstance / conversions (int, slice, ...)."""

  def __init__(self, name, check, conv=None):
    self.name, self._check, self.conv = name, check, conv

  def check(self, ctx, v):
    return self._check(ctx, v)

  def call(self, ctx, args, kwargs):
    if self.conv is None:
      raise Unsupported(f'{self.name}(...)')
    return self.conv(ctx, *args, **kwargs)


def _conv_tuple(ctx, v=()):
  if isinstance(v, SeqV):
    return v  # an immutable sequence already
  return tuple(ctx.engine.concrete_items(ctx, v))


def _conv_list(ctx, v=()):
  if isinstance(v, Ref):
    c = v.cell(ctx)
    if isinstance(c, ListCell):
      return ctx.alloc(ListCell(c.seq, c.codec))
    if isinstance(c, IterCell):
      # list(it): consumes the rest of a one-pass iterator
      cs = c.cur_seq(ctx)
      n = z3.Length(cs)
      p = to_z3(c.pos)
      rest = z3.SubSeq(cs, p, n - p)
      nc = c.clone()
      nc.pos = n
      ctx.set_cell(v.addr, nc)
      return ctx.alloc(ListCell(rest, c.codec))
  if isinstance(v, z3.SeqRef):
    return ctx.alloc(ListCell(v, Codec(v.sort().basis())))
  if hasattr(v, 'to_list'):
    return v.to_list(ctx)
  return ctx.alloc(PyListCell(ctx.engine.concrete_items(ctx, v)))


def _conv_int(ctx, v=0):
  if is_int(v):
    return v
  if isinstance(v, bool):
    return int(v)
  if isinstance(v, z3.BoolRef):
    return z3.If(v, 1, 0)
  if hasattr(v, 'to_int'):
    return v.to_int(ctx)
  raise Unsupported(f'int({v!r})')


def _conv_bool(ctx, v=False):
  return ctx.engine.truth(ctx, v)


def _conv_dict(ctx, v=None, **kw):
  ref = ctx.alloc(DictCell())
  if v is not None:
    if hasattr(v, 'dict_copy'):
      return v.dict_copy(ctx)
    ctx.engine.call_method(ctx, ref, 'update', [v])
  for k, x in kw.items():
    ctx.engine.setitem(ctx, ref, k, x)
  return ref


def _conv_set(ctx, v=()):
  if hasattr(v, 'key_set'):
    return v.key_set(ctx)
  if isinstance(v, Ref) and hasattr(v.cell(ctx), 'key_set'):
    return v.cell(ctx).key_set(ctx, v)
  return SetV(tuple(ctx.engine.concrete_items(ctx, v)))


def _b_hasattr(ctx, o, name):
  if not isinstance(name, str):
    raise Unsupported('hasattr with a symbolic name')
  if isinstance(o, Ref) and isinstance(o.cell(ctx), ObjCell):
    c = o.cell(ctx)
    return name in c.fields or (c.cls is not None and (c.cls.lookup(name) is not None or
                                                       any(n == name for n, _ in (c.cls.dc_fields or []))))
  raise Unsupported(f'hasattr({type(o).__name__}, {name!r})')


def _b_iter(ctx, v):
  if isinstance(v, Ref):
    c = v.cell(ctx)
    if isinstance(c, IterCell):
      return v
    if isinstance(c, ListCell):
      return ctx.alloc(IterCell(None, c.codec, 0, src=v))
  if isinstance(v, z3.SeqRef):
    return ctx.alloc(IterCell(v, Codec(v.sort().basis()), 0))
  if hasattr(v, 'make_iter'):
    return v.make_iter(ctx)
  raise Unsupported(f'iter({v!r})')


def _b_next(ctx, it, *default):
  if isinstance(it, Ref) and isinstance(it.cell(ctx), IterCell):
    c = it.cell(ctx)
    p = to_z3(c.pos)
    cs = c.cur_seq(ctx)
    has = p < z3.Length(cs)
    if ctx.branch(has):
      nc = c.clone()
      nc.pos = p + 1
      ctx.set_cell(it.addr, nc)
      return c.codec.dec(cs[p])
    if default:
      return default[0]
    raise RaiseSig(ExcV('StopIteration'))
  if hasattr(it, 'next'):
    return it.next(ctx, *default)
  raise Unsupported(f'next({it!r})')


def _b_abs(ctx, v):
  if not is_z3(v):
    return abs(v)
  return z3.If(v >= 0, v, -v)


def _b_sorted(ctx, v, **kw):
  if hasattr(v, 'sorted'):
    return v.sorted(ctx, **kw)
  raise Unsupported('sorted')


def _b_print(ctx, *a, **k):
  return None


class EnumV(Val):
  """enumerate(iterable) over a symbolic sequence."""

  def __init__(self, inner, start):
    self.inner, self.start = inner, start

  def iterate(self, ctx):
    spec = ctx.engine.iterate(ctx, self.inner)
    if spec.seq is None:
      raise Unsupported('enumerate over this iterable')
    out = IterSpec(seq=spec.seq, codec=spec.codec, pos=spec.pos)
    out.enum_start = self.start
    return out


def _b_enumerate(ctx, v, start=0):
  spec = ctx.engine.iterate(ctx, v)
  if spec.items is not None:
    return tuple((i + start, x) for i, x in enumerate(spec.items))
  return EnumV(v, start)


def _b_zip(ctx, *vs):
  lists = [ctx.engine.concrete_items(ctx, v) for v in vs]
  return tuple(zip(*lists))


def _b_str(ctx, *a):
  return StrV()


def _b_any(ctx, v):
  return zor(*[ctx.engine.truth(ctx, x) for x in ctx.engine.concrete_items(ctx, v)])


def _b_all(ctx, v):
  return zand(*[ctx.engine.truth(ctx, x) for x in ctx.engine.concrete_items(ctx, v)])


BUILTINS = {
    'len': Handler(_b_len, 'len'),
    'min': Handler(_b_min, 'min'),
    'max': Handler(_b_max, 'max'),
    'range': Handler(_b_range, 'range'),
    'slice': TypeTag('slice', lambda ctx, v: isinstance(v, SliceV), _b_slice),
    'isinstance': Handler(_b_isinstance, 'isinstance'),
    'tuple': TypeTag('tuple', lambda ctx, v: isinstance(v, tuple), _conv_tuple),
    'list': TypeTag('list', lambda ctx, v: isinstance(v, Ref) and isinstance(
        v.cell(ctx), (ListCell, PyListCell)), _conv_list),
    'int': TypeTag('int', lambda ctx, v: is_int(v), _conv_int),
    'bool': TypeTag('bool', lambda ctx, v: is_bool(v), _conv_bool),
    'float': TypeTag('float', lambda ctx, v: isinstance(v, float) or (is_z3(v) and isinstance(v, z3.ArithRef) and v.is_real())),
    'dict': TypeTag('dict', lambda ctx, v: isinstance(v, Ref) and isinstance(
        v.cell(ctx), DictCell), _conv_dict),
    'set': TypeTag('set', lambda ctx, v: isinstance(v, SetV), _conv_set),
    'str': TypeTag('str', lambda ctx, v: isinstance(v, (str, StrV)), _b_str),
    'bytes': TypeTag('bytes', lambda ctx, v: isinstance(v, bytes)),
    'hasattr': Handler(lambda ctx, o, name: _b_hasattr(ctx, o, name), 'hasattr'),
    'iter': Handler(_b_iter, 'iter'),
    'next': Handler(_b_next, 'next'),
    'abs': Handler(_b_abs, 'abs'),
    'sorted': Handler(_b_sorted, 'sorted'),
    'print': Handler(_b_print, 'print'),
    'enumerate': Handler(_b_enumerate, 'enumerate'),
    'zip': Handler(_b_zip, 'zip'),
    'repr': Handler(_b_str, 'repr'),
    'any': Handler(_b_any, 'any'),
    'all': Handler(_b_all, 'all'),
    'True': True, 'False': False, 'None': None,
}
for _n in ['ValueError', 'KeyError', 'IndexError', 'TypeError', 'StopIteration',
           'RuntimeError', 'AssertionError', 'NotImplementedError', 'OSError',
           'IOError', 'Exception', 'AttributeError', 'FileNotFoundError',
           'ZeroDivisionError', 'LookupError', 'NameError', 'UnboundLocalError', 'BaseException',
           'FileExistsError', 'KeyboardInterrupt', 'SystemExit', 'ArithmeticError', 'PermissionError']:
  BUILTINS[_n] = ExcClass(_n)


class SrcModule(Val):
  """A module of /repo seen from another module (`from fedjax.core import util`):
  attribute access resolves functions/classes/constants from that file's source."""

  def __init__(self, relpath, overrides=None):
    self.relpath = relpath
    self.overrides = dict(overrides or {})

  def getattr(self, ctx, name):
    if name in self.overrides:
      return self.overrides[name]
    key = (self.relpath, name)
    eng = ctx.engine
    if key not in eng._gcache:
      v = eng._resolve_in(ctx, self.relpath, name)
      if v is None:
        raise Unsupported(f'{self.relpath} has no module-level name {name}')
      eng._gcache[key] = v
    return eng._gcache[key][0]

  def method(self, ctx, name, args, kwargs):
    return ctx.engine.call_value(ctx, self.getattr(ctx, name), args, kwargs)
