"""numpy / jax.numpy library contracts shared by proof scripts (filled per theory)."""
