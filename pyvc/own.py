"""OWN: ownership / frame checker for the real function ASTs (C10, also C02/C07).

A flow-insensitive abstract interpretation with two ownership tags per value:

  own  — FRESH: the object was created by this function (literal, comprehension,
         result of a pure library call); PARAM: it is (or may be) reachable from
         the function's arguments or free variables (the caller's objects).
  elem — tag of the objects stored INSIDE a container (join over all stores).

Every mutation site (subscript / attribute store, in-place augmented
assignment, mutating method call, `next()` on an iterator, `del x[...]`,
`nonlocal` / `global` rebinding) generates one obligation `own(base) = FRESH`.
Obligations are decided by a fixpoint over the (finite) tag lattice and stated
to the solver as ground boolean facts, so that they are reported and counted
like every other obligation.

Assumptions (listed in the evidence): library functions (jax, jnp, numpy,
fedjax tree_util, optimizers, for_each_client) are pure and return fresh
objects, except the aliasing accessors listed in ALIAS_METHODS / ALIAS_CALLS;
jitted fedjax helpers with donate_argnums only ever receive what C07 proves
they receive.
"""
from __future__ import annotations

import ast

FRESH, PARAM = 'FRESH', 'PARAM'

MUTATORS = {'append', 'extend', 'insert', 'pop', 'remove', 'clear', 'sort', 'reverse', 'update',
            'setdefault', 'popitem', 'add', 'discard', '__setitem__', '__delitem__', 'shuffle',
            'fill', 'put', 'resize', 'itemset', 'setflags'}
# calls whose result is (or contains) their first argument's elements
ALIAS_METHODS = {'get', 'setdefault', 'pop', 'values', 'items', 'keys', 'copy', '__getitem__', 'replace'}
ALIAS_CALLS = {'list', 'dict', 'tuple', 'set', 'sorted', 'reversed', 'zip', 'enumerate', 'map', 'filter',
               'iter', 'next', 'max', 'min', 'sum', 'frozenset'}
NONDET_PREFIXES = ('np.random.', 'numpy.random.', 'random.', 'time.', 'os.urandom', 'uuid.', 'secrets.')


def join(a, b):
  return PARAM if PARAM in (a, b) else FRESH


class Val:
  __slots__ = ('own', 'elem')

  def __init__(self, own, elem=None):
    self.own = own
    self.elem = elem if elem is not None else own

  def __repr__(self):
    return f'<{self.own}/{self.elem}>'


class Site:
  def __init__(self, fn, lineno, what, ok, why):
    self.fn, self.lineno, self.what, self.ok, self.why = fn, lineno, what, ok, why


class Analyzer:
  """Analyses one function (and, recursively, the nested functions it defines)."""

  def __init__(self, fdef, qualname, outer=None):
    self.fdef = fdef
    self.qualname = qualname
    self.outer = outer  # enclosing Analyzer whose locals are per-call (not persistent closure state)
    self.sites = []
    self.nondet = []
    self.env = {}
    self.params = set()
    a = fdef.args
    for x in a.posonlyargs + a.args + a.kwonlyargs:
      self.params.add(x.arg)
    if a.vararg:
      self.params.add(a.vararg.arg)
    if a.kwarg:
      self.params.add(a.kwarg.arg)
    self.locals = set(self.params)
    for n in self._walk_own(fdef):
      if isinstance(n, ast.Name) and isinstance(n.ctx, ast.Store):
        self.locals.add(n.id)
      elif isinstance(n, (ast.FunctionDef, ast.ClassDef)) and n is not fdef:
        self.locals.add(n.name)
      elif isinstance(n, ast.ExceptHandler) and n.name:
        self.locals.add(n.name)
    self.rebinds = []
    for n in self._walk_own(fdef):
      if isinstance(n, (ast.Nonlocal, ast.Global)):
        self.rebinds.append(n)

  def _walk_own(self, node):
    """Nodes of this function body, not descending into nested defs/lambdas."""
    stack = list(ast.iter_child_nodes(node))
    while stack:
      n = stack.pop()
      yield n
      if isinstance(n, (ast.FunctionDef, ast.Lambda, ast.ClassDef)):
        continue
      stack.extend(ast.iter_child_nodes(n))

  # ------------------------------------------------------------ evaluation
  def lookup(self, name):
    if name in self.env:
      return self.env[name]
    if name in self.params:
      return Val(PARAM)
    if name in self.locals:
      return Val(FRESH)  # not assigned yet in this pass
    if self.outer is not None and (name in self.outer.locals or name in self.outer.params):
      return self.outer.lookup(name)  # a per-call local of the enclosing function
    return Val(PARAM)    # free variable: persistent closure / module state

  def ev(self, e):
    if e is None:
      return Val(FRESH)
    if isinstance(e, ast.Name):
      return self.lookup(e.id)
    if isinstance(e, ast.Constant):
      return Val(FRESH)
    if isinstance(e, (ast.List, ast.Tuple, ast.Set)):
      el = FRESH
      for x in e.elts:
        v = self.ev(x.value if isinstance(x, ast.Starred) else x)
        el = join(el, v.own if not isinstance(x, ast.Starred) else v.elem)
      return Val(FRESH, el)
    if isinstance(e, ast.Dict):
      el = FRESH
      for k, v in zip(e.keys, e.values):
        vv = self.ev(v)
        el = join(el, vv.elem if k is None else vv.own)
      return Val(FRESH, el)
    if isinstance(e, (ast.ListComp, ast.SetComp, ast.GeneratorExp, ast.DictComp)):
      saved = dict(self.env)
      for g in e.generators:
        it = self.ev(g.iter)
        self.bind(g.target, Val(it.elem))
        for c in g.ifs:
          self.ev(c)
      if isinstance(e, ast.DictComp):
        self.ev(e.key)
        v = self.ev(e.value)
      else:
        v = self.ev(e.elt)
      self.env = saved
      return Val(FRESH, v.own)
    if isinstance(e, ast.Attribute):
      b = self.ev(e.value)
      return Val(b.elem if b.own == FRESH else PARAM)
    if isinstance(e, ast.Subscript):
      b = self.ev(e.value)
      self.ev(e.slice)
      if isinstance(e.slice, ast.Slice):
        return Val(FRESH, b.elem)  # a slice of a list/tuple is a new container with the same elements
      return Val(b.elem if b.own == FRESH else PARAM)
    if isinstance(e, ast.Slice):
      for x in (e.lower, e.upper, e.step):
        self.ev(x)
      return Val(FRESH)
    if isinstance(e, ast.BinOp):
      l, r = self.ev(e.left), self.ev(e.right)
      return Val(FRESH, join(l.elem, r.elem))  # a + b builds a new object holding both operands' elements
    if isinstance(e, (ast.UnaryOp,)):
      self.ev(e.operand)
      return Val(FRESH)
    if isinstance(e, ast.BoolOp):
      vs = [self.ev(x) for x in e.values]
      o, el = FRESH, FRESH
      for v in vs:
        o, el = join(o, v.own), join(el, v.elem)
      return Val(o, el)
    if isinstance(e, ast.Compare):
      self.ev(e.left)
      for c in e.comparators:
        self.ev(c)
      return Val(FRESH)
    if isinstance(e, ast.IfExp):
      self.ev(e.test)
      a, b = self.ev(e.body), self.ev(e.orelse)
      return Val(join(a.own, b.own), join(a.elem, b.elem))
    if isinstance(e, (ast.JoinedStr, ast.FormattedValue)):
      return Val(FRESH)
    if isinstance(e, ast.Lambda):
      return Val(FRESH)
    if isinstance(e, ast.Starred):
      return self.ev(e.value)
    if isinstance(e, ast.NamedExpr):
      v = self.ev(e.value)
      self.bind(e.target, v)
      return v
    if isinstance(e, (ast.Yield, ast.YieldFrom, ast.Await)):
      self.ev(e.value)
      return Val(PARAM)
    if isinstance(e, ast.Call):
      return self.call(e)
    return Val(PARAM)

  def dotted(self, f):
    parts = []
    while isinstance(f, ast.Attribute):
      parts.append(f.attr)
      f = f.value
    if isinstance(f, ast.Name):
      parts.append(f.id)
      return '.'.join(reversed(parts))
    return None

  def call(self, e):
    args = [self.ev(a) for a in e.args]
    for k in e.keywords:
      args.append(self.ev(k.value))
    name = self.dotted(e.func)
    if name:
      for pre in NONDET_PREFIXES:
        if name.startswith(pre) and not name.startswith('np.random.RandomState') and \
            not name.startswith('numpy.random.RandomState'):
          self.nondet.append((e.lineno, name))
    if isinstance(e.func, ast.Attribute):
      recv = self.ev(e.func.value)
      m = e.func.attr
      if m in MUTATORS and not self._is_module(e.func.value):
        self.mutation(e, e.func.value, f'.{m}()')
      if m in ALIAS_METHODS:
        el = recv.elem if recv.own == FRESH else PARAM
        return Val(el if m in ('get', 'setdefault', 'pop', '__getitem__') else FRESH, el)
      if m == 'replace':
        return Val(FRESH, join(recv.elem, FRESH))
      el = FRESH
      for a in args:
        el = join(el, a.own)
      return Val(FRESH, join(el, recv.elem if recv.own == FRESH else PARAM))
    if isinstance(e.func, ast.Name) and e.func.id in DONATING and e.func.id not in self.env:
      # a donating jax.jit / jax.pmap wrapper: the donated buffers are deleted, so they must have been created here
      for i in DONATING[e.func.id]:
        if i < len(e.args):
          v = args[i]
          ok = v.own == FRESH and v.elem == FRESH
          self.sites.append(Site(self.qualname, e.lineno, f'donate[{i}] {ast.unparse(e.args[i])} -> {e.func.id}()', ok,
                                 f'argument {i} of the donating call {e.func.id}() is ' + (
                                     'created in this function' if ok else
                                     "reachable from an argument or a free variable: the caller's buffers would be deleted")))
    if isinstance(e.func, ast.Name) and e.func.id in ('hash', 'id') and e.func.id not in self.locals:
      # hash() of str / bytes is salted per process (PYTHONHASHSEED), id() is an address
      self.nondet.append((e.lineno, e.func.id + '()'))
    if isinstance(e.func, ast.Name):
      fn = e.func.id
      if fn == 'next' and e.args:
        self.mutation(e, e.args[0], 'next()')
        return Val(args[0].elem if args[0].own == FRESH else PARAM)
      if fn in ALIAS_CALLS:
        el = FRESH
        for a in args:
          el = join(el, a.elem)
        return Val(FRESH, el)
    el = FRESH
    for a in args:
      el = join(el, a.own)
    return Val(FRESH, el)

  def _is_module(self, e):
    n = self.dotted(e)
    return n is not None and n.split('.')[0] in ('np', 'jnp', 'jax', 'tree_util', 'numpy', 'os', 'tf', 'hk',
                                                 'math', 'functools', 'itertools', 'collections',
                                                 'dataclasses', 'util', 'optimizers', 'models', 'metrics')

  # -------------------------------------------------------------- effects
  def mutation(self, node, base_expr, what):
    v = self.ev(base_expr)
    self.sites.append(Site(self.qualname, node.lineno, f'{ast.unparse(base_expr)}{what}', v.own == FRESH,
                           f'{ast.unparse(base_expr)} is ' + ('created in this function' if v.own == FRESH else
                           'reachable from an argument or a free variable (caller / closure state)')))

  def bind(self, t, v):
    if isinstance(t, ast.Name):
      old = self.env.get(t.id)
      if old is not None:
        v = Val(join(old.own, v.own), join(old.elem, v.elem))
      self.env[t.id] = v
    elif isinstance(t, (ast.Tuple, ast.List)):
      for x in t.elts:
        self.bind(x.value if isinstance(x, ast.Starred) else x, Val(v.elem))
    elif isinstance(t, ast.Subscript):
      self.mutation(t, t.value, '[...] = ')
      if isinstance(t.value, ast.Name):
        b = self.lookup(t.value.id)
        self.env[t.value.id] = Val(b.own, join(b.elem, v.own))
    elif isinstance(t, ast.Attribute):
      self.mutation(t, t.value, f'.{t.attr} = ')

  def stmt(self, s):
    if isinstance(s, ast.Assign):
      v = self.ev(s.value)
      for t in s.targets:
        self.bind(t, v)
    elif isinstance(s, ast.AnnAssign):
      if s.value is not None:
        self.bind(s.target, self.ev(s.value))
    elif isinstance(s, ast.AugAssign):
      v = self.ev(s.value)
      if isinstance(s.target, ast.Name):
        cur = self.lookup(s.target.id)
        # x += y on a list/dict/array mutates in place when x is a container; on
        # immutable values it rebinds.  Containers are what PARAM tags track.
        if cur.own == PARAM and self._maybe_container(s.target.id):
          self.sites.append(Site(self.qualname, s.lineno, f'{s.target.id} {type(s.op).__name__}= ...',
                                 False, f'{s.target.id} aliases an object reachable from an argument or a free '
                                        'variable; an in-place operator would modify it'))
        self.env[s.target.id] = Val(cur.own, join(cur.elem, v.elem))
      else:
        self.bind(s.target, v)
    elif isinstance(s, ast.Expr):
      self.ev(s.value)
    elif isinstance(s, ast.Return):
      self.ev(s.value)
    elif isinstance(s, ast.Delete):
      for t in s.targets:
        if isinstance(t, (ast.Subscript, ast.Attribute)):
          self.mutation(t, t.value, ' del')
    elif isinstance(s, (ast.If, ast.While)):
      self.ev(s.test)
      self.block(s.body)
      self.block(s.orelse)
    elif isinstance(s, ast.For):
      it = self.ev(s.iter)
      self.bind(s.target, Val(it.elem))
      self.block(s.body)
      self.block(s.orelse)
    elif isinstance(s, ast.With):
      for it in s.items:
        v = self.ev(it.context_expr)
        if it.optional_vars is not None:
          self.bind(it.optional_vars, v)
      self.block(s.body)
    elif isinstance(s, ast.Try):
      self.block(s.body)
      for h in s.handlers:
        self.block(h.body)
      self.block(s.orelse)
      self.block(s.finalbody)
    elif isinstance(s, (ast.Raise, ast.Assert)):
      for x in ast.iter_child_nodes(s):
        if isinstance(x, ast.expr):
          self.ev(x)
    elif isinstance(s, (ast.Nonlocal, ast.Global)):
      self.sites.append(Site(self.qualname, s.lineno, ast.unparse(s), False,
                             'rebinding closure / module state makes the round depend on hidden state'))

  def _numeric_expr(self, e, seen):
    """Syntactically a number: constants, len(), .size / .shape[k] / .ndim, int()/min()/max()/abs() of numbers,
    arithmetic of numbers, names only ever bound to such expressions."""
    if isinstance(e, ast.Constant):
      return isinstance(e.value, (int, float)) and not isinstance(e.value, bool) or isinstance(e.value, bool)
    if isinstance(e, ast.UnaryOp):
      return self._numeric_expr(e.operand, seen)
    if isinstance(e, ast.BinOp) and isinstance(e.op, (ast.Add, ast.Sub, ast.Mult, ast.FloorDiv, ast.Mod, ast.Pow, ast.Div)):
      return self._numeric_expr(e.left, seen) and self._numeric_expr(e.right, seen)
    if isinstance(e, ast.Call) and isinstance(e.func, ast.Name) and e.func.id == 'len':
      return True
    if isinstance(e, ast.Call) and isinstance(e.func, ast.Name) and e.func.id in ('int', 'min', 'max', 'abs', 'round') and \
        e.args and not e.keywords:
      return all(self._numeric_expr(a, seen) for a in e.args)
    if isinstance(e, ast.Attribute) and e.attr in ('size', 'ndim'):
      return True
    if isinstance(e, ast.Subscript) and isinstance(e.value, ast.Attribute) and e.value.attr == 'shape':
      return True
    if isinstance(e, ast.Name):
      return self._numeric_name(e.id, seen)
    return False

  def _numeric_name(self, name, seen):
    if name in seen:
      return True
    if name in self.params:
      return False
    seen = seen | {name}
    binds = []
    for n in self._walk_own(self.fdef):
      if isinstance(n, ast.Assign) and any(isinstance(t, ast.Name) and t.id == name for t in n.targets):
        binds.append(n.value)
      elif isinstance(n, (ast.AugAssign, ast.AnnAssign)) and isinstance(n.target, ast.Name) and n.target.id == name and \
          n.value is not None:
        binds.append(n.value)
      elif isinstance(n, (ast.For, ast.comprehension)) and any(
          isinstance(x, ast.Name) and x.id == name for x in ast.walk(n.target)):
        return False
      elif isinstance(n, ast.Assign) and any(isinstance(x, ast.Name) and x.id == name and isinstance(x.ctx, ast.Store)
                                             for t in n.targets if isinstance(t, (ast.Tuple, ast.List)) for x in ast.walk(t)):
        return False     # bound by unpacking
    return bool(binds) and all(self._numeric_expr(b, seen) for b in binds)

  def _maybe_container(self, name):
    """x += ... is in place for lists/dicts/sets/arrays.  A name that was only ever
    bound to numbers (constants, lengths, sizes, arithmetic of such) is not a container."""
    return not self._numeric_name(name, frozenset())

  def block(self, stmts):
    for s in stmts:
      self.stmt(s)

  def run(self):
    # two passes reach the fixpoint of the 2-point lattice for loop-carried aliases
    for _ in range(3):
      self.sites = []
      self.nondet = []
      self.block(self.fdef.body)
    return self.sites


FACTORY_MARKERS = {'apply', 'init', 'client_init', 'client_step', 'client_final', 'run'}
DONATING = {}   # name -> donated positions, for `name = jax.jit(f, donate_argnums=...)` inside the function being analysed


def donating_wrappers(fdef):
  out = {}

  def positions(call):
    for k in call.keywords:
      if k.arg == 'donate_argnums':
        try:
          v = ast.literal_eval(k.value)
        except Exception:
          return None
        return tuple(v) if isinstance(v, (tuple, list)) else (v,)
    return None
  for n in ast.walk(fdef):
    if isinstance(n, ast.Assign) and isinstance(n.value, ast.Call) and len(n.targets) == 1 and isinstance(n.targets[0], ast.Name):
      f = ast.unparse(n.value.func)
      if f in ('jax.jit', 'jax.pmap'):
        pos = positions(n.value)
        if pos:
          out[n.targets[0].id] = pos
    if isinstance(n, ast.FunctionDef):
      for d in n.decorator_list:
        if isinstance(d, ast.Call) and ast.unparse(d.func) in ('functools.partial', 'partial') and d.args and \
            ast.unparse(d.args[0]) in ('jax.jit', 'jax.pmap'):
          pos = positions(d)
          if pos:
            out[n.name] = pos
  return out


def analyze_function(fdef, qualname, outer=None):
  """Returns (sites, nondet calls) for fdef and every function nested in it.

  A *factory* (a function defining `apply` / `client_step` / ... closures) runs
  once; its locals are persistent closure state for those closures, so they are
  analysed as roots (free variables = somebody else's state).  Functions nested
  in anything else see their parent's per-call locals."""
  out_sites, out_nondet = [], []
  if outer is None and '<locals>' not in qualname:
    DONATING.clear()
    DONATING.update(donating_wrappers(fdef))
  a = Analyzer(fdef, qualname, outer)
  out_sites += a.run()
  out_nondet += [(qualname,) + x for x in a.nondet]
  nested = [n for n in a._walk_own(fdef) if isinstance(n, ast.FunctionDef)]
  is_factory = outer is None and any(n.name in FACTORY_MARKERS for n in nested)
  for n in nested:
    s, nd = analyze_function(n, f'{qualname}.<locals>.{n.name}', None if is_factory else a)
    out_sites += s
    out_nondet += nd
  return out_sites, out_nondet


ONE_SHOT = {'map', 'filter', 'zip', 'iter', 'reversed', 'enumerate'}


def _is_one_shot(e, lazy_names):
  if isinstance(e, ast.GeneratorExp):
    return True
  if isinstance(e, ast.Name):
    return e.id in lazy_names
  if isinstance(e, ast.Call):
    f = ast.unparse(e.func)
    return f in ONE_SHOT or f.startswith('itertools.')
  return False


def lazy_in_state(fdef):
  """Single-use iterators (map / filter / zip / generator expressions / itertools objects) that a function stores in a
  state object (a call of a class named *State, `.replace(...)`) or returns: reading such a state consumes it, so the
  next round is not a function of the state VALUE.  Returns [(function, lineno, text)]."""
  out = []
  for fn in [n for n in ast.walk(fdef) if isinstance(n, ast.FunctionDef)]:
    own = []
    stack = list(fn.body)
    while stack:
      n = stack.pop()
      own.append(n)
      for c in ast.iter_child_nodes(n):
        if not isinstance(c, (ast.FunctionDef, ast.Lambda, ast.ClassDef)):
          stack.append(c)
    lazy = {}
    for n in own:
      if isinstance(n, ast.Assign) and len(n.targets) == 1 and isinstance(n.targets[0], ast.Name):
        if _is_one_shot(n.value, ()):
          lazy[n.targets[0].id] = n.lineno
    # a name re-bound to a materialised value anywhere in the function is not tracked (flow-insensitive, conservative
    # towards silence: only names whose EVERY binding is one-shot count)
    for n in own:
      if isinstance(n, ast.Assign):
        for t in n.targets:
          for nm in ast.walk(t):
            if isinstance(nm, ast.Name) and nm.id in lazy and not _is_one_shot(n.value, ()):
              lazy.pop(nm.id, None)
    for n in own:
      if isinstance(n, ast.Call):
        f = ast.unparse(n.func)
        if f.split('.')[-1].endswith('State') or f.endswith('.replace'):
          for a in list(n.args) + [k.value for k in n.keywords]:
            if _is_one_shot(a, lazy):
              out.append((fn.name, n.lineno, f'{f}(... {ast.unparse(a)[:60]} ...)'))
      if isinstance(n, ast.Return) and n.value is not None:
        elts = n.value.elts if isinstance(n.value, ast.Tuple) else [n.value]
        for a in elts:
          if _is_one_shot(a, lazy) and not isinstance(a, ast.Call):
            out.append((fn.name, n.lineno, f'return {ast.unparse(a)[:60]}'))
  return out
