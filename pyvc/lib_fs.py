"""FS-CRASH theory for the checkpoint directory (C09).

Ghost file system of one `root_dir`, restricted to what the property talks
about: for every round number r the name `checkpoint_<r:08d>` is absent,
visible-but-partial, or visible-and-complete with some content.

  done[r]     the name is visible and complete
  partial[r]  the name is visible and NOT complete (a torn write)
  content[r]  the state stored under a complete name

Every primitive (open for write, write, close, rename, remove) is one atomic
effect (trusted).  After *every* effect the crash invariant is obliged: no
name that matches the checkpoint pattern is partial — a crash at that point
would leave exactly the current ghost state on disk.
"""
from __future__ import annotations

import z3

from .core import *  # noqa
from .engine import *  # noqa

I = z3.IntSort()
B = z3.BoolSort()
RSet = z3.ArraySort(I, B)
StateT = z3.DeclareSort('StateT')
Content = z3.ArraySort(I, StateT)
NameId = z3.DeclareSort('NameId')
NameSeq = z3.SeqSort(NameId)
IS8 = z3.Function('IS8', NameId, B)     # suffix after the base is exactly 8 digits
NUM = z3.Function('NUM', NameId, I)     # its integer value
TORN = z3.Const('TORN', StateT)         # what unpickling a torn file would give (it raises)


def fs_init(ctx, done, partial, content):
  ctx.ghost['fs_done'] = done
  ctx.ghost['fs_partial'] = partial
  ctx.ghost['fs_content'] = content
  ctx.ghost['fs_effects'] = 0


def crash_point(ctx, what):
  """A crash right after this effect leaves the current ghost FS on disk."""
  r = z3.Int('r!crash')
  ctx.ghost['fs_effects'] = ctx.ghost.get('fs_effects', 0) + 1
  ctx.oblige('ckpt.atomic', z3.ForAll([r], z3.Not(z3.Select(ctx.ghost['fs_partial'], r))),
             kind='crash-invariant',
             detail=f'after `{what}`: every file visible under a checkpoint name is complete')
  hook = ctx.tags.get('crash_hook')
  if hook:
    hook(ctx, what)


class StateV(Val):
  """A server state (opaque)."""

  def __init__(self, term):
    self.term = term

  def fresh_like(self, ctx, base):
    return StateV(ctx.fresh(base, StateT))

  def truth(self, ctx):
    return True


class RootV(StrV):
  """config.root_dir (non-empty, no regex/glob metacharacters: assumption)."""

  def truth(self, ctx):
    return True


class BaseV(StrV):
  """os.path.join(root_dir, 'checkpoint_')"""

  def __init__(self, prefix):
    self.prefix = prefix

  def binop(self, ctx, op, other, reflected):
    if op == 'Add' and not reflected and isinstance(other, str):
      return FStrV([(self, None, -1), other])
    return StrV()


def c_path_join(ctx, *parts):
  if len(parts) == 2 and isinstance(parts[0], RootV) and isinstance(parts[1], str):
    if parts[1] == 'checkpoint_':
      return BaseV(parts[1])
    return OtherPathV(parts[1])
  if len(parts) == 2 and isinstance(parts[0], RootV):
    return OtherPathV(parts[1])
  raise Unsupported('os.path.join arguments')


class OtherPathV(StrV):
  """A path under root_dir that is not a checkpoint name (e.g. <name>.tsv)."""

  def __init__(self, leaf):
    self.leaf = leaf


class NameV(StrV):
  """A name in the checkpoint directory: is8 / num as z3 terms."""

  def __init__(self, is8, num, desc=''):
    self.is8, self.num, self.desc = is8, num, desc

  def method(self, ctx, name, args, kwargs):
    if name == 'split' and len(args) == 1 and isinstance(args[0], BaseV):
      return SplitV(self)
    return StrV()

  def binop(self, ctx, op, other, reflected):
    if op == 'Add' and isinstance(other, str) and other != '':
      if reflected:
        return StrV()
      # <checkpoint name> + suffix: more than 8 characters after the base, so
      # it never matches `[0-9]{8}$`
      return NameV(z3.BoolVal(False), z3.IntVal(-1), self.desc + other)
    return StrV()


NAME_CODEC = Codec(NameId, enc=lambda v: v.ident, dec=lambda t: IdNameV(t))


class IdNameV(NameV):
  """A name that came out of a directory listing."""

  def __init__(self, ident):
    super().__init__(IS8(ident), NUM(ident), 'listed')
    self.ident = ident


class SplitV(Val):
  def __init__(self, name):
    self.name = name

  def getitem(self, ctx, idx):
    if idx == -1:
      return SuffixV(self.name)
    raise Unsupported('split index')


class SuffixV(StrV):
  def __init__(self, name):
    self.name = name

  def to_int(self, ctx):
    ctx.oblige('ckpt.int', self.name.is8, kind='definedness',
               detail='ValueError: int() of a suffix that is not all digits')
    return self.name.num


def name_of(v):
  """NameV denoted by a string value built in the code, or None."""
  if isinstance(v, NameV):
    return v
  if isinstance(v, FStrV):
    if getattr(v, '_name', None) is not None:
      return v._name
    n = _name_of_parts(v)
    v._name = n
    return n
  return None


def _name_of_parts(v):
  if True:
    p = v.parts
    if len(p) >= 2 and isinstance(p[0], tuple) and isinstance(p[0][0], BaseV) \
        and isinstance(p[1], tuple) and p[1][1] == '08d' and is_int(p[1][0]):
      r = to_z3(p[1][0])
      rest = p[2:]
      if not rest:
        # {r:08d} is exactly 8 digits iff 0 <= r < 10^8
        return NameV(z3.And(r >= 0, r < 10 ** 8), r, 'checkpoint')
      if all(isinstance(x, str) for x in rest):
        return NameV(z3.BoolVal(False), z3.IntVal(-1), 'checkpoint' + ''.join(rest))
  return None


class FileV(Val):
  """An open GFile."""

  def __init__(self, name, mode):
    self.name, self.mode = name, mode
    self.written = None

  def method(self, ctx, name, args, kwargs):
    if name == '__enter__':
      return self
    if name == '__exit__':
      exc = args[0] if args else None
      if 'w' in self.mode and isinstance(self.name, NameV):
        if exc is None and self.written is not None:
          g = ctx.ghost
          n = self.name
          g['fs_done'] = z3.If(n.is8, z3.Store(g['fs_done'], n.num, True), g['fs_done'])
          g['fs_partial'] = z3.If(n.is8, z3.Store(g['fs_partial'], n.num, False), g['fs_partial'])
          g['fs_content'] = z3.If(n.is8, z3.Store(g['fs_content'], n.num, self.written),
                                  g['fs_content'])
          ctx.tags.setdefault('tmp_complete', {})[id(n)] = self.written
          n.complete_content = self.written
          crash_point(ctx, 'close')
      return None
    if name == 'write':
      if isinstance(self.name, NameV):
        crash_point(ctx, 'write')
      return None
    if name == 'read':
      return StrV()
    raise Unsupported(f'file.{name}')


def c_gfile(ctx, path, mode='r'):
  n = name_of(path)
  if n is None:
    if isinstance(path, OtherPathV) or isinstance(path, FStrV) or isinstance(path, StrV):
      return FileV(path, mode)  # not in the checkpoint name space
    raise Unsupported('GFile path')
  f = FileV(n, mode)
  if 'w' in mode:
    g = ctx.ghost
    # open for writing creates / truncates the file under that name
    g['fs_partial'] = z3.If(n.is8, z3.Store(g['fs_partial'], n.num, True), g['fs_partial'])
    g['fs_done'] = z3.If(n.is8, z3.Store(g['fs_done'], n.num, False), g['fs_done'])
    crash_point(ctx, 'open(wb)')
  return f


def c_pickle_dump(ctx, state, f):
  if not isinstance(f, FileV) or not isinstance(state, StateV):
    raise Unsupported('pickle.dump arguments')
  f.written = state.term
  if isinstance(f.name, NameV):
    crash_point(ctx, 'write')
  return None


def c_pickle_load(ctx, f):
  if not isinstance(f, FileV) or not isinstance(f.name, NameV):
    raise Unsupported('pickle.load argument')
  g = ctx.ghost
  n = f.name
  ok = z3.And(n.is8, z3.Select(g['fs_done'], n.num))
  if ctx.branch(z3.Not(ok)):
    raise RaiseSig(ExcV('UnpicklingError'))
  return StateV(z3.Select(g['fs_content'], n.num))


def c_rename(ctx, src, dst, overwrite=False):
  s, d = name_of(src), name_of(dst)
  if s is None or d is None:
    raise Unsupported('rename arguments')
  g = ctx.ghost
  content = getattr(s, 'complete_content', None)
  ctx.oblige('rename.src.complete', content is not None, kind='precondition',
             detail='the renamed temporary file was completely written and closed')
  if content is None:
    raise PathDead()
  g['fs_done'] = z3.If(d.is8, z3.Store(g['fs_done'], d.num, True), g['fs_done'])
  g['fs_partial'] = z3.If(d.is8, z3.Store(g['fs_partial'], d.num, False), g['fs_partial'])
  g['fs_content'] = z3.If(d.is8, z3.Store(g['fs_content'], d.num, content), g['fs_content'])
  # the source name disappears (it is not a checkpoint name unless is8)
  g['fs_done'] = z3.If(s.is8, z3.Store(g['fs_done'], s.num, False), g['fs_done'])
  crash_point(ctx, 'rename')
  return None


def c_remove(ctx, path):
  n = name_of(path)
  if n is None:
    raise Unsupported('remove argument')
  g = ctx.ghost
  g['fs_done'] = z3.If(n.is8, z3.Store(g['fs_done'], n.num, False), g['fs_done'])
  g['fs_partial'] = z3.If(n.is8, z3.Store(g['fs_partial'], n.num, False), g['fs_partial'])
  crash_point(ctx, 'remove')
  return None


def listing_axioms(ctx, G):
  """Directory listing G (Seq NameId) of the current ghost FS."""
  g = ctx.ghost
  i, j, r = z3.Ints('i!ls j!ls r!ls')
  IDX = z3.Function(fresh_name('IDX'), I, I)
  present = lambda x: z3.Or(z3.Select(g['fs_done'], x), z3.Select(g['fs_partial'], x))
  n = z3.Length(G)
  ctx.assume(z3.ForAll([i], z3.Implies(z3.And(0 <= i, i < n, IS8(G[i])),
                                       z3.And(present(NUM(G[i])), NUM(G[i]) >= 0,
                                              NUM(G[i]) < 10 ** 8))))
  ctx.assume(z3.ForAll([r], z3.Implies(present(r), z3.And(
      0 <= IDX(r), IDX(r) < n, IS8(G[IDX(r)]), NUM(G[IDX(r)]) == r))))
  ctx.assume(z3.ForAll([i, j], z3.Implies(z3.And(0 <= i, i < j, j < n, IS8(G[i]), IS8(G[j])),
                                          NUM(G[i]) != NUM(G[j]))))
  return IDX


def c_glob(ctx, pat):
  ok = isinstance(pat, FStrV) and len(pat.parts) == 2 and isinstance(pat.parts[0], tuple) \
      and isinstance(pat.parts[0][0], BaseV) and pat.parts[1] == '*'
  ctx.oblige('ckpt.glob', ok, kind='precondition',
             detail='the directory is listed with the pattern <base>*')
  if not ok:
    raise PathDead()
  G = ctx.fresh('listing', NameSeq)
  idx = listing_axioms(ctx, G)
  ctx.tags['listing'] = (G, idx)
  return SeqV(G, NAME_CODEC)
