"""REAL-ALG / OWN theory for pytrees and arrays (C01, C05, C06, C07, C10, C11, C12, C17).

A pytree (or array) is represented by its value at ONE arbitrary, fixed
coordinate (`val`, a z3 Real — or a z3 Float32 in FP mode): `tree_map`, `+ - *
/`, `where`, `maximum`, comparison are pointwise, so a statement proved at an
arbitrary coordinate holds at every coordinate (leaf by leaf).  Reductions
(`vdot`, `sum`, norms) are uninterpreted functions of the tree identity `tid`.

OWN: every tree lives in a heap cell with an owner ('param' = the caller's
buffers, 'local' = created here).  `jax.jit(f, donate_argnums=k)` REQUIRES
argument k to be locally owned and invalidates it; results of jitted calls and
of arithmetic are fresh local buffers.
"""
from __future__ import annotations

import z3

from .core import *  # noqa
from .engine import *  # noqa

R = z3.RealSort()
TreeId = z3.DeclareSort('TreeId')
L2SQ = z3.Function('L2SQ', TreeId, R)            # squared l2 norm of a whole tree
SCALED = z3.Function('SCALED', R, TreeId, TreeId)  # s * tree


def is_fp(x):
  return isinstance(x, z3.FPRef)


class TreeCell(Cell):
  def __init__(self, val, owner='local', label='tree', tid=None):
    self.val = val
    self.owner = owner
    self.label = label
    self.valid = True
    self.tid = tid
    self.is_bool = False  # DTYPE: a bool array (+ is logical OR, * is AND) vs a numeric one

  def havoc(self, ctx, base):
    c = self.clone()
    c.val = ctx.fresh(base, 'real')
    return c

  def truth(self, ctx, ref):
    return True

  def term(self, ctx):
    return self.val

  def binop(self, ctx, ref, op, other, reflected):
    # array arithmetic: a fresh local buffer
    a = tree_val(ctx, ref)
    if op in ('Neg',):
      return new_tree(ctx, -a if not is_fp(a) else z3.fpNeg(a))
    b = tree_val(ctx, other) if isinstance(other, (Ref, OptV)) else other
    x, y = (b, a) if reflected else (a, b)
    if self.is_bool and arr_is_bool(ctx, other) and op in ('Add', 'Mult', 'BitOr', 'BitAnd'):
      # numpy/jax: bool + bool is logical OR, bool * bool is logical AND (no promotion)
      s = to_z3(x) + to_z3(y) if op in ('Add', 'BitOr') else to_z3(x) * to_z3(y)
      t = new_tree(ctx, z3.If(s > 0, z3.RealVal(1), z3.RealVal(0)))
      t.cell(ctx).is_bool = True
      return t
    if op == 'Div' and not (is_fp(x) or is_fp(y)):
      # array division never raises (IEEE); over R, x/0 is an unspecified total
      # value (z3 semantics) — "never NaN" claims are FP-mode obligations
      x, y = to_z3(x), to_z3(y)
      x = z3.ToReal(x) if x.is_int() else x
      y = z3.ToReal(y) if y.is_int() else y
      return new_tree(ctx, x / y)
    return new_tree(ctx, ctx.engine.arith(ctx, op, x, y))

  def compare(self, ctx, ref, op, other):
    a = tree_val(ctx, ref)
    b = tree_val(ctx, other) if isinstance(other, (Ref, OptV)) else other
    return ctx.engine.compare(ctx, op, a, b)


def arr_is_bool(ctx, v):
  """True if v is a bool-typed array (python bools are weakly typed bools too)."""
  if isinstance(v, Ref) and isinstance(v.cell(ctx), TreeCell):
    return v.cell(ctx).is_bool
  return isinstance(v, (bool, z3.BoolRef))


def new_tree(ctx, val, owner='local', label='tree', tid=None):
  return ctx.alloc(TreeCell(val, owner, label, tid))


def tree_val(ctx, v, what='read'):
  if isinstance(v, Ref) and isinstance(v.cell(ctx), TreeCell):
    c = v.cell(ctx)
    if not c.valid:
      ctx.oblige('own.use_after_donate', False, kind='ownership',
                 detail=f'{c.label}: buffer is read after it was donated to a jitted call')
      raise PathDead()
    return c.val
  if isinstance(v, OptV):
    return tree_val(ctx, v._need(ctx, 'tree'), what)
  if is_num(v) or is_fp(v):
    return v
  raise Unsupported(f'not a tree/array: {v!r}')


class JitV(Val):
  """jax.jit(f, donate_argnums=...): identity + donation bookkeeping."""

  def __init__(self, func, donate=()):
    self.func, self.donate = func, tuple(donate)
    self.name = getattr(func, 'name', 'jit')
    self.fdef = getattr(func, 'fdef', None)
    self.loops = getattr(func, 'loops', {})

  def call(self, ctx, args, kwargs):
    for k in self.donate:
      if k < len(args):
        a = args[k]
        if isinstance(a, OptV):
          a = a._need(ctx, 'donated argument')
          args = list(args)
          args[k] = a
        if isinstance(a, Ref) and isinstance(a.cell(ctx), TreeCell):
          c = a.cell(ctx)
          ctx.oblige('own.donate', c.owner == 'local', kind='ownership',
                     detail=f'argument {k} of a donating jit ({self.name}) must be a buffer created here; '
                            f'{c.label} belongs to the caller and would be invalidated')
          tree_val(ctx, a)
    out = ctx.engine.call_value(ctx, self.func, args, kwargs)
    for k in self.donate:
      if k < len(args) and isinstance(args[k], Ref) and isinstance(args[k].cell(ctx), TreeCell):
        c = args[k].cell(ctx).clone()
        c.valid = False
        ctx.heap[args[k].addr] = c  # donation is not a python-level store
    # outputs of a jitted computation are fresh buffers
    if isinstance(out, Ref) and isinstance(out.cell(ctx), TreeCell) and out.cell(ctx).owner != 'local':
      out = new_tree(ctx, out.cell(ctx).val, tid=out.cell(ctx).tid)
    return out


def c_jit(ctx, f=None, donate_argnums=(), static_argnums=(), **kw):
  if isinstance(donate_argnums, int):
    donate_argnums = (donate_argnums,)
  if f is None:
    return Handler(lambda c, g: JitV(g, donate_argnums), 'jit-partial')
  return JitV(f, donate_argnums)


def c_tree_map(ctx, f, *trees):
  if trees and all(t is None for t in trees):
    return None  # None is an empty pytree
  vals = [tree_val(ctx, t) for t in trees]
  if not trees:
    raise Unsupported('tree_map without trees')
  r = ctx.engine.call_value(ctx, f, vals, {})
  if isinstance(r, Ref) and isinstance(r.cell(ctx), TreeCell):
    return r
  return new_tree(ctx, r)


def c_identity_copy(ctx, x, *a, **k):
  """jnp.array / jnp.copy / jnp.asarray on a leaf value: same value (a copy)."""
  if isinstance(x, Ref) and isinstance(x.cell(ctx), TreeCell):
    return new_tree(ctx, tree_val(ctx, x))
  return x


def num(ctx, x):
  return tree_val(ctx, x) if isinstance(x, (Ref, OptV)) else x


def lift(f, dtype='promote'):
  """Pointwise jnp function on leaf values / trees.  dtype: how the result's
  bool-ness follows from the value operands ('promote': bool only if all value
  operands are bool; 'same': as the first operand; 'num': never bool)."""
  def h(ctx, *args, **kw):
    vals = [num(ctx, a) for a in args]
    vals = [z3.If(v, z3.RealVal(1), z3.RealVal(0)) if isinstance(v, z3.BoolRef) and dtype != 'cond'
            else v for v in vals]
    r = f(ctx, *vals)
    if any(isinstance(a, Ref) for a in args):
      t = new_tree(ctx, r)
      ops = args[1:] if f is r_where else args
      if dtype == 'promote':
        t.cell(ctx).is_bool = all(arr_is_bool(ctx, a) for a in ops)
      elif dtype == 'same':
        t.cell(ctx).is_bool = arr_is_bool(ctx, args[0])
      return t
    return r
  return h


def r_min(ctx, a, b):
  if is_fp(a) or is_fp(b):
    a, b = fp_pair(a, b)
    # jnp.minimum propagates NaN
    return z3.If(z3.Or(z3.fpIsNaN(a), z3.fpIsNaN(b)), z3.fpNaN(a.sort()), z3.fpMin(a, b))
  return zmin(a, b)


def r_max(ctx, a, b):
  if is_fp(a) or is_fp(b):
    a, b = fp_pair(a, b)
    return z3.If(z3.Or(z3.fpIsNaN(a), z3.fpIsNaN(b)), z3.fpNaN(a.sort()), z3.fpMax(a, b))
  return zmax(a, b)


def r_where(ctx, c, a, b):
  if isinstance(c, z3.ArithRef):
    c = c != 0
  if is_fp(a) or is_fp(b):
    a, b = fp_pair(a, b)
    return z3.If(zbool(c), a, b)
  return zite(zbool(c) if not isinstance(c, bool) else c, a, b)


SQRT = z3.Function('SQRT', R, R)


def r_sqrt(ctx, a):
  if is_fp(a):
    return z3.fpSqrt(z3.RNE(), a)
  s = SQRT(to_z3(a))
  ctx.assume(z3.Implies(to_z3(a) >= 0, z3.And(s >= 0, s * s == to_z3(a))))
  return s


FP32 = z3.Float32()


def fp_pair(a, b):
  def conv(x, s):
    if is_fp(x):
      return x
    if isinstance(x, bool):
      x = int(x)
    if isinstance(x, (int, float)):
      return z3.FPVal(x, s)
    raise Unsupported(f'mixing {x!r} with floating point')
  s = a.sort() if is_fp(a) else b.sort()
  return conv(a, s), conv(b, s)


def jnp_module():
  return Module('jnp', {
      'add': Handler(lift(lambda c, a, b: c.engine.arith(c, 'Add', a, b)), 'jnp.add'),
      'subtract': Handler(lift(lambda c, a, b: c.engine.arith(c, 'Sub', a, b)), 'jnp.subtract'),
      'multiply': Handler(lift(lambda c, a, b: c.engine.arith(c, 'Mult', a, b)), 'jnp.multiply'),
      'minimum': Handler(lift(r_min), 'jnp.minimum'),
      'maximum': Handler(lift(r_max), 'jnp.maximum'),
      'where': Handler(lift(r_where), 'jnp.where'),
      'sqrt': Handler(lift(r_sqrt, 'num'), 'jnp.sqrt'),
      'zeros_like': Handler(lift(lambda c, a: z3.FPVal(0, a.sort()) if is_fp(a) else z3.RealVal(0), 'same'),
                            'jnp.zeros_like'),
      'ones_like': Handler(lift(lambda c, a: z3.FPVal(1, a.sort()) if is_fp(a) else z3.RealVal(1), 'same'),
                           'jnp.ones_like'),
      'array': Handler(c_identity_copy, 'jnp.array'),
      'asarray': Handler(c_identity_copy, 'jnp.asarray'),
      'copy': Handler(c_identity_copy, 'jnp.copy'),
      'float32': 'float32',
  })


def jax_module(extra=None):
  tm = Handler(c_tree_map, 'tree_map')
  d = {
      'jit': Handler(c_jit, 'jax.jit'),
      'tree': Module('jax.tree', {'map': tm}),
      'tree_util': Module('jax.tree_util', {'tree_map': tm}),
      'numpy': jnp_module(),
  }
  d.update(extra or {})
  return Module('jax', d)


def real_globals(extra_jax=None):
  return {'jax': jax_module(extra_jax), 'jnp': jnp_module(),
          'functools': Module('functools', {'partial': Handler(c_partial, 'functools.partial')})}


def c_partial(ctx, f, *args, **kwargs):
  def call(c, *a, **k):
    kk = dict(kwargs)
    kk.update(k)
    return c.engine.call_value(c, f, list(args) + list(a), kk)
  return Handler(call, 'partial')
