"""Dict-level model of `Examples` (feature name -> ndarray) for proving the
helper functions of client_datasets.py against their TABLE contracts.

A column is (rows: Seq(Cell), trail: Shape, dtype: DType).  An input dict is
given by uninterpreted functions of (dict id, feature); all statements about
"every feature" are proved at an arbitrary feature constant.
"""
from __future__ import annotations

import ast
import z3

from .core import *  # noqa
from .engine import *  # noqa
from .lib_data import MaskV, MASK_KEY

CellS = z3.DeclareSort('Cell')
CellSeq = z3.SeqSort(CellS)
Shape = z3.DeclareSort('Shape')
DType = z3.DeclareSort('DType')
Feat = z3.DeclareSort('Feat')
ExD = z3.DeclareSort('ExD')

col_rows = z3.Function('col_rows', ExD, Feat, CellSeq)
col_trail = z3.Function('col_trail', ExD, Feat, Shape)
col_dtype = z3.Function('col_dtype', ExD, Feat, DType)
ex_n = z3.Function('ex_n', ExD, z3.IntSort())
ZeroRows = z3.Function('ZeroRows', z3.IntSort(), Shape, DType, CellSeq)
MASK_FEAT = z3.Const('MASK_FEAT', Feat)


class ColD(Val):
  """One ndarray: leading-axis rows + trailing shape + dtype."""

  def __init__(self, rows, trail, dtype, fresh=False):
    self.rows, self.trail, self.dtype = rows, trail, dtype
    self.fresh = fresh  # freshly allocated here (may be written)

  def getitem(self, ctx, idx):
    if isinstance(idx, SliceV):
      if idx.step not in (None, 1):
        raise Unsupported('slice step')
      sub, _, _ = seq_slice(self.rows, idx.lo, idx.hi)
      return ColD(sub, self.trail, self.dtype)
    raise Unsupported('column index')

  def getattr(self, ctx, name):
    if name == 'shape':
      return ShapeD(self)
    if name == 'dtype':
      return self.dtype
    raise Unsupported(f'ndarray.{name}')

  def length(self, ctx):
    return z3.Length(self.rows)

  def subst(self, a, b):
    return ColD(z3.substitute(self.rows, (a, b)), z3.substitute(self.trail, (a, b)),
                z3.substitute(self.dtype, (a, b)), self.fresh)


class ShapeD(Val):
  """v.shape: (len(rows),) + trail."""

  def __init__(self, col, lo=0):
    self.col, self.lo = col, lo

  def getitem(self, ctx, idx):
    if isinstance(idx, SliceV) and idx.lo == 1 and idx.hi is None and self.lo == 0:
      return TrailV(self.col.trail)
    if idx == 0 and self.lo == 0:
      return z3.Length(self.col.rows)
    raise Unsupported('shape index')


class TrailV(Val):
  def __init__(self, trail):
    self.trail = trail

  def binop(self, ctx, op, other, reflected):
    # (size,) + v.shape[1:]
    if op == 'Add' and reflected and isinstance(other, tuple) and len(other) == 1:
      return FullShapeV(other[0], self.trail)
    raise Unsupported('shape arithmetic')


class FullShapeV(Val):
  def __init__(self, n, trail):
    self.n, self.trail = n, trail


class ArrCell(Cell):
  """A freshly allocated ndarray on the heap (np.zeros result): writable."""

  def __init__(self, col):
    self.col = col
    self.owner = 'local'
    self.label = 'ndarray'

  def setitem(self, ctx, ref, idx, value):
    if not isinstance(idx, SliceV) or idx.step not in (None, 1):
      raise Unsupported('ndarray store index')
    if not isinstance(value, ColD):
      raise Unsupported('ndarray store value')
    n = z3.Length(self.col.rows)
    start, stop = slice_bounds(n, idx.lo, idx.hi)
    start, stop = to_z3(start), to_z3(stop)
    ln = z3.If(stop > start, stop - start, z3.IntVal(0))
    ctx.oblige('setslice.shape', z3.And(z3.Length(value.rows) == ln,
                                        value.trail == self.col.trail),
               kind='definedness',
               detail='ValueError: could not broadcast input array into the slice')
    new = z3.Concat(z3.SubSeq(self.col.rows, 0, start), value.rows,
                    z3.SubSeq(self.col.rows, start + ln, n - start - ln))
    c = ArrCell(ColD(new, self.col.trail, self.col.dtype, True))
    ctx.set_cell(ref.addr, c)

  def getattr(self, ctx, ref, name):
    return self.col.getattr(ctx, name)

  def length(self, ctx, ref):
    return z3.Length(self.col.rows)


class ExamplesD(Val):
  """An input Examples dict with consistent rows (caller-owned, read-only)."""

  def __init__(self, xid, has_mask):
    self.xid, self.has_mask = xid, has_mask

  def col(self, ctx, k):
    c = ColD(col_rows(self.xid, k), col_trail(self.xid, k), col_dtype(self.xid, k))
    # class invariant of Examples (assert_consistent_rows): every column has ex_n rows
    ctx.assume(z3.Length(c.rows) == ex_n(self.xid))
    return c

  def contains(self, ctx, key):
    if key == MASK_KEY:
      return self.has_mask
    raise Unsupported('membership of another key')

  def method(self, ctx, name, args, kwargs):
    if name == 'items':
      return ItemsD(self)
    if name == 'values':
      return ItemsD(self, values_only=True)
    raise Unsupported(f'dict.{name}')

  def dict_display(self, ctx, extra):
    out = DerivedD(self, lambda ctx, k: self.col(ctx, k), {})
    return out.dict_display(ctx, extra)

  def feats(self):
    return ('feats', self.xid)


class DerivedD(Val):
  """A dict built here: same features as `base` mapped through fn, plus
  concrete extra entries (python key -> value)."""

  def __init__(self, base, fn, extra):
    self.base, self.fn, self.extra = base, fn, dict(extra)

  def col(self, ctx, k):
    return self.fn(ctx, k)

  def dict_display(self, ctx, extra):
    e = dict(self.extra)
    for k, v in extra:
      if not isinstance(k, str):
        raise Unsupported('symbolic key in dict display')
      e[k] = v
    return DerivedD(self.base, self.fn, e)


class ItemsD(Val):

  def __init__(self, d, values_only=False):
    self.d, self.values_only = d, values_only

  def pointwise_binding(self, ctx):
    if self.values_only:
      raise Unsupported('pointwise loop over values()')
    k = ctx.fresh('feat', Feat)
    ctx.assume(k != MASK_FEAT) if not self._mask_possible() else None
    return k, (k, self.d.col(ctx, k))

  def _mask_possible(self):
    return False

  def comprehend(self, ctx, engine, e, g, kind):
    if kind != 'dict' or self.values_only or g.ifs:
      raise Unsupported('comprehension shape over Examples.items()')
    key = ctx.fresh('feat', Feat)
    col = self.d.col(ctx, key)
    depth = ctx.dpos
    fid = ctx.push_frame(engine.lexical(ctx))
    try:
      engine.assign(ctx, g.target, (key, col))
      k = engine.eval(ctx, e.key)
      v = engine.eval(ctx, e.value)
    finally:
      ctx.pop_frame()
    if ctx.dpos != depth:
      raise Unsupported('branching inside a pointwise comprehension')
    if not (is_z3(k) and k.eq(key)):
      raise Unsupported('comprehension re-keys the features')
    if not isinstance(v, ColD):
      raise Unsupported('comprehension value is not an ndarray')
    return DerivedD(self.d, lambda c, kk, v=v, key=key: v.subst(key, kk), {})

  def make_iter(self, ctx):
    return self

  def next(self, ctx, *default):
    if not self.values_only:
      raise Unsupported('next(items())')
    # a dict with consistent rows has at least one feature (assert_consistent_rows)
    k = ctx.fresh('feat0', Feat)
    return self.d.col(ctx, k)


def dict_as_derived(ctx, cell):
  """A DictCell built by one pointwise loop (+ concrete entries) as a DerivedD."""
  if len(cell.layers) != 1:
    raise Unsupported('result dict is not a single pointwise layer')
  src, key, value = cell.layers[0]
  if isinstance(value, Ref) and isinstance(value.cell(ctx), ArrCell):
    value = value.cell(ctx).col
  if not isinstance(value, ColD):
    raise Unsupported('layer value')
  return DerivedD(src.d, lambda c, kk: value.subst(key, kk), dict(cell.items))


def c_np_zeros(ctx, shape, dtype=None):
  if isinstance(shape, FullShapeV):
    n = to_z3(shape.n)
    ctx.oblige('zeros.nonneg', n >= 0, kind='definedness',
               detail='ValueError: negative dimensions are not allowed')
    rows = ZeroRows(n, shape.trail, dtype)
    ctx.assume(z3.Length(rows) == n)
    return ctx.alloc(ArrCell(ColD(rows, shape.trail, dtype, True)))
  raise Unsupported('np.zeros shape')


class ArangeV(Val):
  def __init__(self, n):
    self.n = n

  def compare(self, ctx, op, other):
    if not is_int(other):
      raise Unsupported('arange compared with a non-int')
    if op == 'Lt':
      return MaskV(self.n, other)
    if op == 'LtE':
      return MaskV(self.n, other + 1)
    raise Unsupported(f'arange {op}')


def c_np_arange(ctx, n):
  return ArangeV(n)


