"""Entry point: python3-vt -m pyvc.main <PROPERTY> [--tier quick|thorough]

Exit codes: 0 every obligation discharged (known findings reproduced and
printed); 1 violation (a line `VIOLATION property=<id> replay=<path>`);
2 undecided (solver unknown, extraction failure, contract binding lost);
3 checker crash.
"""
from __future__ import annotations

import argparse
import importlib
import json
import os
import sys
import time
import traceback

VERIF = os.path.dirname(os.path.dirname(os.path.abspath(__file__)))


def main(argv=None):
  ap = argparse.ArgumentParser()
  ap.add_argument('prop')
  ap.add_argument('--tier', default=os.environ.get('VERIF_TIER', 'quick'))
  ap.add_argument('--replay', default=None)
  ap.add_argument('-v', '--verbose', action='store_true')
  args = ap.parse_args(argv)
  seed = int(os.environ.get('VERIF_SEED', '0') or 0)
  try:
    from . import report
    if args.replay:
      return report.run_replay_file(args.prop, args.replay)
    return report.run_property(args.prop, args.tier, seed, args.verbose)
  except SystemExit:
    raise
  except Exception:
    traceback.print_exc()
    print(f'CHECKER-CRASH property={args.prop}')
    return 3


if __name__ == '__main__':
  sys.exit(main())
