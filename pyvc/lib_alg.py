"""Shared model of a federated round (C01, C10, C12, C17).

clients: a symbolic sequence of (client id, ClientDataset, PRNGKey) triples.
Comprehensions over it are evaluated at ONE arbitrary index; for_each_client is
used through its contract (C02): one output per input client, same ids, same
order, output = final(shared, fold(step, init(shared, client_input), batches)).
"""
from __future__ import annotations

import ast
import z3

from .core import *  # noqa
from .engine import *  # noqa
from .lib_real import *  # noqa

I = z3.IntSort()
ClientT = z3.DeclareSort('ClientT')
ClientSeq = z3.SeqSort(ClientT)
DsT = z3.DeclareSort('ClientDatasetT')
KeyT = z3.DeclareSort('KeyT')
HpT = z3.DeclareSort('HParamsT')
BatchesT = z3.DeclareSort('BatchesT')
CID = z3.Function('client_id', ClientT, I)
CDS = z3.Function('client_dataset', ClientT, DsT)
CKEY = z3.Function('client_key', ClientT, KeyT)
DSLEN = z3.Function('len_dataset', DsT, R)            # number of examples (as a real weight)
SRB = z3.Function('shuffle_repeat_batch', DsT, HpT, BatchesT)
PADB = z3.Function('padded_batch', DsT, HpT, BatchesT)


class DsV(Val):
  def __init__(self, term):
    self.term = term

  def length(self, ctx):
    n = DSLEN(self.term)
    ctx.assume(n >= 0)
    return n

  def method(self, ctx, name, args, kwargs):
    if name == 'shuffle_repeat_batch':
      return BatchesV(SRB(self.term, args[0].term))
    if name == 'padded_batch':
      return BatchesV(PADB(self.term, args[0].term))
    raise Unsupported(f'ClientDataset.{name}')


class BatchesV(Val):
  def __init__(self, term):
    self.term = term


class KeyV(Val):
  def __init__(self, term):
    self.term = term


class HpV(Val):
  def __init__(self, term):
    self.term = term


def client_triple(t):
  return (CID(t), DsV(CDS(t)), KeyV(CKEY(t)))


class ClientsV(Val):
  """The `clients` argument of apply(): comprehensions are evaluated at an
  arbitrary index."""

  def __init__(self, seq):
    self.seq = seq

  def comprehend(self, ctx, engine, e, g, kind):
    if g.ifs:
      raise Unsupported('filtered comprehension over clients')
    idx = ctx.fresh('ci')
    depth = ctx.dpos
    base = len(ctx.pc)
    ctx.pc.append(z3.And(0 <= idx, idx < z3.Length(self.seq)))
    fid = ctx.push_frame(engine.lexical(ctx))
    try:
      engine.assign(ctx, g.target, client_triple(self.seq[idx]))
      if kind == 'dict':
        k = engine.eval(ctx, e.key)
        v = engine.eval(ctx, e.value)
      else:
        k = None
        v = engine.eval(ctx, e.elt)
    finally:
      ctx.pop_frame()
      del ctx.pc[base:]
    if ctx.dpos != depth:
      raise Unsupported('branching inside a comprehension over clients')
    if kind == 'dict':
      return ClientMapV(self.seq, idx, k, v)
    return MappedClientsV(self.seq, idx, v)

  def length(self, ctx):
    return z3.Length(self.seq)

  def iterate(self, ctx):
    return IterSpec(seq=self.seq, codec=Codec(ClientT, dec=client_triple))


class MappedClientsV(Val):
  def __init__(self, seq, idx, value):
    self.seq, self.idx, self.value = seq, idx, value


class ClientMapV(Val):
  """{key(c): val(c) for c in clients} — ids are pairwise distinct (precondition)."""

  def __init__(self, seq, idx, key, val):
    self.seq, self.idx, self.key, self.val = seq, idx, key, val

  def getitem(self, ctx, k):
    # the key is the id of an input client (for_each_client contract): find its index
    j = ctx.tags.get('current_client_index')
    if j is None:
      # inside the per-client loop: the iterator position was already advanced
      for nm in ('$it0', '$it1', '$it2'):
        try:
          j = to_z3(ctx.lookup(nm)) - 1
          break
        except KeyError:
          continue
    if j is None or not z3.is_expr(k):
      raise Unsupported('lookup in a per-client dict outside the per-client loop')
    kj = z3.substitute(to_z3(self.key), (self.idx, j))
    ctx.oblige('dict.client.key', to_z3(k) == kj, kind='definedness',
               detail='KeyError: per-client dict is indexed with the id of the client being processed')
    v = self.val
    if is_z3(v):
      return z3.substitute(v, (self.idx, j))
    raise Unsupported('per-client dict value')


class SymDictCell(Cell):
  """A dict filled inside the per-client loop with one entry per client id:
  kept as the sequence of keys written so far (ids are distinct)."""

  def __init__(self):
    self.keys = z3.Empty(z3.SeqSort(I))
    self.owner, self.label = 'local', 'client_diagnostics'

  def setitem(self, ctx, ref, key, value):
    c = self.clone()
    c.keys = z3.Concat(self.keys, z3.Unit(to_z3(key)))
    ctx.set_cell(ref.addr, c)

  def havoc(self, ctx, base):
    c = self.clone()
    c.keys = ctx.fresh(base + '_keys', z3.SeqSort(I))
    return c

  def term(self, ctx):
    return self.keys

  def truth(self, ctx, ref):
    return z3.Length(self.keys) != 0


# ---------------------------------------------------------------- optimizers
OptStateT = z3.DeclareSort('OptStateT')
OPT_P = z3.Function('opt_apply_params_at_c', z3.DeclareSort('OptimizerT'), R, OptStateT, R, R)
OPT_S = z3.Function('opt_apply_state', z3.DeclareSort('OptimizerT'), TreeId, OptStateT, TreeId, OptStateT)
OPT_INIT = z3.Function('opt_init', z3.DeclareSort('OptimizerT'), TreeId, OptStateT)
OptimizerT = OPT_INIT.domain(0)


class OptStV(Val):
  def __init__(self, term):
    self.term = term


class OptimizerV(Val):
  """An arbitrary optimizer: a pure function of (grads, opt_state, params)."""

  def __init__(self, term):
    self.term = term
    self.calls = []

  def method(self, ctx, name, args, kwargs):
    if name == 'init':
      (p,) = args
      return OptStV(OPT_INIT(self.term, tree_tid(ctx, p)))
    if name == 'apply':
      g, s, p = args
      self.calls.append((g, s, p))
      gv, pv = tree_val(ctx, g), tree_val(ctx, p)
      new_p = new_tree(ctx, OPT_P(self.term, gv, s.term, pv), label='optimizer output')
      return (OptStV(OPT_S(self.term, tree_tid(ctx, g), s.term, tree_tid(ctx, p))), new_p)
    raise Unsupported(f'optimizer.{name}')

  def getattr(self, ctx, name):
    if name in ('init', 'apply'):
      return Handler(lambda c, *a: self.method(c, name, list(a), {}), f'optimizer.{name}')
    raise Unsupported(f'optimizer.{name}')


def tree_tid(ctx, t):
  c = t.cell(ctx)
  if c.tid is None:
    c2 = c.clone()
    c2.tid = ctx.fresh('tid', TreeId)
    ctx.heap[t.addr] = c2
    return c2.tid
  return c.tid
