"""Domain values for the client-data plumbing (C03, C04, C15, C08).

TABLE abstraction: an `Examples` dict whose columns all have the same number
of rows is (feature set, Seq(Row)); a Row is the tuple of one example across
all features.  Column-wise operations that do the same thing to every column
(`{k: v[idx] for k, v in ex.items()}`) are row operations; the engine checks
that sameness by evaluating the element expression at an *arbitrary* key.

Per-example preprocessors (the property's own hypothesis): a preprocessor is
`map p` over rows, so it commutes with slicing and concatenation.  We therefore
keep raw rows in the table term and record *which* preprocessors were applied
(`pre`), instead of axiomatising P(a ++ b) = P(a) ++ P(b) for the solver.
"""
from __future__ import annotations

import z3

from .core import *  # noqa
from .engine import *  # noqa

Row = z3.DeclareSort('Row')
RowSeq = z3.SeqSort(Row)
FeatSet = z3.DeclareSort('FeatSet')
PreId = z3.DeclareSort('PreId')      # identity of a BatchPreprocessor object
ExId = z3.DeclareSort('ExId')        # identity of an Examples dict object
IntSeq = z3.SeqSort(z3.IntSort())

ZERO_ROW = z3.Const('ZERO_ROW', Row)
Gather = z3.Function('Gather', RowSeq, IntSeq, RowSeq)
# InRange(idx, n): every element of idx is a valid index into n rows
InRange = z3.Function('InRange', IntSeq, z3.IntSort(), z3.BoolSort())

MASK_KEY = '__mask__'


class MaskV(Val):
  """A bool vector of length n that is True exactly on the prefix [0, c)."""

  def __init__(self, n, c):
    self.n, self.c = n, c

  def length(self, ctx):
    return self.n

  def fresh_like(self, ctx, base):
    return MaskV(ctx.fresh(base + '_n'), ctx.fresh(base + '_c'))


class TableV(Val):
  """Examples with consistent rows.

  rows: Seq(Row) of the *raw* rows that are real (mask True / no mask).
  feats: feature-set term of the raw dict.  pre: tuple of PreId terms applied
  so far (python tuple).  mask: None, or MaskV; when a mask is present the
  dict has `total` rows of which the first `mask.c` are `rows` and the rest
  are `pad` ('zero' or 'unknown').
  ident: ExId term when this is a caller-visible dict object.
  """

  def __init__(self, rows, feats, pre=(), mask=None, pad=None, ident=None):
    self.rows, self.feats, self.pre = rows, feats, tuple(pre)
    self.mask, self.pad, self.ident = mask, pad, ident

  @property
  def term(self):
    return self.rows

  def nrows(self):
    if self.mask is not None:
      return self.mask.n
    return z3.Length(self.rows)

  def length(self, ctx):
    # len(dict) = number of features: unknown but >= 1 for consistent rows
    raise Unsupported('len() of an Examples dict (number of features)')

  def with_(self, **kw):
    d = dict(rows=self.rows, feats=self.feats, pre=self.pre, mask=self.mask,
             pad=self.pad, ident=self.ident)
    d.update(kw)
    return TableV(**d)

  def contains(self, ctx, key):
    if key == MASK_KEY:
      return self.mask is not None
    raise Unsupported(f'{key!r} in Examples')

  def method(self, ctx, name, args, kwargs):
    if name == 'items':
      return TableItems(self)
    if name == 'values':
      return TableItems(self, values_only=True)
    raise Unsupported(f'Examples.{name}')

  def key_set(self, ctx):
    return FeatSetV(self.feats)

  def iterate(self, ctx):
    raise Unsupported('iteration over Examples keys')

  def dict_display(self, ctx, extra):
    """{**self, KEY: value}."""
    out = self
    for k, v in extra:
      if k == MASK_KEY and isinstance(v, MaskV):
        # the mask array must have as many rows as the other columns for the
        # result to be a consistent Examples
        out = out.with_(mask=v, pad=out.pad or 'none')
      else:
        raise Unsupported(f'dict display adds feature {k!r}')
    return out

  def fresh_like(self, ctx, base):
    return TableV(ctx.fresh(base, RowSeq), self.feats, self.pre,
                  None if self.mask is None else self.mask.fresh_like(ctx, base),
                  self.pad, None)


FSUB = z3.Function('feature_subset', FeatSet, FeatSet, z3.BoolSort())


def fsub(ctx, a, b):
  """a <= b on feature sets: an uninterpreted partial order (reflexive, antisymmetric at the instances used)."""
  ctx.assume(z3.And(FSUB(a, a), FSUB(b, b), z3.Implies(z3.And(FSUB(a, b), FSUB(b, a)), a == b),
                    z3.Implies(a == b, FSUB(a, b))))
  return FSUB(a, b)


class FeatSetV(Val):

  def __init__(self, term):
    self.term = term

  def compare(self, ctx, op, other):
    if isinstance(other, OptV):
      other = other.val
    if not isinstance(other, FeatSetV):
      raise Unsupported('feature set compared with something else')
    if op == 'Eq':
      return self.term == other.term
    if op == 'NotEq':
      return self.term != other.term
    a, b = self.term, other.term
    if op == 'LtE':
      return fsub(ctx, a, b)
    if op == 'GtE':
      return fsub(ctx, b, a)
    if op == 'Lt':
      return z3.And(fsub(ctx, a, b), a != b)
    if op == 'Gt':
      return z3.And(fsub(ctx, b, a), a != b)
    raise Unsupported('feature set ordering')

  def method(self, ctx, name, args, kwargs):
    if name in ('issuperset', 'issubset') and len(args) == 1:
      o = args[0]
      if isinstance(o, OptV):
        o = o.val
      if not isinstance(o, FeatSetV):
        if not hasattr(o, 'key_set'):
          raise Unsupported(f'set.{name} argument')
        o = o.key_set(ctx)
      return fsub(ctx, o.term, self.term) if name == 'issuperset' else fsub(ctx, self.term, o.term)
    raise Unsupported(f'set.{name}')

  def fresh_like(self, ctx, base):
    return FeatSetV(ctx.fresh(base, FeatSet))

  def truth(self, ctx):
    return True  # consistent Examples have at least one feature


class ColV(Val):
  """Column `key` of a table, during a pointwise comprehension."""

  def __init__(self, table, key, rows=None):
    self.table, self.key = table, key
    self.rows = table.rows if rows is None else rows

  def getitem(self, ctx, idx):
    t = self.table
    if t.mask is not None:
      raise Unsupported('indexing a masked column')
    if isinstance(idx, SliceV):
      if idx.step not in (None, 1):
        raise Unsupported('slice step')
      sub, _, _ = seq_slice(self.rows, idx.lo, idx.hi)
      return ColV(t, self.key, sub)
    if isinstance(idx, Ref) and isinstance(idx.cell(ctx), ListCell):
      # numpy fancy indexing with an int array: every index must be in range
      iseq = idx.cell(ctx).seq
      n = z3.Length(self.rows)
      ctx.oblige('gather.range', InRange(iseq, n),
                 kind='definedness', detail='IndexError: fancy index out of bounds')
      g = Gather(self.rows, iseq)
      ctx.assume(z3.Length(g) == z3.Length(iseq))
      return ColV(t, self.key, g)
    raise Unsupported('column index')

  def getattr(self, ctx, name):
    if name == 'shape':
      return ShapeV(z3.Length(self.rows), self)
    raise Unsupported(f'column.{name}')

  def length(self, ctx):
    return z3.Length(self.rows)


class ShapeV(Val):

  def __init__(self, n, col):
    self.n, self.col = n, col

  def getitem(self, ctx, idx):
    if idx == 0:
      return self.n
    raise Unsupported('shape index')


class TableItems(Val):
  """examples.items() / .values(): supports pointwise comprehensions."""

  def __init__(self, table, values_only=False):
    self.table = table
    self.values_only = values_only

  def comprehend(self, ctx, engine, e, g, kind):
    if kind != 'dict' or self.values_only or g.ifs:
      raise Unsupported('comprehension shape over Examples.items()')
    if not (isinstance(g.target, ast.Tuple) and len(g.target.elts) == 2):
      raise Unsupported('items() target')
    key = ctx.fresh('feat', z3.DeclareSort('Feat'))
    col = ColV(self.table, key)
    fid = ctx.push_frame(engine.lexical(ctx))
    try:
      engine.assign(ctx, g.target, (key, col))
      k = engine.eval(ctx, e.key)
      v = engine.eval(ctx, e.value)
    finally:
      ctx.pop_frame()
    if not (is_z3(k) and k.eq(key)):
      raise Unsupported('comprehension re-keys the features')
    if not isinstance(v, ColV) or v.table is not self.table:
      raise Unsupported('comprehension value is not a column transform')
    # v.rows was computed at an arbitrary key and does not mention it: the same
    # row transform applies to every column, i.e. it is a row operation.
    return self.table.with_(rows=v.rows, ident=None)

  def make_iter(self, ctx):
    return self

  def next(self, ctx, *default):
    # next(iter(examples.values())): first column
    if not self.values_only:
      raise Unsupported('next(items())')
    return ColV(self.table, ctx.fresh('feat0', z3.DeclareSort('Feat')))

  def iterate(self, ctx):
    raise Unsupported('plain loop over Examples.items()')


import ast  # noqa: E402


class PreprocV(Val):
  """A BatchPreprocessor object: identity `pid`; calling it marks the table."""

  def __init__(self, pid):
    self.pid = pid

  @property
  def term(self):
    return self.pid

  def identity(self, ctx):
    return self.pid

  def call(self, ctx, args, kwargs):
    (t,) = args
    if not isinstance(t, TableV):
      raise Unsupported('preprocessor applied to a non-table')
    if t.mask is not None:
      raise Unsupported('preprocessor applied to a masked batch')
    return t.with_(pre=t.pre + (self.pid,), ident=None)

  def fresh_like(self, ctx, base):
    return PreprocV(ctx.fresh(base, PreId))

  def truth(self, ctx):
    return True


DsId = z3.DeclareSort('DsId')
ds_rows = z3.Function('ds_rows', DsId, RowSeq)
ds_feats = z3.Function('ds_feats', DsId, FeatSet)
ds_pre = z3.Function('ds_pre', DsId, PreId)


class DatasetV(Val):
  """A ClientDataset object (caller-owned, read-only here)."""

  def __init__(self, did):
    self.did = did

  @property
  def term(self):
    return self.did

  def getattr(self, ctx, name):
    if name == 'raw_examples':
      return TableV(ds_rows(self.did), ds_feats(self.did))
    if name == 'preprocessor':
      return PreprocV(ds_pre(self.did))
    raise Unsupported(f'ClientDataset.{name}')

  def length(self, ctx):
    return z3.Length(ds_rows(self.did))

  def fresh_like(self, ctx, base):
    return DatasetV(ctx.fresh(base, DsId))

  def truth(self, ctx):
    raise Unsupported('truth of a ClientDataset (len-based)')


DS_CODEC = Codec(DsId, enc=lambda v: v.did, dec=lambda t: DatasetV(t))


# ---------------------------------------------------------------------------
# contracts of the helper functions at TABLE level (each is separately proved
# from its dict-level body in props/C03.py, section "helpers")


def c_slice_examples(ctx, examples, index):
  if not isinstance(examples, TableV) or examples.mask is not None:
    raise Unsupported('slice_examples argument')
  if not isinstance(index, SliceV) or index.step not in (None, 1):
    raise Unsupported('slice_examples index')
  sub, _, _ = seq_slice(examples.rows, index.lo, index.hi)
  return examples.with_(rows=sub, ident=None)


def c_num_examples(ctx, examples, validate=True):
  if not isinstance(examples, TableV):
    raise Unsupported('num_examples argument')
  return examples.nrows()


def c_attach_mask(ctx, examples, mask):
  if not isinstance(examples, TableV) or not isinstance(mask, MaskV):
    raise Unsupported('attach_mask arguments')
  if examples.mask is not None:
    raise RaiseSig(ExcV('ValueError'))
  return examples.with_(mask=mask, pad='none', ident=None)


def c_pad_examples(ctx, examples, size):
  if not isinstance(examples, TableV):
    raise Unsupported('pad_examples argument')
  if examples.mask is not None:
    raise RaiseSig(ExcV('ValueError'))
  cur = z3.Length(examples.rows)
  if ctx.branch(cur > to_z3(size)):
    raise RaiseSig(ExcV('ValueError'))
  return examples.with_(mask=MaskV(size, cur), pad='zero', ident=None)


def c_np_ones_bool(ctx, shape, dtype=None):
  if isinstance(shape, Ref):
    items = shape.cell(ctx).items
    if len(items) != 1:
      raise Unsupported('np.ones rank')
    n = items[0]
  else:
    n = shape
  return MaskV(n, n)


class TblListCell(Cell):
  """A python list of Examples dicts, kept as the concatenation of their rows
  (`flat`) and the number of elements (`count`); all elements share `feats`."""

  def __init__(self, flat, count, feats=None, owner='local', label='buf'):
    self.flat, self.count, self.feats = flat, count, feats
    self.owner, self.label = owner, label

  def method(self, ctx, ref, name, args, kwargs):
    if name == 'append':
      (t,) = args
      if not isinstance(t, TableV) or t.mask is not None or t.pre:
        raise Unsupported('append of a non-raw table')
      self.check_write(ctx, ref, 'append')
      c = self.clone()
      c.flat = z3.Concat(self.flat, t.rows)
      c.count = to_z3(self.count) + 1
      c.feats = t.feats
      ctx.set_cell(ref.addr, c)
      return None
    if name == 'clear':
      self.check_write(ctx, ref, 'clear')
      c = self.clone()
      c.flat = z3.Empty(RowSeq)
      c.count = z3.IntVal(0)
      ctx.set_cell(ref.addr, c)
      return None
    raise Unsupported(f'list.{name}')

  def truth(self, ctx, ref):
    return to_z3(self.count) > 0

  def length(self, ctx, ref):
    return self.count

  def havoc(self, ctx, base):
    c = self.clone()
    c.flat = ctx.fresh(base + '_flat', RowSeq)
    c.count = ctx.fresh(base + '_count')
    return c

  def term(self, ctx):
    return self.flat


def c_concat_examples(ctx, many):
  """TABLE contract of concat_examples on a non-empty list of tables with the
  same features: rows are concatenated in list order."""
  if isinstance(many, Ref) and isinstance(many.cell(ctx), TblListCell):
    c = many.cell(ctx)
    ctx.oblige('concat.nonempty', to_z3(c.count) > 0, kind='precondition',
               detail='concat_examples of an empty list returns {} (no features)')
    return TableV(c.flat, c.feats)
  raise Unsupported('concat_examples argument')
