"""C16 — serialization round-trips every supported value exactly.

Functions under contract (fedjax/core/serialization.py): _ndarray_to_bytes,
_dtype_from_name, _ndarray_from_bytes, _bytes_ndarray_to_bytes,
_object_ndarray_from_bytes, _msgpack_ext_pack, _msgpack_ext_unpack,
msgpack_serialize, msgpack_deserialize;
sqlite_federated_data.decompress_and_deserialize.

NumPy data model (trusted library contracts): an array is (shape, dtype,
values); `tobytes('C')` is the row-major byte string in the array's OWN byte
order; `dtype.name` forgets the byte order; `np.dtype(name)` is the NATIVE
dtype of that name; `frombuffer(b, dt)` decodes b in dt's byte order.
"""
from __future__ import annotations

import z3

from ..script import *  # noqa

F = 'fedjax/core/serialization.py'
SQ = 'fedjax/core/sqlite_federated_data.py'
I = z3.IntSort()
B = z3.BoolSort()
ShapeS = z3.DeclareSort('ShapeS')
DT = z3.DeclareSort('DType16')
Vals = z3.DeclareSort('Vals')
Bytes = z3.DeclareSort('ByteStr')
NameS = z3.DeclareSort('DTypeName')
Blob = z3.DeclareSort('MsgpackBlob')

NAME = z3.Function('dtype_name', DT, NameS)
NATIVE = z3.Function('native_of', DT, DT)            # same type, native byte order
DT_OF_NAME = z3.Function('np_dtype', NameS, DT)
HASOBJ = z3.Function('hasobject', DT, B)
ALIGNED = z3.Function('isalignedstruct', DT, B)
STRUCT = z3.Function('has_fields', DT, B)
ISBF16 = z3.Function('is_bfloat16_name', NameS, B)
STRNAME = z3.Function('dtype_str', DT, NameS)          # e.g. '>i4': keeps the byte order
BF16 = z3.Const('jnp_bfloat16', DT)
TOBYTES = z3.Function('tobytes', Vals, ShapeS, DT, z3.StringSort(), Bytes)
DECODE = z3.Function('frombuffer', Bytes, DT, Vals)   # flat values
NDIM0 = z3.Function('is_0d', ShapeS, B)
ATLEAST1D = z3.Function('atleast_1d_shape', ShapeS, ShapeS)


def np_axioms():
  d = z3.Const('ax_d', DT)
  v = z3.Const('ax_v', Vals)
  s = z3.Const('ax_s', ShapeS)
  n = z3.Const('ax_n', NameS)
  return [
      # name forgets the byte order; np.dtype(name) is the native dtype of that name
      z3.ForAll([d], z3.Implies(z3.And(z3.Not(STRUCT(d)), z3.Not(HASOBJ(d)), z3.Not(ISBF16(NAME(d)))),
                                DT_OF_NAME(NAME(d)) == NATIVE(d)), patterns=[NAME(d)]),
      z3.ForAll([d], NATIVE(NATIVE(d)) == NATIVE(d)),
      # the array-protocol type string denotes exactly that dtype (byte order included)
      # ... for the built-in numeric dtypes; an extension dtype such as bfloat16 has the type string '<V2', which names a void dtype
      z3.ForAll([d], z3.Implies(z3.And(z3.Not(STRUCT(d)), z3.Not(HASOBJ(d)), d != BF16),
                                z3.And(DT_OF_NAME(STRNAME(d)) == d, z3.Not(ISBF16(STRNAME(d))))),
                patterns=[STRNAME(d)]),
      z3.And(DT_OF_NAME(STRNAME(BF16)) != BF16, z3.Not(ISBF16(STRNAME(BF16)))),
      # structured dtypes: the name ('void96') denotes a plain void dtype, never the structured one
      z3.ForAll([d], z3.Implies(STRUCT(d), z3.And(DT_OF_NAME(NAME(d)) != d,
                                                  DT_OF_NAME(NAME(d)) != NATIVE(d),
                                                  DT_OF_NAME(STRNAME(d)) != d)),
                patterns=[STRUCT(d)]),
      # decoding row-major bytes in the SAME byte order gives back the values
      z3.ForAll([v, s, d], DECODE(TOBYTES(v, s, d, z3.StringVal('C')), d) == v,
                patterns=[TOBYTES(v, s, d, z3.StringVal('C'))]),
      z3.ForAll([s], z3.Implies(z3.Not(NDIM0(s)), ATLEAST1D(s) == s)),
      z3.ForAll([s], z3.Implies(NDIM0(s), ATLEAST1D(s) != s)),
      NATIVE(BF16) == BF16, ISBF16(NAME(BF16)), z3.Not(HASOBJ(BF16)), z3.Not(STRUCT(BF16)),
      z3.Not(ALIGNED(BF16)),
  ]


class ArrV(Val):
  """A numpy array (or jax array when is_jax) as (shape, dtype, values)."""

  def __init__(self, shape, dt, vals, is_jax=False, kind='ndarray'):
    self.shape, self.dt, self.vals, self.is_jax, self.kind = shape, dt, vals, is_jax, kind

  def getattr(self, ctx, name):
    if name == 'dtype':
      return DTypeV(self.dt)
    if name == 'shape':
      return ShapeV16(self.shape)
    raise Unsupported(f'ndarray.{name}')

  def method(self, ctx, name, args, kwargs):
    if name == 'tobytes':
      order = args[0] if args else kwargs.get('order', 'C')
      if order is None:
        order = 'C'
      return BytesV16(TOBYTES(self.vals, self.shape, self.dt, z3.StringVal(order)))
    if name == 'reshape':
      shape = args[0]
      order = kwargs.get('order', 'C')
      ok = isinstance(shape, ShapeV16) and order == 'C'
      ctx.oblige('reshape.c', ok, detail='reshape(shape, order="C") to the stored shape')
      if not ok:
        raise PathDead()
      return ArrV(shape.term, self.dt, self.vals)
    if name in ('flatten', 'ravel'):
      # T-NP: order 'C' (the default) lists the elements in logical row-major order whatever the memory layout;
      # 'K' / 'A' / 'F' list them in memory / Fortran order, which is the row-major order only for C-contiguous data
      order = args[0] if args else kwargs.get('order', 'C')
      if order is None:
        order = 'C'
      if order == 'C':
        return FlatV(self)
      if order in ('K', 'A', 'F'):
        lay = z3.Const('memory_layout', z3.IntSort())      # of this (arbitrary) input array
        ctx.model_vars['memory_layout'] = lay
        reordered = MEMORDER(self.vals, self.shape, lay, z3.StringVal(order))
        # a reordering keeps "empty" and "every element is bytes"
        ctx.assume(z3.And(EMPTY(reordered) == EMPTY(self.vals), ALLBYTES(reordered) == ALLBYTES(self.vals),
                          z3.Implies(ALLBYTES(reordered), z3.Or(EMPTY(reordered), FIRSTBYTES(reordered)))))
        return FlatV(ArrV(self.shape, self.dt, reordered))
      raise Unsupported(f'{name}(order={order!r})')
    raise Unsupported(f'ndarray.{name}')

  def getitem(self, ctx, idx):
    if idx == ():
      return ArrV(self.shape, self.dt, self.vals, kind='scalar')
    raise Unsupported('ndarray index')


class DTypeV(Val):
  def __init__(self, term):
    self.term = term

  def getattr(self, ctx, name):
    if name == 'hasobject':
      return HASOBJ(self.term)
    if name == 'isalignedstruct':
      return ALIGNED(self.term)
    if name == 'name':
      return NameV16(NAME(self.term), is_bytes=False)
    if name == 'str':
      return NameV16(STRNAME(self.term), is_bytes=False)
    if name == 'isnative':
      return NATIVE(self.term) == self.term
    raise Unsupported(f'dtype.{name}')


class ShapeV16(Val):
  def __init__(self, term, as_list=False):
    self.term, self.as_list = term, as_list


class NameV16(Val):
  def __init__(self, term, is_bytes):
    self.term, self.is_bytes = term, is_bytes

  def compare(self, ctx, op, other):
    if isinstance(other, (bytes, str)):
      lit_bytes = isinstance(other, bytes)
      text = other.decode() if lit_bytes else other
      if text != 'bfloat16':
        raise Unsupported('dtype name compared with another literal')
      # a str never equals a bytes object
      eq = ISBF16(self.term) if lit_bytes == self.is_bytes else z3.BoolVal(False)
      return eq if op == 'Eq' else z3.Not(eq)
    raise Unsupported('dtype name comparison')


class BytesV16(Val):
  def __init__(self, term):
    self.term = term


class BlobV16(Val):
  """msgpack.packb of a tuple; `items` are the packed python-level values."""

  def __init__(self, items, use_bin_type):
    self.items, self.use_bin_type = items, use_bin_type


class FlatV(Val):
  """list(x.flatten()) of an object array."""

  def __init__(self, arr):
    self.arr = arr

  def to_list(self, ctx):
    return self

  def truth(self, ctx):
    return z3.Not(EMPTY(self.arr.vals))

  def getitem(self, ctx, idx):
    if idx == 0:
      return ElemV(self.arr, 0)
    raise Unsupported('flat index')

  def comprehend(self, ctx, engine, e, g, kind):
    """(f(v) for v in flat): f evaluated at an arbitrary element."""
    if g.ifs or kind not in ('gen', 'list'):
      raise Unsupported('comprehension over flat elements')
    fid = ctx.push_frame(engine.lexical(ctx))
    try:
      engine.assign(ctx, g.target, ElemV(self.arr, 'any'))
      v = engine.truth(ctx, engine.eval(ctx, e.elt))
    finally:
      ctx.pop_frame()
    return PerElemV(self.arr, v)


MEMORDER = z3.Function('elements_in_memory_order', Vals, ShapeS, z3.IntSort(), z3.StringSort(), Vals)
EMPTY = z3.Function('is_empty', Vals, B)
ALLBYTES = z3.Function('all_elements_are_bytes', Vals, B)
FIRSTBYTES = z3.Function('first_element_is_bytes', Vals, B)


class ElemV(Val):
  def __init__(self, arr, i):
    self.arr, self.i = arr, i


ANYELEM = z3.Function('arbitrary_element_is_bytes', Vals, B)


class PerElemV(Val):
  """A boolean computed per element; pred is a formula over ANYELEM(vals)."""

  def __init__(self, arr, pred):
    self.arr, self.pred = arr, pred


def c_all(ctx, v):
  if isinstance(v, PerElemV):
    p0 = z3.simplify(zbool(v.pred))
    if p0.eq(ANYELEM(v.arr.vals)):
      return ALLBYTES(v.arr.vals)
    raise Unsupported('all() over this element predicate')
  return zand(*[ctx.engine.truth(ctx, x) for x in ctx.engine.concrete_items(ctx, v)])


def c_any(ctx, v):
  if isinstance(v, PerElemV):
    p0 = z3.simplify(zbool(v.pred))
    if p0.eq(z3.simplify(z3.Not(ANYELEM(v.arr.vals)))):
      return z3.Not(ALLBYTES(v.arr.vals))
    raise Unsupported('any() over this element predicate')
  return zor(*[ctx.engine.truth(ctx, x) for x in ctx.engine.concrete_items(ctx, v)])


def c_isinstance16(ctx, v, t):
  names = t if isinstance(t, tuple) else (t,)
  out = []
  for n in names:
    if n == 'np.ndarray':
      out.append(isinstance(v, ArrV) and not v.is_jax and v.kind == 'ndarray')
    elif n == 'jax.Array':
      out.append(isinstance(v, ArrV) and v.is_jax)
    elif n == 'np.generic':
      out.append(isinstance(v, ArrV) and v.kind == 'scalar')
    elif n == 'complex':
      out.append(isinstance(v, ComplexV))
    elif n == 'bytes':
      if isinstance(v, ElemV):
        out.append(FIRSTBYTES(v.arr.vals) if v.i == 0 else ANYELEM(v.arr.vals))
      else:
        out.append(isinstance(v, bytes))
    else:
      raise Unsupported(f'isinstance(_, {n})')
  return zor(*out)


class ComplexV(Val):
  def __init__(self, re, im):
    self.re, self.im = re, im

  def getattr(self, ctx, name):
    if name == 'real':
      return self.re
    if name == 'imag':
      return self.im
    raise Unsupported(f'complex.{name}')


class ExtV(Val):
  def __init__(self, code, data):
    self.code, self.data = code, data


def c_packb(ctx, obj, use_bin_type=True, **kw):
  if not isinstance(obj, tuple):
    raise Unsupported('packb argument')
  return BlobV16(obj, use_bin_type)


def c_unpackb(ctx, blob, raw=False, **kw):
  if not isinstance(blob, BlobV16):
    raise Unsupported('unpackb argument')
  out = []
  for it in blob.items:
    if isinstance(it, ShapeV16):
      out.append(ShapeV16(it.term, as_list=True))  # tuples come back as lists
    elif isinstance(it, NameV16):
      # a str packed with use_bin_type=True is a msgpack str; raw=True returns it as bytes
      out.append(NameV16(it.term, is_bytes=bool(raw)))
    else:
      out.append(it)
  return tuple(out)


def c_frombuffer(ctx, buf, dtype=None, count=-1, offset=0):
  ok = isinstance(buf, BytesV16) and isinstance(dtype, DTypeV)
  ctx.oblige('frombuffer.args', ok and count == -1 and offset == 0)
  if not ok:
    raise PathDead()
  return ArrV(z3.Const('flat_shape', ShapeS), dtype.term, DECODE(buf.term, dtype.term))


def c_np_dtype(ctx, name):
  if not isinstance(name, NameV16):
    raise Unsupported('np.dtype argument')
  return DTypeV(DT_OF_NAME(name.term))


def c_np_array(ctx, v, dtype=None):
  if isinstance(v, ArrV) and dtype is None:
    return ArrV(v.shape, v.dt, v.vals, is_jax=False)
  if isinstance(v, FlatV) and dtype == 'object':
    return ArrV(z3.Const('flat_shape', ShapeS), v.arr.dt, v.arr.vals)
  raise Unsupported('np.array arguments')


def c_np_asarray(ctx, v):
  if isinstance(v, ArrV):
    return ArrV(v.shape, v.dt, v.vals, kind='ndarray')
  raise Unsupported('np.asarray argument')


def c_ascontiguousarray(ctx, v):
  # T-NP: returns an array with ndim >= 1
  if isinstance(v, ArrV):
    return ArrV(ATLEAST1D(v.shape), v.dt, v.vals)
  raise Unsupported('ascontiguousarray argument')


def globals_(p):
  enum_codes = {}
  from ..extract import find
  import ast as _ast
  node, _ = find(F, '_MsgpackExtType')
  for n in node.body:
    if isinstance(n, _ast.Assign) and isinstance(n.value, _ast.Constant):
      enum_codes[n.targets[0].id] = n.value.value
  g = {
      'np': Module('np', {
          'ndarray': 'np.ndarray', 'generic': 'np.generic',
          'array': Handler(c_np_array, 'np.array'), 'asarray': Handler(c_np_asarray, 'np.asarray'),
          'ascontiguousarray': Handler(c_ascontiguousarray, 'np.ascontiguousarray'),
          'frombuffer': Handler(c_frombuffer, 'np.frombuffer'),
          'dtype': Handler(c_np_dtype, 'np.dtype')}),
      'jax': Module('jax', {'Array': 'jax.Array', 'numpy': Module('jax.numpy', {
          'bfloat16': DTypeV(BF16)})}),
      'msgpack': Module('msgpack', {
          'packb': Handler(c_packb, 'msgpack.packb'), 'unpackb': Handler(c_unpackb, 'msgpack.unpackb'),
          'ExtType': Handler(lambda ctx, code, data: ExtV(code, data), 'msgpack.ExtType')}),
      'isinstance': Handler(c_isinstance16, 'isinstance'),
      'all': Handler(c_all, 'all'), 'any': Handler(c_any, 'any'),
      'complex': 'complex', 'bytes': 'bytes', 'object': 'object',
      '_MsgpackExtType': Module('_MsgpackExtType', enum_codes),
      'print': Handler(lambda ctx, *a, **k: None, 'print'),
  }
  return g, enum_codes


def build(p):
  D = 'native/C16.py'
  for fn in ('_ndarray_to_bytes', '_ndarray_from_bytes', '_dtype_from_name', '_msgpack_ext_pack',
             '_msgpack_ext_unpack', '_bytes_ndarray_to_bytes', '_object_ndarray_from_bytes',
             'msgpack_serialize', 'msgpack_deserialize'):
    p.native(fn, D, 'roundtrip')
  p.native('msgpack_deserialize', D, 'sequence')
  p.native('np_axioms', D, 'axioms')     # the assumed NumPy facts are themselves tested on concrete dtypes on every run
  g, codes = globals_(p)
  exs = {n: p.extract(F, n) for n in (
      '_ndarray_to_bytes', '_dtype_from_name', '_ndarray_from_bytes', '_bytes_ndarray_to_bytes',
      '_object_ndarray_from_bytes', '_msgpack_ext_pack', '_msgpack_ext_unpack')}
  for n, ex in exs.items():
    g[n] = ex.funcv()
  eng = Engine(g)
  shape = z3.Const('shape', ShapeS)
  dt = z3.Const('dtype', DT)
  vals = z3.Const('values', Vals)
  native = NATIVE(dt) == dt

  def supported():
    return z3.And(z3.Not(HASOBJ(dt)), z3.Not(ALIGNED(dt)), z3.Not(STRUCT(dt)))

  # ---- ndarray leaf: to_bytes then from_bytes
  def body_rt(ctx, is_jax=False, via_ext=False, scalar=False):
    for a in np_axioms():
      ctx.assume(a)
    ctx.model_vars.update(native_byte_order=native, is_0d=NDIM0(shape))
    ctx.assume(supported())
    ctx.assume(z3.Implies(ISBF16(NAME(dt)), dt == BF16))
    arr = ArrV(shape, dt, vals, is_jax=is_jax, kind='scalar' if scalar else 'ndarray')
    if via_ext:
      kind, ext = eng.run_function(ctx, g['_msgpack_ext_pack'], [arr])
      ctx.oblige('pack.noraise', kind == 'return')
      ok = kind == 'return' and isinstance(ext, ExtV)
      ctx.oblige('pack.ext', ok, detail='arrays and numpy scalars are packed as an ext type')
      if not ok:
        return
      kind, out = eng.run_function(ctx, g['_msgpack_ext_unpack'], [ext.code, ext.data])
    else:
      kind, blob = eng.run_function(ctx, g['_ndarray_to_bytes'], [arr])
      ctx.oblige('tobytes.noraise', kind == 'return')
      if kind != 'return':
        return
      kind, out = eng.run_function(ctx, g['_ndarray_from_bytes'], [blob])
    ctx.oblige('frombytes.noraise', kind == 'return')
    ok = kind == 'return' and isinstance(out, ArrV)
    ctx.oblige('rt.type', ok)
    if not ok:
      return
    ctx.oblige('rt.kind', out.kind == ('scalar' if scalar else 'ndarray'),
               detail='numpy scalars come back as scalars, arrays as arrays')
    ctx.oblige('rt.shape', out.shape == shape, detail='shape is restored (0-d and empty included)')
    ctx.oblige('rt.values', z3.Implies(native, out.vals == vals),
               detail='values are restored for every memory layout (row-major bytes), given a native byte order')
    ctx.oblige('rt.ndarray', z3.And(out.dt == dt, out.vals == vals, out.shape == shape),
               detail='dtype, shape and values round-trip for every supported dtype — including non-native byte order')

  p.verify('_ndarray_to_bytes/_ndarray_from_bytes', eng, lambda c: body_rt(c))
  p.verify('_msgpack_ext_pack/_unpack[ndarray]', eng, lambda c: body_rt(c, via_ext=True))
  p.verify('_msgpack_ext_pack/_unpack[jax.Array]', eng, lambda c: body_rt(c, is_jax=True, via_ext=True))
  p.verify('_msgpack_ext_pack/_unpack[np.generic]', eng, lambda c: body_rt(c, via_ext=True, scalar=True))

  # ---- rejection of unsupported dtypes on the numeric path
  def body_reject(ctx):
    for a in np_axioms():
      ctx.assume(a)
    ctx.assume(z3.Not(HASOBJ(dt)))
    ctx.assume(z3.Or(ALIGNED(dt), STRUCT(dt)))
    arr = ArrV(shape, dt, vals)
    kind, blob = eng.run_function(ctx, g['_ndarray_to_bytes'], [arr])
    if kind == 'raise':
      ctx.oblige('reject.struct.raise', blob.name == 'ValueError')
      return
    kind, out = eng.run_function(ctx, g['_ndarray_from_bytes'], [blob])
    if kind == 'raise':
      return
    ctx.oblige('reject.outside', isinstance(out, ArrV) and z3.And(out.dt != dt),
               detail='a structured dtype is rejected or at least never comes back claiming to be itself '
                      '(np.dtype(name) of a structured dtype is a plain void type; reshape of the byte '
                      'buffer fails natively — see the native driver)')
  p.verify('_ndarray_to_bytes[structured]', eng, body_reject)

  # ---- bytes-object arrays
  def body_bytes(ctx):
    for a in np_axioms():
      ctx.assume(a)
    ctx.model_vars.update(empty=EMPTY(vals), first_is_bytes=FIRSTBYTES(vals), all_bytes=ALLBYTES(vals))
    ctx.assume(HASOBJ(dt))
    ctx.assume(z3.Implies(ALLBYTES(vals), z3.Or(EMPTY(vals), FIRSTBYTES(vals))))
    ctx.assume(z3.Implies(EMPTY(vals), ALLBYTES(vals)))
    arr = ArrV(shape, dt, vals)
    kind, ext = eng.run_function(ctx, g['_msgpack_ext_pack'], [arr])
    if kind == 'raise':
      ctx.oblige('reject.object.raise', z3.And(ext.name == 'ValueError', z3.Not(ALLBYTES(vals))),
                 detail='ValueError only for object arrays that are not all-bytes')
      return
    ctx.oblige('reject.outside.object', ALLBYTES(vals),
               detail='an object array is accepted only if EVERY element is a bytes object '
                      '(otherwise a str element silently comes back as bytes)')
    ok = isinstance(ext, ExtV)
    ctx.oblige('pack.ext.bytes', ok)
    if not ok:
      return
    kind, out = eng.run_function(ctx, g['_msgpack_ext_unpack'], [ext.code, ext.data])
    ctx.oblige('rt.bytesarr.noraise', kind == 'return')
    if kind == 'return':
      ctx.oblige('rt.bytesarr', isinstance(out, ArrV) and z3.And(out.shape == shape, out.vals == vals),
                 detail='shape and elements of a bytes-object array are restored (empty arrays included)')
  p.verify('_msgpack_ext_pack/_unpack[bytes ndarray]', eng, body_bytes)

  # ---- ext codes: pack and unpack agree, all four codes distinct
  p.oblige('ext.codes', [], z3.BoolVal(len(set(codes.values())) == len(codes) == 4), kind='post',
           detail=f'four distinct msgpack ext codes {codes}', fn='_MsgpackExtType')

  # ---- complex
  def body_complex(ctx):
    re, im = z3.Reals('re im')
    kind, ext = eng.run_function(ctx, g['_msgpack_ext_pack'], [ComplexV(re, im)])
    ok = kind == 'return' and isinstance(ext, ExtV) and isinstance(ext.data, BlobV16)
    ctx.oblige('pack.complex', ok)
    if not ok:
      return
    g2 = dict(eng.globals)
    eng.globals['complex'] = Handler(lambda c, a, b: ComplexV(a, b), 'complex')
    try:
      kind, out = eng.run_function(ctx, g['_msgpack_ext_unpack'], [ext.code, ext.data])
    finally:
      eng.globals['complex'] = 'complex'
    ctx.oblige('rt.complex', kind == 'return' and isinstance(out, ComplexV) and
               z3.And(to_z3(out.re) == re, to_z3(out.im) == im),
               detail='native complex scalars round-trip as (real, imag)')
  p.verify('_msgpack_ext_pack/_unpack[complex]', eng, body_complex)

  # (de)serialisation is a function of the bytes / value of THIS call: no function of the module keeps state between calls
  # (a module-level streaming Unpacker would hand the leftovers of a failed call to the next one)
  from . import C10
  C10.v_frames(p, files=['fedjax/core/serialization.py'], min_sites=0)
  # "a checkpointed server state loads back equal to the saved one": the checkpoint functions under their C09 contracts
  # (save_state / load_state round trip over the FS model, path listing, newest wins, save_checkpoint keeps the file it
  # has just written whenever its round is >= every existing one - the same round saved again included)
  from . import C09
  p.native('save_state', 'native/C09.py', 'types')
  p.native('load_state', 'native/C09.py', 'types')
  p.native('ckpt.rt', 'native/C09.py', 'types')
  p.native('_get_checkpoint_paths', 'native/C09.py', 'paths')
  p.native('load_latest_checkpoint', 'native/C09.py', 'paths')
  p.native('save_checkpoint', 'native/C09.py', 'keep')
  C09.v_save_load(p)
  C09.v_get_paths(p)
  C09.v_load_latest(p)
  C09.v_save_checkpoint(p)

  p.native_checks = [
      dict(name='roundtrip_sweep', driver=D, payload={'mode': 'sweep', 'fn': 'roundtrip'},
           bound='all numeric/bool/complex dtypes incl. float16/bfloat16 x shapes {(), (0,), (3,), (2,3), (2,0,2), (2,3,4)} '
                 'x layouts {C, F, strided} x byte orders {native, swapped}; bytes-object arrays; scalars; nested dict/list; '
                 'rejected leaves (tuple, str arrays, structured dtypes)',
           why_bounded='numpy/msgpack semantics are trusted contracts in the proof; this run cross-checks them on the installed libraries'),
      dict(name='sqlite_roundtrip', driver=D, payload={'mode': 'sweep', 'fn': 'sqlite'},
           bound='3 small datasets written through SQLiteFederatedDataBuilder and read back',
           why_bounded='zlib/sqlite3 round trip is library behaviour (T-IO), not within reach of contracts'),
  ]
  p.trust('NumPy data model axioms (props/C16.py::np_axioms): dtype.name forgets byte order; np.dtype(name) is native; '
          'tobytes("C") row-major in the array byte order; frombuffer decodes in the given dtype byte order',
          'msgpack: packb/unpackb round-trip tuples (as lists), bytes and str (raw=True returns str as bytes); ext hooks '
          'are applied to exactly the leaves; zlib, pickle, sqlite3 round-trip their values')
  p.not_covered.append('nested dict/list structure (rt.tree) is msgpack behaviour: bounded native check only')
