"""C09, part 2: run_federated_experiment under the checkpoint contracts."""
from __future__ import annotations

import z3

from ..script import *  # noqa
from ..lib_fs import *  # noqa
from ..lib_fd import OpaqueV

FE = 'fedjax/training/federated_experiment.py'
ClientsT = z3.DeclareSort('ClientsT')
APPLY = z3.Function('ALG_APPLY', StateT, ClientsT, StateT)
SAMPLE = z3.Function('SAMPLE', I, ClientsT)     # the round-indexed sampler (C13: pure in the round)
S = z3.Function('S', I, StateT)                  # the uninterrupted run: S(0)=init, S(r)=apply(S(r-1), sample(r))


class ClientsV(Val):
  def __init__(self, term):
    self.term = term

  def comprehend(self, ctx, engine, e, g, kind):
    return OpaqueV()

  def truth(self, ctx):
    return True


class SamplerCell(Cell):
  """Round-indexed client sampler (contract proved in C13: get.determ/get.step/get.seat)."""

  def __init__(self, seated):
    self.seated = seated
    self.owner, self.label = 'local', 'client_sampler'

  def method(self, ctx, ref, name, args, kwargs):
    if name == 'set_round_num':
      c = self.clone()
      c.seated = to_z3(args[0])
      ctx.set_cell(ref.addr, c)
      return None
    if name == 'sample':
      c = self.clone()
      c.seated = to_z3(self.seated) + 1
      ctx.set_cell(ref.addr, c)
      return ClientsV(SAMPLE(to_z3(self.seated)))
    raise Unsupported(f'sampler.{name}')

  def havoc(self, ctx, base):
    c = self.clone()
    c.seated = ctx.fresh('seated')
    return c


class AlgV(Val):
  def method(self, ctx, name, args, kwargs):
    if name == 'apply':
      st, cl = args
      ok = isinstance(st, StateV) and isinstance(cl, ClientsV)
      ctx.oblige('run.apply.args', ok, detail='algorithm.apply(state, clients)')
      if not ok:
        raise PathDead()
      return (StateV(APPLY(st.term, cl.term)), OpaqueV())
    raise Unsupported(f'algorithm.{name}')

  def getattr(self, ctx, name):
    if name == 'apply':
      return Handler(lambda c, *a: self.method(c, 'apply', list(a), {}), 'apply')
    raise Unsupported(f'algorithm.{name}')


class MetricsV(Val):
  def __init__(self, nonempty):
    self.nonempty = nonempty

  def truth(self, ctx):
    return self.nonempty

  def method(self, ctx, name, args, kwargs):
    if name == 'items':
      return (('metric', OpaqueV()),)
    if name == 'keys':
      return ('metric',)
    if name == 'values':
      return (OpaqueV(),)
    raise Unsupported(f'metrics.{name}')


def build(p):
  from .C09 import base_globals, fresh_fs
  ex = p.extract(FE, 'run_federated_experiment')
  g = base_globals(p)
  N, cf, keep, ef = z3.Ints('num_rounds checkpoint_frequency num_checkpoints_to_keep eval_frequency')
  init = z3.Const('init_state', StateT)
  q0 = z3.Int('q0')

  def c_load_latest(ctx, root):
    # contract proved in v_load_latest
    gh = ctx.ghost
    q = z3.Int('q!l')
    none = ctx.fresh('no_ckpt', 'bool')
    rmax = ctx.fresh('rmax')
    ctx.assume(none == z3.ForAll([q], z3.Not(z3.Select(gh['fs_done'], q))))
    ctx.assume(z3.Implies(z3.Not(none), z3.And(
        z3.Select(gh['fs_done'], rmax),
        z3.ForAll([q], z3.Implies(z3.Select(gh['fs_done'], q), q <= rmax)))))
    return OptV(none, (StateV(z3.Select(gh['fs_content'], rmax)), rmax))

  def c_save_checkpoint(ctx, root, state, round_num=0, keep=1):
    # contract proved in v_save_checkpoint (+ every crash point inside it keeps
    # "visible => complete"; content correctness needs the argument to be S(round))
    gh = ctx.ghost
    r = to_z3(round_num)
    ok = isinstance(state, StateV) and isinstance(root, RootV)
    ctx.oblige('run.ckpt.args', ok)
    if not ok:
      raise PathDead()
    ctx.oblige('run.ckpt.state', state.term == S(r),
               detail='the state saved for round r is the state after round r (so every complete '
                      'checkpoint holds S(its number) at every crash point)')
    ctx.oblige('run.ckpt.pre', z3.And(r >= 0, r < 10 ** 8, to_z3(keep) >= 1), kind='precondition',
               detail='round fits 8 digits; at least one checkpoint is kept')
    nd = ctx.fresh('fs_done', RSet)
    nc = ctx.fresh('fs_content', Content)
    q = z3.Int('q!s')
    newest = z3.ForAll([q], z3.Implies(z3.Select(gh['fs_done'], q), q < r))
    ctx.assume(z3.ForAll([q], z3.Implies(z3.Select(nd, q), z3.Or(q == r, z3.Select(gh['fs_done'], q)))))
    ctx.assume(z3.ForAll([q], z3.Implies(z3.And(z3.Select(nd, q), q != r),
                                         z3.Select(nc, q) == z3.Select(gh['fs_content'], q))))
    ctx.assume(z3.Implies(newest, z3.And(z3.Select(nd, r), z3.Select(nc, r) == state.term)))
    ctx.assume(z3.Implies(z3.Select(nd, r), z3.Select(nc, r) == state.term))
    gh['fs_done'], gh['fs_content'] = nd, nc
    ctx.tags['saved'] = ctx.tags.get('saved', 0) + 1
    return None

  g['checkpoint'] = Module('checkpoint', {
      'load_latest_checkpoint': Handler(c_load_latest, 'load_latest_checkpoint'),
      'save_checkpoint': Handler(c_save_checkpoint, 'save_checkpoint')})
  g['fedjax_logging'] = Module('fedjax_logging', {'Logger': Handler(
      lambda ctx, root=None: LoggerV(), 'Logger')})
  g['time'] = Module('time', {'time': Handler(lambda ctx: ctx.fresh('t', 'real'), 'time.time')})
  g['jnp'] = Module('jnp', {'zeros': Handler(lambda ctx, shape: OpaqueV(), 'jnp.zeros')})
  OpaqueV.method = lambda self, ctx, name, args, kwargs: OpaqueV()
  ev_cls = ClassModel('EvaluationFn', {'__call__': Handler(lambda ctx, self, st, rn: eval_call(
      ctx, self, st, rn), 'EvaluationFn.__call__')})
  tr_cls = ClassModel('TrainClientsEvaluationFn', {'__call__': Handler(
      lambda ctx, self, st, rn, cl: MetricsV(ctx.fresh('has_metrics', 'bool')),
      'TrainClientsEvaluationFn.__call__')})
  g['EvaluationFn'] = ev_cls
  g['TrainClientsEvaluationFn'] = tr_cls

  class LoggerV(Val):
    def method(self, ctx, name, args, kwargs):
      return None

  def eval_call(ctx, selfref, st, rn):
    lab = selfref.cell(ctx).label
    if lab == 'final_eval':
      ctx.tags.setdefault('final_calls', []).append((st, rn))
    return MetricsV(ctx.fresh('has_metrics', 'bool'))

  eng = Engine(g)

  def inv(s):
    gh = s.ctx.ghost
    r = to_z3(s.it)
    st = s.raw('state')
    start = to_z3(s['start_round_num'])
    sam = s.raw('client_sampler').cell(s.ctx)
    q = z3.Int('q!i')
    return dict(
        pos=z3.And(start <= r, start >= 1, z3.Or(r <= N + 1, r == start)),
        state=st.term == S(r - 1) if isinstance(st, StateV) else False,
        seated=to_z3(sam.seated) == r,
        cki=z3.Implies(z3.Select(gh['fs_done'], q0), z3.And(
            z3.Select(gh['fs_content'], q0) == S(q0), q0 <= N, q0 >= 0)),
        clean=z3.ForAll([q], z3.Not(z3.Select(gh['fs_partial'], q))))

  loops = {0: Loop(inv=inv, expect='start_round_num', mutates=('client_sampler',),
                   ghost=['fs_done', 'fs_content', 'fs_partial'])}

  def body(ctx):
    ctx.model_vars.update(num_rounds=N, checkpoint_frequency=cf, num_checkpoints_to_keep=keep,
                          eval_frequency=ef)
    done, partial, content = fresh_fs(ctx)
    r = z3.Int('r!S')
    # the premise of the property: a round-deterministic algorithm and a
    # round-indexed sampler define the uninterrupted state sequence
    ctx.assume(S(0) == init)
    ctx.assume(z3.ForAll([r], z3.Implies(r >= 1, S(r) == APPLY(S(r - 1), SAMPLE(r))),
                         patterns=[S(r)]))
    ctx.assume(z3.And(N >= 0, N < 10 ** 8, cf >= 0, keep >= 1, ef >= 0))
    # FS invariant at entry (true of the empty directory, preserved at every
    # crash point): complete checkpoints hold S(their number) and are <= num_rounds
    q = z3.Int('q!e')
    ctx.assume(z3.ForAll([q], z3.Implies(z3.Select(done, q), z3.And(
        z3.Select(content, q) == S(q), q <= N, q >= 0))))
    cfg = ctx.alloc(ObjCell(None, dict(root_dir=RootV(), num_rounds=N, checkpoint_frequency=cf,
                                       num_checkpoints_to_keep=keep, eval_frequency=ef),
                            owner='param', label='config'))
    sampler = ctx.alloc(SamplerCell(ctx.fresh('seated0')))
    pe1 = ctx.alloc(ObjCell(ev_cls, {}, label='periodic_eval'))
    pe2 = ctx.alloc(ObjCell(tr_cls, {}, label='periodic_train_eval'))
    fe = ctx.alloc(ObjCell(ev_cls, {}, label='final_eval'))
    pmap = ctx.alloc(DictCell([('p1', pe1), ('p2', pe2)]))
    fmap = ctx.alloc(DictCell([('test', fe)]))
    kind, ret = eng.run_function(ctx, ex.funcv(loops=loops),
                                 [AlgV(), StateV(init), sampler, cfg, pmap, fmap])
    ctx.oblige('run.noraise', kind == 'return',
               detail='re-running the experiment call always completes (also after the last round)')
    if kind != 'return':
      return
    ctx.oblige('run.post', isinstance(ret, StateV) and ret.term == S(N),
               detail='returns the state of the uninterrupted run after num_rounds rounds, from any '
                      'crash-consistent checkpoint directory')
    calls = ctx.tags.get('final_calls', [])
    ctx.oblige('run.final.once', len(calls) == 1, detail='each final evaluation runs exactly once')
    for st, rn in calls:
      ctx.oblige('run.final.args', isinstance(st, StateV) and z3.And(st.term == S(N), to_z3(rn) == N),
                 detail='final evaluation sees (final state, num_rounds) whether or not any round ran '
                        'in this invocation: same .tsv as the uninterrupted run')
    gh = ctx.ghost
    ctx.oblige('run.cki', z3.Implies(z3.Select(gh['fs_done'], q0),
                                     z3.Select(gh['fs_content'], q0) == S(q0)),
               detail='every complete checkpoint holds the state of its round')

  p.verify('run_federated_experiment', eng, body)
  p.trust('premise of the property: algorithm.apply is round-deterministic (C10) and the sampler is a pure '
          'function of the round it is seated at (C13) — modelled by uninterpreted APPLY / SAMPLE and the '
          'ghost sequence S(r)',
          'contracts of checkpoint.load_latest_checkpoint / save_checkpoint used at the call sites are the '
          'ones discharged in this property (load.latest, ckpt.keep, ckpt.new, ckpt.content, ckpt.atomic)')
  p.not_covered.append('periodic-evaluation summaries written by the logger (not part of the claim)')
