"""C11 — stochastic quantizers: on the grid, unbiased, finite; aggregators: mean, keys, bits.

Functions under contract (fedjax/aggregators/compression.py): binary_stochastic_quantize,
uniform_stochastic_quantize, terngrad_quantize, drive_pytree, the three *_pytree leaf loops,
and `apply` of the four aggregators (keys via C10.v_agg_keys, bits, mean).

Quantizers are executed at an arbitrary coordinate x of the vector with amin/amax/std as
symbols constrained by their definitions at that coordinate; the uniform draw u in [0, 1) is a
universally quantified symbol (grid / range / identity hold for EVERY u) and expectations over
u follow the rule LEM-UNIF:  E[where(u > t, a, b)] = a (1 - c) + b c,  c = clamp(t, 0, 1).
Real arithmetic with an explicit NaN flag (0/0); float32 obligations separately (FP32).
"""
from __future__ import annotations

import ast

import z3

from ..script import *  # noqa
from ..extract import parse

CP = 'fedjax/aggregators/compression.py'
R = z3.RealSort()
I = z3.IntSort()
B = z3.BoolSort()


# ---------------------------------------------------------------------------
# coordinate values

class CoordV(Val):
  """Value of an array expression at the arbitrary coordinate.

  val: Real term (meaningful when not nan); nan: Bool term; exp: expectation over the uniform
  draw (None when not tracked); det: does not depend on the draw; uni: it IS the draw."""

  def __init__(self, val, nan=None, exp=None, det=True, uni=False, tag=None):
    self.val = to_real(val)
    self.nan = z3.BoolVal(False) if nan is None else nan
    self.det = det
    self.exp = self.val if (det and exp is None) else exp
    self.uni = uni
    self.tag = tag           # which vector expression this is (for reductions)

  @property
  def term(self):
    return self.val

  def getattr(self, ctx, name):
    if name == 'shape':
      return ShapeTok()
    raise Unsupported(f'array.{name}')

  def binop(self, ctx, op, other, reflected):
    o = other if isinstance(other, CoordV) else CoordV(other)
    a, b = (o, self) if reflected else (self, o)
    nan = zor(a.nan, b.nan)
    det = a.det and b.det
    if op == 'Add':
      return CoordV(a.val + b.val, nan, None if (a.exp is None or b.exp is None) else a.exp + b.exp, det)
    if op == 'Sub':
      return CoordV(a.val - b.val, nan, None if (a.exp is None or b.exp is None) else a.exp - b.exp, det)
    if op == 'Mult':
      exp = None
      if a.det and b.exp is not None:
        exp = a.val * b.exp
      elif b.det and a.exp is not None:
        exp = a.exp * b.val
      return CoordV(a.val * b.val, nan, exp, det)
    if op == 'Div':
      # x / 0: NaN for 0/0; +-inf otherwise (obliged not to happen: no quantizer divides a non-zero by zero)
      ctx.oblige('div.inf', z3.Implies(z3.And(z3.Not(nan), b.val == 0), a.val == 0), kind='definedness',
                 detail='a non-zero value is never divided by zero (would be +-Inf)')
      nan2 = zor(nan, b.val == 0)
      q = a.val / z3.If(b.val == 0, z3.RealVal(1), b.val)
      exp = None
      if b.det and a.exp is not None:
        exp = a.exp / z3.If(b.val == 0, z3.RealVal(1), b.val)
      return CoordV(q, nan2, exp, det)
    raise Unsupported(f'array {op}')

  def unop(self, ctx, op):
    if op == 'USub':
      return CoordV(-self.val, self.nan, None if self.exp is None else -self.exp, self.det)
    raise Unsupported(f'array unary {op}')

  def compare(self, ctx, op, other):
    o = other if isinstance(other, CoordV) else CoordV(other)
    fn = {'Gt': lambda a, b: a > b, 'Lt': lambda a, b: a < b, 'GtE': lambda a, b: a >= b, 'LtE': lambda a, b: a <= b,
          'Eq': lambda a, b: a == b, 'NotEq': lambda a, b: a != b}[op]
    c = z3.And(z3.Not(self.nan), z3.Not(o.nan), fn(self.val, o.val))   # comparisons with NaN are False
    if self.uni and op == 'Gt' and o.det:
      return CondV(c, thr=o, det=False)
    return CondV(c, det=self.det and o.det)


class CondV(Val):
  def __init__(self, c, thr=None, det=True):
    self.c, self.thr, self.det = c, thr, det

  @property
  def term(self):
    return self.c


class ShapeTok(Val):
  pass


class FinfoV(Val):
  """jnp.finfo(jnp.float32)"""
  VALS = {'eps': 2.0 ** -23, 'tiny': 2.0 ** -126, 'max': 3.4028234663852886e38, 'min': -3.4028234663852886e38,
          'smallest_normal': 2.0 ** -126}

  def __init__(self, fp):
    self.fp = fp

  def getattr(self, ctx, name):
    if name not in self.VALS:
      raise Unsupported(f'finfo.{name}')
    v = self.VALS[name]
    if self.fp:
      return FPV(z3.FPVal(v, F32))
    import fractions
    fr = fractions.Fraction(v)
    return CoordV(z3.RealVal(f'{fr.numerator}/{fr.denominator}'))


def to_real(v):
  if isinstance(v, bool):
    v = int(v)
  if isinstance(v, (int, float)):
    return z3.RealVal(repr(v) if isinstance(v, float) else v)
  if isinstance(v, z3.ArithRef) and v.is_int():
    return z3.ToReal(v)
  return v


def cv(v):
  return v if isinstance(v, CoordV) else CoordV(v)


class Model:
  """Symbols of one quantizer run."""

  def __init__(self, ctx):
    self.ctx = ctx
    self.u = z3.Real('u')
    ctx.assume(z3.And(self.u >= 0, self.u < 1))
    self.n = 0
    self.red = {}

  def reduction(self, kind, v):
    """amin / amax / std of the vector whose coordinate value is v (facts: its definition at this coordinate)."""
    key = (kind, v.val.sexpr())
    if key in self.red:
      return self.red[key]
    self.n += 1
    r = z3.Real(f'{kind}{self.n}')
    if kind == 'amin':
      self.ctx.assume(r <= v.val)
    elif kind == 'amax':
      self.ctx.assume(r >= v.val)
    elif kind == 'std':
      self.ctx.assume(r >= 0)
    out = CoordV(r, v.nan)
    self.red[key] = out
    return out


def quant_globals():
  def M_(c):
    return c.tags['mdl']

  def nan_to_num(c, v):
    v = cv(v)
    val = z3.If(v.nan, z3.RealVal(0), v.val)
    exp = None if v.exp is None else z3.If(v.nan, z3.RealVal(0), v.exp)
    return CoordV(val, z3.BoolVal(False), exp, v.det)

  def minimum(c, a, b):
    a, b = cv(a), cv(b)
    return CoordV(z3.If(a.val <= b.val, a.val, b.val), zor(a.nan, b.nan), None, a.det and b.det)   # NaN propagates

  def maximum(c, a, b):
    a, b = cv(a), cv(b)
    return CoordV(z3.If(a.val >= b.val, a.val, b.val), zor(a.nan, b.nan), None, a.det and b.det)

  def rounding(name):
    def h(c, v):
      v = cv(v)
      mdl = M_(c)
      mdl.n += 1
      k = z3.Int(f'{name}{mdl.n}')
      kr = z3.ToReal(k)
      if name == 'floor':
        c.assume(z3.And(kr <= v.val, v.val < kr + 1))
      else:
        c.assume(z3.And(kr - 1 < v.val, v.val <= kr))
      out = CoordV(kr, v.nan, None, v.det)
      out.int_term = k
      return out
    return h

  def where(c, cond, a, b):
    a, b = cv(a), cv(b)
    if isinstance(cond, CondV):
      val = z3.If(cond.c, a.val, b.val)
      nan = z3.If(cond.c, a.nan, b.nan)
      exp = None
      if cond.thr is not None and a.det and b.det:
        # LEM-UNIF: P(u > t) = 1 - clamp(t, 0, 1) for u ~ U[0, 1), u independent of t, a, b.  A NaN threshold
        # compares False: the `b` branch with probability 1.
        t = cond.thr
        cl = z3.If(t.val < 0, z3.RealVal(0), z3.If(t.val > 1, z3.RealVal(1), t.val))
        exp = z3.If(t.nan, b.val, a.val * (1 - cl) + b.val * cl)
        return CoordV(val, nan, exp, det=False)
      if cond.det and a.exp is not None and b.exp is not None:
        exp = z3.If(cond.c, a.exp, b.exp)
      return CoordV(val, nan, exp, cond.det and a.det and b.det)
    raise Unsupported('where with a non-array condition')

  def absf(c, v):
    v = cv(v)
    return CoordV(z3.If(v.val >= 0, v.val, -v.val), v.nan, None, v.det)

  def sign(c, v):
    v = cv(v)
    return CoordV(z3.If(v.val > 0, z3.RealVal(1), z3.If(v.val < 0, z3.RealVal(-1), z3.RealVal(0))), v.nan, None, v.det)

  def uniform(c, key=None, shape=None, **kw):
    c.oblige('uniform.shape', isinstance(shape, ShapeTok), kind='pre', detail='one draw per coordinate of v')
    mdl = M_(c)
    mdl.key_used = key
    return CoordV(mdl.u, None, z3.RealVal('1/2'), det=False, uni=True)

  jnp = Module('jnp', {
      'amin': Handler(lambda c, v: M_(c).reduction('amin', cv(v)), 'jnp.amin'),
      'amax': Handler(lambda c, v: M_(c).reduction('amax', cv(v)), 'jnp.amax'),
      'std': Handler(lambda c, v: M_(c).reduction('std', cv(v)), 'jnp.std'),
      'nan_to_num': Handler(nan_to_num, 'jnp.nan_to_num'), 'minimum': Handler(minimum, 'jnp.minimum'),
      'maximum': Handler(maximum, 'jnp.maximum'), 'ceil': Handler(rounding('ceil'), 'jnp.ceil'),
      'floor': Handler(rounding('floor'), 'jnp.floor'), 'where': Handler(where, 'jnp.where'),
      'abs': Handler(absf, 'jnp.abs'), 'sign': Handler(sign, 'jnp.sign'),
      'float32': 'float32', 'finfo': Handler(lambda c, t: FinfoV(False), 'jnp.finfo')})
  jax = Module('jax', {'random': Module('jax.random', {'uniform': Handler(uniform, 'jax.random.uniform')})})
  return {'jnp': jnp, 'jax': jax}


# ---------------------------------------------------------------------------
# quantizers

def v_uniform(p):
  ex = p.extract(CP, 'uniform_stochastic_quantize')
  x = z3.Real('x')
  L = z3.Int('num_levels')
  jg = z3.Int('grid_index')

  def body(ctx):
    mdl = Model(ctx)
    ctx.tags['mdl'] = mdl
    ctx.model_vars.update(x=x, num_levels=L, u=mdl.u)
    ctx.assume(L >= 2)
    v = CoordV(x)
    kind, r = eng.run_function(ctx, ex.funcv(), [v, L, 'rng'])
    ctx.oblige('usq.noraise', kind == 'return')
    if kind != 'return':
      return
    ok = isinstance(r, CoordV) and len(mdl.red) == 2
    ctx.oblige('usq.result', ok, detail='an array, computed from amin(v) and amax(v)')
    if not ok:
      return
    m = mdl.red[('amin', x.sexpr())].val
    M = mdl.red[('amax', x.sexpr())].val
    ctx.model_vars.update(v_min=m, v_max=M)
    n1 = z3.ToReal(L - 1)
    step = (M - m) / n1
    ctx.oblige('usq.finite', z3.Not(r.nan), detail='no NaN: both 0/0 (constant vector; value on a grid point) are removed by nan_to_num')
    # range follows from usq.grid (lemma over the grid postcondition only: a small nonlinear query)
    qr, yv = z3.Reals('q_r y')
    p.oblige('usq.range', [0 <= qr, qr <= n1, n1 >= 1, m <= M, yv == m + qr / n1 * (M - m)], z3.And(m <= yv, yv <= M),
             kind='post', fn='uniform_stochastic_quantize', model_vars=dict(v_min=m, v_max=M, num_levels=L),
             detail='a grid point m + q (M - m)/(L - 1), 0 <= q <= L - 1, lies in [amin(v), amax(v)]: with usq.grid, the output '
                    'stays in range for every draw')
    ctx.oblige('usq.step', z3.And(r.val - x <= step, x - r.val <= step),
               detail='for every draw u the error is at most one grid step (v_max - v_min) / (num_levels - 1)')
    q = z3.Int('q')
    tt = (x - m) / z3.If(M == m, z3.RealVal(1), M - m) * n1
    ctx.oblige('usq.grid', z3.Exists([q], z3.And(0 <= q, q <= L - 1, r.val == m + z3.ToReal(q) / n1 * (M - m),
                                                   z3.ToReal(q) - 1 < tt, tt < z3.ToReal(q) + 1)),
               detail='for every draw u the output is a grid point m + q (M - m)/(L - 1) with q one of the two neighbours of '
                      'the rescaled input')
    ctx.oblige('usq.unbiased', z3.And(r.exp is not None, (r.exp if r.exp is not None else z3.RealVal(0)) == x),
               detail='E_u[output] = input (LEM-UNIF, then algebra)')
    ctx.oblige('usq.ident.constant', z3.Implies(M == m, r.val == x), detail='constant (and all-zero) vectors pass through for every draw')
    ctx.oblige('usq.ident.grid', z3.Implies(z3.And(0 <= jg, jg <= L - 1, x == m + z3.ToReal(jg) * (M - m) / n1), r.val == x),
               detail='a coordinate already on the grid passes through for every draw')
  eng = Engine(quant_globals())
  eng.sources = [CP]
  p.verify('uniform_stochastic_quantize', eng, body)


def v_binary(p):
  ex = p.extract(CP, 'binary_stochastic_quantize')
  x = z3.Real('x')

  def body(ctx):
    mdl = Model(ctx)
    ctx.tags['mdl'] = mdl
    ctx.model_vars.update(x=x, u=mdl.u)
    kind, r = eng.run_function(ctx, ex.funcv(), [CoordV(x), 'rng'])
    ctx.oblige('bin.noraise', kind == 'return')
    if kind != 'return':
      return
    ok = isinstance(r, CoordV) and len(mdl.red) == 2
    ctx.oblige('bin.result', ok)
    if not ok:
      return
    m = mdl.red[('amin', x.sexpr())].val
    M = mdl.red[('amax', x.sexpr())].val
    ctx.model_vars.update(v_min=m, v_max=M)
    ctx.oblige('bin.finite', z3.Not(r.nan), detail='no NaN: the 0/0 of a constant vector is removed by nan_to_num')
    ctx.oblige('bin.levels', z3.Or(r.val == m, r.val == M), detail='for every draw u the output is amin(v) or amax(v)')
    ctx.oblige('bin.unbiased', z3.And(r.exp is not None, (r.exp if r.exp is not None else z3.RealVal(0)) == x),
               detail='E_u[output] = input')
    ctx.oblige('bin.ident', z3.Implies(z3.Or(x == m, x == M), z3.Implies(M == m, r.val == x)),
               detail='constant vectors pass through for every draw')
    ctx.oblige('bin.ident.ends', z3.Implies(z3.And(M > m, x == M), r.val == x),
               detail='the maximum passes through for every draw (u < 1)')
  eng = Engine(quant_globals())
  eng.sources = [CP]
  p.verify('binary_stochastic_quantize', eng, body)


def v_tern(p):
  ex = p.extract(CP, 'terngrad_quantize')
  p.extract(CP, 'binary_stochastic_quantize')
  x = z3.Real('x')

  def body(ctx):
    mdl = Model(ctx)
    ctx.tags['mdl'] = mdl
    ctx.model_vars.update(x=x, u=mdl.u)
    kind, r = eng.run_function(ctx, ex.funcv(), [CoordV(x), 'rng'])
    ctx.oblige('tern.noraise', kind == 'return')
    if kind != 'return':
      return
    std = [v for (k, _), v in mdl.red.items() if k == 'std']
    amax = [v for (k, _), v in mdl.red.items() if k == 'amax']
    ok = isinstance(r, CoordV) and len(std) == 1 and len(amax) == 1
    ctx.oblige('tern.result', ok, detail='computed from std(v) and amax(|clipped v|)')
    if not ok:
      return
    sg, s = std[0].val, amax[0].val
    ctx.model_vars.update(sigma=sg, s=s)
    clip = z3.If(x > 2.5 * sg, 2.5 * sg, z3.If(x < -2.5 * sg, -2.5 * sg, x))
    ctx.oblige('tern.finite', z3.Not(r.nan), detail='no NaN (all-zero / constant vectors included)')
    ctx.oblige('tern.levels', z3.Or(r.val == 0, r.val == s, r.val == -s),
               detail='for every draw u the output is in {-s, 0, +s}, s = max |clipped v|')
    ctx.oblige('tern.unbiased', z3.And(r.exp is not None, (r.exp if r.exp is not None else z3.RealVal(0)) == clip),
               detail='E_u[output] = input clipped at 2.5 standard deviations')
  eng = Engine(quant_globals())
  eng.sources = [CP]
  p.verify('terngrad_quantize', eng, body)


def v_drive(p):
  """drive_pytree leaf expression: sum(x^2) * sign(x) / sum(|x|) at an arbitrary coordinate."""
  ex = p.extract(CP, 'drive_pytree')
  x = z3.Real('x')
  s2, s1 = z3.Reals('sum_sq sum_abs')

  g = quant_globals()
  seen = {}
  out = {}

  def setup():

    def jsum(c, v):
      v = cv(v)
      seen.setdefault('sums', []).append(v.tag)
      return CoordV({'sq': s2, 'abs': s1}.get(v.tag, z3.Real('sum_other')), v.nan, tag='sum')

    def power(c, v, e):
      v = cv(v)
      ok = (not is_z3(e)) and e == 2
      c.oblige('drive.power', ok)
      return CoordV(v.val * v.val, v.nan, tag='sq')
    g['jnp'].attrs['sum'] = Handler(jsum, 'jnp.sum')
    g['jnp'].attrs['power'] = Handler(power, 'jnp.power')
    old_abs = g['jnp'].attrs['abs']

    def absf(c, v):
      r = old_abs.fn(c, v) if hasattr(old_abs, 'fn') else None
      v = cv(v)
      return CoordV(z3.If(v.val >= 0, v.val, -v.val), v.nan, tag='abs')
    g['jnp'].attrs['abs'] = Handler(absf, 'jnp.abs')

    class LeafTree(Val):
      pass

    def flatten(c, t):
      return (c.alloc(PyListCell([CoordV(x)])), 'treedef')

    def unflatten(c, td, leaves):
      out['leaves'] = list(leaves.cell(c).items)
      return LeafTree()
    g['jax'].attrs['tree_util'] = Module('jax.tree_util', {'tree_flatten': Handler(flatten, 'tree_flatten'),
                                                           'tree_unflatten': Handler(unflatten, 'tree_unflatten')})
    return LeafTree
  LeafTree = setup()
  eng = Engine(g)
  eng.sources = [CP]

  def body(ctx):
    ctx.tags['mdl'] = Model(ctx)
    out.clear()
    ctx.model_vars.update(x=x, sum_sq=s2, sum_abs=s1)
    # definitions of the sums at this coordinate: sum|x| >= |x| >= 0, sum x^2 >= x^2, and one is 0 iff the other is
    ax = z3.If(x >= 0, x, -x)
    ctx.assume(z3.And(s1 >= ax, s2 >= x * x, (s1 == 0) == (s2 == 0)))
    kind, r = eng.run_function(ctx, ex.funcv(), [LeafTree()])
    ctx.oblige('drive.noraise', kind == 'return')
    if kind != 'return' or 'leaves' not in out or len(out['leaves']) != 1:
      ctx.oblige('drive.result', False)
      return
    y = out['leaves'][0]
    ctx.oblige('drive.finite', z3.Not(y.nan), detail='no NaN, all-zero leaves included (0 * 0 / 0)')
    sgn = z3.If(x > 0, 1, z3.If(x < 0, -1, 0))
    ctx.oblige('drive.scale', z3.Implies(s1 != 0, y.val == s2 / s1 * sgn),
               detail='DRIVE: sign(x) * ||x||_2^2 / ||x||_1 (unbiased scale of section 4.2)')
    ctx.oblige('drive.zero', z3.Implies(s1 == 0, y.val == 0), detail='an all-zero leaf is quantized to zero')
  p.verify('drive_pytree', eng, body)


# ---------------------------------------------------------------------------
# pytree versions: leaf j is quantized with key split(rng, n)[j]

def v_leaf_loops(p):
  from .. import lib_leaf as LL
  leaves = z3.Const('leaves', LL.IS)
  n = z3.Length(leaves)
  td = z3.Const('tree_def', LL.TD)
  k = z3.Const('rng', LL.Key)
  j0 = z3.Int('j0')
  L = z3.Int('num_levels')
  USQ = z3.Function('USQ', I, I, LL.Key, I)       # uniform_stochastic_quantize(leaf, num_levels, key)
  TERN = z3.Function('TERN', I, LL.Key, I)        # terngrad_quantize(leaf, key)
  for fn, args, want, handlers in (
      ('uniform_stochastic_quantize_pytree', lambda: [LL.TreeV(td, leaves), L, LL.KeyV(k)],
       lambda j: USQ(leaves[j], L, LL.SPLIT(k, n, j)),
       {'uniform_stochastic_quantize': Handler(lambda c, l, lv, r: LL.IdV(USQ(l.term, to_z3(lv), r.term)), 'usq')}),
      ('terngrad_quantize_pytree', lambda: [LL.TreeV(td, leaves), LL.KeyV(k)],
       lambda j: TERN(leaves[j], LL.SPLIT(k, n, j)),
       {'terngrad_quantize': Handler(lambda c, l, r: LL.IdV(TERN(l.term, r.term)), 'terngrad_quantize')})):
    ex = p.extract(CP, fn)
    eng = LL.engine(handlers)
    eng.sources = [CP]

    def inv(s, want=want):
      it = to_z3(s.it)
      nl = s['new_leaves']
      return dict(pos=z3.And(0 <= it, it <= n, z3.Length(nl) == it),
                  leaf=z3.Implies(z3.And(0 <= j0, j0 < it), nl[j0] == want(j0)))

    def body(ctx, ex=ex, args=args, want=want, inv=inv, eng=eng):
      ctx.model_vars.update(j0=j0, num_leaves=n)
      kind, r = eng.run_function(ctx, ex.funcv(loops={0: Loop(inv=inv, expect='zip')}), args())
      ctx.oblige('leaf.noraise', kind == 'return')
      if kind != 'return':
        return
      ok = isinstance(r, LL.TreeV)
      ctx.oblige('leaf.result', ok)
      if ok:
        ctx.oblige('leaf.keys', z3.And(r.tdef == td, z3.Length(r.seq) == n,
                                       z3.Implies(z3.And(0 <= j0, j0 < n), r.seq[j0] == want(j0))),
                   detail='same tree structure; leaf j is quantized with its own key split(rng, n)[j]')
    p.verify(fn, eng, body)


# ---------------------------------------------------------------------------
# aggregators: bits and mean (keys: C10.v_agg_keys)

TreeS = z3.DeclareSort('Tree')


def v_aggregators(p):
  from .. import lib_leaf as LL
  _, tree = parse(CP)
  Key = LL.Key
  S0, S1 = z3.Function('split0', Key, Key), z3.Function('split1', Key, Key)
  SEQ = z3.Function('prng_sequence', Key, I, Key)       # i-th key of hk.PRNGSequence(seed)
  PARAMS = z3.Function('client_params', I, TreeS)
  WEIGHT = z3.Function('client_weight', I, R)
  USQP = z3.Function('usq_pytree', TreeS, I, Key, TreeS)
  TERNP = z3.Function('terngrad_pytree', TreeS, Key, TreeS)
  DRIVEP = z3.Function('drive_pytree', TreeS, TreeS)
  ROTP = z3.Function('rotation_pytree', TreeS, Key, TreeS)
  SHP = z3.Function('rotation_shapes', TreeS, TreeS)
  INVP = z3.Function('inverse_rotation_pytree', TreeS, Key, TreeS, TreeS)
  SIZE = z3.Function('tree_size', TreeS, R)
  LEAVES = z3.Function('num_leaves', TreeS, R)
  MEAN = z3.Const('tree_mean_result', TreeS)
  LOG2 = z3.Function('log2', R, R)
  L = z3.Int('num_levels')
  i0 = z3.Int('client_index')
  k0 = z3.Const('state_rng', Key)
  bits0 = z3.Real('num_bits')

  class KV(Val):
    def __init__(self, term):
      self.term = term

  class TV(Val):
    def __init__(self, term):
      self.term = term

  class ClientsV(Val):
    pass

  class SeqKeysV(Val):
    def __init__(self, seed):
      self.seed = seed

  class RepeatV(Val):
    def __init__(self, v):
      self.v = v

  class ZipIt(Val):
    def __init__(self, clients, keys):
      self.clients, self.keys = clients, keys

  class MapIt(Val):
    def __init__(self, f, src):
      self.f, self.src = f, src

  def elem(ctx, it):
    """the i0-th element of a lazy iterable"""
    if isinstance(it, ZipIt):
      key = it.keys.v if isinstance(it.keys, RepeatV) else KV(SEQ(it.keys.seed, i0))
      return ((StrV(), TV(PARAMS(i0)), WEIGHT(i0)), key)
    if isinstance(it, MapIt):
      args = elem(ctx, it.src)
      return ctx.engine.call_value(ctx, it.f, list(args), {})
    raise Unsupported('iterable')

  got = {}

  def tree_mean(ctx, it):
    ok = isinstance(it, MapIt)
    ctx.oblige('agg.mean.lazy', ok, detail='tree_mean consumes the (lazy) per-client quantization')
    if not ok:
      raise PathDead()
    q, w = elem(ctx, it)
    got['q'], got['w'] = q, w
    return TV(MEAN)

  def zip_(ctx, a, b):
    ok = isinstance(a, ClientsV) and isinstance(b, (SeqKeysV, RepeatV))
    ctx.oblige('agg.zip', ok, detail='clients are zipped with the per-round key sequence')
    if not ok:
      raise PathDead()
    return ZipIt(a, b)

  def split(ctx, key, num=2):
    return (KV(S0(key.term)), KV(S1(key.term)))
  g = {
      'jax': Module('jax', {'random': Module('jax.random', {'split': Handler(split, 'split')})}),
      'hk': Module('hk', {'PRNGSequence': Handler(lambda c, k: SeqKeysV(k.term), 'hk.PRNGSequence')}),
      'itertools': Module('itertools', {'starmap': Handler(lambda c, f, it: MapIt(f, it), 'itertools.starmap'),
                                        'repeat': Handler(lambda c, v: RepeatV(v), 'itertools.repeat')}),
      'zip': Handler(zip_, 'zip'),
      'tree_util': Module('tree_util', {'tree_mean': Handler(tree_mean, 'tree_mean'),
                                        'tree_size': Handler(lambda c, t: SIZE(t.term), 'tree_size')}),
      'num_leaves': Handler(lambda c, t: LEAVES(t.term), 'num_leaves'),
      'math': Module('math', {'log2': Handler(lambda c, v: LOG2(to_real(to_z3(v))), 'math.log2')}),
      'uniform_stochastic_quantize_pytree': Handler(lambda c, t, lv, k: TV(USQP(t.term, to_z3(lv), k.term)), 'usq_pytree'),
      'terngrad_quantize_pytree': Handler(lambda c, t, k: TV(TERNP(t.term, k.term)), 'terngrad_pytree'),
      'drive_pytree': Handler(lambda c, t: TV(DRIVEP(t.term)), 'drive_pytree'),
      'walsh_hadamard': Module('walsh_hadamard', {
          'structured_rotation_pytree': Handler(lambda c, t, k: (TV(ROTP(t.term, k.term)), TV(SHP(t.term))), 'rotation'),
          'inverse_structured_rotation_pytree': Handler(lambda c, t, k, s_: TV(INVP(t.term, k.term, s_.term)), 'inverse')}),
      'encode_algorithm': None, 'num_levels': L, 'rng': KV(z3.Const('ctor_rng', Key)),
  }
  specs = {
      'uniform_stochastic_quantizer': (lambda key, rot: USQP(PARAMS(i0), L, key), LOG2(z3.ToReal(L))),
      'rotated_uniform_stochastic_quantizer': (
          lambda key, rot: INVP(USQP(ROTP(PARAMS(i0), rot), L, key), rot, SHP(PARAMS(i0))), LOG2(z3.ToReal(L))),
      'structured_drive_quantizer': (lambda key, rot: INVP(DRIVEP(ROTP(PARAMS(i0), key)), key, SHP(PARAMS(i0))), z3.RealVal(1)),
      'terngrad_quantizer': (lambda key, rot: TERNP(PARAMS(i0), key), LOG2(z3.RealVal(3))),
  }
  factories = [n_ for n_ in tree.body if isinstance(n_, ast.FunctionDef) and
               any(isinstance(m_, ast.FunctionDef) and m_.name == 'apply' for m_ in ast.walk(n_))]
  p.oblige('agg.factories', [], z3.BoolVal(sorted(f.name for f in factories) == sorted(specs)), kind='post', fn='compression',
           detail=f'the four compression aggregators are found: {[f.name for f in factories]}')
  for fac in factories:
    if fac.name not in specs:
      continue
    ex = p.extract(CP, f'{fac.name}.<locals>.apply')
    eng = Engine(g)
    eng.sources = [CP]
    want_q, per_param = specs[fac.name]

    def body(ctx, ex=ex, fac=fac, want_q=want_q, per_param=per_param, eng=eng):
      got.clear()
      ctx.model_vars.update(client_index=i0, num_levels=L)
      ctx.assume(z3.And(L >= 2, i0 >= 0))
      cs = eng._resolve_in(ctx, CP, 'CompressionState')[0]
      st = ctx.alloc(ObjCell(cs, dict(num_bits=bits0, rng=KV(k0)), owner='param', label='aggregator_state'))
      kind, r = eng.run_function(ctx, ex.funcv(), [ClientsV(), st])
      ctx.oblige('agg.noraise', kind == 'return')
      ok = kind == 'return' and isinstance(r, tuple) and len(r) == 2 and isinstance(r[1], Ref) and 'q' in got
      ctx.oblige('agg.shape', ok, detail='returns (aggregate, new state); the aggregate comes from tree_mean')
      if not ok:
        return
      out, ns = r
      ctx.oblige('agg.mean', isinstance(out, TV) and out.term.eq(MEAN),
                 detail='the aggregate IS tree_util.tree_mean of the per-client (quantized tree, weight) pairs (C07: the weighted mean)')
      q, w = got['q'], got['w']
      # which keys: the sequence seeded by a split[1] key of the state-key spine; rotation key for the rotated quantizer
      seed = S1(k0) if fac.name != 'rotated_uniform_stochastic_quantizer' else S1(S0(k0))
      rot = S1(k0)
      ctx.oblige('agg.mean.elt', z3.And(isinstance(q, TV), to_z3(w) == WEIGHT(i0),
                                        (q.term if isinstance(q, TV) else MEAN) == want_q(SEQ(seed, i0), rot)),
                 detail=f'{fac.name}: client i contributes its own weight and its own update quantized with the i-th key of the '
                        'round key sequence (rotated: rotation and inverse rotation with the same per-round key and the shapes of '
                        'that client; DRIVE: rotation, inverse and quantization per client key)')
      nb = ns.cell(ctx).fields.get('num_bits')
      size, leaves_ = SIZE(MEAN), LEAVES(MEAN)
      ctx.oblige('agg.bits', to_z3(nb) == bits0 + per_param * size + 64 * leaves_,
                 detail=f'{fac.name}: num_bits grows by (bits per parameter) * tree_size + 2 * 32 * num_leaves')
    p.verify(f'{fac.name}.apply[mean,bits]', eng, body)


# ---------------------------------------------------------------------------
# float32 obligations: no NaN / Inf for finite inputs

F32 = z3.Float32()
RNE = z3.RNE()
FLT_MAX = z3.FPVal(3.4028234663852886e38, F32)


class FPV(Val):
  def __init__(self, t):
    self.t = t

  @property
  def term(self):
    return self.t

  def getattr(self, ctx, name):
    if name == 'shape':
      return ShapeTok()
    raise Unsupported(f'array.{name}')

  def binop(self, ctx, op, other, reflected):
    if op == 'Neg':
      return FPV(z3.fpNeg(self.t))
    o = fpv(other)
    a, b = (o.t, self.t) if reflected else (self.t, o.t)
    return FPV(ctx.engine.fp_arith(ctx, op, a, b))

  def compare(self, ctx, op, other):
    o = fpv(other).t
    a = self.t
    return {'Eq': z3.fpEQ(a, o), 'NotEq': z3.Not(z3.fpEQ(a, o)), 'Lt': z3.fpLT(a, o), 'LtE': z3.fpLEQ(a, o),
            'Gt': z3.fpGT(a, o), 'GtE': z3.fpGEQ(a, o)}[op]


def fpv(v):
  if isinstance(v, FPV):
    return v
  if isinstance(v, z3.FPRef):
    return FPV(v)
  if isinstance(v, (int, float)):
    return FPV(z3.FPVal(float(v), F32))
  raise Unsupported(f'float32 value {v!r}')


def finite(t):
  return z3.Not(z3.Or(z3.fpIsNaN(t), z3.fpIsInf(t)))


def fp_globals():
  def T(c):
    return c.tags['fp']

  def red(kind):
    def h(c, v):
      v = fpv(v)
      st = T(c)
      key = (kind, v.t.sexpr())
      if key not in st['red']:
        r = z3.FP(f'{kind}{len(st["red"])}', F32)
        if kind == 'amin':
          c.assume(z3.And(finite(r), z3.fpLEQ(r, v.t)))
        elif kind == 'amax':
          c.assume(z3.And(finite(r), z3.fpGEQ(r, v.t)))
        elif kind == 'std':
          c.assume(z3.And(z3.Not(z3.fpIsNaN(r)), z3.fpGEQ(r, z3.FPVal(0.0, F32))))     # may overflow to +inf
        elif kind == 'sum':
          c.assume(z3.And(z3.Not(z3.fpIsNaN(r)), z3.fpGEQ(r, z3.FPVal(0.0, F32))))     # sum of non-negatives: >= 0, maybe +inf
        st['red'][key] = r
      return FPV(st['red'][key])
    return h

  def nan_to_num(c, v):
    t = fpv(v).t
    return FPV(z3.If(z3.fpIsNaN(t), z3.FPVal(0.0, F32), z3.If(z3.fpIsInf(t), z3.If(z3.fpIsNegative(t), z3.fpNeg(FLT_MAX), FLT_MAX), t)))

  def minimum(c, a, b):
    a, b = fpv(a).t, fpv(b).t
    return FPV(z3.If(z3.Or(z3.fpIsNaN(a), z3.fpIsNaN(b)), z3.fpNaN(F32), z3.fpMin(a, b)))

  def maximum(c, a, b):
    a, b = fpv(a).t, fpv(b).t
    return FPV(z3.If(z3.Or(z3.fpIsNaN(a), z3.fpIsNaN(b)), z3.fpNaN(F32), z3.fpMax(a, b)))

  def where(c, cond, a, b):
    return FPV(z3.If(cond, fpv(a).t, fpv(b).t))

  def uniform(c, key=None, shape=None, **kw):
    u = z3.FP('u32', F32)
    c.assume(z3.And(z3.fpGEQ(u, z3.FPVal(0.0, F32)), z3.fpLT(u, z3.FPVal(1.0, F32))))
    return FPV(u)

  def sign(c, v):
    t = fpv(v).t
    zero = z3.FPVal(0.0, F32)
    return FPV(z3.If(z3.fpIsNaN(t), t, z3.If(z3.fpGT(t, zero), z3.FPVal(1.0, F32), z3.If(z3.fpLT(t, zero), z3.FPVal(-1.0, F32), t))))

  def power(c, v, e):
    t = fpv(v).t
    if is_z3(e) or e != 2:
      raise Unsupported('power other than 2')
    return FPV(z3.fpMul(RNE, t, t))
  jnp = Module('jnp', {
      'amin': Handler(red('amin'), 'jnp.amin'), 'amax': Handler(red('amax'), 'jnp.amax'), 'std': Handler(red('std'), 'jnp.std'),
      'sum': Handler(red('sum'), 'jnp.sum'), 'power': Handler(power, 'jnp.power'),
      'nan_to_num': Handler(nan_to_num, 'jnp.nan_to_num'), 'minimum': Handler(minimum, 'jnp.minimum'),
      'maximum': Handler(maximum, 'jnp.maximum'),
      'ceil': Handler(lambda c, v: FPV(z3.fpRoundToIntegral(z3.RTP(), fpv(v).t)), 'jnp.ceil'),
      'floor': Handler(lambda c, v: FPV(z3.fpRoundToIntegral(z3.RTN(), fpv(v).t)), 'jnp.floor'),
      'where': Handler(where, 'jnp.where'), 'abs': Handler(lambda c, v: FPV(z3.fpAbs(fpv(v).t)), 'jnp.abs'),
      'sign': Handler(sign, 'jnp.sign'), 'float32': 'float32', 'finfo': Handler(lambda c, t: FinfoV(True), 'jnp.finfo')})
  jax = Module('jax', {'random': Module('jax.random', {'uniform': Handler(uniform, 'jax.random.uniform')})})
  return {'jnp': jnp, 'jax': jax}


def v_fp(p):
  x = z3.FP('x32', F32)
  nl = z3.FP('num_levels32', F32)
  eng = Engine(fp_globals())
  eng.sources = [CP]

  def run(name, fn, args, post):
    ex = p.extract(CP, fn)

    def body(ctx):
      ctx.tags['fp'] = {'red': {}}
      ctx.model_vars.update(x=x)
      ctx.assume(finite(x))
      kind, r = eng.run_function(ctx, ex.funcv(), args())
      ctx.oblige(f'fp.{name}.noraise', kind == 'return')
      if kind == 'return':
        post(ctx, r)
    p.verify(f'{fn}[float32]', eng, body)

  def post_usq(ctx, r):
    red = ctx.tags['fp']['red']
    m = [v for (k, _), v in red.items() if k == 'amin']
    M = [v for (k, _), v in red.items() if k == 'amax']
    if len(m) != 1 or len(M) != 1:
      ctx.oblige('fp.usq.result', False)
      return
    ctx.model_vars.update(v_min=m[0], v_max=M[0], num_levels=nl)
    d = z3.fpSub(RNE, M[0], m[0])
    ctx.oblige('fp.usq.range', finite(d), kind='definedness',
               detail='v_max - v_min does not overflow float32')
    big = z3.FPVal(2.0 ** 100, F32)
    moderate = z3.And(z3.fpLEQ(z3.fpAbs(m[0]), big), z3.fpLEQ(z3.fpAbs(M[0]), big))
    ctx.oblige('fp.usq.finite', z3.Implies(moderate, finite(r.t)),
               detail='float32 (IEEE-754, round to nearest even): for |values| <= 2^100 the result is neither NaN nor Inf, for every '
                      'level count 2..2^24 and every draw')

  def usq_args():
    return [FPV(x), FPV(nl), 'rng']
  def usq_pre(ctx):
    pass
  ex = p.extract(CP, 'uniform_stochastic_quantize')

  def body_usq(ctx):
    ctx.tags['fp'] = {'red': {}}
    ctx.model_vars.update(x=x)
    # num_levels as a float32: an integer in [2, 2^24]
    ctx.assume(z3.And(finite(x), z3.fpEQ(z3.fpRoundToIntegral(z3.RTZ(), nl), nl), z3.fpGEQ(nl, z3.FPVal(2.0, F32)),
                      z3.fpLEQ(nl, z3.FPVal(16777216.0, F32))))
    kind, r = eng.run_function(ctx, ex.funcv(), usq_args())
    ctx.oblige('fp.usq.noraise', kind == 'return')
    if kind == 'return':
      post_usq(ctx, r)
  p.verify('uniform_stochastic_quantize[float32]', eng, body_usq)

  def post_bin(ctx, r):
    ctx.oblige('fp.bin.finite', finite(r.t), detail='float32: binary quantization never produces NaN / Inf')
  run('bin', 'binary_stochastic_quantize', lambda: [FPV(x), 'rng'], post_bin)

  def post_tern(ctx, r):
    ctx.oblige('fp.tern.finite', finite(r.t), detail='float32: TernGrad never produces NaN / Inf (std may overflow to +inf)')
  run('tern', 'terngrad_quantize', lambda: [FPV(x), 'rng'], post_tern)


# D-11b: v_max - v_min overflows float32 -> 0 * inf = NaN (not repaired: needs a rescaled computation)
KNOWN_REGIONS = {
    'range-overflows-float32': lambda mv: z3.fpIsInf(z3.fpSub(RNE, mv['v_max'], mv['v_min'])),
}


def build(p):
  D = 'native/C11.py'
  p.native('', D, 'quantizers')
  v_uniform(p)
  v_binary(p)
  v_tern(p)
  v_drive(p)
  v_fp(p)
  v_leaf_loops(p)
  v_aggregators(p)
  from . import C10
  C10.v_agg_keys(p)
  # the bit count of a round is a function of this round's clients only: every accumulator an aggregator
  # appends to (the per-client code lengths of the arithmetic mode) is created inside the call
  C10.v_frames(p, files=[C10.AGG], min_sites=1)
  p.native('uniform_stochastic_quantize[float32]', D, 'quantizers',
           lambda m: dict(kind='usq', vec='huge', num_levels=4, seed=0, draws=2))
  p.native('uniform_stochastic_quantizer', D, 'aggregators')
  p.native('uniform_stochastic_quantize_pytree', D, 'leafwise')
  p.native('terngrad_quantize_pytree', D, 'leafwise')
  p.native('rotated_uniform', D, 'aggregators')
  p.native('structured_drive', D, 'aggregators')
  p.native('terngrad_quantizer', D, 'aggregators')
  p.native_checks = [
      dict(name='statistical_unbiasedness_and_grid', driver=D, payload={'mode': 'sweep', 'fn': 'quantizers'},
           bound='9 vector kinds (random, outlier, size 1, constant, zeros, on-grid, wide dynamic range, negative, matrix), '
                 'levels 2/4/17, 200 keys (400 thorough) for the mean test at 6 standard errors',
           why_bounded='expectation over the PRNG checked by sampling: a cross-check of LEM-UNIF, not a proof'),
      dict(name='aggregator_rounds', driver=D, payload={'mode': 'sweep', 'fn': 'aggregators'},
           bound='4 aggregators x 3 rounds x 3 clients: bits formula, distinct state keys, aggregate = mean of per-client '
                 'quantized trees with the expected keys, consecutive rounds differ',
           why_bounded='PRNG independence is a statistical statement'),
      dict(name='zero_leaf', driver=D, payload={'mode': 'sweep', 'fn': 'zero_leaf'},
           bound='4 aggregators on a tree with an all-zero leaf', why_bounded='end-to-end composition')]
  p.trust('LEM-UNIF: for u ~ U[0,1) independent of t, a, b: E[where(u > t, a, b)] = a (1 - clamp(t)) + b clamp(t); linearity of '
          'expectation for deterministic scale and offset',
          'amin/amax/std/sum enter through their definitions at the coordinate (amin <= x <= amax, std >= 0, sum|x| >= |x|, ...)',
          'real arithmetic with an explicit NaN flag for 0/0; comparisons with NaN are False; jnp.nan_to_num(NaN) = 0; '
          'jnp.minimum/maximum propagate NaN',
          'float32 rounding and overflow are not modelled in the grid / unbiasedness obligations (see FP32 obligations)',
          'C07: tree_util.tree_mean is the weighted mean; C18: inverse rotation with the same key restores the tree',
          'hk.PRNGSequence(seed) yields distinct keys derived from seed only; jax.random.split halves are independent')
  p.not_covered.append("encode_algorithm='arithmetic' bit accounting (entropy code lengths): not under contract")
  p.not_covered.append('statistical independence across clients and rounds beyond "different keys": a PRNG property')
