"""C10 — a training round is a pure function of (server state, clients).

Method: OWN frame checker (pyvc/own.py) over the real ASTs of every round
function of every built-in algorithm and compression aggregator — each
mutation site is one obligation "the mutated object was created in this call";
no `nonlocal`/`global`; no nondeterministic source; key plumbing of the
aggregators (state key <- split[0], per-client keys <- PRNGSequence(split[1]));
frozen pytree dataclasses.  Value-level equality for the FedAvg skeleton is the
postcondition apply.post/apply.state of C01 (and C12 for FedProx).
"""
from __future__ import annotations

import ast
import glob
import os

import z3

from ..script import *  # noqa
from .. import own
from ..extract import REPO, parse

ALGS = ['fed_avg', 'fed_prox', 'mime', 'mime_lite', 'agnostic_fed_avg', 'hyp_cluster', 'apfl']
AGG = 'fedjax/aggregators/compression.py'
DC = 'fedjax/core/dataclasses.py'


def fact(p, name, ok, detail, fn):
  p.oblige(name, [], z3.BoolVal(bool(ok)), kind='frame', detail=detail, fn=fn)


def v_frames(p, files=None, min_sites=15):
  files = files or [f'fedjax/algorithms/{a}.py' for a in ALGS] + [AGG, 'fedjax/aggregators/aggregator.py',
                                                                   'fedjax/core/federated_algorithm.py']
  n_sites = 0
  for rel in files:
    src, tree = parse(rel)
    for n in tree.body:
      if not isinstance(n, ast.FunctionDef):
        continue
      ex = p.extract(rel, n.name)
      sites, nondet = own.analyze_function(n, n.name)
      for s in sites:
        n_sites += 1
        fact(p, f'frame.state:{s.fn}@{s.what.strip()}', s.ok,
             f'{rel}:{s.lineno}: `{s.what.strip()}` — {s.why}', s.fn)
      bad = [f'{rel}:{s.lineno} {s.what.strip()}' for s in sites if not s.ok]
      fact(p, f'frame.all:{n.name}', not bad,
           f'{rel}::{n.name}: every mutation site (the ones present today and any added later) mutates an object created in '
           f'the same call ({bad})', n.name)
      fact(p, f'determ.sources:{n.name}', not nondet,
           f'{rel}::{n.name} uses no global RNG / clock / OS entropy ({nondet})', n.name)
      lazy = own.lazy_in_state(n)
      fact(p, f'frame.lazy:{n.name}', not lazy,
           f'{rel}::{n.name} stores no single-use iterator (map / zip / generator object) in a state it returns: reading a '
           f'state must not change it ({lazy})', n.name)
      rebind = [x for x in ast.walk(n) if isinstance(x, (ast.Nonlocal, ast.Global))]
      fact(p, f'frame.globals:{n.name}', not rebind,
           f'{rel}::{n.name} never rebinds closure or module variables', n.name)
  fact(p, 'frame.sites', n_sites >= min_sites, f'{n_sites} mutation sites were analysed (vacuity guard)', 'OWN')


def v_hparams_passthrough(p):
  """Every batching call of the round functions gets the hyper-parameter object the algorithm was built with, unchanged:
  the argument of .shuffle_repeat_batch(...) / .padded_batch(...) is a parameter name of an enclosing function, never a value
  derived inside the round (a derived copy can lose the seed - seed=None draws OS entropy - or the step limits)."""
  total, bad = 0, []
  for a in ALGS:
    rel = f'fedjax/algorithms/{a}.py'
    _, tree = parse(rel)
    parents = {}
    for n in ast.walk(tree):
      for c in ast.iter_child_nodes(n):
        parents[c] = n
    for c in ast.walk(tree):
      if isinstance(c, ast.Call) and isinstance(c.func, ast.Attribute) and c.func.attr in ('shuffle_repeat_batch', 'padded_batch'):
        total += 1
        ok = len(c.args) == 1 and not c.keywords and isinstance(c.args[0], ast.Name)
        if ok:
          name, n, is_param, rebound = c.args[0].id, c, False, False
          while n in parents:
            n = parents[n]
            if isinstance(n, (ast.FunctionDef, ast.Lambda)):
              args = n.args
              if name in [x.arg for x in args.args + args.kwonlyargs + args.posonlyargs]:
                is_param = True
              if isinstance(n, ast.FunctionDef) and any(
                  isinstance(t, ast.Name) and t.id == name for st in ast.walk(n) if isinstance(st, (ast.Assign, ast.AugAssign, ast.AnnAssign))
                  for t in (st.targets if isinstance(st, ast.Assign) else [st.target])):
                rebound = True
              if is_param:
                break
          ok = is_param and not rebound
        if not ok:
          bad.append(f'{rel}:{c.lineno} {ast.unparse(c)[:80]}')
  fact(p, 'hparams.passthrough', total >= 12 and not bad,
       f'{total} batching calls in the algorithm modules pass a builder parameter unchanged ({bad})', 'algorithms')


def v_dataclass(p):
  ex = p.extract(DC, 'dataclass')
  node = ex.node
  calls = [c for c in ast.walk(node) if isinstance(c, ast.Call) and ast.unparse(c.func) == 'dataclasses.dataclass']
  frozen = any(any(k.arg == 'frozen' and isinstance(k.value, ast.Constant) and k.value.value is True
                   for k in c.keywords) for c in calls)
  fact(p, 'frozen.dataclass', frozen, 'fedjax dataclasses are frozen: fields of a server state cannot be re-assigned',
       'dataclass')
  rep = [f for f in ast.walk(node) if isinstance(f, ast.FunctionDef) and f.name == 'replace']
  ok = bool(rep) and any(isinstance(c, ast.Call) and ast.unparse(c.func) == 'dataclasses.replace'
                         for c in ast.walk(rep[0]))
  fact(p, 'frozen.replace', ok, 'replace() builds a new object (dataclasses.replace)', 'dataclass')
  # every server-state class of the algorithms is such a dataclass
  for a in ALGS:
    src, tree = parse(f'fedjax/algorithms/{a}.py')
    for n in tree.body:
      if isinstance(n, ast.ClassDef) and n.name.endswith('State'):
        decs = [ast.unparse(d) for d in n.decorator_list]
        fact(p, f'frozen.state:{a}.{n.name}', 'dataclasses.dataclass' in decs,
             f'{a}.{n.name} is a fedjax (frozen, pytree) dataclass', n.name)


def v_agg_keys(p):
  """agg.keys: state key <- split(state.rng)[0]; clients <- PRNGSequence(split(state.rng)[1])."""
  from ..lib_fd import OpaqueV
  src, tree = parse(AGG)
  K = z3.DeclareSort('AggKey')
  S0 = z3.Function('split0', K, K)
  S1 = z3.Function('split1', K, K)

  class KeyV(Val):
    def __init__(self, term):
      self.term = term

  class SeqKeysV(Val):
    def __init__(self, seed):
      self.seed = seed

  OpaqueV.method = lambda self, ctx, name, args, kwargs: OpaqueV()
  OpaqueV.binop = lambda self, ctx, op, other, reflected: OpaqueV()
  OpaqueV.call = lambda self, ctx, args, kwargs: OpaqueV()
  OpaqueV.truth = lambda self, ctx: ctx.fresh('opaque_truth', 'bool')
  OpaqueV.length = lambda self, ctx: ctx.fresh('opaque_len')
  OpaqueV.compare = lambda self, ctx, op, other: ctx.fresh('opaque_cmp', 'bool')
  opq = Handler(lambda ctx, *a, **k: OpaqueV(), 'pure library call')

  class Anything(Module):
    def getattr(self, ctx, name):
      return self.attrs.get(name, opq)

  factories = [n for n in tree.body if isinstance(n, ast.FunctionDef) and
               any(isinstance(m, ast.FunctionDef) and m.name == 'apply' for m in ast.walk(n))]
  fact(p, 'agg.factories', len(factories) == 4, f'{len(factories)} compression aggregators found', 'compression')
  for fac in factories:
    ex = p.extract(AGG, f'{fac.name}.<locals>.apply')
    k0 = z3.Const('state_rng', K)
    seen = {}

    def prng_seq(ctx, key, seen=seen):
      seen['seed'] = key
      return SeqKeysV(key)
    g = {
        'jax': Anything('jax', {'random': Anything('jax.random', {'split': Handler(
            lambda ctx, k, num=2: (KeyV(S0(k.term)), KeyV(S1(k.term))), 'split')})}),
        'hk': Anything('hk', {'PRNGSequence': Handler(prng_seq, 'hk.PRNGSequence')}),
        'itertools': Anything('itertools'), 'tree_util': Anything('tree_util'), 'math': Anything('math'),
        'jnp': Anything('jnp'), 'walsh_hadamard': Anything('walsh_hadamard'),
        'zip': opq, 'sum': opq, 'len': opq, 'num_leaves': opq, 'map': opq,
        'arithmetic_encoding_num_bits': opq,
        'encode_algorithm': None, 'num_levels': z3.Int('num_levels'), 'rng': KeyV(z3.Const('ctor_rng', K)),
    }
    eng = Engine(g)
    eng.sources = [AGG]
    CS = None

    def body(ctx, ex=ex, fac=fac, seen=seen):
      seen.clear()
      cs = eng._resolve_in(ctx, AGG, 'CompressionState')[0]
      st = ctx.alloc(ObjCell(cs, dict(num_bits=z3.Real('num_bits'), rng=KeyV(k0)), owner='param',
                             label='aggregator_state'))
      kind, r = eng.run_function(ctx, ex.funcv(), [OpaqueV(), st])
      ctx.oblige('agg.noraise', kind == 'return')
      ok = kind == 'return' and isinstance(r, tuple) and len(r) == 2 and isinstance(r[1], Ref)
      ctx.oblige('agg.shape', ok)
      if not ok:
        return
      def chain(t):
        """t = split0^m(state_rng) -> m, else None"""
        m = 0
        while z3.is_app(t) and t.decl().eq(S0):
          t = t.arg(0)
          m += 1
        return m if t.eq(k0) else None
      ns = r[1].cell(ctx).fields.get('rng')
      m = chain(ns.term) if isinstance(ns, KeyV) else None
      ctx.oblige('agg.keys.state', m is not None and m >= 1,
                 detail=f'{fac.name}: the key stored for the next round is on the split[0] spine of the state key '
                        '(split(...split(state.rng)[0]...)[0]) — never the constructor key, never a used half')
      sd = seen.get('seed')
      j = chain(sd.term.arg(0)) if isinstance(sd, KeyV) and z3.is_app(sd.term) and sd.term.decl().eq(S1) else None
      ctx.oblige('agg.keys.clients', j is not None and m is not None and j < m,
                 detail=f'{fac.name}: per-client keys come from PRNGSequence(split(k)[1]) for a spine key k above the '
                        'stored one: disjoint from everything later rounds derive')
      ctx.oblige('frame.aggstate', st.cell(ctx).fields['rng'].term.eq(k0) and r[1].addr != st.addr,
                 detail='the input aggregator state is unchanged; a new state object is returned')
    p.verify(f'{fac.name}.apply', eng, body)


def build(p):
  v_hparams_passthrough(p)
  D = 'native/C10.py'
  p.native('', D, 'pure')
  v_frames(p)
  v_dataclass(p)
  v_agg_keys(p)
  p.trust('OWN assumptions: jax / jnp / numpy / fedjax tree_util / optimizers / for_each_client calls are pure and '
          'return fresh objects except the listed aliasing accessors; jax arrays are immutable',
          'value-level: apply.post / apply.state of C01 (FedAvg) and C12 (FedProx) state the new state as a term over '
          '(server state, clients) only; the other algorithms rely on OWN + purity of their callees',
          'shuffle_repeat_batch with seed=None draws OS entropy: determinism needs seeded (or skip_shuffle) client hparams '
          '(documented behaviour; C04 determ.seed)',
          'resume.equal = determinism + checkpoint round trip (C09 ckpt.rt, C16)')
  p.not_covered.append('JAX-internal buffer donation beyond what OWN tracks at Python level')
