"""C02 — every for_each_client backend equals the sequential fold; backend choice scoped and restored.

Functions under contract (fedjax/core/for_each_client.py):
  set_for_each_client_backend, for_each_client_backend (context manager), BackendChoice
  ForEachClientJitBackend.__call__ (jit_client_init, run_client, run), ForEachClientDebugBackend.__call__ (run),
  for_each_client (wrapper without step results),
  ForEachClientPmapBackend.__call__: p_client_step (mask), run_block (lane-wise fold), run + _blockify (bounded structure).
Client programs are uninterpreted: INIT, STEP_S, STEP_R, FINAL over opaque sorts; FOLD / RES are the spec.
"""
from __future__ import annotations

import ast

import z3

from ..script import *  # noqa
from ..extract import parse

FE = 'fedjax/core/for_each_client.py'
I = z3.IntSort()
St = z3.DeclareSort('State')
Bt = z3.DeclareSort('Batch')
Rs = z3.DeclareSort('StepResult')
Sh = z3.DeclareSort('Shared')
Ci = z3.DeclareSort('ClientInput')
Out = z3.DeclareSort('Output')
INIT = z3.Function('client_init', Sh, Ci, St)
STEP_S = z3.Function('client_step_state', St, Bt, St)
STEP_R = z3.Function('client_step_result', St, Bt, Rs)
FINAL = z3.Function('client_final', Sh, St, Out)
BSEQ = z3.Function('client_batches', I, z3.SeqSort(Bt))    # batches of client c
CIN = z3.Function('client_input', I, Ci)
FOLD = z3.Function('FOLD', I, I, St)       # FOLD(c, k): state of client c after k batches
sh0 = z3.Const('shared_input', Sh)


def FOLDX(c, k):
  """fold(step, init(shared, client_input_c), batches_c[:k])"""
  return z3.If(k == 0, INIT(sh0, CIN(c)), FOLD(c, k))


def fold_def(c, k):
  return LemmaInst('fold.def', z3.Implies(z3.And(0 <= k, k < z3.Length(BSEQ(c))),
                                          FOLD(c, k + 1) == STEP_S(FOLDX(c, k), BSEQ(c)[k])))


def RES(c, k):
  return STEP_R(FOLDX(c, k), BSEQ(c)[k])


# ---------------------------------------------------------------------------
# values

class TV(Val):
  """An opaque pytree value: z3 term + ownership (may it be donated?)."""

  def __init__(self, term, owned=False):
    self.term = term
    self.owned = owned if is_z3(owned) else z3.BoolVal(bool(owned))

  def fresh_like(self, ctx, base):
    return TV(ctx.fresh(base, self.term.sort()), ctx.fresh(base + '.owned', 'bool'))


UNIT = z3.Const('unit_step_result', Rs)      # the () of the wrapper
RS_CODEC = Codec(Rs, enc=lambda v: UNIT if (isinstance(v, tuple) and v == ()) else v.term, dec=lambda t: TV(t, True))


class JitV(Val):
  """jax.jit(f, donate_argnums=...): same function; donated arguments must be owned buffers."""

  def __init__(self, f, donate=(), what='jit'):
    self.f, self.donate, self.what = f, tuple(donate), what

  def call(self, ctx, args, kwargs):
    for i in self.donate:
      a = args[i] if i < len(args) else None
      ok = isinstance(a, TV) and a.term.sort() == St
      ctx.oblige('jit.own', z3.And(ok, a.owned if ok else False), kind='frame',
                 detail=f'argument {i} of a donating {self.what} call is a client state that this backend owns (a copy): the '
                        "caller's shared input, client inputs and batches are never donated")
    r = ctx.engine.call_value(ctx, self.f, list(args), kwargs)
    return r


def c_jit(ctx, f=None, donate_argnums=(), **kw):
  d = donate_argnums if isinstance(donate_argnums, tuple) else (donate_argnums,)
  if f is None:
    return Handler(lambda c, g: JitV(g, d), 'jax.jit(...)')
  return JitV(f, d)


def c_tree_map(ctx, f, *trees):
  if isinstance(f, Handler) and f.name == 'jnp.copy' and len(trees) == 1 and isinstance(trees[0], TV):
    return TV(trees[0].term, True)       # a fresh copy of every leaf: owned
  if len(trees) == 1 and isinstance(trees[0], TV):
    return ctx.engine.call_value(ctx, f, [trees[0]], {})
  raise Unsupported('tree_map')


class CtxMgr(Val):
  def method(self, ctx, name, args, kwargs):
    if name in ('__enter__', '__exit__'):
      return None
    raise Unsupported(name)


def client_fns():
  def init(ctx, shared, ci):
    return TV(INIT(shared.term, ci.term), False)      # may alias its inputs

  def step(ctx, state, batch):
    return (TV(STEP_S(state.term, batch.term), True), TV(STEP_R(state.term, batch.term), True))

  def final(ctx, shared, state):
    return TV(FINAL(shared.term, state.term), True)
  return Handler(init, 'client_init'), Handler(step, 'client_step'), Handler(final, 'client_final')


def v_backend_stateless(p):
  """The function a backend returns is a function of the arguments of each call: its closures (`run`, `run_block`, ...) keep
  no state between calls - every mutation site in a backend's __call__ (donation sites are the jit.own / pstep.donate
  obligations) is on an object created by the closure that mutates it.  A replicated copy of the last shared input kept in the
  enclosing scope would serve stale values when the caller updates its container in place."""
  import ast
  from .. import own
  from ..extract import parse
  _, tree = parse(FE)
  n_cls = 0
  for cls_ in [n for n in tree.body if isinstance(n, ast.ClassDef) and n.name.startswith('ForEachClient') and n.name.endswith('Backend')]:
    for fn in [f for f in cls_.body if isinstance(f, ast.FunctionDef) and f.name == '__call__']:
      if all(isinstance(b, (ast.Expr, ast.Pass, ast.Raise)) for b in fn.body):
        continue
      n_cls += 1
      sites, _ = own.analyze_function(fn, f'{cls_.name}.__call__')
      bad = [f'{FE}:{s_.lineno} {s_.fn}: {s_.what.strip()}' for s_ in sites if not s_.ok and not s_.what.startswith('donate[')]
      rebinds = [f'{FE}:{n.lineno} nonlocal {", ".join(n.names)}' for n in ast.walk(fn) if isinstance(n, (ast.Nonlocal, ast.Global))]
      p.oblige(f'backend.stateless:{cls_.name}', [], z3.BoolVal(not bad and not rebinds), kind='frame', fn=f'{cls_.name}.__call__',
               detail=f'{cls_.name}: the returned function keeps no state between calls ({bad + rebinds})')
  p.oblige('backend.stateless.sites', [], z3.BoolVal(n_cls >= 3), kind='post', fn='for_each_client.py',
           detail=f'{n_cls} backend implementations analysed (vacuity guard)')


def base_globals():
  jnp = Module('jnp', {'copy': Handler(lambda c, x: TV(x.term, True), 'jnp.copy')})
  jax = Module('jax', {'jit': Handler(c_jit, 'jax.jit'),
                       'tree_util': Module('jax.tree_util', {'tree_map': Handler(c_tree_map, 'tree_map')}),
                       'disable_jit': Handler(lambda c: CtxMgr(), 'jax.disable_jit')})
  def c_partial(ctx, f, *a, **k):
    def call(c, *a2, **k2):
      kk = dict(k)
      kk.update(k2)
      return c.engine.call_value(c, f, list(a) + list(a2), kk)
    return Handler(call, 'functools.partial')
  return {'jax': jax, 'jnp': jnp, 'functools': Module('functools', {'partial': Handler(c_partial, 'functools.partial')})}


class ClientsV(Val):
  """The clients iterable: symbolic sequence of client indices."""

  def __init__(self, seq):
    self.seq = seq

  def iterate(self, ctx):
    return IterSpec(seq=self.seq, codec=Codec(I, dec=lambda c: (CidV(c), BatchesV(c), TV(CIN(c)))))


ID_TRUTHY = z3.Function('bool_of_client_id', I, z3.BoolSort())    # client ids are arbitrary hashables: 0, b'', '' are falsy


class CidV(Val):
  def __init__(self, c):
    self.c = c

  def truth(self, ctx):
    return ID_TRUTHY(to_z3(self.c))

  @property
  def term(self):
    return self.c


class BatchesV(Val):
  def __init__(self, c):
    self.c = c

  def iterate(self, ctx):
    return IterSpec(seq=BSEQ(self.c), codec=Codec(Bt, dec=lambda t: TV(t)))


# ---------------------------------------------------------------------------
# jit and debug backends, wrapper

def v_sequential(p, cls, with_wrapper=False):
  clients = z3.Const('clients', z3.SeqSort(I))
  j0 = z3.Int('j0')
  name = cls
  ex = p.extract(FE, f'{cls}.__call__')
  exw = p.extract(FE, 'for_each_client') if with_wrapper else None
  g = base_globals()
  eng = Engine(g)
  eng.sources = [FE]
  eng.on_empty_list = lambda ctx: ctx.alloc(ListCell(z3.Empty(z3.SeqSort(Rs)), RS_CODEC))

  def cur_client(s):
    return clients[to_z3(s.it) - 1] if False else None

  def inv_batches(s):
    c = s.raw('client_batches').c
    k = to_z3(s.it)
    st = s.raw('state')
    sr = s['step_results']
    return dict(pos=z3.And(0 <= k, k <= z3.Length(BSEQ(c)), z3.Length(sr) == k),
                state=st.term == FOLDX(c, k),
                owned=st.owned if cls == 'ForEachClientJitBackend' else z3.BoolVal(True),
                results=z3.Implies(z3.And(0 <= j0, j0 < k), sr[j0] == (UNIT if with_wrapper else RES(c, j0))))

  def hints_b(s):
    c = s.raw('client_batches').c
    return [fold_def(c, to_z3(s.it)), fold_def(c, to_z3(s.it) - 1), fold_def(c, j0)]

  def inv_clients(s):
    g_ = s.ctx.ghost
    return dict(count=z3.And(g_['n'] == to_z3(s.it), g_['ok'], 0 <= to_z3(s.it), to_z3(s.it) <= z3.Length(clients)))
  inner = Loop(inv=inv_batches, hints=hints_b, head_hints=hints_b, expect='client_batches')
  outer = Loop(inv=inv_clients, expect='clients', ghost=['n', 'ok'])
  if cls == 'ForEachClientJitBackend':
    loops = {'run_client.re:client_batches': inner, 'run.re:clients': outer}
  else:
    loops = {'run.re:client_batches': inner, 'run.re:in clients': outer}

  def body(ctx):
    ctx.model_vars.update(j0=j0, num_clients=z3.Length(clients))
    ctx.ghost.update(n=z3.IntVal(0), ok=z3.BoolVal(True))
    init, step, final = client_fns()
    with_results = not with_wrapper

    def on_yield(c, v):
      gh = c.ghost
      cidx = clients[gh['n']]
      c.assume(fold_def(cidx, z3.Length(BSEQ(cidx))).formula)
      okshape = isinstance(v, tuple) and len(v) == (3 if with_results else 2) and isinstance(v[0], CidV) and isinstance(v[1], TV)
      c.oblige('fold.shape', okshape, detail='one (client_id, output, step_results) tuple per client' if with_results else
               'one (client_id, output) pair per client')
      if not okshape:
        raise PathDead()
      nb = z3.Length(BSEQ(cidx))
      c.oblige('fold.one', v[0].c == cidx, detail='the k-th result belongs to the k-th input client (same ids, same order, one each)')
      c.oblige('fold.output', v[1].term == FINAL(sh0, FOLDX(cidx, nb)),
               detail='output = final(shared, fold(step, init(shared, client_input), batches))')
      if with_results:
        sr = v[2].cell(c).seq if isinstance(v[2], Ref) and isinstance(v[2].cell(c), ListCell) else None
        c.oblige('fold.results', z3.And(sr is not None, z3.Length(sr) == nb if sr is not None else False,
                                        z3.Implies(z3.And(0 <= j0, j0 < nb), sr[j0] == RES(cidx, j0)) if sr is not None else False),
                 detail='step_results = one result per batch (zero batches: empty), the j-th being that of step j of the fold')
      gh['n'] = gh['n'] + 1
    ctx.on_yield = on_yield
    # the inner loop invariant needs to know which client is being processed
    orig_store = ctx.store

    selfr = ctx.alloc(ObjCell(None, {}, label='backend'))
    if with_wrapper:
      # for_each_client(init, step, final) without step results, over this backend class
      stepw = Handler(lambda c2, s_, b_: TV(STEP_S(s_.term, b_.term), True), 'client_step (no result)')
      backend_fn = Handler(lambda c2, *a: eng.call_value(c2, ex.funcv(loops=loops), [selfr] + list(a), {}), 'backend')
      eng.globals['get_for_each_client_backend'] = Handler(lambda c2: backend_fn, 'get_for_each_client_backend')
      kind, run = eng.run_function(ctx, exw.funcv(loops={'run.re:func\\(shared_input, clients\\)': Loop(unroll=True)}), [init, stepw, final])
    else:
      kind, run = eng.run_function(ctx, ex.funcv(loops=loops), [selfr, init, step, final])
    ctx.oblige('backend.noraise', kind == 'return')
    if kind != 'return':
      return
    kind, r = eng.run_function(ctx, run, [TV(sh0), ClientsV(clients)])
    ctx.oblige('run.noraise', kind == 'return')
    ctx.oblige('fold.count', ctx.ghost['n'] == z3.Length(clients), detail='exactly one result per input client')
  p.verify(f'{cls}.__call__' + ('+for_each_client' if with_wrapper else ''), eng, body)


# ---------------------------------------------------------------------------
# backend choice: set, context manager, thread-local

def v_context(p):
  ex_set = p.extract(FE, 'set_for_each_client_backend')
  ex_ctx = p.extract(FE, 'for_each_client_backend')
  _, tree = parse(FE)
  cls = [n for n in tree.body if isinstance(n, ast.ClassDef) and n.name == 'BackendChoice']
  ok = bool(cls) and [ast.unparse(b) for b in cls[0].bases] == ['threading.local']
  p.oblige('ctx.thread.local', [], z3.BoolVal(ok), kind='frame', fn='BackendChoice',
           detail='BackendChoice derives from threading.local: the selected backend is an attribute of a per-thread object')
  inst = [n for n in tree.body if isinstance(n, ast.Assign) and ast.unparse(n.targets[0]) == '_BACKEND_CHOICE']
  p.oblige('ctx.thread.instance', [], z3.BoolVal(len(inst) == 1 and ast.unparse(inst[0].value) == 'BackendChoice()'), kind='frame',
           fn='BackendChoice', detail='_BACKEND_CHOICE is one module-level BackendChoice() instance')
  # class-level mutable containers would be shared by all threads (only instance attributes of a threading.local are per thread)
  shared = []
  for st in (cls[0].body if cls else []):
    if isinstance(st, (ast.Assign, ast.AnnAssign)) and st.value is not None:
      v = st.value
      if isinstance(v, (ast.List, ast.Dict, ast.Set, ast.ListComp, ast.DictComp, ast.SetComp)) or (
          isinstance(v, ast.Call) and ast.unparse(v.func) in ('list', 'dict', 'set', 'collections.deque', 'deque',
                                                             'collections.defaultdict', 'defaultdict')):
        shared.append(ast.unparse(st)[:60])
    # threading.local keeps per-thread values in the per-thread instance __dict__: an attribute declared in __slots__ (or
    # served by a class-level descriptor / property) lives in the object itself and is shared by every thread
    if isinstance(st, (ast.Assign, ast.AnnAssign)) and any(
        ast.unparse(t) == '__slots__' for t in (st.targets if isinstance(st, ast.Assign) else [st.target])):
      shared.append(ast.unparse(st)[:60])
    if isinstance(st, ast.FunctionDef) and (st.name in ('__getattr__', '__getattribute__', '__setattr__') or any(
        ast.unparse(d).split('.')[-1] in ('property', 'setter', 'cached_property') for d in st.decorator_list)):
      shared.append(f'def {st.name} (attribute access no longer goes to the per-thread __dict__)')
  p.oblige('ctx.thread.classattrs', [], z3.BoolVal(not shared), kind='frame', fn='BackendChoice',
           detail='BackendChoice has no class-level mutable container, __slots__ or attribute hook (state outside the per-thread '
                  f'__dict__ is shared by every thread): {shared}')
  # every store into _BACKEND_CHOICE in the module goes through the .backend attribute
  stores = [n for n in ast.walk(tree) if isinstance(n, (ast.Assign, ast.AugAssign)) and any(
      '_BACKEND_CHOICE' in ast.unparse(t) for t in (n.targets if isinstance(n, ast.Assign) else [n.target]))]
  okst = all(ast.unparse(t) in ('_BACKEND_CHOICE', '_BACKEND_CHOICE.backend') for n in stores
             for t in (n.targets if isinstance(n, ast.Assign) else [n.target]))
  p.oblige('ctx.thread.stores', [], z3.BoolVal(okst and not any(isinstance(n, ast.Global) for n in ast.walk(tree))), kind='frame',
           fn='for_each_client.py', detail='the module only ever assigns _BACKEND_CHOICE.backend (no global rebinding)')

  eng = Engine({})
  eng.sources = [FE]
  CASES = ['None', 'object', 'debug', 'jit', 'pmap', 'other']
  EXPECT = {'debug': 'ForEachClientDebugBackend', 'jit': 'ForEachClientJitBackend', 'pmap': 'ForEachClientPmapBackend'}

  def setup(ctx):
    base = eng._resolve_in(ctx, FE, 'ForEachClientBackend')[0]
    # previously selected: nothing yet (None) or some backend object
    old = None if ctx.choose(2) == 0 else ctx.alloc(ObjCell(ClassModel('OldBackend', {}, bases=(base,)), {}, label='old backend'))
    ctx.tags['old'] = old
    try:
      bc_cls = eng._resolve_in(ctx, FE, 'BackendChoice')[0]     # the real class: helper methods of a refactor resolve
    except Exception:  # pylint: disable=broad-except
      bc_cls = None
    choice = ctx.alloc(ObjCell(bc_cls, {'backend': old}, owner='global', label='_BACKEND_CHOICE'))
    eng.globals['_BACKEND_CHOICE'] = choice
    k = ctx.choose(len(CASES))
    case = CASES[k]
    if case == 'None':
      arg = None
    elif case == 'object':
      arg = ctx.alloc(ObjCell(ClassModel('UserBackend', {}, bases=(base,)), {}, label='user backend'))
    elif case == 'other':
      arg = 'no-such-backend'
    else:
      arg = case
    return choice, case, arg

  def is_old(ctx, v):
    old = ctx.tags['old']
    return (v is None) if old is None else (isinstance(v, Ref) and v.addr == old.addr)

  def is_expected(ctx, v, case, arg):
    if case == 'None':
      return v is None
    if case == 'object':
      return isinstance(v, Ref) and v.addr == arg.addr
    return isinstance(v, Ref) and isinstance(v.cell(ctx), ObjCell) and v.cell(ctx).cls is not None and \
        v.cell(ctx).cls.name == EXPECT[case]

  def body_set(ctx):
    choice, case, arg = setup(ctx)
    ctx.modifies = {choice.addr}
    kind, r = eng.run_function(ctx, ex_set.funcv(), [arg])
    cur = choice.cell(ctx).fields['backend']
    if case == 'other':
      ctx.oblige('set.reject', kind == 'raise' and r.name == 'ValueError' and is_old(ctx, cur),
                 detail='an unknown backend name raises ValueError and leaves the selection unchanged')
    else:
      ctx.oblige('set.select', kind == 'return' and is_expected(ctx, cur, case, arg),
                 detail=f'set_for_each_client_backend({case}) selects exactly that backend for this thread')
  p.verify('set_for_each_client_backend', eng, body_set)

  def body_ctx(ctx):
    choice, case, arg = setup(ctx)
    ctx.modifies = {choice.addr}
    exit_by = ctx.choose(2)      # 0: the with-body finishes, 1: the with-body raises
    seen = {}

    def on_yield(c, v):
      seen['inside'] = choice.cell(c).fields['backend']
      if exit_by == 1:
        raise RaiseSig(ExcV('RuntimeError'))     # contextlib throws the body's exception at the yield
    ctx.on_yield = on_yield
    kind, r = eng.run_function(ctx, ex_ctx.funcv(), [arg])
    cur = choice.cell(ctx).fields['backend']
    ctx.oblige('ctx.restore', is_old(ctx, cur),
               detail='after the context exits - normally, by an exception in the body, or by the ValueError of an unknown '
                      'name - the previously selected backend is selected again')
    if case == 'other':
      ctx.oblige('ctx.reject', kind == 'raise' and r.name == 'ValueError' and 'inside' not in seen,
                 detail='an unknown name raises ValueError before the body runs')
    else:
      ctx.oblige('ctx.inside', 'inside' in seen and is_expected(ctx, seen.get('inside'), case, arg),
                 detail='inside the with block the requested backend is selected')
      ctx.oblige('ctx.exit', (kind == 'return') if exit_by == 0 else (kind == 'raise' and r.name == 'RuntimeError'),
                 detail="the body's exception propagates unchanged; a normal exit returns normally")
  p.verify('for_each_client_backend', eng, body_ctx)


# ---------------------------------------------------------------------------
# pmap backend

ZL_S = z3.Function('zeros_like_result', Rs, Rs)
ZL_B = z3.Function('zeros_like_batch', Bt, Bt)
ZL_C = z3.Function('zeros_like_client_input', Ci, Ci)


class PVal(Val):
  """A value sharded over the devices: one entry per lane."""

  def __init__(self, lanes):
    self.lanes = list(lanes)

  def getitem(self, ctx, idx):
    if is_z3(idx):
      raise Unsupported('symbolic lane index')
    return self.lanes[idx]


class PmapV(Val):
  """jax.pmap(f): f applied lane by lane (T-JAX: pmap(f)(xs)[i] = f(xs[i])).  With `lane` set, values are lane views."""

  def __init__(self, f, donate=()):
    self.f, self.donate = f, tuple(donate)

  def call(self, ctx, args, kwargs):
    for i in self.donate:
      a = args[i] if i < len(args) else None
      lanes = a.lanes if isinstance(a, PVal) else [a]
      ok = all(isinstance(x, TV) and x.term.sort() == St for x in lanes)
      ctx.oblige('pmap.own', z3.And(ok, *[x.owned for x in lanes if isinstance(x, TV)]), kind='frame',
                 detail='a donated pmap argument is a client state produced by this backend (never shared input, client input or batch)')
    if any(isinstance(a, PVal) for a in args):
      ns = {len(a.lanes) for a in args if isinstance(a, PVal)}
      ctx.oblige('pmap.shape', len(ns) == 1, kind='definedness',
                 detail='jax.pmap: all sharded arguments have the same number of lanes (= devices)')
      if len(ns) != 1:
        raise PathDead()
      n = ns.pop()
      outs = []
      def fresh(v):
        # T-JAX: the outputs of a pmap-ed computation are new device buffers (no input forwarding); probed natively
        if isinstance(v, TV):
          return TV(v.term, True)
        if isinstance(v, tuple):
          return tuple(fresh(x) for x in v)
        return v
      for i in range(n):
        la = [a.lanes[i] if isinstance(a, PVal) else a for a in args]
        outs.append(fresh(ctx.engine.call_value(ctx, self.f, la, kwargs)))
      if outs and isinstance(outs[0], tuple):
        return tuple(PVal([o[k] for o in outs]) for k in range(len(outs[0])))
      return PVal(outs)
    r = ctx.engine.call_value(ctx, self.f, list(args), kwargs)     # lane view: the same computation seen at one lane
    def fresh1(v):
      if isinstance(v, TV):
        return TV(v.term, True)
      if isinstance(v, tuple):
        return tuple(fresh1(x) for x in v)
      return v
    return fresh1(r)


def pmap_globals():
  def c_pmap(ctx, f=None, donate_argnums=(), **kw):
    d = donate_argnums if isinstance(donate_argnums, tuple) else (donate_argnums,)
    return PmapV(f, d)

  def c_partial(ctx, f, *a, **k):
    def call(c, *a2, **k2):
      kk = dict(k)
      kk.update(k2)
      return c.engine.call_value(c, f, list(a) + list(a2), kk)
    return Handler(call, 'functools.partial')

  def where(ctx, m, a, b):
    mt = m if not isinstance(m, TV) else m.term
    if isinstance(mt, bool):
      return a if mt else b
    return TV(z3.If(mt, a.term, b.term), z3.And(a.owned, b.owned))

  def zeros_like(ctx, x):
    if isinstance(x, tuple) and x == ():
      return ()
    srt = x.term.sort()
    f = {Rs: ZL_S, Bt: ZL_B, Ci: ZL_C}.get(srt)
    if f is None:
      raise Unsupported('zeros_like of this value')
    return TV(f(x.term), True)

  def tree_map(ctx, f, *trees):
    def rec(*ts):
      t0 = ts[0]
      if isinstance(t0, tuple):
        return tuple(rec(*[t[i] for t in ts]) for i in range(len(t0)))
      if isinstance(t0, Ref) and isinstance(t0.cell(ctx), PyListCell):
        cells = [t.cell(ctx).items for t in ts]
        return ctx.alloc(PyListCell([rec(*[c[i] for c in cells]) for i in range(len(cells[0]))]))
      return ctx.engine.call_value(ctx, f, list(ts), {})
    return rec(*trees)
  jnp = Module('jnp', {'where': Handler(where, 'jnp.where'), 'zeros_like': Handler(zeros_like, 'jnp.zeros_like'),
                       'copy': Handler(lambda c, x: TV(x.term, True), 'jnp.copy')})
  jax = Module('jax', {'pmap': Handler(c_pmap, 'jax.pmap'), 'jit': Handler(c_jit, 'jax.jit'),
                       'tree_util': Module('jax.tree_util', {'tree_map': Handler(tree_map, 'tree_map')}),
                       'local_devices': Handler(lambda c: c.tags['devices'], 'jax.local_devices'),
                       'device_put': Handler(lambda c, x, d=None: x, 'jax.device_put')})
  functools = Module('functools', {'partial': Handler(c_partial, 'functools.partial')})
  return {'jax': jax, 'jnp': jnp, 'functools': functools}


def v_pmap_step(p):
  """p_client_step at one lane, symbolic mask: whatever client_step returns on a masked-out (padding) batch is discarded."""
  ex = p.extract(FE, 'ForEachClientPmapBackend.__call__')
  eng = Engine(pmap_globals())
  eng.sources = [FE]
  s0, b0 = z3.Const('state', St), z3.Const('batch', Bt)
  mask = z3.Bool('mask')

  def body(ctx):
    ctx.model_vars.update(mask=mask)
    ctx.tags['devices'] = ('dev0', 'dev1')
    init, step, final = client_fns()
    selfr = ctx.alloc(ObjCell(None, {'_devices': None}, label='backend'))
    kind, run = eng.run_function(ctx, ex.funcv(), [selfr, init, step, final])
    ctx.oblige('pmap.make', kind == 'return' and isinstance(run, FuncV))
    if kind != 'return':
      return
    pstep = find_closure(ctx, run, 'p_client_step')
    ok = isinstance(pstep, PmapV)
    ctx.oblige('pstep.found', ok, detail='p_client_step is a jax.pmap of the masked step')
    if not ok:
      return
    ctx.oblige('pstep.donate', pstep.donate == (0,), detail='only the state (argument 0) is donated')
    r = eng.call_value(ctx, pstep.f, [TV(s0, True), TV(b0), TV(mask)], {})
    ok = isinstance(r, tuple) and len(r) == 2 and isinstance(r[0], TV) and isinstance(r[1], TV)
    ctx.oblige('pstep.shape', ok)
    if not ok:
      return
    ctx.oblige('pstep.mask', z3.And(r[0].term == z3.If(mask, STEP_S(s0, b0), s0),
                                    z3.Implies(mask, r[1].term == STEP_R(s0, b0))),
               detail='mask True: the step; mask False (padding batch): the old state, WHATEVER client_step returned for the '
                      'padding batch (NaN / Inf included); the step result of a padding batch is dropped later (prun.filter)')
  p.verify('ForEachClientPmapBackend.p_client_step', eng, body)


CONFIGS = [(b, c) for b in (1, 2, 3) for c in ([], [0], [1], [2, 0, 1], [1, 1, 1, 1], [0, 0], [3, 1, 0, 2])] + [(4, [1, 0, 2, 2, 1]), (8, [1, 2])]


def v_pmap_bounded(p):
  """_blockify + run_block + run executed symbolically (opaque values, arbitrary step on padding) for concrete block structures."""
  ex = p.extract(FE, 'ForEachClientPmapBackend.__call__')
  p.extract(FE, '_blockify')
  g = pmap_globals()
  g['_device_put_sharded'] = Handler(lambda c, shards, devices: PVal(c.engine.concrete_items(c, shards)), '_device_put_sharded')
  g['_device_put_replicated'] = Handler(lambda c, x, devices: PVal([x] * len(devices)), '_device_put_replicated')
  eng = Engine(g)
  eng.sources = [FE]

  def body(ctx):
    k = ctx.choose(len(CONFIGS))
    B, counts = CONFIGS[k]
    ctx.tags['devices'] = tuple(f'dev{i}' for i in range(B))
    init, step, final = client_fns()
    for i, n in enumerate(counts):
      ctx.assume(z3.Length(BSEQ(i)) == n)
      for j in range(n + 1):
        ctx.assume(fold_def(z3.IntVal(i), z3.IntVal(j)).formula)
    clients = ctx.alloc(PyListCell([(CidV(z3.IntVal(i)), ctx.alloc(PyListCell([TV(BSEQ(i)[j]) for j in range(n)], owner='param')),
                                     TV(CIN(i))) for i, n in enumerate(counts)], owner='param', label='clients'))
    got = []
    ctx.on_yield = lambda c, v: got.append(v)
    selfr = ctx.alloc(ObjCell(None, {'_devices': None}, label='backend'))
    kind, run = eng.run_function(ctx, ex.funcv(), [selfr, init, step, final])
    if kind != 'return':
      ctx.oblige('pmap.make', False)
      return
    kind, r = eng.run_function(ctx, run, [TV(sh0), clients])
    tag = f'[{B} devices, batches {counts}]'
    ctx.oblige('prun.noraise', kind == 'return', detail=f'{tag} the pmap backend runs')
    if kind != 'return':
      return
    ids = []
    shape_ok = True
    for v in got:
      if not (isinstance(v, tuple) and len(v) == 3 and isinstance(v[0], CidV) and isinstance(v[1], TV) and
              isinstance(v[2], Ref) and isinstance(v[2].cell(ctx), PyListCell)):
        shape_ok = False
        continue
      ids.append(z3.simplify(v[0].c).as_long())
    ctx.oblige('prun.filter', shape_ok and sorted(ids) == list(range(len(counts))),
               detail=f'{tag} exactly one (id, output, step_results) per input client; padding clients (id None) are never yielded: '
                      f'got ids {ids}')
    if not shape_ok:
      return
    for v in got:
      i = z3.simplify(v[0].c).as_long()
      n = counts[i]
      res = v[2].cell(ctx).items
      ctx.oblige('prun.fold', v[1].term == FINAL(sh0, FOLDX(z3.IntVal(i), z3.IntVal(n))),
                 detail=f'{tag} client {i}: output = final(shared, fold over its {n} real batches), padding batches have no effect')
      ctx.oblige('prun.results', z3.And(len(res) == n, *[isinstance(x, TV) and x.term == RES(z3.IntVal(i), z3.IntVal(j))
                                                        for j, x in enumerate(res[:n])]) if len(res) == n and all(
                                                            isinstance(x, TV) for x in res) else z3.BoolVal(False),
                 detail=f'{tag} client {i}: step results truncated to its {n} real batches, each the result of that step of the fold')
  p.verify('ForEachClientPmapBackend.run[bounded structure]', eng, body)


def v_pmap_block(p):
  """run_block at an arbitrary lane c0 for any number of rounds: padding batches never change the state."""
  ex = p.extract(FE, 'ForEachClientPmapBackend.__call__')
  c0 = z3.Int('lane_client')
  n = z3.Length(BSEQ(c0))
  rounds = z3.Const('rounds', z3.SeqSort(I))
  J = z3.Length(rounds)
  PADB = z3.Const('padding_batch', Bt)
  j0 = z3.Int('j0')

  class Tok(Val):
    def __init__(self, what):
      self.what = what

  class Rounds(Val):
    def iterate(self, ctx):
      spec = IterSpec(seq=rounds, codec=INT)
      spec.item_fn = lambda q: (Tok(('batch', q)), Tok(('mask', q)))
      return spec

  class BlockV(Val):
    def getattr(self, ctx, name):
      if name == 'client_input':
        return Tok('ci')
      if name == 'masked_batches':
        return Rounds()
      raise Unsupported(f'block.{name}')

  def sharded(ctx, tok, devices):
    if tok.what == 'ci':
      return TV(CIN(c0))
    kind, q = tok.what
    if kind == 'batch':
      return TV(z3.If(q < n, BSEQ(c0)[q], PADB))
    return TV(q < n)
  g = pmap_globals()
  g['_device_put_sharded'] = Handler(sharded, '_device_put_sharded')
  g['_device_put_replicated'] = Handler(lambda c, x, devices: x, '_device_put_replicated')
  eng = Engine(g)
  eng.sources = [FE]
  eng.on_empty_list = lambda ctx: ctx.alloc(ListCell(z3.Empty(z3.SeqSort(Rs)), RS_CODEC))

  def mn(j):
    return z3.If(j < n, j, n)

  def inv(s):
    j = to_z3(s.it)
    st = s.raw('p_state')
    sr = s['p_step_results']
    return dict(pos=z3.And(0 <= j, j <= J, z3.Length(sr) == j),
                state=z3.And(st.term == FOLDX(c0, mn(j)), st.owned),
                results=z3.Implies(z3.And(0 <= j0, j0 < mn(j)), sr[j0] == RES(c0, j0)))

  def hints(s):
    j = to_z3(s.it)
    return [fold_def(c0, j), fold_def(c0, j - 1), fold_def(c0, mn(j)), fold_def(c0, mn(j) - 1), fold_def(c0, j0)]

  def body(ctx):
    ctx.model_vars.update(j0=j0, lane_batches=n, rounds=J)
    ctx.tags['devices'] = ('dev0', 'dev1')
    ctx.assume(J >= n)       # blk.shape: a block has max(num_batches) >= num_batches[c0] rounds
    init, step, final = client_fns()
    selfr = ctx.alloc(ObjCell(None, {'_devices': None}, label='backend'))
    kind, run = eng.run_function(ctx, ex.funcv(loops={'run_block.re:masked_batches': Loop(inv=inv, hints=hints, head_hints=hints)}),
                                 [selfr, init, step, final])
    if kind != 'return':
      ctx.oblige('pmap.make', False)
      return
    rb = find_closure(ctx, run, 'run_block')
    ok = isinstance(rb, FuncV)
    ctx.oblige('pblock.found', ok)
    if not ok:
      return
    kind, r = eng.run_function(ctx, rb, [TV(sh0), BlockV()])
    ctx.oblige('pblock.noraise', kind == 'return')
    if kind != 'return':
      return
    ctx.assume(fold_def(c0, n).formula)
    out, res = r
    sr = res.cell(ctx).seq
    ctx.oblige('pblock.fold', z3.And(out.term == FINAL(sh0, FOLDX(c0, n)), z3.Length(sr) == J,
                                     z3.Implies(z3.And(0 <= j0, j0 < n), sr[j0] == RES(c0, j0))),
               detail='at every lane: output = final(shared, fold over the REAL batches of that client) after any number of padding '
                      'rounds, and the first num_batches step results are those of the fold')
  p.verify('ForEachClientPmapBackend.run_block[lane]', eng, body)


def find_closure(ctx, funcv, name):
  """value of a variable captured by a nested function"""
  for fid in reversed(list(funcv.frames)):
    fr = ctx.frames[fid]
    if fr is not None and name in fr:
      return fr[name]
  return None


def build(p):
  D = 'native/C02.py'
  p.native('', D, 'backends')
  p.native('for_each_client_backend', D, 'context')
  p.native('set_for_each_client_backend', D, 'context')
  p.native('ctx.', D, 'context')
  v_context(p)
  v_backend_stateless(p)
  v_sequential(p, 'ForEachClientJitBackend')
  v_sequential(p, 'ForEachClientDebugBackend')
  v_sequential(p, 'ForEachClientJitBackend', with_wrapper=True)
  v_pmap_step(p)
  v_pmap_block(p)
  v_pmap_bounded(p)
  p.native_checks = [
      dict(name='backends_equal_fold', driver=D, payload={'mode': 'sweep', 'fn': 'backends'},
           bound='jit, debug and pmap backends on the real code against a hand-written sequential fold: 7 client collections '
                 '(0..5 clients, 0..3 batches each) on 3 devices, plus device counts 1, 2, 8 (1..8 thorough); mixed-dtype state, '
                 'a step that returns NaN on an all-zero padding batch, with and without step results; inputs compared before / '
                 'after (stay valid and unchanged)',
           why_bounded='XLA execution, buffer donation and pmap sharding are outside the contracts: conformance run of the T-JAX '
                       'assumptions (pmap lane semantics, outputs do not alias undonated inputs)'),
      dict(name='context_and_threads', driver=D, payload={'mode': 'sweep', 'fn': 'context'},
           bound='exception exit for 4 backends, nested contexts, unknown name, one interleaving of two threads',
           why_bounded='thread interleavings: only the thread-local contract is proved (ctx.thread.*)')]
  p.trust('T-JAX: jax.jit(f) / jax.pmap(f) compute f (pmap lane by lane: pmap(f)(xs)[i] = f(xs[i])); donated buffers must be owned; '
          'a jit-compiled function may forward an input buffer to an output (hence the copy in jit_client_init), a pmap-ed one '
          'returns new buffers; _device_put_sharded(list)[i] = list[i], _device_put_replicated(x)[i] = x',
          'threading.local gives every thread its own attribute namespace',
          'client_init / client_step / client_final are uninterpreted pure functions (their value on a padding batch is arbitrary)',
          'contextlib.contextmanager: the body runs at the yield and its exception is thrown there')
  p.not_covered.append('pmap `run` + `_blockify` for block structures beyond the enumerated ones (1..3, 4, 8 devices; up to 5 clients; '
                       'up to 3 batches): bounded symbolic execution, not an unbounded proof; p_client_step and run_block are unbounded')
  p.not_covered.append('interleavings of backend selection across threads beyond the thread-local contract')
