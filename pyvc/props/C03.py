"""C03 — sequential batching is an exact, order-preserving partition.

Functions under contract (fedjax/core/client_datasets.py):
  _pick_final_batch_size, PaddedBatchView.__init__/__iter__,
  BatchView.__init__/__iter__, ClientDataset.__len__, slice_examples,
  num_examples, attach_mask, pad_examples, BatchPreprocessor.__call__/append.
"""
from __future__ import annotations

import z3

from ..script import *  # noqa
from ..lib_data import *  # noqa
from .. import lib_np

F = 'fedjax/core/client_datasets.py'

I = z3.IntSort()
H = z3.Function('H', I, I, I)            # H(b, j): b halved j times (ghost)
PICK = z3.Function('PICK', I, I, I, I)   # spec function of _pick_final_batch_size


def H_axioms():
  b, j = z3.Ints('hb hj')
  return [
      z3.ForAll([b], H(b, 0) == b, patterns=[H(b, 0)]),
      z3.ForAll([b, j], z3.Implies(j >= 1, H(b, j) == H(b, j - 1) / 2),
                patterns=[H(b, j)]),
  ]


def lemma_mono(p):
  """pick.mono: for b >= 0: 0 <= H(b,j+1) <= H(b,j); hence for i <= j:
  H(b,j) <= H(b,i) (induction on j, written out as two VCs)."""
  b, i, j = z3.Ints('b i j')
  ax = H_axioms()
  # step fact (no induction needed): H(b,j) >= 0 -> 0 <= H(b,j+1) <= H(b,j)
  p.oblige('pick.mono.step', ax + [j >= 0, H(b, j) >= 0],
           z3.And(H(b, j + 1) >= 0, H(b, j + 1) <= H(b, j)), kind='lemma',
           detail='halving a non-negative integer does not increase it')
  # induction for non-negativity: base + step
  p.oblige('pick.nonneg.base', ax + [b >= 0], H(b, 0) >= 0, kind='lemma')
  # induction for "for all j >= i: H(b,j) <= H(b,i)" on j: base j = i trivial;
  # step uses IH(j) and the step fact
  p.oblige('pick.mono.induct', ax + [b >= 0, i >= 0, j >= i, H(b, j) >= 0,
                                     H(b, j) <= H(b, i)],
           z3.And(H(b, j + 1) >= 0, H(b, j + 1) <= H(b, i)), kind='lemma',
           detail='inductive step of: i <= j => H(b,j) <= H(b,i)')
  p.trust('induction principle on naturals for lemma pick.mono (base and step are '
          'discharged obligations; the schema itself is meta-level)')


def mono_lemma():
  b, i, j = z3.Ints('mb mi mj')
  return z3.ForAll([b, i, j], z3.Implies(z3.And(b >= 0, 0 <= i, i <= j),
                                         z3.And(H(b, j) <= H(b, i), H(b, j) >= 0)),
                   patterns=[z3.MultiPattern(H(b, i), H(b, j))])


def euclid_lemma(p):
  """n = b*q + r, 0 <= r < b  =>  n div b = q and n mod b = r."""
  n, b, q, r = z3.Ints('en eb eq er')
  return p.prove_lemma('euclid', [n, b, q, r], z3.Implies(
      z3.And(b > 0, n == b * q + r, r >= 0, r < b),
      z3.And(n / b == q, n % b == r)),
      detail='uniqueness of Euclidean division')


def pick_spec(d, b, k, r):
  """Contract of _pick_final_batch_size, taken from the property statement:
  r is B halved j times for some 0 <= j < buckets, holds the remainder, and is
  the smallest such value; no padding when the remainder is 0."""
  jj = z3.Int('pj')
  rem = d % b
  return z3.And(
      z3.Exists([jj], z3.And(0 <= jj, jj < k, r == H(b, jj))),
      r >= rem,
      z3.ForAll([jj], z3.Implies(z3.And(0 <= jj, jj < k, H(b, jj) >= rem,
                                        z3.Or(rem > 0, jj == 0)),
                                 H(b, jj) >= r)),
      z3.Implies(rem == 0, r == b),
      r >= 1, r <= b)


def c_pick(ctx, d, b, k):
  d, b, k = to_z3(d), to_z3(b), to_z3(k)
  ctx.oblige('pick.pre', z3.And(d >= 0, b >= 1, k >= 1), kind='precondition',
             detail='_pick_final_batch_size(data_size>=0, batch_size>=1, buckets>=1)')
  r = PICK(d, b, k)
  for a in H_axioms():
    ctx.assume(a)
  ctx.assume(pick_spec(d, b, k, r))
  return r


# ---------------------------------------------------------------------------


def v_pick(p):
  ex = p.extract(F, '_pick_final_batch_size')
  d, b, k = z3.Ints('data_size batch_size buckets')

  def inv(s):
    n, high, low = s['n'], s['high'], s['low']
    return z3.And(1 <= n, n <= k, high == H(b, n - 1), low == H(b, n),
                  high >= d % b, low >= 0)

  f = ex.funcv(loops={0: Loop(inv=inv, decreases=lambda s: k - s['n'],
                              expect=r'low\b.*final_batch_size')})
  eng = Engine()

  def body(ctx):
    ctx.model_vars.update(data_size=d, batch_size=b, num_batch_size_buckets=k)
    ctx.assume(z3.And(d >= 0, b >= 1, k >= 1))
    for a in H_axioms():
      ctx.assume(a)
    ctx.assume(mono_lemma())
    kind, res = eng.run_function(ctx, f, [d, b, k])
    ctx.oblige('pick.noraise', kind == 'return', detail='no exception')
    if kind != 'return':
      return
    jj = z3.Int('jj')
    rem = d % b
    ctx.oblige('pick.member', z3.Exists([jj], z3.And(0 <= jj, jj < k, res == H(b, jj))),
               detail='result is batch_size halved j times for some 0 <= j < buckets')
    ctx.oblige('pick.holds', res >= rem, detail='result holds the remainder')
    ctx.oblige('pick.nopad', z3.Implies(rem == 0, res == b))
    ctx.oblige('pick.minimal', z3.ForAll([jj], z3.Implies(
        z3.And(0 <= jj, jj < k, H(b, jj) >= rem, z3.Or(rem > 0, jj == 0)),
        H(b, jj) >= res)),
        detail='result is the smallest candidate that holds the remainder')
    ctx.oblige('pick.range', z3.And(res >= 1, res <= b))

  p.verify('_pick_final_batch_size', eng, body)


# ---------------------------------------------------------------------------
# views


def view_globals():
  return {
      'slice_examples': Handler(c_slice_examples, 'slice_examples'),
      'pad_examples': Handler(c_pad_examples, 'pad_examples'),
      'attach_mask': Handler(c_attach_mask, 'attach_mask'),
      'num_examples': Handler(c_num_examples, 'num_examples'),
      '_pick_final_batch_size': Handler(c_pick, '_pick_final_batch_size'),
      'EXAMPLE_MASK_KEY': MASK_KEY,
      'np': Module('np', {'ones': Handler(c_np_ones_bool, 'np.ones'),
                          'bool_': 'bool_'}),
  }


def init_ghost(ctx):
  ctx.ghost.update(flat=z3.Empty(RowSeq), count=z3.IntVal(0), last=z3.IntVal(0),
                   allfull=z3.BoolVal(True))


def make_on_yield(B, pid, padded):
  def on_yield(ctx, v):
    g = ctx.ghost
    if not isinstance(v, TableV):
      ctx.oblige('yield.type', False, detail='a batch is an Examples dict')
      raise PathDead()
    ctx.oblige('yield.preprocessed',
               len(v.pre) == 1 and (v.pre[0] == pid),
               detail='each batch went through the dataset preprocessor exactly once')
    if padded:
      ctx.oblige('yield.hasmask', v.mask is not None,
                 detail='padded batches carry the mask feature')
      if v.mask is None:
        raise PathDead()
      nreal = z3.Length(v.rows)
      if v.pad == 'none':
        ctx.oblige('yield.consistent', nreal == to_z3(v.mask.n),
                   detail='mask has as many rows as the other features')
      ctx.oblige('yield.mask.prefix', to_z3(v.mask.c) == nreal,
                 detail='mask is True on exactly the real rows (a prefix)')
      ctx.oblige('yield.pad.zero', v.pad in ('none', 'zero'),
                 detail='padded rows are zero rows')
      total = to_z3(v.mask.n)
    else:
      ctx.oblige('yield.nomask', v.mask is None)
      total = z3.Length(v.rows)
    g['allfull'] = z3.And(g['allfull'], z3.Or(g['count'] == 0, g['last'] == B))
    g['flat'] = z3.Concat(g['flat'], v.rows)
    g['last'] = total
    g['lastreal'] = z3.Length(v.rows)
    g['count'] = g['count'] + 1
  return on_yield


def v_batch_view(p):
  ex_init = p.extract(F, 'BatchView.__init__')
  ex_iter = p.extract(F, 'BatchView.__iter__')
  eng = Engine(view_globals())
  did = z3.Const('ds', DsId)
  raw = ds_rows(did)
  N = z3.Length(raw)
  B = z3.Int('batch_size')
  drop = z3.Bool('drop_remainder')
  hp_cls = ClassModel('BatchHParams')

  # __init__: stores exactly (dataset, batch_size, drop_remainder, len(dataset))
  def body_init(ctx):
    ctx.model_vars.update(N=N, batch_size=B, drop_remainder=drop)
    ctx.assume(B >= 1)
    hp = ctx.alloc(ObjCell(hp_cls, dict(batch_size=B, drop_remainder=drop),
                           owner='param', label='hparams'))
    selfr = ctx.alloc(ObjCell(None, {}, label='self'))
    ctx.init_stack.append(selfr.addr)
    kind, _ = eng.run_function(ctx, ex_init.funcv(), [selfr, DatasetV(did), hp])
    ctx.oblige('noraise', kind == 'return')
    f = ctx.heap[selfr.addr].fields
    ok = all(k in f for k in ('_client_dataset', '_batch_size', '_drop_remainder',
                              '_data_size'))
    ctx.oblige('fields', ok, detail='all four fields are set')
    if not ok:
      return
    ctx.oblige('post.dataset', isinstance(f['_client_dataset'], DatasetV) and
               f['_client_dataset'].did.eq(did))
    ctx.oblige('post.batch_size', to_z3(f['_batch_size']) == B)
    ctx.oblige('post.drop', zbool(f['_drop_remainder']) == drop)
    ctx.oblige('post.data_size', to_z3(f['_data_size']) == N)

  p.verify('BatchView.__init__', eng, body_init)

  def inv(s):
    g = s.ctx.ghost
    it = to_z3(s.it)
    seen = z3.If(it < N, it, N)
    keep_all = z3.And(
        g['flat'] == z3.SubSeq(raw, 0, seen),
        z3.Implies(g['count'] > 0, z3.And(g['last'] >= 1, g['last'] <= B)),
        z3.Implies(z3.And(it <= N, g['count'] > 0), g['last'] == B))
    dropped = z3.And(
        # everything emitted so far is full batches; the emitted prefix ends at
        # `it` while it <= N, else at it - B
        z3.Implies(it <= N, g['flat'] == z3.SubSeq(raw, 0, it)),
        z3.Implies(it > N, z3.And(g['flat'] == z3.SubSeq(raw, 0, it - B),
                                  it - B < N, it - B >= 0)),
        z3.Implies(g['count'] > 0, g['last'] == B))
    return z3.And(it >= 0, g['allfull'], g['count'] >= 0,
                  z3.Implies(it == 0, g['count'] == 0),
                  z3.If(drop, dropped, keep_all))

  loops = {0: Loop(inv=inv, decreases=lambda s: N - to_z3(s.it),
                   expect=r'range\(0, self\._data_size, self\._batch_size\)')}

  def body_iter(ctx):
    ctx.model_vars.update(N=N, batch_size=B, drop_remainder=drop)
    ctx.assume(B >= 1)
    selfr = ctx.alloc(ObjCell(None, dict(
        _client_dataset=DatasetV(did), _batch_size=B, _drop_remainder=drop,
        _data_size=N), owner='param', label='self'))
    init_ghost(ctx)
    ctx.on_yield = make_on_yield(B, ds_pre(did), padded=False)
    kind, _ = eng.run_function(ctx, ex_iter.funcv(loops=loops), [selfr])
    ctx.oblige('noraise', kind == 'return')
    g = ctx.ghost
    ctx.oblige('batch.post.keep', z3.Implies(z3.Not(drop), g['flat'] == raw),
               detail='drop_remainder=False: batches concatenate to the whole dataset, in order')
    E = z3.Length(g['flat'])
    ctx.oblige('batch.post.drop', z3.Implies(drop, z3.And(
        g['flat'] == z3.SubSeq(raw, 0, E), N - E >= 0, N - E < B,
        z3.Implies(g['count'] > 0, g['last'] == B))),
        detail='drop_remainder=True: only an incomplete final batch is removed')
    ctx.oblige('batch.allfull', g['allfull'],
               detail='every batch except the last has exactly batch_size rows')
    ctx.oblige('batch.last', z3.Implies(g['count'] > 0,
                                        z3.And(g['last'] >= 1, g['last'] <= B)),
               detail='the last batch is non-empty and at most batch_size')

  p.verify('BatchView.__iter__', eng, body_iter)


def v_padded_view(p):
  ex_init = p.extract(F, 'PaddedBatchView.__init__')
  ex_iter = p.extract(F, 'PaddedBatchView.__iter__')
  eng = Engine(view_globals())
  did = z3.Const('ds', DsId)
  raw = ds_rows(did)
  N = z3.Length(raw)
  B = z3.Int('batch_size')
  K = z3.Int('buckets')
  hp_cls = ClassModel('PaddedBatchHParams')

  def body_init(ctx):
    ctx.model_vars.update(N=N, batch_size=B, num_batch_size_buckets=K)
    ctx.assume(z3.And(B >= 1, K >= 1))
    hp = ctx.alloc(ObjCell(hp_cls, dict(batch_size=B, num_batch_size_buckets=K),
                           owner='param', label='hparams'))
    selfr = ctx.alloc(ObjCell(None, {}, label='self'))
    ctx.init_stack.append(selfr.addr)
    kind, _ = eng.run_function(ctx, ex_init.funcv(), [selfr, DatasetV(did), hp])
    ctx.oblige('noraise', kind == 'return')
    f = ctx.heap[selfr.addr].fields
    ok = all(k in f for k in ('_client_dataset', '_batch_size', '_final_batch_size',
                              '_data_size'))
    ctx.oblige('fields', ok)
    if not ok:
      return
    ctx.oblige('post.dataset', isinstance(f['_client_dataset'], DatasetV) and
               f['_client_dataset'].did.eq(did))
    ctx.oblige('post.batch_size', to_z3(f['_batch_size']) == B)
    ctx.oblige('post.data_size', to_z3(f['_data_size']) == N)
    ctx.oblige('padded.final', to_z3(f['_final_batch_size']) == PICK(N, B, K),
               detail='final batch size = _pick_final_batch_size(N, batch_size, buckets)')

  p.verify('PaddedBatchView.__init__', eng, body_init)

  FIN = PICK(N, B, K)

  def inv(s):
    g = s.ctx.ghost
    it = to_z3(s.it)
    seen = z3.If(it < N, it, N)
    return z3.And(
        it >= 0, it % B == 0, g['allfull'], g['count'] >= 0,
        z3.Implies(it == 0, g['count'] == 0),
        g['flat'] == z3.SubSeq(raw, 0, seen),
        z3.Implies(z3.And(it <= N, g['count'] > 0), g['last'] == B),
        z3.Implies(z3.And(it > N), z3.And(g['last'] == FIN, g['count'] > 0,
                                           g['lastreal'] == N % B)),
        z3.Implies(g['count'] > 0, g['lastreal'] >= 1))

  euclid = p.lemmas['euclid']

  def hints(s):
    it = to_z3(s.it)
    prev = it - B
    return [euclid(N, B, prev / B, N - prev), euclid(prev, B, prev / B, 0),
            euclid(it, B, prev / B + 1, 0)]

  loops = {0: Loop(inv=inv, decreases=lambda s: N - to_z3(s.it), hints=hints,
                   expect=r'range\(0, self\._data_size, self\._batch_size\)')}

  def body_iter(ctx):
    ctx.model_vars.update(N=N, batch_size=B, num_batch_size_buckets=K)
    ctx.assume(z3.And(B >= 1, K >= 1))
    for a in H_axioms():
      ctx.assume(a)
    ctx.assume(pick_spec(N, B, K, FIN))  # class invariant established by __init__
    selfr = ctx.alloc(ObjCell(None, dict(
        _client_dataset=DatasetV(did), _batch_size=B, _final_batch_size=FIN,
        _data_size=N), owner='param', label='self'))
    init_ghost(ctx)
    ctx.ghost['lastreal'] = z3.IntVal(0)
    ctx.on_yield = make_on_yield(B, ds_pre(did), padded=True)
    kind, _ = eng.run_function(ctx, ex_iter.funcv(loops=loops), [selfr])
    ctx.oblige('pad.pre', kind == 'return',
               detail='pad_examples never raises: remainder <= final batch size')
    if kind != 'return':
      return
    g = ctx.ghost
    ctx.oblige('padded.post', g['flat'] == raw,
               detail='real rows of all batches concatenate to the whole dataset, in order')
    ctx.oblige('padded.allfull', g['allfull'])
    ctx.oblige('padded.last', z3.Implies(g['count'] > 0, z3.If(
        N % B == 0, g['last'] == B,
        z3.And(g['last'] == FIN, g['lastreal'] == N % B))),
        detail='the final batch has the bucketed size and holds the remainder')

  p.verify('PaddedBatchView.__iter__', eng, body_iter)


def v_len(p):
  ex = p.extract(F, 'ClientDataset.__len__')
  eng = Engine(view_globals())
  did = z3.Const('ds', DsId)

  def body(ctx):
    kind, r = eng.run_function(ctx, ex.funcv(), [DatasetV(did)])
    ctx.oblige('noraise', kind == 'return')
    ctx.oblige('len.post', to_z3(r) == z3.Length(ds_rows(did)),
               detail='len(dataset) is the number of raw rows')

  p.verify('ClientDataset.__len__', eng, body)


def v_entry_points(p, only=None):
  """ClientDataset.batch / padded_batch / shuffle_repeat_batch: the view is built from `hparams` with EVERY keyword override
  applied (a falsy override such as drop_remainder=False or num_epochs=None included); without an hparams object the keywords
  construct it."""
  import ast
  from ..extract import parse
  views = [('batch', '', 'BatchView', 'BatchHParams', 'drop_remainder', 'bool'),
           ('padded_batch', '', 'PaddedBatchView', 'PaddedBatchHParams', 'num_batch_size_buckets', 'int'),
           ('shuffle_repeat_batch', '', 'ShuffleRepeatBatchView', 'ShuffleRepeatBatchHParams', 'drop_remainder', 'bool'),
           # Optional[int] fields: None is a meaningful value (num_epochs=None: repeat until num_steps / forever)
           ('shuffle_repeat_batch', ':num_epochs=None', 'ShuffleRepeatBatchView', 'ShuffleRepeatBatchHParams', 'num_epochs', 'none'),
           ('shuffle_repeat_batch', ':num_steps=None', 'ShuffleRepeatBatchView', 'ShuffleRepeatBatchHParams', 'num_steps', 'none'),
           ('shuffle_repeat_batch', ':seed=None', 'ShuffleRepeatBatchView', 'ShuffleRepeatBatchHParams', 'seed', 'none')]
  for meth, tag, view, hp_cls, field, sort in views:
    if only is not None and meth not in only:
      continue
    ex = p.extract(F, f'ClientDataset.{meth}')
    rec = {}
    eng = Engine({view: Handler(lambda c, ds, hp, rec=rec: rec.setdefault('hp', hp) or hp, view)})
    eng.sources = [F]
    new = None if sort == 'none' else z3.Bool('override') if sort == 'bool' else z3.Int('override')
    old = z3.Bool('hparams_value') if sort == 'bool' else z3.Int('hparams_value')
    bs = z3.Int('batch_size')

    def body(ctx, ex=ex, hp_cls=hp_cls, field=field, rec=rec, new=new, old=old, eng=eng):
      rec.clear()
      ctx.model_vars.update(hparams_value=old, batch_size=bs)
      if new is not None:
        ctx.model_vars['override'] = new
      cls = eng._resolve_in(ctx, F, hp_cls)[0]
      fields = {n: (d if d is not None else None) for n, d in (cls.dc_fields or [])}
      fields.update({'batch_size': bs, field: old})
      hp = ctx.alloc(ObjCell(cls, fields, owner='param', label='hparams'))
      selfr = ctx.alloc(ObjCell(None, {}, owner='param', label='self'))
      kind, r = eng.run_function(ctx, ex.funcv(), [selfr, hp], {field: new})
      ctx.oblige('entry.noraise', kind == 'return')
      got = rec.get('hp')
      ok = kind == 'return' and isinstance(got, Ref) and isinstance(got.cell(ctx), ObjCell)
      ctx.oblige('entry.view', ok, detail=f'{meth} builds its view from an hparams object')
      if not ok:
        return
      f = got.cell(ctx).fields
      if new is None:
        ctx.oblige('entry.override.none', z3.And(z3.BoolVal(field in f and f[field] is None),
                                                 to_z3(f.get('batch_size')) == bs),
                   detail=f'{meth}(hparams, {field}=None): the view sees {field} = None (None is a value of this Optional field, '
                          'not "unspecified") and the other fields of hparams unchanged')
      else:
        ctx.oblige('entry.override', z3.And(to_z3(f.get(field)) == new, to_z3(f.get('batch_size')) == bs),
                 detail=f'{meth}(hparams, {field}=v): the view sees {field} = v for EVERY v (falsy values included) and the other '
                        'fields of hparams unchanged')
      ctx.oblige('frame.hparams', to_z3(hp.cell(ctx).fields[field]) is not None and hp.cell(ctx).fields[field] is old,
                 detail="the caller's hparams object is not modified")
    p.verify(f'ClientDataset.{meth}[entry{tag}]', eng, body)


def v_view_stateless(p, classes):
  """'iterating the same view again gives identical batches': no method of a view other than __init__ writes to the view,
  to the dataset or to any object it did not create itself (OWN frame analysis: every mutation site - those present today and
  any added later - is on an object created in the same call). A cache of batches, a stored index buffer or a consumed
  iterator kept on the view would make a second (or a concurrent, or a partial-then-full) iteration differ."""
  import ast
  from .. import own
  from ..extract import parse
  _, tree = parse(F)
  for cname in classes:
    cls_ = [n for n in tree.body if isinstance(n, ast.ClassDef) and n.name == cname]
    bad, n_methods = [], 0
    for fn in (cls_[0].body if cls_ else []):
      if not isinstance(fn, ast.FunctionDef) or fn.name == '__init__':
        continue
      n_methods += 1
      sites, _ = own.analyze_function(fn, f'{cname}.{fn.name}')
      bad += [f'{F}:{s_.lineno} {s_.fn}: {s_.what.strip()}' for s_ in sites if not s_.ok]
      # rebinding an attribute of self is a store even when the new value is fresh
      for n in ast.walk(fn):
        if isinstance(n, (ast.Assign, ast.AugAssign, ast.AnnAssign)):
          for t in (n.targets if isinstance(n, ast.Assign) else [n.target]):
            for x in ast.walk(t):
              if isinstance(x, ast.Attribute) and isinstance(x.value, ast.Name) and x.value.id == 'self' and \
                  isinstance(x.ctx, ast.Store):
                bad.append(f'{F}:{n.lineno} {cname}.{fn.name}: {ast.unparse(n)[:60]}')
    p.oblige(f'view.stateless:{cname}', [], z3.BoolVal(bool(cls_) and n_methods >= 1 and not bad), kind='frame',
             fn=f'{cname}.__iter__',
             detail=f'{cname}: iteration keeps no state on the view and mutates nothing it did not create ({sorted(set(bad))})')


def build(p):
  D = 'native/C03.py'
  p.native('_pick_final_batch_size', D, '_pick_final_batch_size', lambda m: dict(
      data_size=m['data_size'], batch_size=m['batch_size'],
      num_batch_size_buckets=m['num_batch_size_buckets']))
  p.native('BatchView', D, 'BatchView', lambda m: dict(
      N=m['N'], batch_size=m['batch_size'], drop_remainder=m['drop_remainder']))
  p.native('PaddedBatchView', D, 'PaddedBatchView', lambda m: dict(
      N=m['N'], batch_size=m['batch_size'],
      num_batch_size_buckets=m['num_batch_size_buckets']))
  p.native('ClientDataset.', D, 'entry')
  v_entry_points(p)
  v_view_stateless(p, ('BatchView', 'PaddedBatchView'))
  lemma_mono(p)
  euclid_lemma(p)
  v_pick(p)
  v_len(p)
  v_batch_view(p)
  v_padded_view(p)
  from . import C03_helpers
  C03_helpers.build(p)
  p.trust(
      'T-NP: numpy basic slicing v[a:b] on axis 0 follows CPython slice clamping; '
      'np.ones([n], bool) is an all-True vector of length n',
      'TABLE abstraction: an Examples dict with consistent rows is (features, Seq(Row)); '
      'a comprehension that applies the same index expression to every column is a row operation',
      'per-example batch preprocessors (the property\'s hypothesis): P = map p, so P commutes '
      'with slicing and concatenation; obligations track that each batch is preprocessed exactly '
      'once by the dataset\'s preprocessor',
      'python int is Z; // and % are floor division/modulo')
  p.not_covered.append('that a user-supplied preprocessor really is per-example')
