"""C09 — an interrupted experiment resumes to the uninterrupted result.

Functions under contract: serialization.save_state / load_state,
checkpoint._get_checkpoint_paths / load_latest_checkpoint / save_checkpoint,
federated_experiment.run_federated_experiment.
"""
from __future__ import annotations

import z3

from ..script import *  # noqa
from ..lib_fs import *  # noqa

SER = 'fedjax/core/serialization.py'
CK = 'fedjax/training/checkpoint.py'
FE = 'fedjax/training/federated_experiment.py'


# ---------------------------------------------------------------- regex -> z3
def regex_to_z3(text):
  """Tiny translator for the checkpoint suffix pattern: literals, [a-z0-9]
  classes, {n}, {m,n}, * + ?, '.', trailing '$'.  Returns (Re, anchored)."""
  i = 0
  anchored = False
  if text.endswith('$') and not text.endswith('\\$'):
    anchored = True
    text = text[:-1]
  items = []
  while i < len(text):
    c = text[i]
    if c == '[':
      j = text.index(']', i)
      body = text[i + 1:j]
      alts = []
      k = 0
      while k < len(body):
        if k + 2 < len(body) and body[k + 1] == '-':
          alts.append(z3.Range(body[k], body[k + 2]))
          k += 3
        else:
          alts.append(z3.Re(body[k]))
          k += 1
      atom = alts[0] if len(alts) == 1 else z3.Union(*alts)
      i = j + 1
    elif c == '\\':
      nxt = text[i + 1]
      atom = z3.Range('0', '9') if nxt == 'd' else z3.Re(nxt)
      i += 2
    elif c == '.':
      atom = z3.AllChar(z3.ReSort(z3.StringSort()))
      i += 1
    elif c in '(|)^':
      raise Undecided(f'regex construct {c!r} outside the translated subset')
    else:
      atom = z3.Re(c)
      i += 1
    if i < len(text) and text[i] == '{':
      j = text.index('}', i)
      q = text[i + 1:j].split(',')
      lo = int(q[0])
      hi = int(q[1]) if len(q) > 1 and q[1] != '' else (lo if len(q) == 1 else None)
      atom = z3.Loop(atom, lo, hi) if hi is not None else z3.Concat(z3.Loop(atom, lo, lo), z3.Star(atom))
      i = j + 1
    elif i < len(text) and text[i] in '*+?':
      atom = {'*': z3.Star, '+': z3.Plus, '?': z3.Option}[text[i]](atom)
      i += 1
    items.append(atom)
  if not items:
    r = z3.Re('')
  elif len(items) == 1:
    r = items[0]
  else:
    r = z3.Concat(*items)
  if not anchored:
    r = z3.Concat(r, z3.Full(z3.ReSort(z3.StringSort())))
  return r


def make_re_match(p):
  def c_re_match(ctx, pattern, path):
    ok = isinstance(pattern, FStrV) and len(pattern.parts) == 2 and \
        isinstance(pattern.parts[0], tuple) and isinstance(pattern.parts[0][0], BaseV) and \
        isinstance(pattern.parts[1], str)
    ctx.oblige('ckpt.pattern', ok, kind='precondition',
               detail='the name filter is re.match(<base> + <suffix regex>, path)')
    if not ok:
      raise PathDead()
    s = z3.String('suffix')
    spec = z3.Loop(z3.Range('0', '9'), 8, 8)
    code = regex_to_z3(pattern.parts[1])
    # for ALL suffix strings: the code's regex accepts exactly the 8-digit suffixes
    p.oblige('ckpt.regex', [], z3.InRe(s, code) == z3.InRe(s, spec), kind='post',
             detail='strict 8-digit name filter: for every string s, base+s matches the pattern iff '
                    f's is exactly 8 digits (pattern suffix {pattern.parts[1]!r})',
             model_vars={'suffix': s}, fn='_get_checkpoint_paths')
    n = path if isinstance(path, NameV) else name_of(path)
    if n is None:
      raise Unsupported('re.match subject')
    return n.is8
  return c_re_match


class CkListCell(ListCell):
  pass


def base_globals(p):
  tfmod = Module('tf', {'io': Module('tf.io', {'gfile': Module('tf.io.gfile', {
      'glob': Handler(c_glob, 'gfile.glob'),
      'GFile': Handler(c_gfile, 'GFile'),
      'remove': Handler(c_remove, 'gfile.remove'),
      'rename': Handler(c_rename, 'gfile.rename'),
      'makedirs': Handler(lambda ctx, d: None, 'gfile.makedirs'),
      'exists': Handler(lambda ctx, d: ctx.fresh('exists', 'bool'), 'gfile.exists'),
  })})})
  return {
      'tf': tfmod,
      're': Module('re', {'match': Handler(make_re_match(p), 're.match')}),
      'os': Module('os', {'path': Module('os.path', {'join': Handler(c_path_join, 'os.path.join')}),
                          'replace': Handler(c_rename, 'os.replace'),
                          'rename': Handler(c_rename, 'os.rename')}),
      'pickle': Module('pickle', {'dump': Handler(c_pickle_dump, 'pickle.dump'),
                                  'load': Handler(c_pickle_load, 'pickle.load')}),
      'logging': Module('logging', {'info': Handler(lambda ctx, *a, **k: None, 'logging.info')}),
      '_CHECKPOINT_PREFIX': 'checkpoint_',
  }


def fresh_fs(ctx, clean=True):
  done = z3.Const('fs_done0', RSet)
  partial = z3.Const('fs_partial0', RSet)
  content = z3.Const('fs_content0', Content)
  fs_init(ctx, done, partial, content)
  r = z3.Int('r!0')
  if clean:
    ctx.assume(z3.ForAll([r], z3.Not(z3.Select(partial, r))))
  ctx.assume(z3.ForAll([r], z3.Implies(z3.Select(done, r), z3.And(r >= 0, r < 10 ** 8))))
  return done, partial, content


# ------------------------------------------------------------ serialization
def v_save_load(p):
  ex_s = p.extract(SER, 'save_state')
  ex_l = p.extract(SER, 'load_state')
  eng = Engine(base_globals(p))
  rnd = z3.Int('round_num')
  st = z3.Const('state', StateT)

  def body_save(ctx):
    ctx.model_vars['round_num'] = rnd
    done, partial, content = fresh_fs(ctx)
    ctx.assume(z3.And(rnd >= 0, rnd < 10 ** 8))
    name = NameV(z3.BoolVal(True), rnd, 'checkpoint')
    kind, _ = eng.run_function(ctx, ex_s.funcv(), [StateV(st), name])
    ctx.oblige('save.noraise', kind == 'return')
    g = ctx.ghost
    r = z3.Int('r')
    ctx.oblige('save.post', z3.And(
        z3.Select(g['fs_done'], rnd), z3.Select(g['fs_content'], rnd) == st,
        z3.ForAll([r], z3.Implies(r != rnd, z3.And(
            z3.Select(g['fs_done'], r) == z3.Select(done, r),
            z3.Select(g['fs_content'], r) == z3.Select(content, r))))),
        detail='afterwards the name is complete with the pickled state; no other checkpoint changes')
    ctx.oblige('save.effects', g['fs_effects'] >= 1 if not isinstance(g['fs_effects'], int)
               else g['fs_effects'] >= 1, detail='vacuity guard: crash points were checked')

  p.verify('save_state', eng, body_save)

  def body_load(ctx):
    ctx.model_vars['round_num'] = rnd
    done, partial, content = fresh_fs(ctx)
    name = NameV(z3.BoolVal(True), rnd, 'checkpoint')
    kind, r = eng.run_function(ctx, ex_l.funcv(), [name])
    if kind == 'raise':
      ctx.oblige('load.raise', z3.Not(z3.Select(done, rnd)),
                 detail='loading fails only for a name that is not a complete checkpoint')
      return
    ctx.oblige('ckpt.rt', isinstance(r, StateV) and z3.And(
        z3.Select(done, rnd), r.term == z3.Select(content, rnd)),
        detail='load_state returns what save_state stored (pickle round trip trusted)')

  p.verify('load_state', eng, body_load)


# -------------------------------------------------------- _get_checkpoint_paths
def sorted_contract(ctx, lst, key=None):
  """T-PY sorted(list, key=f): a permutation in ascending key order.  The key
  function is evaluated at an arbitrary element: it must be the integer value."""
  if not (isinstance(lst, Ref) and isinstance(lst.cell(ctx), ListCell)):
    raise Unsupported('sorted argument')
  L = lst.cell(ctx).seq
  x = ctx.fresh('elem', NameId)
  if key is None:
    ctx.oblige('ckpt.sort', False, detail='checkpoint names must be ordered by their integer value, '
               'not lexically (sorted without key)')
    raise PathDead()
  base = len(ctx.pc)
  ctx.pc.append(IS8(x))
  try:
    kv = ctx.engine.call_value(ctx, key, [IdNameV(x)], {})
  finally:
    del ctx.pc[base:]
  ctx.oblige('ckpt.sort', is_int(kv) and z3.simplify(to_z3(kv) == NUM(x)),
             detail='sort key of a checkpoint path is the integer value of its 8-digit suffix')
  out = ctx.fresh('sorted', NameSeq)
  ctx.tags['sorted_in'] = L
  ctx.tags['sorted_out'] = out
  return ctx.alloc(ListCell(out, NAME_CODEC))


def v_get_paths(p):
  ex = p.extract(CK, '_get_checkpoint_paths')
  g = base_globals(p)
  g['sorted'] = Handler(sorted_contract, 'sorted')
  eng = Engine(g)
  eng.on_empty_list = lambda ctx: ctx.alloc(ListCell(z3.Empty(NameSeq), NAME_CODEC,
                                                     label='checkpoint_paths'))
  j0 = z3.Int('j0')  # arbitrary listing index
  a0 = z3.Int('a0')  # arbitrary index into the filtered list

  def inv(s):
    G, _ = s.ctx.tags['listing']
    L = s['checkpoint_paths']
    k = to_z3(s.it)
    g_ = s.ctx.ghost
    i = z3.Int('i!f')
    return dict(
        pos=z3.And(0 <= k, k <= z3.Length(G)),
        only8=z3.Implies(z3.And(0 <= a0, a0 < z3.Length(L)), IS8(L[a0])),
        kept=z3.Implies(z3.And(0 <= j0, j0 < k, IS8(G[j0])),
                        z3.And(0 <= g_['w'], g_['w'] < z3.Length(L), L[g_['w']] == G[j0])),
        w=z3.Implies(z3.Not(z3.And(0 <= j0, j0 < k, IS8(G[j0]))), g_['w'] == -1))

  def ghost_step(s):
    # witness: where listing entry j0 went
    G, _ = s.ctx.tags['listing']
    L = s['checkpoint_paths']
    k = to_z3(s.raw('$it0'))
    g_ = s.ctx.ghost
    g_['w'] = z3.If(z3.And(k - 1 == j0, IS8(G[j0])), z3.Length(L) - 1, g_['w'])

  loops = {0: Loop(inv=inv, ghost_step=ghost_step, expect='glob', ghost=['w'])}

  def body(ctx):
    fresh_fs(ctx)
    ctx.ghost['w'] = z3.IntVal(-1)
    kind, r = eng.run_function(ctx, ex.funcv(loops=loops), [BaseV('checkpoint_')])
    ctx.oblige('paths.noraise', kind == 'return')
    if kind != 'return':
      return
    G, _ = ctx.tags['listing']
    L = ctx.tags.get('sorted_in')
    ctx.oblige('paths.sorted', L is not None and isinstance(r, Ref) and
               r.cell(ctx).seq.eq(ctx.tags['sorted_out']),
               detail='the result is sorted(filtered names, key=integer value)')
    if L is None:
      return
    i = z3.Int('i!p')
    ctx.oblige('ckpt.filter.only', z3.Implies(z3.And(0 <= a0, a0 < z3.Length(L)), IS8(L[a0])),
               detail='only names matching the strict 8-digit pattern are kept (arbitrary entry a0)')
    w = ctx.ghost['w']
    ctx.oblige('ckpt.filter.all', z3.Implies(
        z3.And(0 <= j0, j0 < z3.Length(G), IS8(G[j0])),
        z3.And(0 <= w, w < z3.Length(L), L[w] == G[j0])),
        detail='every listed name matching the pattern is kept (arbitrary listing entry j0)')

  p.verify('_get_checkpoint_paths', eng, body)


def paths_contract(ctx, base_path):
  """Contract of _get_checkpoint_paths (composition of ckpt.filter.only/all,
  ckpt.regex, ckpt.sort and the trusted sorted() contract): the ascending list
  of exactly the visible 8-digit checkpoint names."""
  ok = isinstance(base_path, BaseV)
  ctx.oblige('paths.base', ok, kind='precondition')
  if not ok:
    raise PathDead()
  g = ctx.ghost
  L = ctx.fresh('ckpts', NameSeq)
  n = z3.Length(L)
  i, j, r = z3.Ints('i!c j!c r!c')
  JDX = z3.Function(fresh_name('JDX'), I, I)
  present = lambda x: z3.Or(z3.Select(g['fs_done'], x), z3.Select(g['fs_partial'], x))
  ctx.assume(z3.ForAll([i], z3.Implies(z3.And(0 <= i, i < n), z3.And(
      IS8(L[i]), present(NUM(L[i]))))))
  ctx.assume(z3.ForAll([i, j], z3.Implies(z3.And(0 <= i, i < j, j < n), NUM(L[i]) < NUM(L[j]))))
  ctx.assume(z3.ForAll([r], z3.Implies(present(r), z3.And(0 <= JDX(r), JDX(r) < n,
                                                         NUM(L[JDX(r)]) == r))))
  ctx.tags['ckpts'] = L
  ctx.tags['ckpts_jdx'] = JDX
  ctx.tags['done_at_listing'] = g['fs_done']
  # names outside the listing are not present: index of an absent round is irrelevant
  return ctx.alloc(ListCell(L, NAME_CODEC, label='checkpoint list'))


# ----------------------------------------------------------- load / save ckpt
def ck_globals(p):
  g = base_globals(p)
  g['_get_checkpoint_paths'] = Handler(paths_contract, '_get_checkpoint_paths')
  ex_s = p.extract(SER, 'save_state')
  ex_l = p.extract(SER, 'load_state')
  # save_state/load_state are small: callers are checked against their bodies'
  # effects (every crash point inside them must be visited), i.e. inlined
  g['serialization'] = Module('serialization', {
      'save_state': ex_s.funcv(), 'load_state': ex_l.funcv()})
  return g


def v_load_latest(p):
  ex = p.extract(CK, 'load_latest_checkpoint')
  eng = Engine(ck_globals(p))

  def body(ctx):
    done, partial, content = fresh_fs(ctx)
    kind, r = eng.run_function(ctx, ex.funcv(), [RootV()])
    ctx.oblige('load.latest.noraise', kind == 'return',
               detail='with the crash invariant (no torn checkpoint name) loading never fails')
    if kind != 'return':
      return
    q = z3.Int('q')
    if r is None:
      ctx.oblige('load.latest.none', z3.ForAll([q], z3.Not(z3.Select(done, q))),
                 detail='None exactly when no checkpoint exists')
      return
    ok = isinstance(r, tuple) and len(r) == 2 and isinstance(r[0], StateV)
    ctx.oblige('load.latest.shape', ok)
    if not ok:
      return
    rn = to_z3(r[1])
    ctx.oblige('load.latest', z3.And(
        z3.Select(done, rn), r[0].term == z3.Select(content, rn),
        z3.ForAll([q], z3.Implies(z3.Select(done, q), q <= rn))),
        detail='returns (state, round) of the numerically largest complete checkpoint: the newest wins')

  p.verify('load_latest_checkpoint', eng, body)


def v_save_checkpoint(p):
  ex = p.extract(CK, 'save_checkpoint')
  eng = Engine(ck_globals(p))
  rnd, keep, q0 = z3.Ints('round_num keep q0')  # q0: an arbitrary round number
  st = z3.Const('state', StateT)

  def last_of(L):
    return NUM(L[z3.Length(L) - 1])

  def inv(s):
    g = s.ctx.ghost
    L = s.ctx.tags['ckpts']
    JDX = s.ctx.tags['ckpts_jdx']
    k = to_z3(s.it)
    m = z3.Length(s['remove_checkpoint_paths'])
    q = z3.Int('q!r')
    d0 = s.old('$fs_done')
    return dict(
        pos=z3.And(0 <= k, k <= m),
        # removed so far: exactly the first k entries of the ascending list
        removed=z3.Select(g['fs_done'], q0) == z3.And(z3.Select(d0, q0), JDX(q0) >= k),
        last=z3.And(z3.Select(g['fs_done'], last_of(L)), last_of(L) >= rnd),
        clean=z3.ForAll([q], z3.Not(z3.Select(g['fs_partial'], q))),
        content=g['fs_content'] == s.old('$fs_content'))

  def hints(s):
    L = s.ctx.tags['ckpts']
    JDX = s.ctx.tags['ckpts_jdx']
    k = to_z3(s.it) - 1  # index of the entry removed in this iteration
    d0 = s.old('$fs_done')
    rp = s['remove_checkpoint_paths']
    return [
        ('assert', 'elem', rp[k] == L[k]),
        ('assert', 'bound', k < z3.Length(L) - 1),
        ('assert', 'uniq', z3.Implies(z3.And(z3.Select(d0, q0), NUM(L[k]) == q0), JDX(q0) == k)),
        ('assert', 'uniq2', z3.Implies(z3.And(z3.Select(d0, q0), JDX(q0) == k), NUM(L[k]) == q0)),
        ('assert', 'notlast', NUM(L[k]) != last_of(L)),
    ]

  loops = {0: Loop(inv=inv, expect='remove_checkpoint_paths', hints=hints,
                   ghost=['fs_done', 'fs_partial', 'fs_content'])}

  def body(ctx):
    ctx.model_vars.update(round_num=rnd, keep=keep, q0=q0)
    done, partial, content = fresh_fs(ctx)
    ctx.assume(z3.And(rnd >= 0, rnd < 10 ** 8, keep >= 1))

    # ckpt.order: once the new file is complete, a complete checkpoint at least
    # as new as it exists at every later crash point (new file first, then removals)
    def hook(c, what):
      g = c.ghost
      if what == 'remove':
        L = c.tags['ckpts']
        try:
          k = to_z3(c.lookup('$it0')) - 1
          rp = c.engine.term_of(c, c.lookup('remove_checkpoint_paths'))
          c.oblige('ckpt.order.step.elem', rp[k] == L[k], kind='invariant')
          c.oblige('ckpt.order.step.notlast', z3.And(k < z3.Length(L) - 1, NUM(L[k]) != last_of(L)),
                   kind='invariant')
        except KeyError:
          pass
        c.oblige('ckpt.order', z3.And(z3.Select(g['fs_done'], last_of(L)), last_of(L) >= rnd),
                 kind='crash-invariant',
                 detail='after each removal: the numerically largest checkpoint (>= the one just saved) '
                        'is still complete')
      elif c.tags.get('ckpts') is not None:
        c.oblige('ckpt.order.seq', False, detail='checkpoint written after old ones were listed for removal')
    ctx.tags['crash_hook'] = hook
    kind, _ = eng.run_function(ctx, ex.funcv(loops=loops), [RootV(), StateV(st), rnd, keep])
    ctx.oblige('savec.noraise', kind == 'return')
    if kind != 'return':
      return
    g = ctx.ghost
    L = ctx.tags['ckpts']
    JDX = ctx.tags['ckpts_jdx']
    n = z3.Length(L)
    cut = z3.If(n - keep > 0, n - keep, 0)
    d1 = ctx.tags['done_at_listing']
    ctx.oblige('ckpt.keep', z3.Select(g['fs_done'], q0) == z3.And(z3.Select(d1, q0), JDX(q0) >= cut),
               detail='a checkpoint remains iff it is among the `keep` numerically largest ones '
                      '(index >= n-keep in the ascending list); arbitrary round q0')
    ctx.oblige('ckpt.keep.count', n - cut <= keep, detail='at most `keep` checkpoints are retained')
    q = z3.Int('q')
    ctx.oblige('ckpt.new', z3.Implies(
        z3.ForAll([q], z3.Implies(z3.Select(done, q), q <= rnd)),
        z3.And(z3.Select(g['fs_done'], rnd), z3.Select(g['fs_content'], rnd) == st)),
        detail='a checkpoint at least as new as all existing ones (the same round saved again included) is retained '
               'with the saved state')
    ctx.oblige('ckpt.content', z3.Implies(
        z3.And(z3.Select(g['fs_done'], q0), q0 != rnd),
        z3.Select(g['fs_content'], q0) == z3.Select(content, q0)),
        detail='retained older checkpoints keep their content')
    ctx.oblige('ckpt.written', z3.Select(d1, rnd),
               detail='the new checkpoint was complete before old ones were listed for removal')

  p.verify('save_checkpoint', eng, body)


def build(p):
  D = 'native/C09.py'
  p.native('save_state', D, 'crash')
  p.native('load_state', D, 'types')
  p.native('ckpt.rt', D, 'types')
  p.native('_get_checkpoint_paths', D, 'paths')
  p.native('load_latest_checkpoint', D, 'paths')
  p.native('save_checkpoint', D, 'keep')
  p.native('run_federated_experiment', D, 'resume')
  v_save_load(p)
  v_get_paths(p)
  v_load_latest(p)
  v_save_checkpoint(p)
  from . import C09_run
  C09_run.build(p)
  # "round-indexed client sampler": the resume argument needs the sampler of the re-run (a NEW process) to return, at round r,
  # what the original run returned: the sampler contracts of C13 (terms over (seed, round) and the dataset's enumeration order
  # only - no hash-ordered container) are obligations of C09 too, with the cross-process restart check
  from . import C13
  p.native('UniformGetClientSampler', 'native/C13.py', 'restart')
  p.native('get_pseudo_random_state', 'native/C13.py', 'get')
  C13.v_prs(p)
  C13.v_get_sampler(p)
  p.trust('T-IO: each tf.io.gfile / os primitive (open-for-write, write, close, rename, remove, glob) is one '
          'atomic effect; rename is atomic and replaces its target; pickle.load(pickle.dump(x)) == x',
          'T-PY: sorted(list, key=f) returns a permutation in ascending key order; f"{r:08d}" is exactly 8 '
          'digits iff 0 <= r < 10^8; int() of an all-digit string is its value',
          'composition: the contract of _get_checkpoint_paths used by its callers (ascending list of exactly '
          'the visible 8-digit names) follows from ckpt.regex + ckpt.filter.only/all + ckpt.sort + the sorted() contract',
          'root_dir contains no regex/glob metacharacters (the pattern is built from the unescaped path); '
          "Python's `$` also matches before a trailing newline in a file name (ignored)",
          'Logger / absl logging never create names matching checkpoint_[0-9]{8}')
