"""C08 — all federated-dataset implementations expose the same mapping.

Functions under contract: intersect_slice_ranges; ClientPreprocessor and
BatchPreprocessor (__call__, append); SQLiteFederatedData (_range_where, slice,
client_size, get_client, get_clients, preprocess_client, preprocess_batch,
_client_dataset); SubsetFederatedData (slice, client_size, get_client,
get_clients, preprocess_*); InMemoryFederatedData (__init__, slice, get_client,
client_size, get_clients, preprocess_*, _client_dataset).
"""
from __future__ import annotations

import re
import z3

from ..script import *  # noqa
from ..lib_fd import *  # noqa

FD = 'fedjax/core/federated_data.py'
CD = 'fedjax/core/client_datasets.py'
SQ = 'fedjax/core/sqlite_federated_data.py'
IM = 'fedjax/core/in_memory_federated_data.py'


def opt(name):
  return OptV(z3.Bool(name + '_none'), z3.Int(name))


def optvars(mv, *names):
  for n in names:
    mv[n] = z3.Int(n)
    mv[n + '_none'] = z3.Bool(n + '_none')


# --------------------------------------------------------------------------
def v_intersect(p):
  ex = p.extract(FD, 'intersect_slice_ranges')
  eng = Engine()
  x = z3.Int('x')

  def body(ctx):
    optvars(ctx.model_vars, 'current_start', 'current_stop', 'new_start', 'new_stop')
    ctx.model_vars['x'] = x
    cs, ce, ns, ne = opt('current_start'), opt('current_stop'), opt('new_start'), opt('new_stop')
    kind, r = eng.run_function(ctx, ex.funcv(), [cs, ce, ns, ne])
    ctx.oblige('isr.noraise', kind == 'return')
    ok = isinstance(r, tuple) and len(r) == 2
    ctx.oblige('isr.shape', ok)
    if not ok:
      return
    ctx.oblige('isr.meet', inr(r[0], r[1], x) == z3.And(inr(cs, ce, x), inr(ns, ne, x)),
               detail='x in result  <=>  x in current and x in new (slicing never enlarges)')

  p.verify('intersect_slice_ranges', eng, body)


# --------------------------------------------------------------------------
FOLD2 = z3.Function('FOLD2', FnSeq, I, I, ExT, ExT)  # client fns[0:k] applied in order
FOLD1 = z3.Function('FOLD1', FnSeq, I, ExT, ExT)     # batch fns[0:k] applied in order


def fold_axioms():
  s = z3.Const('fo_s', FnSeq)
  k, c = z3.Ints('fo_k fo_c')
  e = z3.Const('fo_e', ExT)
  return [
      z3.ForAll([s, c, e], FOLD2(s, 0, c, e) == e, patterns=[FOLD2(s, 0, c, e)]),
      z3.ForAll([s, k, c, e], z3.Implies(z3.And(k >= 1, k <= z3.Length(s)),
                                         FOLD2(s, k, c, e) == APPLY2(s[k - 1], c, FOLD2(s, k - 1, c, e))),
                patterns=[FOLD2(s, k, c, e)]),
      z3.ForAll([s, e], FOLD1(s, 0, e) == e, patterns=[FOLD1(s, 0, e)]),
      z3.ForAll([s, k, e], z3.Implies(z3.And(k >= 1, k <= z3.Length(s)),
                                      FOLD1(s, k, e) == APPLY1(s[k - 1], FOLD1(s, k - 1, e))),
                patterns=[FOLD1(s, k, e)]),
  ]


def v_chains(p):
  for relpath, cls, two in ((FD, 'ClientPreprocessor', True), (CD, 'BatchPreprocessor', False)):
    ex_call = p.extract(relpath, f'{cls}.__call__')
    ex_app = p.extract(relpath, f'{cls}.append')
    ex_init = p.extract(relpath, f'{cls}.__init__')
    fns = z3.Const('fns', FnSeq)
    n = z3.Length(fns)
    e0 = z3.Const('examples', ExT)
    cid = z3.Int('client_id')
    acr = Handler(lambda ctx, ex: None, 'assert_consistent_rows')
    g = {'assert_consistent_rows': acr,
         'client_datasets': Module('client_datasets', {'assert_consistent_rows': acr})}
    eng = Engine(g)

    def inv(s, fns=fns, two=two, e0=e0, cid=cid):
      k = to_z3(s.it)
      out = s.raw('out')
      want = FOLD2(fns, k, cid, DCOPY(e0)) if two else FOLD1(fns, k, DCOPY(e0))
      return dict(pos=z3.And(0 <= k, k <= z3.Length(fns)),
                  fold=out.term == want if isinstance(out, ExV) else False)

    loops = {0: Loop(inv=inv, expect=r'self\._fns')}

    def body_call(ctx, two=two, ex_call=ex_call, loops=loops):
      for a in fold_axioms():
        ctx.assume(a)
      selfr = ctx.alloc(ObjCell(None, dict(_fns=SeqV(fns, FN_CODEC)), owner='param',
                                label='self'))
      args = [selfr, cid, ExV(e0)] if two else [selfr, ExV(e0)]
      kind, r = eng.run_function(ctx, ex_call.funcv(loops=loops), args)
      ctx.oblige('chain.noraise', kind == 'return')
      if kind != 'return' or not isinstance(r, ExV):
        ctx.oblige('chain.type', False)
        return
      full = FOLD2(fns, n, cid, DCOPY(e0)) if two else FOLD1(fns, n, DCOPY(e0))
      ctx.oblige('chain.order', z3.If(n == 0, r.term == e0, r.term == full),
                 detail='functions are applied in registration order to a copy of the input')

    p.verify(f'{cls}.__call__', eng, body_call)

    fnv = FnV(z3.Const('fn', Fn))

    def body_append(ctx, cls=cls, ex_app=ex_app, ex_init=ex_init):
      klass = ClassModel(cls, {'__init__': ex_init.funcv()})
      eng.globals[cls] = klass
      selfr = ctx.alloc(ObjCell(klass, dict(_fns=SeqV(fns, FN_CODEC)), owner='param',
                                label='self'))
      kind, r = eng.run_function(ctx, ex_app.funcv(), [selfr, fnv])
      ctx.oblige('append.noraise', kind == 'return')
      ok = isinstance(r, Ref) and r.addr != selfr.addr and isinstance(r.cell(ctx), ObjCell) \
          and '_fns' in r.cell(ctx).fields
      ctx.oblige('append.new', ok, detail='append returns a new preprocessor object')
      if not ok:
        return
      newf = r.cell(ctx).fields['_fns']
      ctx.oblige('append.post', eng.term_of(ctx, newf) == z3.Concat(fns, z3.Unit(fnv.term)),
                 detail='new chain = old chain followed by fn')
      oldf = selfr.cell(ctx).fields['_fns']
      ctx.oblige('frame.append', eng.term_of(ctx, oldf) == fns,
                 detail="the receiver's chain is unchanged")

    p.verify(f'{cls}.append', eng, body_append)


# --------------------------------------------------------------------------
DBHAS = z3.Function('DBHAS', I, B)
DBDATA = z3.Function('DBDATA', I, Blob)
DBNUM = z3.Function('DBNUM', I, I)
PARSE = z3.Function('PARSE', Blob, ExT)


class BlobV(Val):
  def __init__(self, term):
    self.term = term


class ConnV(Val):
  """sqlite3 connection: point lookups by primary key (T-IO)."""

  def __init__(self):
    self.queries = []

  def method(self, ctx, name, args, kwargs):
    if name != 'execute':
      raise Unsupported(f'connection.{name}')
    sql, params = args[0], args[1]
    if not isinstance(sql, str):
      raise Unsupported('range query text is not modelled here')
    items = ctx.engine.concrete_items(ctx, params)
    m = re.fullmatch(r'SELECT (\w+) FROM federated_data WHERE client_id = \?;?', sql.strip())
    ctx.oblige('sql.point', bool(m) and len(items) == 1,
               detail='point lookup is `SELECT <col> FROM federated_data WHERE client_id = ?`')
    if not (m and len(items) == 1):
      raise PathDead()
    return CursorV(m.group(1), to_z3(items[0]))

  def identity(self, ctx):
    return z3.IntVal(0)


class CursorV(Val):
  def __init__(self, col, cid):
    self.col, self.cid = col, cid

  def method(self, ctx, name, args, kwargs):
    if name != 'fetchone':
      raise Unsupported(f'cursor.{name}')
    if self.col == 'data':
      row = (BlobV(DBDATA(self.cid)),)
    elif self.col == 'num_examples':
      row = (DBNUM(self.cid),)
    else:
      ctx.oblige('sql.column', False, detail=f'unknown column {self.col}')
      raise PathDead()
    return OptV(z3.Not(DBHAS(self.cid)), row)


class ParseV(Val):
  def call(self, ctx, args, kwargs):
    (b,) = args
    return ExV(PARSE(b.term))

  def identity(self, ctx):
    return z3.IntVal(1)


class DsV(Val):
  """ClientDataset(examples, batch_preprocessor)."""

  def __init__(self, ex, chain):
    self.ex, self.chain = ex, chain

  def method(self, ctx, name, args, kwargs):
    if name == 'all_examples':
      return ExV(z3.Function('ALLEX', ExT, Chain, ExT)(self.ex.term, self.chain.term))
    raise Unsupported(f'ClientDataset.{name}')


def c_client_dataset(ctx, examples, preprocessor=None):
  if not isinstance(examples, ExV) or not isinstance(preprocessor, ChainV):
    ctx.oblige('clientdataset.args', False,
               detail='ClientDataset(examples, batch preprocessor chain)')
    raise PathDead()
  return DsV(examples, preprocessor)


CD_MODULE = Module('client_datasets', {
    'ClientDataset': Handler(c_client_dataset, 'ClientDataset'),
    'num_examples': Handler(lambda ctx, ex, validate=True: NUMEX(ex.term), 'num_examples'),
    'assert_consistent_rows': Handler(lambda ctx, ex: None, 'assert_consistent_rows'),
})
NUMEX = z3.Function('NUMEX', ExT, I)


def sqlite_self(ctx, cls, start, stop, pc, pb, conn, parse):
  return ctx.alloc(ObjCell(cls, dict(
      _connection=conn, _parse_examples=parse, _start=start, _stop=stop,
      _preprocess_client=ChainV(pc), _preprocess_batch=ChainV(pb)),
      owner='param', label='self'))


def parse_where(text):
  """`(1)` or a conjunction of `a <op> b` over :start, :stop, client_id ->
  predicate(start, stop, x)."""
  t = text.strip()
  if not (t.startswith('(') and t.endswith(')')):
    return None
  t = t[1:-1].strip()
  if t == '1':
    return lambda s, e, x: z3.BoolVal(True)
  parts = [q.strip() for q in t.split(' AND ')]
  preds = []
  for q in parts:
    m = re.fullmatch(r'(:start|:stop|client_id)\s*(<=|<|>=|>|=)\s*(:start|:stop|client_id)', q)
    if not m:
      return None
    preds.append(m.groups())

  def f(s, e, x):
    env = {':start': s, ':stop': e, 'client_id': x}
    out = []
    for a, op, b in preds:
      l, r = env[a], env[b]
      out.append({'<=': l <= r, '<': l < r, '>=': l >= r, '>': l > r, '=': l == r}[op])
    return z3.And(*out)
  return f


def v_sqlite(p):
  exs = {n: p.extract(SQ, f'SQLiteFederatedData.{n}') for n in (
      '__init__', '_range_where', 'slice', 'client_size', 'get_client', 'get_clients',
      'preprocess_client', 'preprocess_batch', '_client_dataset')}
  pc, pb = z3.Consts('preprocess_client preprocess_batch', Chain)
  x = z3.Int('client_id')
  isr = z3.Function('ISR', I, B, I, B, I, B, I, B, I)  # placeholder, unused

  def c_isr(ctx, cs, ce, ns, ne):
    # contract of intersect_slice_ranges (isr.meet), at an arbitrary id
    rs = OptV(ctx.fresh('rs_none', 'bool'), ctx.fresh('rs'))
    re_ = OptV(ctx.fresh('re_none', 'bool'), ctx.fresh('re'))
    y = z3.Int('y!isr')
    ctx.assume(z3.ForAll([y], inr(rs, re_, y) == z3.And(inr(cs, ce, y), inr(ns, ne, y))))
    return (rs, re_)

  g = {'client_datasets': CD_MODULE,
       'federated_data': Module('federated_data', {
           'intersect_slice_ranges': Handler(c_isr, 'intersect_slice_ranges')})}
  eng = Engine(g)
  cls = p.extract_class(SQ, 'SQLiteFederatedData', contracted=tuple(exs))
  methods = cls.methods
  eng.globals['SQLiteFederatedData'] = cls

  def mk(ctx):
    conn, parse = ConnV(), ParseV()
    st, sp = opt('start'), opt('stop')
    optvars(ctx.model_vars, 'start', 'stop')
    ctx.model_vars['client_id'] = x
    return sqlite_self(ctx, cls, st, sp, pc, pb, conn, parse), st, sp, conn, parse

  # _range_where: the literal is parsed and must denote the view's range
  def body_where(ctx):
    selfr, st, sp, _, _ = mk(ctx)
    kind, r = eng.run_function(ctx, methods['_range_where'], [selfr])
    ctx.oblige('sql.where.noraise', kind == 'return')
    pred = parse_where(r) if isinstance(r, str) else None
    ctx.oblige('sql.where.parse', pred is not None,
               detail='WHERE clause is (1) or a conjunction of comparisons over :start/:stop/client_id')
    if pred is None:
      return
    # NULL parameters (None) never occur in the clause that is selected
    uses_start = ':start' in r
    uses_stop = ':stop' in r
    ctx.oblige('sql.where.null', z3.And(z3.Implies(uses_start, z3.Not(st.is_none)),
                                        z3.Implies(uses_stop, z3.Not(sp.is_none))),
               detail='a None bound is never compared in SQL')
    ctx.oblige('sql.where', pred(st.val, sp.val, x) == inr(st, sp, x),
               detail='the SQL range predicate equals start <= id < stop for the None pattern that selects it')

  p.verify('SQLiteFederatedData._range_where', eng, body_where)

  def point(name, col):
    def body(ctx):
      selfr, st, sp, _, _ = mk(ctx)
      kind, r = eng.run_function(ctx, methods[name], [selfr, x])
      inview = z3.And(inr(st, sp, x), DBHAS(x))
      if kind == 'raise':
        ctx.oblige(f'sql.point.keyerror', z3.And(r.name == 'KeyError', z3.Not(inview)),
                   detail='KeyError exactly for ids outside the view')
        return
      ctx.oblige('sql.point.inview', inview, detail='a value is returned only for ids inside the view')
      if col == 'num':
        ctx.oblige('sql.size', to_z3(r) == DBNUM(x))
        # property level: the size every implementation reports is the size of
        # the client's dataset as served.  DB invariant (builder, C16 sqlite.rt):
        # num_examples column = rows of the stored examples; batch preprocessors
        # are per-example (C03 hypothesis) so all_examples keeps the row count.
        ALLEX = z3.Function('ALLEX', ExT, Chain, ExT)
        ctx.assume(DBNUM(x) == NUMEX(PARSE(DBDATA(x))))
        pre = CAPPLY(pc, x, PARSE(DBDATA(x)))
        ctx.assume(NUMEX(ALLEX(pre, pb)) == NUMEX(pre))
        served = ALLEX(pre, pb)
        ctx.oblige('size.agree', to_z3(r) == NUMEX(served),
                   detail='client_size(id) equals len(get_client(id)), as for the in-memory implementation')
      else:
        ok = isinstance(r, DsV)
        ctx.oblige('chain.order.type', ok)
        if ok:
          ctx.oblige('chain.order', z3.And(
              r.ex.term == CAPPLY(pc, x, PARSE(DBDATA(x))), r.chain.term == pb),
              detail='client-level chain is applied to the parsed row, batch chain is handed to ClientDataset')
      fl = selfr.cell(ctx).fields
      ctx.oblige('frame.view', fl['_start'] is fl['_start'] and len(fl) == 6)
    p.verify(f'SQLiteFederatedData.{name}', eng, body)

  point('client_size', 'num')
  point('get_client', 'data')

  def body_slice(ctx):
    selfr, st, sp, conn, parse = mk(ctx)
    ns, ne = opt('new_start'), opt('new_stop')
    optvars(ctx.model_vars, 'new_start', 'new_stop')
    kind, r = eng.run_function(ctx, methods['slice'], [selfr, ns, ne])
    ctx.oblige('sql.slice.noraise', kind == 'return')
    ok = isinstance(r, Ref) and r.addr != selfr.addr and isinstance(r.cell(ctx), ObjCell)
    ctx.oblige('sql.slice.new', ok, detail='slice derives a new view object')
    if not ok:
      return
    f = r.cell(ctx).fields
    ctx.oblige('sql.slice.range', inr(f.get('_start'), f.get('_stop'), x) ==
               z3.And(inr(st, sp, x), inr(ns, ne, x)),
               detail='the new view holds exactly the ids in both ranges')
    same = f.get('_connection') is conn and f.get('_parse_examples') is parse and \
        isinstance(f.get('_preprocess_client'), ChainV) and f['_preprocess_client'].term.eq(pc) and \
        isinstance(f.get('_preprocess_batch'), ChainV) and f['_preprocess_batch'].term.eq(pb)
    ctx.oblige('sql.slice.same', same, detail='same connection, parser and preprocessor chains')

  p.verify('SQLiteFederatedData.slice', eng, body_slice)

  def prep(name, which):
    def body(ctx):
      selfr, st, sp, conn, parse = mk(ctx)
      fn = FnV(z3.Const('fn', Fn))
      kind, r = eng.run_function(ctx, methods[name], [selfr, fn])
      ctx.oblige('prep.noraise', kind == 'return')
      ok = isinstance(r, Ref) and r.addr != selfr.addr and isinstance(r.cell(ctx), ObjCell)
      ctx.oblige('prep.new', ok)
      if not ok:
        return
      f = r.cell(ctx).fields
      c, b = f.get('_preprocess_client'), f.get('_preprocess_batch')
      okc = isinstance(c, ChainV) and isinstance(b, ChainV)
      ctx.oblige('prep.type', okc)
      if not okc:
        return
      grown, kept, kept0 = (c, b, pb) if which == 'client' else (b, c, pc)
      base = pc if which == 'client' else pb
      ctx.oblige('prep.chain', z3.And(
          chain_fns(grown.term) == z3.Concat(chain_fns(base), z3.Unit(fn.term)),
          kept.term == kept0),
          detail=f'fn is appended to the {which}-level chain only')
      ctx.oblige('prep.range', z3.And(inr(f.get('_start'), f.get('_stop'), x) == inr(st, sp, x)),
                 detail='the id range of the view is unchanged')
      ctx.oblige('prep.same', f.get('_connection') is conn and f.get('_parse_examples') is parse)
      old = selfr.cell(ctx).fields
      ctx.oblige('frame.view', old['_preprocess_client'].term.eq(pc) and
                 old['_preprocess_batch'].term.eq(pb),
                 detail='deriving a view never changes the view it was derived from')
    p.verify(f'SQLiteFederatedData.{name}', eng, body)

  prep('preprocess_client', 'client')
  prep('preprocess_batch', 'batch')

  # get_clients: answers in request order, one pair per requested id
  ids = z3.Const('client_ids', z3.SeqSort(I))

  def body_get_clients(ctx):
    selfr, st, sp, _, _ = mk(ctx)
    ctx.ghost.update(n=z3.IntVal(0), ok=z3.BoolVal(True))

    def on_yield(c, v):
      g = c.ghost
      okv = isinstance(v, tuple) and len(v) == 2 and isinstance(v[1], DsV)
      c.oblige('getclients.pair', okv)
      if not okv:
        raise PathDead()
      k = g['n']
      g['ok'] = z3.And(g['ok'], to_z3(v[0]) == ids[k],
                       v[1].ex.term == CAPPLY(pc, ids[k], PARSE(DBDATA(ids[k]))))
      g['n'] = k + 1
    ctx.on_yield = on_yield
    f = exs['get_clients'].funcv(loops={0: Loop(
        inv=lambda s: dict(pos=z3.And(s.ctx.ghost['n'] == to_z3(s.it), s.ctx.ghost['ok'],
                                      0 <= to_z3(s.it), to_z3(s.it) <= z3.Length(ids))),
        expect='client_ids')})
    kind, r = eng.run_function(ctx, f, [selfr, SeqV(ids, INT)])
    if kind == 'raise':
      ctx.oblige('getclients.keyerror', r.name == 'KeyError')
      return
    ctx.oblige('getclients.order', z3.And(ctx.ghost['ok'], ctx.ghost['n'] == z3.Length(ids)),
               detail='one (id, dataset) pair per requested id, in request order')

  p.verify('SQLiteFederatedData.get_clients', eng, body_get_clients)


def build(p):
  D = 'native/C08.py'
  p.native('intersect_slice_ranges', D, 'isr')
  p.native('SQLiteFederatedData', D, 'views')
  p.native('SubsetFederatedData', D, 'views')
  p.native('InMemoryFederatedData', D, 'views')
  p.native('ClientPreprocessor', D, 'chains')
  p.native('BatchPreprocessor', D, 'chains')
  v_intersect(p)
  v_chains(p)
  v_sqlite(p)
  from . import C08_views
  C08_views.build(p)
  p.native_checks = [dict(
      name='views_all_access_paths', driver=D, payload={'mode': 'sweep', 'fn': 'views'},
      bound='16 byte ids (prefixes of one another, trailing zero bytes, empty id) x ~360 sequences of slice / subset / preprocess '
            'operations x {in-memory, SQLite, subset}: ids, counts, sizes, clients(), shuffled_clients (each client once per pass), '
            'get_clients order, get_client, KeyError outside the view, sorted iteration order of in-memory views',
      why_bounded='shuffled_clients and the enumeration paths are compositions over generators (clients(), buffered_shuffle - the '
                  'latter proved in C15) that are not under contract here; run on the real code on every check')]
  p.trust('client ids are elements of an arbitrary total order (only compared): order formulas valid in Z '
          'hold for bytes, incl. trailing zero bytes and prefixes',
          'T-IO sqlite3: primary-key point lookup returns the stored row or None; BLOB comparison in SQL '
          'is the bytes order; ORDER BY rowid is insertion order',
          'user preprocessing functions are pure (uninterpreted APPLY1/APPLY2); dict(examples) is a copy')


# Known finding D-08b: SQLite metadata calls answer from the stored
# num_examples column; a client-level preprocessor that changes the number of
# rows makes them disagree with len(get_client(id)) and with the in-memory
# implementation.  Region: the client chain is not length preserving.
KNOWN_REGIONS = {
    'client-chain-not-length-preserving': lambda mv: NUMEX(CAPPLY(
        z3.Const('preprocess_client', Chain), z3.Int('client_id'),
        PARSE(DBDATA(z3.Int('client_id'))))) != NUMEX(PARSE(DBDATA(z3.Int('client_id')))),
}
