"""C07 — aggregation is the exact weighted mean and never harms its inputs.

Functions under contract (fedjax/core/tree_util.py, aggregators/aggregator.py):
tree_weight, tree_inverse_weight, _tree_inverse_weight_eq, tree_zeros_like,
tree_add, tree_sum, tree_mean, tree_l2_norm, tree_clip_by_global_norm,
mean_aggregator.<locals>.apply.
"""
from __future__ import annotations

import z3

from ..script import *  # noqa
from ..lib_real import *  # noqa

F = 'fedjax/core/tree_util.py'
AG = 'fedjax/aggregators/aggregator.py'
I = z3.IntSort()
PairS = z3.DeclareSort('TreeAndWeight')
PVAL = z3.Function('pair_tree_at_c', PairS, R)   # the tree's value at the arbitrary coordinate
PW = z3.Function('pair_weight', PairS, R)
PairSeq = z3.SeqSort(PairS)
WSUM = z3.Function('WSUM', PairSeq, I, R)         # sum_{i<k} w_i * p_i (at the coordinate)
WTOT = z3.Function('WTOT', PairSeq, I, R)         # sum_{i<k} w_i
PSUM = z3.Function('PSUM', PairSeq, I, R)         # sum_{i<k} p_i


def sum_axioms():
  s = z3.Const('sa_s', PairSeq)
  k = z3.Int('sa_k')
  return [
      z3.ForAll([s], z3.And(WSUM(s, 0) == 0, WTOT(s, 0) == 0, PSUM(s, 0) == 0)),
      z3.ForAll([s, k], z3.Implies(z3.And(k >= 1, k <= z3.Length(s)), z3.And(
          WSUM(s, k) == WSUM(s, k - 1) + PVAL(s[k - 1]) * PW(s[k - 1]),
          WTOT(s, k) == WTOT(s, k - 1) + PW(s[k - 1]),
          PSUM(s, k) == PSUM(s, k - 1) + PVAL(s[k - 1]))),
          patterns=[WSUM(s, k)]),
      z3.ForAll([s, k], z3.Implies(z3.And(k >= 1, k <= z3.Length(s)),
                                   WTOT(s, k) == WTOT(s, k - 1) + PW(s[k - 1])),
                patterns=[WTOT(s, k)]),
      z3.ForAll([s, k], z3.Implies(z3.And(k >= 1, k <= z3.Length(s)),
                                   PSUM(s, k) == PSUM(s, k - 1) + PVAL(s[k - 1])),
                patterns=[PSUM(s, k)]),
  ]


def pair_codec(ctx_alloc_holder):
  """Items of the caller's iterable: (tree owned by the caller, weight)."""
  def dec(t):
    ctx = ctx_alloc_holder['ctx']
    return (new_tree(ctx, PVAL(t), owner='param', label='caller tree'), PW(t))
  return Codec(PairS, dec=dec)


def tree_only_codec(holder):
  def dec(t):
    return new_tree(holder['ctx'], PVAL(t), owner='param', label='caller tree')
  return Codec(PairS, dec=dec)


def opt_tree_sort(ctx, nm):
  return OptV(ctx.fresh(nm + '_none', 'bool'), new_tree(ctx, ctx.fresh(nm, 'real'), label=nm))


def base_engine():
  eng = Engine(real_globals())
  eng.sources = [F]
  return eng


def v_pointwise(p):
  """tree_weight, tree_add, tree_zeros_like, tree_inverse_weight: leafwise definitions."""
  eng = base_engine()
  a, b, w = z3.Reals('a b w')
  for name in ('tree_weight', 'tree_add', 'tree_zeros_like', 'tree_inverse_weight',
               '_tree_inverse_weight_eq'):
    p.extract(F, name)

  def body(ctx):
    ctx.model_vars.update(a=a, b=b, w=w)
    ta = new_tree(ctx, a, owner='param', label='left')
    tb = new_tree(ctx, b, owner='param', label='right')
    get = lambda n: ctx.lookup(n)
    ctx.push_frame(())
    f = FuncV(ast.parse('def _m(): pass').body[0], (), name='<module>')
    f.relpath = F
    ctx.cur_frame()['$func'] = f
    r = eng.call_value(ctx, get('tree_weight'), [ta, w], {})
    ctx.oblige('weight.def', tree_val(ctx, r) == a * w, detail='tree_weight(t, w) = w * t leafwise')
    ctx.oblige('own.fresh', r.cell(ctx).owner == 'local' and r.addr != ta.addr,
               detail='result is a fresh buffer')
    r = eng.call_value(ctx, get('tree_add'), [ta, tb], {})
    ctx.oblige('add.def', tree_val(ctx, r) == a + b)
    r = eng.call_value(ctx, get('tree_zeros_like'), [ta], {})
    ctx.oblige('zeros.def', tree_val(ctx, r) == 0)
    for nm in ('tree_inverse_weight',):
      r = eng.call_value(ctx, get(nm), [ta, w], {})
      ctx.oblige('invweight.def', tree_val(ctx, r) == z3.If(w > 0, a / w, 0),
                 detail='t / w, all zeros when w <= 0 (zero guard)')
    ctx.oblige('frame.args', ta.cell(ctx).valid and tb.cell(ctx).valid and
               ta.cell(ctx).val.eq(a) and tb.cell(ctx).val.eq(b),
               detail='the caller arrays are neither donated nor changed')
    # the donating variant must only ever be given a local buffer
    loc = new_tree(ctx, a, label='local sum')
    r = eng.call_value(ctx, get('_tree_inverse_weight_eq'), [loc, w], {})
    ctx.oblige('invweight.eq.def', tree_val(ctx, r) == z3.If(w > 0, a / w, 0),
               detail='sum / total weight, zeros when the total weight is zero')

  import ast
  p.verify('tree_weight/tree_add/tree_zeros_like/tree_inverse_weight', eng, body)


def v_tree_mean(p):
  ex = p.extract(F, 'tree_mean')
  eng = base_engine()
  holder = {}
  s = z3.Const('pytrees_and_weights', PairSeq)
  n = z3.Length(s)
  j0 = z3.Int('j0')
  m, M = z3.Reals('lo hi')

  def inv(st):
    k = to_z3(st.it)
    sw = st.raw('sum_weighted_pytree')
    tot = to_z3(st['sum_weight'])
    if sw is None:
      is_none, val, own = z3.BoolVal(True), z3.RealVal(0), True
    elif isinstance(sw, OptV):
      c = sw.val.cell(st.ctx)
      is_none, val, own = sw.is_none, c.val, c.owner == 'local' and c.valid
    else:
      c = sw.cell(st.ctx)
      is_none, val, own = z3.BoolVal(False), c.val, c.owner == 'local' and c.valid
    return dict(
        pos=z3.And(0 <= k, k <= n, is_none == (k == 0)),
        own=z3.BoolVal(bool(own)),
        sums=z3.And(tot == WTOT(s, k), z3.Implies(k > 0, val == WSUM(s, k))),
        hull=z3.And(tot >= 0, z3.Implies(k > 0, z3.And(tot * m <= val, val <= tot * M))))

  loops = {0: Loop(inv=inv, expect='pytrees_and_weights',
                   sorts={'sum_weighted_pytree': opt_tree_sort})}

  def body(ctx):
    holder['ctx'] = ctx
    ctx.model_vars.update(n=n)
    for a in sum_axioms():
      ctx.assume(a)
    i = z3.Int('i!w')
    # the property's hypotheses: non-negative weights; [lo, hi] bounds every input at this coordinate
    ctx.assume(z3.ForAll([i], z3.Implies(z3.And(0 <= i, i < n), z3.And(
        PW(s[i]) >= 0, m <= PVAL(s[i]), PVAL(s[i]) <= M))))
    ctx.assume(n >= 1)
    it = ctx.alloc(IterCell(s, pair_codec(holder), 0, owner='param', label='iterable'))
    ctx.modifies.add(it.addr)  # a one-pass iterator is consumed by design
    kind, r = eng.run_function(ctx, ex.funcv(loops=loops), [it])
    ctx.oblige('mean.noraise', kind == 'return')
    if kind != 'return':
      return
    ok = isinstance(r, Ref) and isinstance(r.cell(ctx), TreeCell)
    ctx.oblige('mean.type', ok)
    if not ok:
      return
    v = tree_val(ctx, r)
    W = WTOT(s, n)
    ctx.oblige('mean.post', v == z3.If(W > 0, WSUM(s, n) / W, 0),
               detail='leaf by leaf: sum(w_i * p_i) / sum(w_i), all zeros when the total weight is zero')
    ctx.oblige('mean.hull', z3.Implies(W > 0, z3.And(m <= v, v <= M)),
               detail='inside the coordinate-wise [min, max] of the inputs')
    ctx.oblige('own.mean', r.cell(ctx).owner == 'local',
               detail='the result does not alias a caller array')
    ctx.oblige('once', to_z3(it.cell(ctx).pos) == n,
               detail='the iterable is consumed exactly once (generators accepted)')

  p.verify('tree_mean', eng, body)


def v_tree_sum(p):
  ex = p.extract(F, 'tree_sum')
  eng = base_engine()
  holder = {}
  s = z3.Const('pytrees', PairSeq)
  n = z3.Length(s)

  def inv(st):
    k = to_z3(st.it)
    sw = st.raw('pytree_sum')
    if sw is None:
      is_none, val, own = z3.BoolVal(True), z3.RealVal(0), True
    elif isinstance(sw, OptV):
      c = sw.val.cell(st.ctx)
      is_none, val, own = sw.is_none, c.val, c.owner == 'local' and c.valid
    else:
      c = sw.cell(st.ctx)
      is_none, val, own = z3.BoolVal(False), c.val, c.owner == 'local' and c.valid
    return dict(pos=z3.And(0 <= k, k <= n, is_none == (k == 0)), own=z3.BoolVal(bool(own)),
                sums=z3.Implies(k > 0, val == PSUM(s, k)))

  loops = {0: Loop(inv=inv, expect='pytrees', sorts={'pytree_sum': opt_tree_sort})}

  def body(ctx):
    holder['ctx'] = ctx
    for a in sum_axioms():
      ctx.assume(a)
    ctx.assume(n >= 1)
    it = ctx.alloc(IterCell(s, tree_only_codec(holder), 0, owner='param', label='iterable'))
    ctx.modifies.add(it.addr)
    kind, r = eng.run_function(ctx, ex.funcv(loops=loops), [it])
    ctx.oblige('sum.noraise', kind == 'return')
    if kind != 'return':
      return
    ok = isinstance(r, (Ref, OptV))
    ctx.oblige('sum.type', ok)
    if not ok:
      return
    ctx.oblige('sum.post', tree_val(ctx, r) == PSUM(s, n), detail='leaf by leaf sum of all trees')
    rr = r.val if isinstance(r, OptV) else r
    ctx.oblige('own.sum', rr.cell(ctx).owner == 'local',
               detail='the accumulator is a copy: no caller array is donated or returned aliased')
    ctx.oblige('once', to_z3(it.cell(ctx).pos) == n)

  p.verify('tree_sum', eng, body)


def v_clip(p):
  ex = p.extract(F, 'tree_clip_by_global_norm')
  p.extract(F, 'tree_l2_norm')
  t, mx = z3.Reals('t max_norm')
  tid = z3.Const('tree', TreeId)

  def c_l2sq(ctx, tree):
    # contract of tree_l2_squared: sum over all leaves of vdot(x, x) = squared global norm
    c = tree.cell(ctx)
    tree_val(ctx, tree)
    if is_fp(c.val):
      return new_tree(ctx, ctx.tags['N2'])
    ctx.assume(L2SQ(c.tid) >= 0)
    return new_tree(ctx, L2SQ(c.tid))

  g = real_globals()
  g['tree_l2_squared'] = Handler(c_l2sq, 'tree_l2_squared')
  eng = Engine(g)
  eng.sources = [F]

  def body_real(ctx):
    ctx.model_vars.update(t=t, max_norm=mx, norm_sq=L2SQ(tid))
    tr = new_tree(ctx, t, owner='param', label='pytree', tid=tid)
    ctx.assume(z3.And(mx >= 0, L2SQ(tid) > 0))
    kind, r = eng.run_function(ctx, ex.funcv(), [tr, mx])
    ctx.oblige('clip.noraise', kind == 'return')
    if kind != 'return':
      return
    v = tree_val(ctx, r)
    N = SQRT(L2SQ(tid))
    sc = z3.If(mx / N <= 1, mx / N, 1)
    ctx.oblige('clip.dir', z3.And(v == sc * t, 0 <= sc, sc <= 1),
               detail='result = s * t with one scalar 0 <= s <= 1 for the whole tree (unchanged direction)')
    ctx.oblige('clip.bound', sc * N <= mx,
               detail='||result|| = s * ||t|| <= max_norm (norm is absolutely homogeneous)')
    ctx.oblige('clip.id', z3.Implies(N <= mx, v == t), detail='identity below the bound')
    ctx.oblige('frame.args', tr.cell(ctx).valid and tr.cell(ctx).val.eq(t))
    ctx.oblige('own.clip', r.cell(ctx).owner == 'local')

  p.verify('tree_clip_by_global_norm', eng, body_real)

  # FP32 corner: zero tree (norm exactly +0), any finite max_norm >= 0
  def body_fp(ctx):
    tf = z3.FP('t', FP32)
    mf = z3.FP('max_norm', FP32)
    n2 = z3.FP('norm_sq', FP32)
    ctx.model_vars.update(t=tf, max_norm=mf, norm_sq=n2)
    ctx.tags['N2'] = n2
    fin = lambda x: z3.And(z3.Not(z3.fpIsNaN(x)), z3.Not(z3.fpIsInf(x)))
    ctx.assume(z3.And(fin(tf), fin(mf), fin(n2), z3.fpGEQ(mf, z3.FPVal(0, FP32)),
                      z3.fpGEQ(n2, z3.FPVal(0, FP32))))
    # norm 0 <=> the tree is all zeros
    ctx.assume(z3.Implies(z3.fpIsZero(n2), z3.fpIsZero(tf)))
    ctx.assume(z3.Not(z3.fpIsNegative(n2)))  # a sum of squares is never -0
    tr = new_tree(ctx, tf, owner='param', label='pytree', tid=tid)
    kind, r = eng.run_function(ctx, ex.funcv(), [tr, mf])
    if kind != 'return':
      ctx.oblige('clip.fp.noraise', False)
      return
    v = tree_val(ctx, r)
    ctx.oblige('clip.id.fp', z3.Implies(z3.fpLEQ(z3.fpSqrt(z3.RNE(), n2), mf), z3.fpEQ(v, tf)),
               kind='post',
               detail='IEEE float32: a tree whose norm is within the bound (an all-zero tree with bound 0 '
                      'included) is returned unchanged, never NaN')
    ctx.oblige('clip.nonan.fp', z3.Not(z3.fpIsNaN(v)), kind='post',
               detail='IEEE float32: finite inputs never give NaN')

  p.verify('tree_clip_by_global_norm[float32]', eng, body_fp)


def v_mean_aggregator(p):
  ex = p.extract(AG, 'mean_aggregator.<locals>.apply')
  g = real_globals()
  calls = {}

  def c_tree_mean(ctx, it):
    calls['arg'] = it
    return new_tree(ctx, ctx.fresh('mean', 'real'), label='tree_mean result')
  g['tree_util'] = Module('tree_util', {'tree_mean': Handler(c_tree_mean, 'tree_mean')})

  class MapV(Val):
    def __init__(self, f, it):
      self.f, self.it = f, it
  g['map'] = Handler(lambda ctx, f, it: MapV(f, it), 'map')
  eng = Engine(g)
  st = z3.Const('state', z3.DeclareSort('AggState'))

  class StV(Val):
    pass
  stv = StV()

  def body(ctx):
    src = object.__new__(Val)
    kind, r = eng.run_function(ctx, ex.funcv(), [src, stv])
    ctx.oblige('agg.noraise', kind == 'return')
    ok = kind == 'return' and isinstance(r, tuple) and len(r) == 2
    ctx.oblige('agg.shape', ok)
    if not ok:
      return
    ctx.oblige('agg.state', r[1] is stv, detail='the (stateless) aggregator state is returned unchanged')
    m = calls.get('arg')
    okm = isinstance(m, MapV) and m.it is src
    ctx.oblige('agg.once', okm, detail='tree_mean is fed a lazy map over the caller iterable (one pass)')
    if not okm:
      return
    # the mapped function keeps exactly (params, weight) of each (id, params, weight)
    cid, w = z3.Int('cid'), z3.Real('w')
    pr = new_tree(ctx, z3.Real('pv'), owner='param')
    out = eng.call_value(ctx, m.f, [(cid, pr, w)], {})
    ctx.oblige('agg.post', isinstance(out, tuple) and len(out) == 2 and out[0] is pr and
               is_z3(out[1]) and out[1].eq(w),
               detail='each client contributes exactly (its params, its weight)')

  p.verify('mean_aggregator.apply', eng, body)


def build(p):
  D = 'native/C07.py'
  for fn in ('tree_mean', 'tree_sum', 'tree_weight', 'tree_clip_by_global_norm', 'mean_aggregator'):
    p.native(fn, D, 'tree')
  v_pointwise(p)
  v_tree_mean(p)
  v_tree_sum(p)
  v_clip(p)
  v_mean_aggregator(p)
  # the weights are inputs too: no in-place operator on an object that came in through an argument (`total = w; total += w2`
  # is numpy's in-place add on the caller's first weight), no state across calls (OWN frame analysis of both modules)
  from . import C10
  C10.v_frames(p, files=['fedjax/core/tree_util.py', 'fedjax/aggregators/aggregator.py'], min_sites=0)
  p.trust('REAL-ALG: arrays are R-valued at an arbitrary coordinate (rounding error not bounded); tree_map is leafwise; '
          'jit is identity + donation; results of jitted calls / arithmetic are fresh buffers',
          'tree_l2_squared is the squared global norm (its body — a Python sum of vdots over tree_leaves — is the definition); '
          'norms are absolutely homogeneous: ||s*t|| = |s| * ||t||; sqrt(x)^2 = x for x >= 0',
          'mean.order (independence of client order) is commutativity/associativity of + over R: not a separate obligation',
          'WSUM/WTOT/PSUM: ghost partial sums defined by two recursion axioms')
  p.not_covered.append('size of the floating-point rounding error')
