"""C18 — Walsh-Hadamard transform exact; structured rotation invertible and norm preserving.

Functions under contract (fedjax/aggregators/walsh_hadamard.py):
  walsh_hadamard_transform   while-loop invariant in exponent form (n = 2^a, small_n = 2^b), guard, reshape,
                             the einsum loop executed on the real string expressions for every num_dims 0..8
  hadamard_matrix            inlined, scipy.linalg.hadamard under its documented contract
  structured_rotation / inverse_structured_rotation   composed, over an abstract vector algebra, at an arbitrary coordinate
  structured_rotation_pytree / inverse_structured_rotation_pytree   loop invariants at an arbitrary leaf
Powers of two: uninterpreted P2 with lemma instances; every lemma is a Lean 4 + Mathlib theorem in lean/Pow2.lean checked
by `lean` on every run.
"""
from __future__ import annotations

import ast
import os
import re
import subprocess
import threading
import time

import z3

from ..script import *  # noqa
from ..engine import DictCell
from ..extract import parse

WH = 'fedjax/aggregators/walsh_hadamard.py'
I = z3.IntSort()
R = z3.RealSort()
IS = z3.SeqSort(I)
P2 = z3.Function('P2', I, I)          # P2(e) = 2^e for e >= 0
LEAN_FILE = os.path.join(os.path.dirname(os.path.dirname(os.path.dirname(os.path.abspath(__file__)))), 'lean', 'Pow2.lean')
LEAN_THEOREMS = ['p2_zero', 'p2_succ', 'p2_pos', 'p2_gt_one', 'p2_add', 'p2_div_ge', 'p2_div_lt', 'p2_min', 'p2_mono',
                 'p2_inj', 'clog_bounds']


# ---------------------------------------------------------------------------
# Lean back end

class LeanRun:
  def __init__(self, timeout):
    self.out, self.rc, self.dt = '', None, 0.0
    self.timeout = timeout
    self.t = threading.Thread(target=self._run, daemon=True)
    self.t.start()

  def _run(self):
    t0 = time.time()
    try:
      r = subprocess.run(['lean', LEAN_FILE], cwd='/', capture_output=True, text=True, timeout=self.timeout)
      self.out, self.rc = (r.stdout or '') + (r.stderr or ''), r.returncode
    except subprocess.TimeoutExpired:
      self.out, self.rc = 'lean: timeout', None
    except OSError as e:
      self.out, self.rc = f'lean: {e}', None
    self.dt = time.time() - t0

  def results(self):
    self.t.join()
    res = {}
    for th in LEAN_THEOREMS:
      m = re.search(rf"'Pow2\.{th}' (depends on axioms: \[([^\]]*)\]|does not depend on any axioms)", self.out)
      if self.rc is None:
        res[th] = ('unknown', self.out[-300:])
      elif m and self.rc == 0 and 'sorryAx' not in (m.group(2) or '') and 'error' not in self.out:
        res[th] = ('unsat', m.group(0))
      else:
        res[th] = ('sat', self.out[-600:])
    return res


def p2_lemmas():
  """Instances (as LemmaInst) of the Lean theorems, over the uninterpreted P2."""
  def nat(*xs):
    return z3.And(*[x >= 0 for x in xs])
  return dict(
      zero=lambda: LemmaInst('p2_zero', P2(0) == 1),
      succ=lambda e: LemmaInst('p2_succ', z3.Implies(nat(e), P2(e + 1) == 2 * P2(e))),
      pos=lambda e: LemmaInst('p2_pos', z3.Implies(nat(e), P2(e) >= 1)),
      gt_one=lambda e: LemmaInst('p2_gt_one', z3.Implies(nat(e), (P2(e) > 1) == (e >= 1))),
      add=lambda a, b: LemmaInst('p2_add', z3.Implies(nat(a, b), P2(a + b) == P2(a) * P2(b))),
      div_ge=lambda a, b: LemmaInst('p2_div_ge', z3.Implies(z3.And(nat(a, b), b <= a), P2(a) / P2(b) == P2(a - b))),
      div_lt=lambda a, b: LemmaInst('p2_div_lt', z3.Implies(z3.And(nat(a, b), a < b), P2(a) / P2(b) == 0)),
      min=lambda a, b: LemmaInst('p2_min', z3.Implies(nat(a, b), z3.If(P2(a) <= P2(b), P2(a), P2(b)) ==
                                                      P2(z3.If(a <= b, a, b)))),
      mono=lambda a, b: LemmaInst('p2_mono', z3.Implies(z3.And(nat(a, b), a <= b), P2(a) <= P2(b))),
      inj=lambda a, b: LemmaInst('p2_inj', z3.Implies(z3.And(nat(a, b), P2(a) == P2(b)), a == b)),
  )


L = p2_lemmas()


# ---------------------------------------------------------------------------
# jit: parameters that steer Python control flow must be static

def v_jit(p):
  _, tree = parse(WH)
  for fn in tree.body:
    if not isinstance(fn, ast.FunctionDef):
      continue
    static, jitted = set(), False
    params = [a.arg for a in fn.args.args]
    for d in fn.decorator_list:
      txt = ast.unparse(d)
      if txt == 'jax.jit':
        jitted = True
      elif isinstance(d, ast.Call) and ast.unparse(d.func) in ('functools.partial', 'partial') and d.args and \
          ast.unparse(d.args[0]) == 'jax.jit':
        jitted = True
        for k in d.keywords:
          try:
            v = ast.literal_eval(k.value)
          except Exception:
            continue
          v = v if isinstance(v, (tuple, list)) else (v,)
          if k.arg == 'static_argnums':
            static |= {params[i] for i in v if isinstance(i, int) and i < len(params)}
          if k.arg == 'static_argnames':
            static |= set(v)
      elif isinstance(d, ast.Call) and ast.unparse(d.func) == 'jax.jit':
        jitted = True
    if not jitted:
      continue
    p.extract(WH, fn.name)
    traced = [a for a in params if a not in static]
    STATIC_ATTRS = ('shape', 'dtype', 'size', 'ndim')

    def dynamic_names(e):
      """traced parameters whose *value* (not shape) the expression depends on"""
      out = set()

      def walk(n):
        if isinstance(n, ast.Attribute) and n.attr in STATIC_ATTRS:
          return
        if isinstance(n, ast.Call) and isinstance(n.func, ast.Name) and n.func.id == 'len':
          return
        if isinstance(n, ast.Name) and n.id in traced:
          out.add(n.id)
        for c in ast.iter_child_nodes(n):
          walk(c)
      walk(e)
      return out
    def value_names(e):
      """names whose VALUE the expression reads (not under .shape / .size / .dtype / .ndim / len())"""
      out = set()

      def walk(n):
        if isinstance(n, ast.Attribute) and n.attr in STATIC_ATTRS:
          return
        if isinstance(n, ast.Call) and isinstance(n.func, ast.Name) and n.func.id == 'len':
          return
        if isinstance(n, ast.Name):
          out.add(n.id)
        for c in ast.iter_child_nodes(n):
          walk(c)
      walk(e)
      return out
    # values derived from traced parameters by plain assignment (one pass, conservative)
    derived = {}
    for n in ast.walk(fn):
      if isinstance(n, (ast.Assign, ast.AugAssign)):
        tg = n.targets if isinstance(n, ast.Assign) else [n.target]
        dn = dynamic_names(n.value)
        for t in tg:
          if isinstance(t, ast.Name) and dn:
            derived.setdefault(t.id, set()).update(dn)
    for prm in traced:
      uses = []
      for n in ast.walk(fn):
        test = n.test if isinstance(n, (ast.If, ast.While, ast.IfExp)) else None
        if test is None:
          continue
        names = dynamic_names(test)
        for nm in value_names(test):
          names |= derived.get(nm, set())
        if prm in names:
          uses.append(f'line {n.lineno}: `{ast.unparse(test)}`')
      p.oblige(f'jit.static:{fn.name}.{prm}', [], z3.BoolVal(not uses), kind='definedness',
               fn=fn.name, detail=f'{fn.name} is jax.jit-compiled: `{prm}` is a traced argument, so it must not steer '
               f'Python control flow (TracerBoolConversionError when it is passed explicitly)'
               + (': ' + '; '.join(uses) if uses else ''))


# ---------------------------------------------------------------------------
# walsh_hadamard_transform

class VecIn(Val):
  """The input vector x: only its length and dtype matter to the control flow."""

  def __init__(self, n):
    self.n = n

  def length(self, ctx):
    return self.n

  def getattr(self, ctx, name):
    if name == 'dtype':
      return 'dtype(x)'
    raise Unsupported(f'x.{name}')

  def method(self, ctx, name, args, kwargs):
    if name == 'reshape':
      cell = args[0].cell(ctx)
      if not isinstance(cell, PyListCell):
        # only reachable when the guard let more than 8 blocks through
        ctx.oblige('wht.guard', False, kind='definedness',
                   detail='more than 8 blocks reach the reshape / einsum code (dimension names run out)')
        raise PathDead()
      dims = list(cell.items)
      prod = z3.IntVal(1)
      for d in dims:
        prod = prod * to_z3(d)
      ctx.oblige('wht.reshape', prod == to_z3(self.n), kind='definedness',
                 detail='x.reshape(shape): the product of the block sizes is len(x)')
      return TensorV(dims, [None] * len(dims))
    raise Unsupported(f'x.{name}')


class TensorV(Val):
  """y: the reshaped vector; applied[j] = order of the Hadamard matrix contracted with axis j (None: not yet)."""

  def __init__(self, dims, applied):
    self.dims, self.applied = dims, applied

  def method(self, ctx, name, args, kwargs):
    if name == 'flatten':
      return FlatV(self)
    raise Unsupported(f'y.{name}')


class FlatV(Val):
  def __init__(self, t):
    self.t = t


class HadV(Val):
  """Sylvester Hadamard matrix of the given order (scipy.linalg.hadamard; needs a power of two)."""

  def __init__(self, order):
    self.order = order


def render(v):
  if isinstance(v, str):
    return v
  if isinstance(v, FStrV):
    out = ''
    for part in v.parts:
      if isinstance(part, str):
        out += part
      else:
        val, spec, conv = part
        val = render(val) if isinstance(val, (str, FStrV)) else val
        if is_z3(val):
          val = z3.simplify(val)
          if not z3.is_int_value(val):
            raise Unsupported('symbolic piece in an einsum spec')
          val = val.as_long()
        out += format(val, spec or '')
    return out
  raise Unsupported(f'einsum spec {v!r}')


def v_wht(p):
  ex = p.extract(WH, 'walsh_hadamard_transform')
  p.extract(WH, 'hadamard_matrix')
  a, b = z3.Ints('a b')
  n, small_n = P2(a), z3.Int('small_n')
  KMAX = 9

  def empty_list(ctx):
    return ctx.alloc(ListCell(z3.Empty(IS), INT, label='shape'))

  def had(ctx, order):
    o = to_z3(order)
    ctx.oblige('had.pow2', z3.Or(*[o == P2(e) for e in ctx.tags.get('dims_exp', [])]) if ctx.tags.get('dims_exp')
               else z3.BoolVal(False), kind='definedness', detail='scipy.linalg.hadamard(n): n must be a power of 2')
    return HadV(o)

  def b_set(ctx, v):
    items = list(v.cell(ctx).items)
    out = []
    for x in items:
      dup = False
      for y in out:
        if ctx.branch(to_z3(x) == to_z3(y)):
          dup = True
          break
      if not dup:
        out.append(x)
    return tuple(out)

  class SymDict(Cell):
    def __init__(self, items, owner='local', label='hadamards'):
      self.items, self.owner, self.label = list(items), owner, label

    def getitem(self, ctx, ref, key):
      for k, v in self.items:
        if ctx.branch(to_z3(k) == to_z3(key)):
          return v
      ctx.oblige('key.present', False, kind='definedness', detail='KeyError: hadamards[d]')
      raise PathDead()

  def b_sorted(ctx, v, **kw):
    if kw:
      raise Unsupported('sorted with key / reverse')
    items = list(v) if isinstance(v, tuple) else list(ctx.engine.concrete_items(ctx, v))
    out = []
    for x in items:          # insertion sort, forking on the comparisons
      pos = len(out)
      for j, y in enumerate(out):
        if ctx.branch(to_z3(x) < to_z3(y)):
          pos = j
          break
      out.insert(pos, x)
    return ctx.alloc(PyListCell(out))

  def b_dict(ctx, pairs=()):
    return ctx.alloc(SymDict([(k, v) for k, v in pairs]))

  def b_str(ctx, v):
    if isinstance(v, int):
      return str(v)
    return StrV()

  def einsum(ctx, operands, y, h, precision=None):
    spec = render(operands)
    ok = isinstance(y, TensorV) and isinstance(h, HadV)
    ctx.oblige('einsum.args', ok)
    if not ok:
      raise PathDead()
    k = len(y.dims)
    m = re.fullmatch(r'([^,]*),([^-]*)->(.*)', spec)
    axis = None
    if m:
      yd, hd, od = m.groups()
      if len(yd) == k and len(set(yd)) == k and len(hd) == 2 and hd[0] in yd and hd[1] not in yd and \
          len(od) == k and hd[0] != hd[1]:
        ax = yd.index(hd[0])
        if od == yd[:ax] + hd[1] + yd[ax + 1:]:
          axis = ax
    ctx.oblige('wht.spec', axis is not None,
               detail=f"the einsum spec '{spec}' for {k} axes contracts exactly one axis of y with the first axis of the "
                      'Hadamard matrix and puts the new axis in the same place (all labels distinct single characters)')
    if axis is None:
      raise PathDead()
    ctx.oblige('wht.order', h.order == to_z3(y.dims[axis]), kind='definedness',
               detail=f'axis {axis} of y and the Hadamard matrix have the same size')
    ctx.oblige('wht.once', y.applied[axis] is None, detail=f'axis {axis} is transformed once')
    ap = list(y.applied)
    ap[axis] = h.order
    return TensorV(y.dims, ap)

  eng = Engine({'jnp': Module('jnp', {'einsum': Handler(einsum, 'jnp.einsum'),
                                      'array': Handler(lambda ctx, m, dtype=None: m, 'jnp.array')}),
                'scipy': Module('scipy', {'linalg': Module('scipy.linalg', {'hadamard': Handler(had, 'scipy.linalg.hadamard')})}),
                'set': Handler(b_set, 'set'), 'dict': Handler(b_dict, 'dict'), 'str': Handler(b_str, 'str'),
                'sorted': Handler(b_sorted, 'sorted')})
  eng.sources = [WH]
  eng.on_empty_list = empty_list

  def exps(c):
    return z3.If(a - c * b <= b, a - c * b, b)     # exponent of the block appended in iteration c

  def inv(s):
    g = s.ctx.ghost
    r = g['r']
    sh = s['shape']
    k = z3.Length(sh)
    nn = to_z3(s['n'])
    conj = dict(n=nn == z3.If(r >= 0, P2(r), 0), rem=r <= a)
    conj['count'] = z3.And(*[z3.Implies(k == c, r == a - c * b) for c in range(KMAX + 1)])
    conj['blocks'] = z3.And(*[z3.Implies(c < k, z3.And(sh[c] == P2(exps(c)), a - c * b >= 1)) for c in range(KMAX)])
    return conj

  def head_hints(s):
    r = s.ctx.ghost['r']
    return [L['gt_one'](r), L['pos'](r), L['pos'](b), L['gt_one'](b), L['min'](r, b), L['div_ge'](r, b), L['div_lt'](r, b),
            L['pos'](r - b)]

  def ghost_step(s):
    s.ctx.ghost['r'] = s.ctx.ghost['r'] - b

  def after(s):
    ctx = s.ctx
    r = ctx.ghost['r']
    for h in (L['gt_one'](r), L['pos'](r), L['zero']()):
      ctx.assume(h.formula)
    sh = s['shape']
    k = ctx.choose(KMAX + 1)
    if k == KMAX:
      ctx.assume(z3.Length(sh) >= KMAX)
      ctx.tags['num_dims'] = None
      return
    ctx.assume(z3.Length(sh) == k)
    ctx.tags['num_dims'] = k
    # the invariant gives every block as a power of two: continue with those terms (equal by `blocks`)
    # all blocks but the last are full (a - (c+1) b >= 1 by `blocks`): obliged, then used as the simpler term b
    es = []
    for c in range(k):
      if c < k - 1:
        ctx.oblige('wht.blocks.full', exps(c) == b, kind='invariant',
                   detail=f'block {c} of {k} has the full size small_n')
        es.append(b)
      else:
        es.append(a - c * b)
        ctx.oblige('wht.blocks.last', z3.And(exps(c) == a - c * b, a - c * b >= 1, a - c * b <= b), kind='invariant',
                   detail='the last block is 2^(a - (k-1) b), between 2 and small_n')
    ctx.tags['dims_exp'] = es
    for c in range(k):
      ctx.assume(sh[c] == P2(es[c]))       # the invariant conjunct `blocks` on this path (k > c) with the two facts above
    tail = z3.IntVal(0)
    for c in reversed(range(k)):
      ctx.assume(L['add'](es[c], tail).formula)
      tail = es[c] + tail
    ctx.store('shape', ctx.alloc(PyListCell([P2(e) for e in es], label='shape')))

  loops = {0: Loop(inv=inv, head_hints=head_hints, ghost_step=ghost_step, ghost=['r'], after=after,
                   decreases=lambda s: to_z3(s['n']))}

  def body(ctx):
    ctx.model_vars.update(a=a, b=b, small_n=small_n)
    ctx.assume(z3.And(a >= 0, L['pos'](a).formula, L['zero']().formula))
    ctx.ghost['r'] = a
    kind, r = eng.run_function(ctx, ex.funcv(loops=loops), [VecIn(n), small_n, 'highest'])
    if kind == 'raise':
      nd = ctx.tags.get('num_dims', 'unset')
      ctx.oblige('wht.raises', z3.And(r.name == 'ValueError', z3.Or(small_n <= 1, z3.And(small_n == P2(b), b >= 1, a > 8 * b))),
                 detail='ValueError exactly for small_n <= 1 or more than 8 blocks (a > 8 b): this defines the valid block sizes')
      return
    k = ctx.tags.get('num_dims')
    ok = isinstance(r, FlatV) and k is not None
    ctx.oblige('wht.result', ok, detail='the result is y.flatten()')
    if not ok:
      return
    t = r.t
    es = ctx.tags['dims_exp']
    ctx.oblige('wht.valid', z3.Implies(z3.And(small_n == P2(b), b >= 1), a <= 8 * b), detail='returns only for a <= 8 b')
    ctx.oblige('wht.axes', len(t.applied) == k and all(x is not None for x in t.applied),
               detail='every axis of the reshaped vector was contracted with a Hadamard matrix, once')
    if len(t.applied) == k and all(x is not None for x in t.applied):
      ctx.oblige('wht.kron', z3.And(*[z3.And(t.applied[j] == to_z3(t.dims[j])) for j in range(k)],
                                    z3.Sum([z3.IntVal(0)] + list(es)) == a, *[z3.And(e >= 1, e <= b) for e in es]),
                 detail='axis j is multiplied by H_(2^e_j), e_j >= 1, sum e_j = a: by H_(2^(e+f)) = H_(2^e) (x) H_(2^f) and '
                        '(A (x) B) vec(X) = vec(A X B^T) the result is H_n x for the Sylvester matrix of order n = 2^a')

  def pre_body(ctx):
    # small_n is a power of two > 1 whenever the guard lets it through
    body(ctx)

  def body2(ctx):
    ctx.assume(z3.Or(small_n <= 1, z3.And(small_n == P2(b), b >= 1)))
    for h in (L['pos'](b), L['gt_one'](b)):
      ctx.assume(h.formula)
    body(ctx)
  p.verify('walsh_hadamard_transform', eng, body2)


# ---------------------------------------------------------------------------
# structured rotation and its inverse: abstract vector algebra at an arbitrary coordinate

Vec = z3.DeclareSort('Vec')
Key = z3.DeclareSort('Key')
AT = z3.Function('at', Vec, I, R)
LEN = z3.Function('len', Vec, I)
WHT = z3.Function('WHT', Vec, Vec)
SCALE = z3.Function('scale', Vec, R, Vec)
MUL = z3.Function('mul', Vec, Vec, Vec)
PADV = z3.Function('pad', Vec, I, Vec)
TAKE = z3.Function('take', Vec, I, Vec)
RAD = z3.Function('rademacher', Key, I, Vec)
N2 = z3.Function('norm2', Vec, R)
SQRT = z3.Function('sqrt', I, R)
CLOG = z3.Function('ceil_log2', I, I)


class VA:
  """Smart constructors: each new vector term comes with the instances of the algebra's laws at coordinate i0."""

  def __init__(self, ctx, i0):
    self.ctx, self.i0 = ctx, i0

  def fact(self, f):
    self.ctx.assume(f)

  def scale(self, v, c):
    t = SCALE(v, c)
    self.fact(z3.And(AT(t, self.i0) == c * AT(v, self.i0), LEN(t) == LEN(v), N2(t) == c * c * N2(v)))
    return t

  def mul(self, u, v, v_is_rad=False):
    t = MUL(u, v)
    self.fact(z3.And(AT(t, self.i0) == AT(u, self.i0) * AT(v, self.i0), LEN(t) == LEN(u)))
    if v_is_rad:
      self.fact(z3.Implies(LEN(u) == LEN(v), N2(t) == N2(u)))      # signs do not change the norm
    return t

  def pad(self, v, after):
    t = PADV(v, after)
    self.fact(z3.And(AT(t, self.i0) == z3.If(self.i0 < LEN(v), AT(v, self.i0), 0), LEN(t) == LEN(v) + after,
                     N2(t) == N2(v)))
    return t

  def take(self, v, m):
    t = TAKE(v, m)
    self.fact(z3.And(z3.Implies(z3.And(0 <= self.i0, self.i0 < m), AT(t, self.i0) == AT(v, self.i0)), LEN(t) == m))
    return t

  def rad(self, key, n):
    t = RAD(key, n)
    x = AT(t, self.i0)
    self.fact(z3.And(LEN(t) == n, z3.Implies(z3.And(0 <= self.i0, self.i0 < n), z3.Or(x == 1, x == -1))))
    return t

  def wht(self, v):
    t = WHT(v)
    self.fact(z3.And(LEN(t) == LEN(v), N2(t) == z3.ToReal(LEN(v)) * N2(v)))   # Parseval for H H^T = d I
    if z3.is_app(v) and v.decl().eq(SCALE):          # linear
      inner = self.wht(v.arg(0))
      self.fact(t == self.scale(inner, v.arg(1)))
    elif z3.is_app(v) and v.decl().eq(WHT):          # H H = d I
      self.fact(t == self.scale(v.arg(0), z3.ToReal(LEN(v.arg(0)))))
    return t


class ArrV(Val):
  """A jax array: row-major flattening `vec`, shape (tuple of int terms)."""

  def __init__(self, va, vec, shape, is_rad=False):
    self.va, self.vec, self.shape, self.is_rad = va, vec, tuple(shape), is_rad

  def size_term(self):
    s = z3.IntVal(1)
    for d in self.shape:
      s = s * d
    return s if self.shape else z3.IntVal(1)

  def getattr(self, ctx, name):
    if name == 'size':
      return self.size_term()
    if name == 'shape':
      return self.shape
    raise Unsupported(f'array.{name}')

  def binop(self, ctx, op, other, reflected):
    if op == 'Mult' and isinstance(other, ArrV) and not reflected:
      ctx.oblige('bcast.shape', z3.And(len(self.shape) == len(other.shape),
                                       *[a_ == b_ for a_, b_ in zip(self.shape, other.shape)]), kind='definedness',
                 detail='elementwise product of arrays of the same shape')
      return ArrV(self.va, self.va.mul(self.vec, other.vec, other.is_rad), self.shape)
    if op == 'Div' and not reflected and is_z3(other):
      return ArrV(self.va, self.va.scale(self.vec, 1 / other), self.shape)
    raise Unsupported(f'array {op}')

  def method(self, ctx, name, args, kwargs):
    if name == 'take':
      idx = args[0]
      ok = isinstance(idx, ArangeV)
      ctx.oblige('take.arange', ok)
      if not ok:
        raise PathDead()
      ctx.oblige('rot.dtype', idx.integral, kind='definedness',
                 detail='w.take(indices): the index array must have an integer dtype (jnp.arange(prod(shape)) is '
                        'integral only if the stored shape array is)')
      ctx.oblige('take.bounds', z3.And(idx.m >= 0, idx.m <= LEN(self.vec)), kind='definedness',
                 detail='indices 0..original_size-1 are inside the rotated vector')
      return ArrV(self.va, self.va.take(self.vec, idx.m), (idx.m,))
    raise Unsupported(f'array.{name}')


class ShapeArrV(Val):
  """jnp.array(x.shape): an array holding a shape."""

  def __init__(self, dims, integral):
    self.dims, self.integral = tuple(dims), integral


class ProdV(Val):
  def __init__(self, value, integral):
    self.value, self.integral = value, integral


class ArangeV(Val):
  def __init__(self, m, integral):
    self.m, self.integral = m, integral


class LogV(Val):
  def __init__(self, x):
    self.x = x


def v_rot(p, rank):
  ex_r = p.extract(WH, 'structured_rotation')
  ex_i = p.extract(WH, 'inverse_structured_rotation')
  i0 = z3.Int('i0')
  dims = [z3.Int(f'dim{j}') for j in range(rank)]
  x0 = z3.Const('x_flat', Vec)
  k1, k2 = z3.Const('rng', Key), z3.Const('rng_inverse', Key)
  same_key = z3.Bool('same_key')

  def mk_engine(ctx_holder):
    def reshape(ctx, x, shape):
      va = x.va
      if isinstance(shape, Ref):      # [-1]
        items = list(shape.cell(ctx).items)
        if items == [-1]:
          return ArrV(va, x.vec, (x.size_term(),))
        raise Unsupported('reshape to a list other than [-1]')
      if isinstance(shape, ShapeArrV):
        prod = z3.IntVal(1)
        for d in shape.dims:
          prod = prod * d
        ctx.oblige('reshape.size', LEN(x.vec) == prod, kind='definedness',
                   detail='jnp.reshape(y_flat, original_shape): sizes agree')
        return ArrV(va, x.vec, shape.dims)
      raise Unsupported('reshape')

    def pad(ctx, x, widths):
      lo, hi = widths
      ctx.oblige('rot.pad', z3.And(to_z3(lo) == 0, to_z3(hi) >= 0), kind='definedness',
                 detail='jnp.pad: the pad width d - size is non-negative (d >= size)')
      return ArrV(x.va, x.va.pad(x.vec, to_z3(hi)), (x.shape[0] + to_z3(hi),))

    def rademacher(ctx, key, shape):
      va = ctx_holder['va']
      ok = isinstance(shape, tuple) and len(shape) == 1
      if not ok:
        raise Unsupported('rademacher of rank != 1')
      return ArrV(va, va.rad(key, to_z3(shape[0])), shape, is_rad=True)

    def wht_contract(ctx, x, *a, **k):
      # contract of walsh_hadamard_transform (v_wht): len(x) = 2^e, default small_n = 2^7 valid for e <= 56
      e = CLOG(ctx_holder['size'])
      ctx.oblige('wht.pre', z3.And(len(x.shape) == 1, LEN(x.vec) == P2(e), e >= 0, e <= 56), kind='pre',
                 detail='walsh_hadamard_transform needs a vector whose length is a power of two (at most 2^56 with the default block)')
      return ArrV(x.va, x.va.wht(x.vec), x.shape)

    def sqrt(ctx, v):
      v = to_z3(v)
      s = SQRT(v)
      ctx.assume(z3.Implies(v >= 1, z3.And(s > 0, s * s == z3.ToReal(v))))
      return s

    def array(ctx, v, dtype=None):
      if isinstance(v, tuple):
        # T-JAX: jnp.array(()) is float32, jnp.array of a non-empty tuple of ints is integral; dtype= overrides
        integral = len(v) > 0 if dtype is None else ('int' in str(dtype))
        return ShapeArrV(v, integral)
      raise Unsupported('jnp.array')

    def prod(ctx, v):
      pr = z3.IntVal(1)
      for d in v.dims:
        pr = pr * d
      return ProdV(pr, v.integral)

    def arange(ctx, v):
      if isinstance(v, ProdV):
        return ArangeV(v.value, v.integral)
      return ArangeV(to_z3(v), True)

    def log2(ctx, v):
      ctx.oblige('log2.domain', to_z3(v) >= 1, kind='definedness', detail='math.log2 of a positive size')
      return LogV(to_z3(v))

    def ceil(ctx, v):
      if isinstance(v, LogV):
        e = CLOG(v.x)
        # Lean: clog_bounds; T-FP: math.ceil(math.log2(s)) is exact for s <= 2^24
        ctx.assume(z3.Implies(v.x >= 1, z3.And(e >= 0, v.x <= P2(e), P2(e) < 2 * v.x)))
        return e
      raise Unsupported('math.ceil')
    jnp = Module('jnp', {'reshape': Handler(reshape, 'jnp.reshape'), 'pad': Handler(pad, 'jnp.pad'),
                         'sqrt': Handler(sqrt, 'jnp.sqrt'), 'array': Handler(array, 'jnp.array'),
                         'prod': Handler(prod, 'jnp.prod'), 'arange': Handler(arange, 'jnp.arange'),
                         'int32': 'int32', 'int64': 'int64'})
    jax = Module('jax', {'random': Module('jax.random', {'rademacher': Handler(rademacher, 'jax.random.rademacher')})})
    math = Module('math', {'log2': Handler(log2, 'math.log2'), 'ceil': Handler(ceil, 'math.ceil')})
    eng = Engine({'jnp': jnp, 'jax': jax, 'math': math, 'walsh_hadamard_transform': Handler(wht_contract, 'wht')})
    eng.on_pow = lambda ctx, base, e: P2(to_z3(e)) if (not is_z3(base) and base == 2) else (_ for _ in ()).throw(
        Unsupported('symbolic power'))
    eng.sources = [WH]
    return eng

  holder = {}
  eng = mk_engine(holder)

  def body(ctx):
    va = VA(ctx, i0)
    holder['va'] = va
    x = ArrV(va, x0, dims)
    size = x.size_term()
    holder['size'] = size
    ctx.model_vars.update({f'dim{j}': d for j, d in enumerate(dims)})
    ctx.model_vars.update(i0=i0, same_key=same_key)
    ctx.assume(z3.And(*[d >= 1 for d in dims], size <= 2 ** 24, LEN(x0) == size, N2(x0) >= 0))
    ctx.assume(z3.If(same_key, k2 == k1, k2 != k1))
    e = CLOG(size)
    # Lean clog_bounds: e = ceil(log2 size) is the least exponent with size <= 2^e (independent of how the code computes it)
    ctx.assume(z3.And(e >= 0, size <= P2(e), P2(e) < 2 * size))
    for h in (L['mono'](25, e), L['succ'](24), L['zero'](), L['gt_one'](e), L['pos'](e)):
      ctx.assume(h.formula)
    ctx.assume(P2(24) == 2 ** 24)      # p2 by evaluation
    kind, r = eng.run_function(ctx, ex_r.funcv(), [x, k1])
    ctx.oblige('rot.noraise', kind == 'return')
    if kind != 'return':
      return
    rot, shp = r
    ok = isinstance(rot, ArrV) and isinstance(shp, ShapeArrV)
    ctx.oblige('rot.result', ok)
    if not ok:
      return
    ctx.oblige('rot.norm', N2(rot.vec) == N2(x0), detail='the rotation preserves the Euclidean norm: ||HD pad(x)|| / sqrt(d) = ||x||')
    ctx.oblige('rot.shape', z3.And(len(shp.dims) == rank, *[s_ == d for s_, d in zip(shp.dims, dims)]),
               detail='the stored shape is the shape of the input')
    ctx.oblige('rot.len', z3.And(LEN(rot.vec) == P2(e), P2(e) >= size, P2(e) < 2 * size),
               detail='the rotated vector has the least power-of-two length >= size')
    kind, y = eng.run_function(ctx, ex_i.funcv(), [rot, k2, shp])
    ctx.oblige('inv.noraise', kind == 'return', detail='the inverse accepts what the rotation produced')
    if kind != 'return':
      return
    ok = isinstance(y, ArrV)
    ctx.oblige('inv.result', ok)
    if not ok:
      return
    ctx.oblige('rot.inverse.shape', z3.And(len(y.shape) == rank, *[s_ == d for s_, d in zip(y.shape, dims)]),
               detail='the inverse returns the original shape')
    ctx.oblige('rot.inverse', z3.Implies(z3.And(same_key, 0 <= i0, i0 < size), AT(y.vec, i0) == AT(x0, i0)),
               detail='inverse(rotation(x, key), key, shape) = x at every coordinate')
  p.verify(f'structured_rotation+inverse[rank {rank}]', eng, body)


# ---------------------------------------------------------------------------
# pytree versions

def v_tree(p):
  ex_r = p.extract(WH, 'structured_rotation_pytree')
  ex_i = p.extract(WH, 'inverse_structured_rotation_pytree')
  leaves = z3.Const('leaves', IS)
  n = z3.Length(leaves)
  TD = z3.DeclareSort('TreeDef')
  td = z3.Const('tree_def', TD)
  k1, k2 = z3.Const('rng', Key), z3.Const('rng_inverse', Key)
  SPLIT = z3.Function('split', Key, I, I, Key)
  ROTF = z3.Function('ROT', I, Key, I)
  SHP = z3.Function('SHAPE', I, I)
  INV = z3.Function('INV', I, Key, I, I)
  j0 = z3.Int('j0')

  class IdV(Val):
    def __init__(self, term):
      self.term = term
  IDS = Codec(I, enc=lambda v: v.term, dec=lambda t: IdV(t))

  class KeyV(Val):
    def __init__(self, term):
      self.term = term

  class KeysV(Val):
    def __init__(self, key, num):
      self.key, self.num = key, num

    def getitem(self, ctx, idx):
      i = to_z3(idx)
      ctx.oblige('index.keys', z3.And(i >= -self.num, i < self.num), kind='definedness', detail='IndexError: rngs[i]')
      return KeyV(SPLIT(self.key, self.num, z3.If(i < 0, i + self.num, i)))

  class TreeV(Val):
    def __init__(self, tdef, seq):
      self.tdef, self.seq = tdef, seq

  class ZipV(Val):
    def __init__(self, parts):
      self.parts = parts

    def iterate(self, ctx):
      first = self.parts[0]
      lens = []
      fns = []
      for part in self.parts:
        if isinstance(part, Ref) and isinstance(part.cell(ctx), ListCell):
          c = part.cell(ctx)
          lens.append(z3.Length(c.seq))
          fns.append(lambda q, c=c: c.codec.dec(c.seq[q]))
        elif isinstance(part, KeysV):
          lens.append(part.num)
          fns.append(lambda q, part=part: KeyV(SPLIT(part.key, part.num, q)))
        elif isinstance(part, Ref) and isinstance(part.cell(ctx), PyListCell) and len(part.cell(ctx).items) == 1:
          lens.append(z3.IntVal(1))
          fns.append(lambda q, it=part.cell(ctx).items[0]: it)    # a one-element python list: q can only be 0
        else:
          raise Unsupported('zip of something else')
      ctx.oblige('zip.lengths', z3.And(*[l == lens[0] for l in lens[1:]]), kind='pre',
                 detail='zip() silently truncates: the zipped sequences have the same length')
      spec = IterSpec(seq=first.cell(ctx).seq, codec=IDS)
      spec.item_fn = lambda q: tuple(f(q) for f in fns)
      return spec

  def flatten(ctx, tree):
    if isinstance(tree, TreeV):
      return (ctx.alloc(ListCell(tree.seq, IDS, owner='param', label='leaves')), tree.tdef)
    raise Unsupported('tree_flatten')

  def unflatten(ctx, tdef, lst):
    return TreeV(tdef, lst.cell(ctx).seq)

  IS_LEAF_DEF = z3.Function('treedef_is_leaf', TD, z3.BoolSort())

  def is_leaf_def(ctx, tdef):
    # library contract: the treedef of a bare leaf (an array that is its own pytree) has exactly one leaf
    ctx.assume(z3.Implies(IS_LEAF_DEF(tdef), n == 1))
    return IS_LEAF_DEF(tdef)

  def split(ctx, key, num):
    return KeysV(key.term, to_z3(num))

  def rot_contract(ctx, leaf, key):
    return IdV(ROTF(leaf.term, key.term)), IdV(SHP(leaf.term))

  def inv_contract(ctx, leaf, key, shape):
    return IdV(INV(leaf.term, key.term, shape.term))
  jax = Module('jax', {'tree_util': Module('jax.tree_util', {'tree_flatten': Handler(flatten, 'tree_flatten'),
                                                               'tree_unflatten': Handler(unflatten, 'tree_unflatten'),
                                                               'treedef_is_leaf': Handler(is_leaf_def, 'treedef_is_leaf')}),
                       'random': Module('jax.random', {'split': Handler(split, 'jax.random.split')})})
  eng = Engine({'jax': jax, 'zip': Handler(lambda ctx, *parts: ZipV(parts), 'zip'),
                'structured_rotation': Handler(rot_contract, 'structured_rotation'),
                'inverse_structured_rotation': Handler(inv_contract, 'inverse_structured_rotation')})
  eng.sources = [WH]
  eng.on_empty_list = lambda ctx: ctx.alloc(ListCell(z3.Empty(IS), IDS))

  def inv_fwd(s):
    it = to_z3(s.it)
    rl, sh = s['rotated_leaves'], s['shapes']
    return dict(pos=z3.And(0 <= it, it <= n, z3.Length(rl) == it, z3.Length(sh) == it),
                leaf=z3.Implies(z3.And(0 <= j0, j0 < it),
                                z3.And(rl[j0] == ROTF(leaves[j0], SPLIT(k1, n, j0)), sh[j0] == SHP(leaves[j0]))))
  loops_f = {0: Loop(inv=inv_fwd, expect='zip')}

  def body(ctx):
    ctx.model_vars.update(j0=j0, num_leaves=n)
    kind, r = eng.run_function(ctx, ex_r.funcv(loops=loops_f), [TreeV(td, leaves), KeyV(k1)])
    ctx.oblige('tree.noraise', kind == 'return')
    if kind != 'return':
      return
    rt, st = r
    ok = isinstance(rt, TreeV) and isinstance(st, TreeV)
    ctx.oblige('tree.result', ok)
    if not ok:
      return
    inside = z3.And(0 <= j0, j0 < n)
    ctx.oblige('rot.keys.forward', z3.And(rt.tdef == td, st.tdef == td, z3.Length(rt.seq) == n, z3.Length(st.seq) == n,
                                          z3.Implies(inside, z3.And(rt.seq[j0] == ROTF(leaves[j0], SPLIT(k1, n, j0)),
                                                                    st.seq[j0] == SHP(leaves[j0])))),
               detail='leaf j is rotated with key split(rng, n)[j]; the shapes tree has the same structure')

    def inv_bwd(s):
      it = to_z3(s.it)
      nl = s['new_leaves']
      return dict(pos=z3.And(0 <= it, it <= n, z3.Length(nl) == it),
                  leaf=z3.Implies(z3.And(0 <= j0, j0 < it),
                                  nl[j0] == INV(rt.seq[j0], SPLIT(k2, n, j0), st.seq[j0])))
    loops_b = {0: Loop(inv=inv_bwd, expect='zip')}
    kind, y = eng.run_function(ctx, ex_i.funcv(loops=loops_b), [rt, KeyV(k2), st])
    ctx.oblige('tree.inv.noraise', kind == 'return')
    if kind != 'return':
      return
    ok = isinstance(y, TreeV)
    ctx.oblige('tree.inv.result', ok)
    if not ok:
      return
    # contract of the leaf functions (rot.inverse): INV(ROT(l, k), k, SHAPE(l)) = l
    kk = SPLIT(k1, n, j0)
    lemma = INV(ROTF(leaves[j0], kk), kk, SHP(leaves[j0])) == leaves[j0]
    ctx.assume(lemma)
    ctx.oblige('rot.keys', z3.And(y.tdef == td, z3.Length(y.seq) == n,
                                  z3.Implies(z3.And(inside, k2 == k1), y.seq[j0] == leaves[j0])),
               detail='the inverse uses the same per-leaf key split(rng, n)[j] as the rotation: with the same rng every leaf '
                      'is restored (by rot.inverse), in the same tree structure')
  p.verify('structured_rotation_pytree+inverse', eng, body)


def build(p):
  D = 'native/C18.py'
  lean = LeanRun(900 if p.tier == 'quick' else 1800)
  p.native('', D, 'wht')

  def wht_input(m):
    a_, b_ = int(m.get('a', 3)), int(m.get('b', 1))
    if not (0 <= a_ <= 10 and 1 <= b_ <= 8) or (a_ <= 8 * b_ and -(-a_ // b_) >= 8):
      return None
    return dict(a=a_, b=b_, seed=0)

  def rot_input(m):
    out = {k: max(1, min(int(v), 40)) for k, v in m.items() if k.startswith('dim')}
    out['seed'] = 0
    return out
  p.native('walsh_hadamard_transform', D, 'wht', wht_input)
  p.native('structured_rotation', D, 'rotation', rot_input)
  p.native('structured_rotation[', D, 'rotation_zero')
  p.native('jit', D, 'wht', lambda m: dict(a=3, b=1, seed=0))
  v_jit(p)
  v_wht(p)
  for rank in (0, 1, 2, 3):
    v_rot(p, rank)
  v_tree(p)
  res = lean.results()
  for th, (st, note) in res.items():
    ob = p.oblige(f'lemma.pow2.{th}', [], z3.BoolVal(True), kind='lemma', fn='lean/Pow2.lean',
                  detail=f'Lean 4 + Mathlib theorem Pow2.{th} (lean/Pow2.lean), checked by `lean` on this run; its instances '
                         'are the P2 hints of the verification conditions')
    ob.external = dict(status=st, backend='lean', ms=round(lean.dt * 1000 / len(res), 1), model=None, note=note)
  p.native_checks = [dict(
      name='matrix_and_keys', driver=D, payload={'mode': 'sweep', 'fn': 'bounded'},
      bound='transform = Sylvester matrix product for n = 2^0..2^10 (and 2^12, 2^14 by default block; thorough) and block sizes 2^1..2^8, up to 7 einsum axes (8 axes take XLA minutes to compile: deductive only); scipy.linalg.hadamard = Kronecker '
            'recursion up to order 256; different keys give different rotations for 32 key pairs; ceil(log2(s)) exact near '
            'powers of two up to 2^40',
      why_bounded='numeric identity / PRNG statement / libm rounding: outside what the contracts express')]
  p.trust('math (not proved here): H_(2^(e+f)) = H_(2^e) (x) H_(2^f), (A (x) B) vec(X) = vec(A X B^T), H symmetric, H H = d I '
          '(hence Parseval ||Hv||^2 = d ||v||^2 and linearity); sign flips and zero padding keep the norm',
          'T-JAX: einsum contracts the repeated label; reshape/flatten are row-major; jnp.array(()) is float32 and of a '
          'non-empty int tuple integral; take(arange(m)) is the prefix; jnp.pad pads with zeros',
          'T-FP: math.ceil(math.log2(s)) = ceil(log2 s) for s <= 2^24 (bounded native check to 2^40); real arithmetic '
          'instead of float32 ("up to rounding")',
          'scipy.linalg.hadamard(n) is the Sylvester matrix of order n (bounded native check to 256)',
          'jit.static is a syntactic taint check: tests of if/while must not depend on the value of a traced parameter')
  p.not_covered.append('"different keys give different rotations": a PRNG statement (bounded native check only)')
