"""C12 — degenerate hyper-parameters reduce every algorithm to FedAvg.

Relational lemmas over contracts: each algorithm's client step / round gets
the same kind of summary as C01; the property is equality of summaries under
the degenerate hyper-parameters.
"""
from __future__ import annotations

import z3

from ..script import *  # noqa
from ..lib_real import *  # noqa
from ..lib_alg import *  # noqa
from ..lib_round import *  # noqa
from .C05 import SUMROWS, ROW
from . import C06

FP = 'fedjax/algorithms/fed_prox.py'
ML = 'fedjax/algorithms/mime_lite.py'
MI = 'fedjax/algorithms/mime.py'
AP = 'fedjax/algorithms/apfl.py'
TU = 'fedjax/core/tree_util.py'


class SgdV(Val):
  """optimizers.sgd(lr): apply(g, s, p) = (s, p - lr * g)   [T-OPT contract]."""

  def __init__(self, lr):
    self.lr = lr
    self.calls = []

  def method(self, ctx, name, args, kwargs):
    if name == 'init':
      return OptStV(z3.Const('sgd_empty_state', OptStateT))
    if name == 'apply':
      g, s, p = args
      self.calls.append((g, s, p))
      return (s, new_tree(ctx, tree_val(ctx, p) - self.lr * tree_val(ctx, g), label='sgd output'))
    raise Unsupported(f'sgd.{name}')

  def getattr(self, ctx, name):
    return Handler(lambda c, *a: self.method(c, name, list(a), {}), f'sgd.{name}')


def v_fedprox(p):
  verify_fedavg_round(p, FP, 'fed_prox', 'fed_prox')
  verify_fedavg_client(p, FP, 'fed_prox', with_server_params=True)
  # the loss: mean(example_loss + 0.5 * mu * ||w_server - w||^2)
  ex = p.extract(FP, 'fed_prox.<locals>.fed_prox_loss')
  mu = z3.Real('proximal_weight')
  pt, bt, kt = z3.Const('params', C06.ParamsT), z3.Const('batch', C06.BatchT), z3.Const('rng', C06.Key)
  DIST2 = z3.Function('l2_squared_server_minus_params', C06.ParamsT, C06.ParamsT, R)
  seen = {}
  g = C06.globals6()

  class DiffV(Val):
    def __init__(self, a, b):
      self.a, self.b = a, b

  def c_tree_map(ctx, f, a, b):
    # tree_map(lambda a, b: a - b, server_params, params): evaluate the lambda on two symbols to pin the sign
    x, y = z3.Reals('tm_x tm_y')
    r = ctx.engine.call_value(ctx, f, [x, y], {})
    seen['diff_ok'] = z3.simplify(to_z3(r) == x - y)
    return DiffV(a, b)

  def c_l2sq(ctx, d):
    seen['l2_args'] = (d.a, d.b)
    return new_tree(ctx, DIST2(d.a.term, d.b.term))

  def c_mean(ctx, x):
    seen['mean_arg'] = x.val
    return new_tree(ctx, SUMROWS(z3.Lambda([ROW], x.val)) / z3.ToReal(C06.NROWS(x.batch.term)))

  g['jax'].attrs['tree_util'] = Module('jax.tree_util', {'tree_map': Handler(c_tree_map, 'tree_map')})
  g['tree_util'] = Module('tree_util', {'tree_l2_squared': Handler(c_l2sq, 'tree_l2_squared')})
  g['jnp'].attrs['mean'] = Handler(c_mean, 'jnp.mean')
  g['per_example_loss'] = Handler(C06.pel, 'per_example_loss')
  g['proximal_weight'] = mu
  eng = Engine(g)
  sp = z3.Const('server_params', C06.ParamsT)

  def body(ctx):
    seen.clear()
    ctx.model_vars['proximal_weight'] = mu
    spv, pv = C06.ParamsV(sp), C06.ParamsV(pt)
    kind, r = eng.run_function(ctx, ex.funcv(), [pv, spv, C06.Batch6(bt), C06.KeyV(kt)])
    ctx.oblige('prox.noraise', kind == 'return')
    if kind != 'return':
      return
    ell = C06.LOSS(pt, bt, kt, ROW)
    arg = seen.get('mean_arg')
    ok = arg is not None and seen.get('l2_args') is not None and \
        {seen['l2_args'][0], seen['l2_args'][1]} == {spv, pv}
    ctx.oblige('prox.anchor', ok and z3.is_true(seen.get('diff_ok', z3.BoolVal(False))),
               detail='the penalty is the squared distance between the parameters and the server parameters')
    if not ok:
      return
    pen = 0.5 * mu * DIST2(seen['l2_args'][0].term, seen['l2_args'][1].term)
    ctx.oblige('prox.pos', arg == ell + pen,
               detail='per example: loss + 0.5 * mu * ||w_server - w||^2 (so the mean is mean(loss) + penalty on a '
                      'non-empty batch): FedAvg on the loss augmented with the proximal penalty')
    ctx.oblige('prox.zero', z3.Implies(mu == 0, arg == ell),
               detail='mu = 0: the loss is the plain mean per-example loss, hence equal gradients, equal client steps '
                      '(client.fold of fed_prox = client.fold of fed_avg) and an equal round (apply.post)')
  p.verify('fed_prox.fed_prox_loss', eng, body)


def v_mimelite(p):
  exs = {n: p.extract(ML, f'create_train_for_each_client.<locals>.{n}') for n in ('client_step', 'client_final')}
  ex_up = p.extract(ML, 'mime_lite.<locals>.server_update')
  Key = KeyT
  S0 = z3.Function('split0', Key, Key)
  S1 = z3.Function('split1', Key, Key)
  BatchT = z3.DeclareSort('BatchT12')
  G = z3.Function('grad12_at_c', TreeId, BatchT, Key, R)
  eta, lr = z3.Reals('client_learning_rate server_learning_rate')
  sgd = SgdV(eta)
  g = real_globals()
  g['jax'].attrs['random'] = Module('jax.random', {'split': Handler(
      lambda ctx, k, num=2: (KeyV(S0(k.term)), KeyV(S1(k.term))), 'split')})
  g['base_optimizer'] = sgd
  g['server_learning_rate'] = lr

  class BV(Val):
    def __init__(self, term):
      self.term = term
  g['grad_fn'] = Handler(lambda ctx, prm, b, k: new_tree(ctx, G(tree_tid(ctx, prm), b.term, k.term)), 'grad_fn')
  eng = Engine(g)
  eng.sources = [ML]
  pv = z3.Real('params_at_c')
  ptid = z3.Const('params', TreeId)
  k0 = z3.Const('rng', Key)
  b = z3.Const('batch', BatchT)
  os_ = z3.Const('opt_state', OptStateT)

  def body(ctx):
    del sgd.calls[:]
    cp = new_tree(ctx, pv, 'param', tid=ptid)
    state = ctx.alloc(DictCell([('params', cp), ('opt_state', OptStV(os_)), ('rng', KeyV(k0))], owner='param'))
    kind, nxt = eng.run_function(ctx, exs['client_step'].funcv(), [state, BV(b)])
    ctx.oblige('mimelite.noraise', kind == 'return')
    if kind != 'return':
      return
    get = lambda k: ctx.engine.getitem(ctx, nxt, k)
    ctx.oblige('mimelite.sgd', z3.And(tree_val(ctx, get('params')) == pv - eta * G(ptid, b, S1(k0)),
                                      get('rng').term == S0(k0)),
               detail="base optimizer sgd(eta): the client step is FedAvg's sgd step (same gradient key, rng <- split[0])")
    ctx.oblige('mimelite.state', isinstance(get('opt_state'), OptStV) and get('opt_state').term.eq(os_),
               detail='the (server) optimizer state is held fixed during local training')
    sp = new_tree(ctx, z3.Real('server_at_c'), 'param')
    sh = ctx.alloc(DictCell([('params', sp)], owner='param'))
    kind, d = eng.run_function(ctx, exs['client_final'].funcv(), [sh, state])
    ctx.oblige('mimelite.delta', kind == 'return' and tree_val(ctx, d) == z3.Real('server_at_c') - pv)
  p.verify('mime_lite.create_train_for_each_client', eng, body)

  def body_up(ctx):
    del sgd.calls[:]
    MS = eng._resolve_in(ctx, MI, 'ServerState')[0]
    eng.globals['mime'] = Module('mime', {'ServerState': MS})
    sp = new_tree(ctx, pv, 'param', tid=ptid)
    st = ctx.alloc(ObjCell(MS, dict(params=sp, opt_state=OptStV(os_)), owner='param'))
    mean = new_tree(ctx, z3.Real('mean_delta'), 'param')
    sg = new_tree(ctx, z3.Real('server_grads'), 'param')
    kind, r = eng.run_function(ctx, ex_up.funcv(), [st, sg, mean])
    ctx.oblige('mimelite.server.noraise', kind == 'return')
    if kind != 'return':
      return
    np_ = tree_val(ctx, r.cell(ctx).fields['params'])
    ctx.oblige('mimelite.server', np_ == pv - lr * z3.Real('mean_delta'),
               detail='new params = params - server_lr * mean delta; with server_lr = 1 this is sgd(1.0).apply(mean delta), '
                      "i.e. FedAvg's server step with SGD(1.0)")
    ctx.oblige('mimelite.server.one', z3.Implies(lr == 1, np_ == pv - z3.Real('mean_delta')))
  p.verify('mime_lite.server_update', eng, body_up)


def v_mime_onestep(p):
  ex = p.extract(MI, 'create_train_for_each_client.<locals>.client_step')
  Key = KeyT
  S0 = z3.Function('split0', Key, Key)
  S1 = z3.Function('split1', Key, Key)
  BatchT = z3.DeclareSort('BatchT12')
  G = z3.Function('grad12_at_c', TreeId, BatchT, Key, R)
  eta = z3.Real('client_learning_rate')
  sgd = SgdV(eta)
  g = real_globals()
  def c_split(ctx, k, num=2):
    if is_z3(num) or num == 2:
      return (KeyV(S0(k.term)), KeyV(S1(k.term)))
    return tuple(KeyV(z3.Function(f'split{num}_{i}', Key, Key)(k.term)) for i in range(num))   # distinct keys
  g['jax'].attrs['random'] = Module('jax.random', {'split': Handler(c_split, 'split')})
  g['base_optimizer'] = sgd

  class BV(Val):
    def __init__(self, term):
      self.term = term
  g['grad_fn'] = Handler(lambda ctx, prm, b, k: new_tree(ctx, G(tree_tid(ctx, prm), b.term, k.term)), 'grad_fn')
  eng = Engine(g)
  pv, cval = z3.Reals('params_at_c control_variate_at_c')
  ptid = z3.Const('params', TreeId)
  k0 = z3.Const('rng', Key)
  b = z3.Const('batch', BatchT)

  def body(ctx):
    cp = new_tree(ctx, pv, 'param', tid=ptid)
    cv = new_tree(ctx, cval, 'param', label='control variate')
    # first local step: the client params ARE the round's initial params
    state = ctx.alloc(DictCell([('params', cp), ('opt_state', OptStV(z3.Const('os', OptStateT))), ('rng', KeyV(k0)),
                                ('init_params', cp), ('control_variate', cv)], owner='param'))
    kind, nxt = eng.run_function(ctx, ex.funcv(), [state, BV(b)])
    ctx.oblige('mime.noraise', kind == 'return')
    if kind != 'return':
      return
    np_ = tree_val(ctx, ctx.engine.getitem(ctx, nxt, 'params'))
    ctx.oblige('mime.onestep', np_ == pv - eta * cval,
               detail='plain SGD and one local step: g(w;b) - g(w;b) + c = c (same params, batch and key), so the step is '
                      'w - eta * c with c the full-batch gradient of C06; delta = eta * c and the server applies lr * delta')
    ctx.oblige('mime.carry', ctx.engine.getitem(ctx, nxt, 'control_variate') is cv and
               ctx.engine.getitem(ctx, nxt, 'init_params') is cp)
  p.verify('mime.create_train_for_each_client.client_step', eng, body)


def v_apfl_global(p):
  ex = p.extract(AP, 'create_train_for_each_client.<locals>.client_step')
  ex_f = p.extract(AP, 'create_train_for_each_client.<locals>.client_final')
  Key = KeyT
  SP = [z3.Function(f'split3_{i}', Key, Key) for i in range(3)]
  BatchT = z3.DeclareSort('BatchT12')
  G = z3.Function('grad12_at_c', TreeId, BatchT, Key, R)
  copt = OptimizerV(z3.Const('client_optimizer', OptimizerT))
  g = real_globals()

  def c_split(ctx, k, num=2):
    ctx.oblige('apfl.split3', num == 3, kind='precondition')
    return tuple(KeyV(f(k.term)) for f in SP)
  g['jax'].attrs['random'] = Module('jax.random', {'split': Handler(c_split, 'split')})
  g['client_optimizer'] = copt

  class BV(Val):
    def __init__(self, term):
      self.term = term
  g['grad_fn'] = Handler(lambda ctx, prm, b, k: new_tree(ctx, G(tree_tid(ctx, prm), b.term, k.term)), 'grad_fn')
  g['interpolate_params'] = Handler(lambda ctx, a, x, y: new_tree(ctx, ctx.fresh('personalized', 'real')),
                                    'interpolate_params')
  g['interpolation_grad_fn'] = Handler(lambda ctx, *a: new_tree(ctx, ctx.fresh('igrad', 'real')),
                                       'interpolation_grad_fn')
  clip_calls = []

  def c_clip(ctx, x, lo=None, hi=None, **kw):
    lo = kw.get('a_min', kw.get('min', lo))
    hi = kw.get('a_max', kw.get('max', hi))
    clip_calls.append((lo, hi))
    v = to_z3(num(ctx, x))
    return zmin(zmax(v, to_z3(lo)), to_z3(hi))
  g['jnp'].attrs['clip'] = Handler(c_clip, 'jnp.clip')
  g['partial'] = g['functools'].attrs['partial']
  eng = Engine(g)
  eng.sources = [AP]
  sv = z3.Real('server_params_at_c')
  stid = z3.Const('server_params', TreeId)
  k0 = z3.Const('rng', Key)
  b = z3.Const('batch', BatchT)
  so = z3.Const('server_opt_state', OptStateT)
  alpha = z3.Real('interpolation_at_c')

  def body(ctx):
    del copt.calls[:]
    del clip_calls[:]
    ctx.model_vars['interpolation_at_c'] = alpha
    CS = eng._resolve_in(ctx, AP, 'ClientState')[0]
    eng.globals['ClientState'] = CS
    sp = new_tree(ctx, sv, 'param', tid=stid)
    cst = ctx.alloc(ObjCell(CS, dict(params=new_tree(ctx, z3.Real('client_at_c'), 'param'),
                                     interpolation_coefficients=new_tree(ctx, alpha, 'param')), owner='param'))
    state = ctx.alloc(DictCell([('server_params', sp), ('server_opt_state', OptStV(so)),
                                ('client_opt_state', OptStV(z3.Const('co', OptStateT))),
                                ('interpolation_opt_state', OptStV(z3.Const('io', OptStateT))),
                                ('rng', KeyV(k0)), ('state', cst)], owner='param'))
    kind, nxt = eng.run_function(ctx, ex.funcv(), [state, BV(b)])
    ctx.oblige('apfl.noraise', kind == 'return', detail='an APFL client step runs (jnp.clip binds its bounds)')
    if kind != 'return':
      return
    get = lambda k: ctx.engine.getitem(ctx, nxt, k)
    ctx.oblige('apfl.global', z3.And(
        tree_val(ctx, get('server_params')) == OPT_P(copt.term, G(stid, b, SP[1](k0)), so, sv),
        get('rng').term == SP[0](k0)),
        detail="the server_params component of APFL's step is a FedAvg step of the same optimizer with key "
               'split(rng, 3)[1]: equal to FedAvg whenever the loss ignores its key')
    nc = get('state').cell(ctx).fields['interpolation_coefficients']
    v = tree_val(ctx, nc)
    ctx.oblige('apfl.box', z3.And(v >= 0, v <= 1),
               detail='interpolation coefficients are clipped into [0, 1] after every step')
    kind, out = eng.run_function(ctx, ex_f.funcv(), [sp, nxt])
    ctx.oblige('apfl.delta', kind == 'return' and tree_val(ctx, ctx.engine.getitem(ctx, out, 'delta_params')) ==
               sv - tree_val(ctx, get('server_params')), detail='delta = round server params - trained server params')
  p.verify('apfl.create_train_for_each_client', eng, body)
  verify_fedavg_round_apfl(p)


def verify_fedavg_round_apfl(p):
  """APFL's apply: the FedAvg skeleton (every client weighted by its example count in the mean of the deltas, one server
  step, one diagnostics entry per client) plus the per-client state table: the new table is a COPY of the old one with exactly
  the entries of this round's clients written (old keys ++ ids of the cohort), the old table is only read."""
  ex = p.extract(AP, 'adaptive_personalized_federated_learning.<locals>.apply')
  ex_up = p.extract(AP, 'adaptive_personalized_federated_learning.<locals>.server_update')
  seq = z3.Const('clients', ClientSeq)
  n = z3.Length(seq)
  hp = z3.Const('client_batch_hparams', HpT)
  j0 = z3.Int('j0')
  pval = z3.Real('server_params_at_c')
  ptid = z3.Const('server_params', TreeId)
  ost = z3.Const('server_opt_state', OptStateT)
  old_keys = z3.Const('old_client_state_ids', z3.SeqSort(I))
  holder, record = {}, {}

  class StV(Val):
    """an opaque per-client state"""
    def __init__(self, what):
      self.what = what

  class TableCell(SymDictCell):
    pass

  class TableV(Val):
    """server_state.client_states of the INPUT state: read-only here (an immutable value: any store raises Unsupported)."""
    def method(self, ctx, name, args, kwargs):
      if name == 'get' and len(args) == 2:
        return StV(('get', args[0], args[1]))
      raise Unsupported(f'client_states.{name}')

    def dict_copy(self, ctx):
      c = TableCell()
      c.keys = old_keys
      c.label = 'client_states (copy)'
      record['copy'] = ctx.alloc(c)
      return record['copy']

  class OutV(Val):
    def __init__(self, c, w):
      self.c, self.w = c, w

    def getitem(self, ctx, k):
      if k == 'delta_params':
        return new_tree(holder['ctx'], DELTA(self.c, self.w), label='client delta')
      if k == 'state':
        return StV(('trained', self.c))
      raise Unsupported(f'client_output[{k!r}]')

  def c_train(ctx, shared, clients):
    ok = isinstance(clients, MappedClientsV) and clients.seq.eq(seq) and isinstance(clients.value, tuple) \
        and len(clients.value) == 3
    ctx.oblige('apply.clients', ok, detail='every input client is handed to for_each_client as (id, batches, client input)')
    if not ok:
      raise PathDead()
    cid, batches, cin = clients.value
    c = seq[clients.idx]
    items = dict(cin.cell(ctx).items) if isinstance(cin, Ref) and hasattr(cin.cell(ctx), 'items') else {}
    key, st0 = items.get('rng'), items.get('state')
    okb = is_z3(cid) and isinstance(batches, BatchesV) and isinstance(key, KeyV) and isinstance(st0, StV) and \
        st0.what[0] == 'get' and is_z3(st0.what[1]) and isinstance(st0.what[2], StV) and st0.what[2].what == 'default'
    ctx.oblige('apply.triple', okb and z3.simplify(z3.And(
        cid == CID(c), batches.term == SRB(CDS(c), hp), key.term == CKEY(c), st0.what[1] == CID(c))),
        detail="each client trains on ITS OWN batch stream (the algorithm's client hparams) with ITS OWN key, starting from "
               'ITS OWN table entry (or the default state)')
    record['shared'] = shared
    w = tree_tid(ctx, shared)
    return SeqV(seq, Codec(ClientT, dec=lambda t: (CID(t), OutV(t, w))))

  g = real_globals()
  g['tree_util'] = SrcModule(TU, {'tree_l2_norm': Handler(lambda ctx, t: new_tree(ctx, ctx.fresh('norm', 'real')), 'tree_l2_norm')})
  sopt = OptimizerV(z3.Const('server_optimizer', OptimizerT))
  g['server_optimizer'] = sopt
  g['client_batch_hparams'] = HpV(hp)
  g['client_coefficient'] = z3.Real('client_coefficient')
  g['ClientState'] = Handler(lambda ctx, *a, **k: StV('default'), 'ClientState')
  g['train_for_each_client'] = Handler(c_train, 'train_for_each_client')
  g['server_update'] = ex_up.funcv()
  eng = Engine(g)
  eng.sources = [AP]
  eng.on_empty_dict = lambda ctx: ctx.alloc(SymDictCell())

  def inv(s):
    k = to_z3(s.it)
    ds = tree_val(s.ctx, s.raw('delta_params_sum'))
    ns = to_z3(s['num_examples_sum'])
    keys = s.raw('client_diagnostics').cell(s.ctx).keys
    tk = s.raw('client_states').cell(s.ctx).keys
    m0 = z3.Length(old_keys)
    return dict(
        pos=z3.And(0 <= k, k <= n),
        sums=z3.And(ds == DSUM(seq, ptid, k), ns == NSUM(seq, k), NSUM(seq, k) >= 0),
        diag=z3.And(z3.Length(keys) == k, z3.Implies(z3.And(0 <= j0, j0 < k), keys[j0] == CID(seq[j0]))),
        table=z3.And(z3.Length(tk) == m0 + k, z3.SubSeq(tk, 0, m0) == old_keys,
                     z3.Implies(z3.And(0 <= j0, j0 < k), tk[m0 + j0] == CID(seq[j0]))))

  loops = {0: Loop(inv=inv, expect='train_for_each_client', hints=lambda s: [sum_unfold(seq, ptid, to_z3(s.it))])}

  def body(ctx):
    holder['ctx'] = ctx
    record.clear()
    del sopt.calls[:]
    ctx.model_vars.update(n_clients=n)
    ctx.assume(z3.And(DSUM(seq, ptid, 0) == 0, NSUM(seq, 0) == 0))
    sp = new_tree(ctx, pval, 'param', 'server_state.params', tid=ptid)
    SS = eng._resolve_in(ctx, AP, 'ServerState')[0]
    eng.globals['ServerState'] = SS
    table = TableV()
    st = ctx.alloc(ObjCell(SS, dict(params=sp, opt_state=OptStV(ost), client_states=table), owner='param', label='server_state'))
    kind, r = eng.run_function(ctx, ex.funcv(loops=loops), [st, ClientsV(seq)])
    ctx.oblige('apply.noraise', kind == 'return')
    if kind != 'return':
      return
    ok = isinstance(r, tuple) and len(r) == 2 and isinstance(r[0], Ref) and isinstance(r[0].cell(ctx), ObjCell)
    ctx.oblige('apply.shape', ok, detail='returns (ServerState, diagnostics)')
    if not ok:
      return
    ctx.oblige('apply.shared', record.get('shared') is sp, detail='clients start from the server parameters')
    ctx.oblige('apply.server.once', len(sopt.calls) == 1, detail='the server optimizer is applied exactly once per round')
    if len(sopt.calls) != 1:
      return
    gr, s_, p_ = sopt.calls[0]
    N = NSUM(seq, n)
    mean = z3.If(N > 0, DSUM(seq, ptid, n) / N, 0)
    ctx.oblige('apply.post', z3.And(tree_val(ctx, gr) == mean) if (p_ is sp and isinstance(s_, OptStV) and s_.term.eq(ost))
               else False,
               detail='the global model takes a server step on sum(n_i * delta_i) / sum(n_i) over ALL clients of the round (a '
                      'client with examples and a zero update keeps its weight): the FedAvg mean')
    f = r[0].cell(ctx).fields
    new_p, new_s, new_t = f.get('params'), f.get('opt_state'), f.get('client_states')
    okf = isinstance(new_p, Ref) and isinstance(new_s, OptStV)
    ctx.oblige('apply.rounds', okf and r[0].addr != st.addr, detail='the result is a fresh well-formed ServerState')
    if okf:
      ctx.oblige('apply.state', z3.And(tree_val(ctx, new_p) == OPT_P(sopt.term, mean, ost, pval),
                                       new_s.term == OPT_S(sopt.term, tree_tid(ctx, gr), ost, ptid)),
                 detail='new params / opt state are exactly what the server optimizer returned')
    okt = isinstance(new_t, Ref) and isinstance(new_t.cell(ctx), TableCell) and record.get('copy') is not None and \
        new_t.addr == record['copy'].addr
    ctx.oblige('apfl.table.copy', okt, detail="the new state's table is the copy made in this call (the old table is only read)")
    if okt:
      tk = new_t.cell(ctx).keys
      m0 = z3.Length(old_keys)
      ctx.oblige('apfl.table.keys', z3.And(z3.Length(tk) == m0 + n, z3.SubSeq(tk, 0, m0) == old_keys,
                                            z3.Implies(z3.And(0 <= j0, j0 < n), tk[m0 + j0] == CID(seq[j0]))),
                 detail='keys written = old keys followed by exactly the ids of this round\'s clients: state is stored only for '
                        'clients that have participated')
    d = r[1]
    okd = isinstance(d, Ref) and isinstance(d.cell(ctx), SymDictCell)
    ctx.oblige('apply.diag.type', okd)
    if okd:
      keys = d.cell(ctx).keys
      ctx.oblige('apply.diag.one', z3.And(z3.Length(keys) == n, z3.Implies(z3.And(0 <= j0, j0 < n), keys[j0] == CID(seq[j0]))),
                 detail='exactly one diagnostics entry per participating client')
    old = st.cell(ctx).fields
    ctx.oblige('frame.state', old['params'] is sp and sp.cell(ctx).valid and sp.cell(ctx).val.eq(pval) and
               old['client_states'] is table, detail="the caller's server state is neither modified nor donated")
  p.verify('apfl.apply', eng, body)


REG_SINKS = ('models.grad', 'models.model_grad', 'models.AverageLossEvaluator')   # library constructors taking a regularizer
REG_LOCAL = ('create_train_for_each_client', 'create_scaled_loss')   # module helpers: only where their def takes one


def v_regularizer_sites(p):
  """The reductions to FedAvg are stated for `models.grad(per_example_loss, regularizer)`: in every algorithm builder with a
  `regularizer` option, every gradient / loss constructor that accepts a regularizer receives exactly that option (an option
  honoured on the evaluation path and dropped on the training path makes one cluster differ from FedAvg)."""
  import ast
  from ..extract import parse
  total = 0
  for alg in ('hyp_cluster', 'mime', 'mime_lite', 'agnostic_fed_avg', 'fed_prox'):
    rel = f'fedjax/algorithms/{alg}.py'
    _, tree = parse(rel)
    takes = {n.name for n in tree.body if isinstance(n, ast.FunctionDef) and n.name in REG_LOCAL and
             'regularizer' in [a.arg for a in n.args.args + n.args.kwonlyargs]}
    for fn in [n for n in ast.walk(tree) if isinstance(n, ast.FunctionDef)]:
      if 'regularizer' not in [a.arg for a in fn.args.args + fn.args.kwonlyargs]:
        continue
      bad, sites = [], 0
      for c in ast.walk(fn):
        if isinstance(c, ast.Call) and (ast.unparse(c.func) in REG_SINKS or ast.unparse(c.func) in takes):
          sites += 1
          passed = [ast.unparse(a) for a in c.args[1:]] + [ast.unparse(k.value) for k in c.keywords if k.arg == 'regularizer']
          if 'regularizer' not in passed:
            bad.append(f'{rel}:{c.lineno} {ast.unparse(c)[:70]}')
      total += sites
      if sites:
        p.extract(rel, fn.name) if fn in tree.body else None
        p.oblige(f'reg.callsite:{alg}.{fn.name}', [], z3.BoolVal(not bad), kind='precondition', fn=f'{alg}.{fn.name}',
                 detail=f'{sites} gradient / loss constructor call(s) in {alg}.{fn.name} receive the regularizer option ({bad})')
  p.oblige('reg.callsite.sites', [], z3.BoolVal(total >= 6), kind='post', fn='algorithms',
           detail=f'{total} constructor call sites with a regularizer option found (vacuity guard)')


def build(p):
  D = 'native/C12.py'
  p.native('', D, 'equiv')
  v_regularizer_sites(p)
  # each algorithm instance is a function of ITS OWN hyper-parameters: no builder / round function keeps module-level or
  # closure state across instances (a trainer cache keyed without the proximal weight makes FedProx(0) != FedAvg)
  from . import C10
  C10.v_frames(p, files=[f'fedjax/algorithms/{a}.py' for a in ('fed_prox', 'mime', 'mime_lite', 'hyp_cluster', 'apfl')],
               min_sites=5)
  # "with the same ... batching": every algorithm batches its clients with the hyper-parameter object it was built with,
  # unchanged (a builder that rewrites num_epochs / num_steps / seed trains on another stream than FedAvg)
  C10.v_hparams_passthrough(p)
  v_fedprox(p)
  v_mimelite(p)
  v_mime_onestep(p)
  v_apfl_global(p)
  from .. import link
  from ..extract import REPO
  link.check(p, [ex.node for ex in p.functions.values()], REPO)
  p.trust('T-OPT: optimizers.sgd(lr).apply(g, s, p) = (s, p - lr * g); any optimizer is a pure function of (g, s, p)',
          'jax.grad is extensional: equal scalar losses have equal gradients; for_each_client contract (C02)',
          'FedAvg summaries: C01 client.fold / apply.post — equality with them is by identical summaries')
  p.native_checks = [dict(name='round_equivalences', driver=D, payload={'mode': 'sweep', 'fn': 'equiv'},
                          bound='3 rounds, 2-3 clients incl. an empty one, client optimizers sgd/momentum/adam: FedProx(0)=FedAvg, '
                                'FedProx(mu>0)=explicit simulation, HypCluster(1 cluster)=FedAvg, MimeLite(sgd, lr 1)=FedAvg(sgd, sgd(1)), '
                                'Mime(sgd, one step)=full-batch step, APFL global model=FedAvg',
                          why_bounded='whole-round equality of HypCluster / Mime / MimeLite (different round skeletons) is not yet '
                                      'under contract; bounded stand-in, not counted as proved')]
  p.not_covered.append('HypCluster with one cluster (argmin over one loss; differs from FedAvg on an all-empty cohort with a '
                       'stateful server optimizer) — checked by the bounded native driver only')
  p.not_covered.append('MimeLite / Mime round skeleton (shared_input dict, full-batch gradient pass): native driver only')
  p.not_covered.append('order of the backend output (pmap re-orders clients): the relational contracts take it in input order; native pmap runs only')
