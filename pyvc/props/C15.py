"""C15 — centralised streams over many clients neither lose nor duplicate.

Functions under contract: padded_batch_client_datasets, buffered_shuffle,
buffered_shuffle_batch_client_datasets (+gen_items), concat_examples,
RepeatableIterator.__init__/__iter__/__next__.
"""
from __future__ import annotations

import os

import z3

from ..script import *  # noqa
from ..lib_data import *  # noqa
from . import C03

F = 'fedjax/core/client_datasets.py'
FD = 'fedjax/core/federated_data.py'
I = z3.IntSort()
DsSeq = z3.SeqSort(DsId)
FLAT = z3.Function('FLAT', DsSeq, I, RowSeq)  # rows of the first k datasets, concatenated


def flat_axioms():
  s = z3.Const('fl_s', DsSeq)
  k = z3.Int('fl_k')
  return [
      z3.ForAll([s], FLAT(s, 0) == z3.Empty(RowSeq), patterns=[FLAT(s, 0)]),
      z3.ForAll([s, k], z3.Implies(z3.And(k >= 1, k <= z3.Length(s)),
                                   FLAT(s, k) == z3.Concat(FLAT(s, k - 1), ds_rows(s[k - 1]))),
                patterns=[FLAT(s, k)]),
  ]


def pb_globals():
  g = C03.view_globals()
  g['concat_examples'] = Handler(c_concat_examples, 'concat_examples')
  g['PaddedBatchHParams'] = ClassModel('PaddedBatchHParams')
  return g


def v_padded_batch_client_datasets(p):
  ex = p.extract(F, 'padded_batch_client_datasets')
  eng = Engine(pb_globals())
  eng.on_empty_list = lambda ctx: ctx.alloc(TblListCell(z3.Empty(RowSeq), z3.IntVal(0),
                                                        ctx.fresh('nofeats', FeatSet)))
  dss = z3.Const('datasets', DsSeq)
  n = z3.Length(dss)
  B, K = z3.Ints('batch_size buckets')
  j0 = z3.Int('j0')  # an arbitrary dataset index (universal statements are proved at j0)
  empty = z3.Empty(RowSeq)
  P0 = ds_pre(dss[0])
  F0 = ds_feats(dss[0])

  def bufcell(s):
    return s.raw('buf').cell(s.ctx)

  def opt(v, get):
    if v is None:
      return z3.BoolVal(True), None
    if isinstance(v, OptV):
      return v.is_none, get(v.val)
    return z3.BoolVal(False), get(v)

  def shared(s, k):
    g = s.ctx.ghost
    pn, pv = opt(s.raw('preprocessor'), lambda x: x.pid)
    fn, fv = opt(s.raw('features'), lambda x: x.term)
    bc = bufcell(s)
    return dict(
        ghost=z3.And(g['allfull'], g['count'] >= 0, z3.Not(g['final'])),
        chain=z3.And(
            z3.Implies(k == 0, z3.And(pn, fn)),
            z3.Implies(k > 0, z3.And(z3.Not(pn), z3.Not(fn),
                                     pv == P0 if pv is not None else False,
                                     fv == F0 if fv is not None else False))),
        same=z3.Implies(z3.And(0 <= j0, j0 < k), z3.And(ds_pre(dss[j0]) == P0,
                                                        ds_feats(dss[j0]) == F0)),
        buffeats=z3.Implies(to_z3(bc.count) > 0, bc.feats == F0))

  def inv_outer(s):
    g = s.ctx.ghost
    k = to_z3(s.it)
    bc = bufcell(s)
    bs = to_z3(s['buf_size'])
    d = dict(
        pos=z3.And(0 <= k, k <= n),
        size=z3.And(bs == z3.Length(bc.flat), 0 <= bs, bs <= B, to_z3(bc.count) >= 0,
                    z3.Implies(to_z3(bc.count) == 0, bc.flat == empty),
                    z3.Implies(k == 0, to_z3(bc.count) == 0)),
        stream=z3.Concat(g['emitted'], bc.flat) == FLAT(dss, k))
    d.update(shared(s, k))
    return d

  def inv_inner(s):
    g = s.ctx.ghost
    k = to_z3(s.raw('$it0'))
    bc = bufcell(s)
    rows = ds_rows(dss[k - 1])
    start = to_z3(s['start'])
    d = dict(
        pos=z3.And(1 <= k, k <= n),
        empty=z3.And(bc.flat == empty, to_z3(bc.count) == 0, to_z3(s['buf_size']) == 0),
        start=z3.And(0 <= start, start <= z3.Length(rows)),
        stream=g['emitted'] == z3.Concat(FLAT(dss, k - 1), z3.SubSeq(rows, 0, start)))
    d.update(shared(s, k))
    return d

  sorts = {
      'preprocessor': lambda ctx, nm: OptV(ctx.fresh('pre_none', 'bool'),
                                           PreprocV(ctx.fresh('pre', PreId))),
      'features': lambda ctx, nm: OptV(ctx.fresh('feats_none', 'bool'),
                                       FeatSetV(ctx.fresh('feats', FeatSet))),
  }
  loops = {
      0: Loop(inv=inv_outer, sorts=sorts, expect=r'datasets'),
      1: Loop(inv=inv_inner, expect=r'start', decreases=lambda s: to_z3(s['size']) - to_z3(s['start'])),
  }

  def on_yield(ctx, v):
    g = ctx.ghost
    ok = isinstance(v, TableV) and v.mask is not None
    ctx.oblige('yield.hasmask', ok, detail='every batch carries the mask feature')
    if not ok:
      raise PathDead()
    ctx.oblige('yield.preprocessed', len(v.pre) == 1 and (v.pre[0] == P0),
               detail='each batch went through the common preprocessor exactly once')
    ctx.oblige('yield.feats', v.feats == F0, detail='batches have the common feature set')
    ctx.oblige('yield.order', z3.Not(g['final']), detail='nothing is emitted after the padded final batch')
    nreal = z3.Length(v.rows)
    ctx.oblige('yield.mask.prefix', to_z3(v.mask.c) == nreal,
               detail='mask is True on exactly the real rows')
    if v.pad == 'none':
      ctx.oblige('yield.consistent', nreal == to_z3(v.mask.n))
      ctx.oblige('yield.full', nreal == B, detail='every batch before the last is full')
      g['allfull'] = z3.And(g['allfull'], nreal == B)
    else:
      ctx.oblige('yield.pad.zero', v.pad == 'zero')
      g['final'] = z3.BoolVal(True)
      g['final_size'] = to_z3(v.mask.n)
      g['final_real'] = nreal
    g['emitted'] = z3.Concat(g['emitted'], v.rows)
    g['count'] = g['count'] + 1

  hp_cls = ClassModel('PaddedBatchHParams')

  def body(ctx):
    ctx.model_vars.update(n_datasets=n, batch_size=B, num_batch_size_buckets=K,
                          sizes=dss)
    for a in flat_axioms() + C03.H_axioms():
      ctx.assume(a)
    ctx.assume(z3.And(B >= 1, K >= 1))
    hp = ctx.alloc(ObjCell(hp_cls, dict(batch_size=B, num_batch_size_buckets=K),
                           owner='param', label='hparams'))
    ctx.ghost.update(emitted=empty, count=z3.IntVal(0), allfull=z3.BoolVal(True),
                     final=z3.BoolVal(False), final_size=z3.IntVal(0),
                     final_real=z3.IntVal(0))
    ctx.on_yield = on_yield
    kind, r = eng.run_function(ctx, ex.funcv(loops=loops), [SeqV(dss, DS_CODEC), hp])
    g = ctx.ghost
    if kind == 'raise':
      # rejected exactly when some dataset disagrees with the first one
      loc = eng.final_locals(ctx)
      k = to_z3(loc['$it0'])
      ctx.oblige('pbcd.reject', z3.And(
          r.name == 'ValueError', k >= 2,
          z3.Or(ds_pre(dss[k - 1]) != P0, ds_feats(dss[k - 1]) != F0)),
          detail='ValueError only for a dataset whose preprocessor object or feature set differs')
      return
    ctx.oblige('pbcd.accept', z3.Implies(z3.And(0 <= j0, j0 < n), z3.And(
        ds_pre(dss[j0]) == P0, ds_feats(dss[j0]) == F0)),
        detail='no exception => every dataset has the same preprocessor object and features')
    ctx.oblige('pbcd.post', g['emitted'] == FLAT(dss, n),
               detail='real rows of all batches = concatenation of the datasets in client and example order')
    ctx.oblige('pbcd.allfull', g['allfull'], detail='all batches before the last are full')
    ctx.oblige('pbcd.final', z3.Implies(g['final'], z3.And(
        g['final_size'] == C03.PICK(g['final_real'], B, K), g['final_real'] <= B)),
        detail='the last batch is padded to the bucketed size of what is left')

  p.verify('padded_batch_client_datasets', eng, body)


Item = z3.DeclareSort('Item')
ItemSeq = z3.SeqSort(Item)
ITEM = Codec(Item, enc=lambda v: v, dec=lambda t: t)


def v_repeatable(p):
  ex_init = p.extract(FD, 'RepeatableIterator.__init__')
  ex_next = p.extract(FD, 'RepeatableIterator.__next__')
  ex_iter = p.extract(FD, 'RepeatableIterator.__iter__')
  eng = Engine()
  base = z3.Const('base', ItemSeq)
  empty = z3.Empty(ItemSeq)

  # __init__, general iterable (generator, range, ...): copying mode
  def body_init_gen(ctx):
    src = ctx.alloc(IterCell(base, ITEM, 0, owner='param', label='base'))
    ctx.modifies.add(src.addr)  # a one-pass iterator is consumed by design
    selfr = ctx.alloc(ObjCell(None, {}, label='self'))
    ctx.init_stack.append(selfr.addr)
    kind, _ = eng.run_function(ctx, ex_init.funcv(), [selfr, src])
    ctx.oblige('noraise', kind == 'return')
    f = ctx.heap[selfr.addr].fields
    ok = all(k in f for k in ('_first_pass', '_iter', '_buf'))
    ctx.oblige('fields', ok)
    if not ok:
      return
    ctx.oblige('rep.init.copying', zbool(f['_first_pass']),
               detail='a general iterable is copied during the first pass')
    it, buf = f['_iter'], f['_buf']
    okb = isinstance(buf, Ref) and isinstance(buf.cell(ctx), (ListCell, PyListCell)) \
        and buf.cell(ctx).owner == 'local'
    ctx.oblige('rep.init.buf', okb and to_z3(eng.length(ctx, buf)) == 0,
               detail='the buffer is a fresh empty list')
    oki = isinstance(it, Ref) and isinstance(it.cell(ctx), IterCell)
    ctx.oblige('rep.init.iter', oki and it.cell(ctx).cur_seq(ctx).eq(base)
               and to_z3(it.cell(ctx).pos) == 0,
               detail='iteration starts at the beginning of the base iterable')

  p.verify('RepeatableIterator.__init__', eng, body_init_gen)

  # __init__, builtin container (list): no copy, never mutated
  def body_init_list(ctx):
    lst = ctx.alloc(ListCell(base, ITEM, owner='param', label='base'))
    selfr = ctx.alloc(ObjCell(None, {}, label='self'))
    ctx.init_stack.append(selfr.addr)
    kind, _ = eng.run_function(ctx, ex_init.funcv(), [selfr, lst])
    ctx.oblige('noraise', kind == 'return')
    f = ctx.heap[selfr.addr].fields
    ok = all(k in f for k in ('_first_pass', '_iter', '_buf'))
    ctx.oblige('fields', ok)
    if not ok:
      return
    ctx.oblige('rep.init.nocopy', znot(zbool(f['_first_pass'])),
               detail='builtin containers are replayed from themselves (never appended to)')
    ctx.oblige('rep.init.nocopy.buf', isinstance(f['_buf'], Ref) and f['_buf'].addr == lst.addr)
    it = f['_iter']
    oki = isinstance(it, Ref) and isinstance(it.cell(ctx), IterCell)
    ctx.oblige('rep.init.nocopy.iter', oki and it.cell(ctx).cur_seq(ctx).eq(base)
               and to_z3(it.cell(ctx).pos) == 0)

  p.verify('RepeatableIterator.__init__[list]', eng, body_init_list)

  # __next__ under the class invariant
  #   first pass:  _iter walks `base`, _buf == base[0:pos]
  #   later pass:  _iter walks the current content of _buf
  fp = z3.Bool('first_pass')
  pos = z3.Int('pos')
  bufseq = z3.Const('buf', ItemSeq)

  def body_next(ctx):
    ctx.model_vars.update(first_pass=fp, pos=pos)
    first = ctx.branch(fp)
    buf = ctx.alloc(ListCell(bufseq, ITEM, label='_buf'))
    if first:
      it = ctx.alloc(IterCell(base, ITEM, pos, label='_iter'))
      ctx.assume(z3.And(0 <= pos, pos <= z3.Length(base), bufseq == z3.SubSeq(base, 0, pos)))
      cur = base
    else:
      it = ctx.alloc(IterCell(None, ITEM, pos, label='_iter', src=buf))
      ctx.assume(z3.And(0 <= pos, pos <= z3.Length(bufseq)))
      cur = bufseq
    selfr = ctx.alloc(ObjCell(None, dict(_first_pass=first, _iter=it, _buf=buf),
                              owner='param', label='self'))
    ctx.modifies.add(selfr.addr)
    kind, r = eng.run_function(ctx, ex_next.funcv(), [selfr])
    f = ctx.heap[selfr.addr].fields
    nb = f['_buf'].cell(ctx).seq
    nit = f['_iter'].cell(ctx)
    if kind == 'return':
      ctx.oblige('rep.next.item', z3.And(pos < z3.Length(cur), r == cur[pos]),
                 detail='returns the next item of the current pass')
      ctx.oblige('rep.next.advance', z3.And(nit.cur_seq(ctx) == (base if first else nb),
                                            to_z3(nit.pos) == pos + 1))
      ctx.oblige('rep.inv', (nb == z3.SubSeq(base, 0, pos + 1)) if first else (nb == bufseq),
                 detail='first pass: the buffer holds exactly the items seen so far; later: unchanged')
      ctx.oblige('rep.next.mode', zbool(f['_first_pass']) == z3.BoolVal(first))
    else:
      ctx.oblige('rep.stop', z3.And(r.name == 'StopIteration', pos >= z3.Length(cur)),
                 detail='StopIteration exactly at the end of the pass')
      ctx.oblige('rep.stop.reset', z3.And(znot(zbool(f['_first_pass'])),
                                          nit.src is not None and nit.src.addr == f['_buf'].addr,
                                          to_z3(nit.pos) == 0),
                 detail='after a pass the iterator is re-seated at the start of the buffer')
      ctx.oblige('rep.replay', nb == cur,
                 detail='the buffer now equals all items of the pass that just ended, so every later pass replays it')

  p.verify('RepeatableIterator.__next__', eng, body_next)

  def body_iter(ctx):
    selfr = ctx.alloc(ObjCell(None, {}, owner='param', label='self'))
    kind, r = eng.run_function(ctx, ex_iter.funcv(), [selfr])
    ctx.oblige('rep.iter.self', kind == 'return' and isinstance(r, Ref) and r.addr == selfr.addr)

  p.verify('RepeatableIterator.__iter__', eng, body_iter)


# ---------------------------------------------------------------------------
# buffered_shuffle: the output is a permutation of the input (every item exactly once)
#
# The function never inspects the items, so it is verified on the stream of distinct ids 0, 1, 2, ... (parametricity);
# for an arbitrary id q a ghost witness w tracks where q is in the buffer (-1: not there) and em counts its emissions.

class BufCell(ArrayCell):
  """The buffer list: z3 Array of ids + length."""

  def iterate(self, ctx, ref):
    view = ctx.fresh('bufview', z3.SeqSort(I))
    ctx.assume(z3.Length(view) == to_z3(self.n))
    arr = self.arr
    spec = IterSpec(seq=view, codec=INT)
    spec.item_fn = lambda q_: z3.Select(arr, q_)
    return spec


def v_buffered_shuffle(p):
  ex = p.extract(F, 'buffered_shuffle')
  src = z3.Const('source_ids', z3.SeqSort(I))
  N = z3.Length(src)
  Bz = z3.Int('buffer_size')
  q = z3.Int('q')
  A = z3.ArraySort(I, I)

  class IsliceV(Val):
    def __init__(self, it, n):
      self.it, self.n = it, n

  class RngV(Val):
    def method(self, ctx, name, args, kwargs):
      if name == 'shuffle':
        # T-NP: RandomState.shuffle permutes the list in place
        ref = args[0]
        c = ref.cell(ctx)
        m = to_z3(c.n)
        new = ctx.fresh('shuffled', A)
        j, k = z3.Ints('j!s k!s')
        old = c.arr
        perm = ctx.fresh('perm', A)       # new[j] = old[perm[j]], perm a bijection of [0, m)
        ctx.assume(z3.ForAll([j], z3.Implies(z3.And(0 <= j, j < m), z3.And(0 <= perm[j], perm[j] < m, new[j] == old[perm[j]])),
                             patterns=[new[j]]))
        ctx.assume(z3.ForAll([j, k], z3.Implies(z3.And(0 <= j, j < m, 0 <= k, k < m, perm[j] == perm[k]), j == k),
                             patterns=[z3.MultiPattern(perm[j], perm[k])]))
        inv_ = ctx.fresh('perm_inv', A)   # a bijection has an inverse
        ctx.assume(z3.ForAll([j], z3.Implies(z3.And(0 <= j, j < m), z3.And(0 <= inv_[j], inv_[j] < m, perm[inv_[j]] == j)),
                             patterns=[inv_[j]]))
        ctx.tags['perm_inv'] = inv_
        # ghost: where the arbitrary item q sits after the shuffle (items 0..m-1 were taken, item j sat in slot j)
        ctx.ghost['w'] = z3.If(z3.And(0 <= q, q < m), inv_[q], z3.IntVal(-1))
        nc = c.clone()
        nc.arr = new
        ctx.set_cell(ref.addr, nc)
        return None
      if name == 'randint':
        hi = to_z3(args[0])
        ctx.oblige('randint.range', hi >= 1, kind='definedness', detail='ValueError: randint(0)')
        r = ctx.fresh('randint')
        ctx.assume(z3.And(0 <= r, r < hi))
        return r
      raise Unsupported(f'rng.{name}')

  def b_list(ctx, v):
    if isinstance(v, IsliceV):
      c = v.it.cell(ctx)
      pos = to_z3(c.pos)
      m = z3.If(N - pos < to_z3(v.n), N - pos, to_z3(v.n))
      ctx.oblige('islice.stop', to_z3(v.n) >= 0, kind='definedness', detail='ValueError: islice stop must be >= 0')
      arr = ctx.fresh('taken', A)
      j = z3.Int('j!t')
      ctx.assume(z3.ForAll([j], z3.Implies(z3.And(0 <= j, j < m), arr[j] == src[pos + j]), patterns=[arr[j]]))
      nc = c.clone()
      nc.pos = pos + m
      ctx.set_cell(v.it.addr, nc)
      return ctx.alloc(BufCell(arr, m, label='buf'))
    raise Unsupported('list(...)')
  eng = Engine({'itertools': Module('itertools', {'islice': Handler(lambda c, it, n: IsliceV(it, n), 'itertools.islice')}),
                'list': Handler(b_list, 'list')})
  eng.sources = [F]

  def buf_facts(arr, n, consumed):
    j, k = z3.Ints('j!b k!b')
    return z3.And(
        z3.ForAll([j], z3.Implies(z3.And(0 <= j, j < n), z3.And(0 <= arr[j], arr[j] < consumed))),
        z3.ForAll([j, k], z3.Implies(z3.And(0 <= j, j < n, 0 <= k, k < n, arr[j] == arr[k]), j == k)))

  def witness(arr, n, w):
    j = z3.Int('j!w')
    return z3.And(w >= -1, w < n, z3.Implies(w >= 0, arr[w] == q),
                  z3.Implies(w == -1, z3.ForAll([j], z3.Implies(z3.And(0 <= j, j < n), arr[j] != q))))

  mlen = z3.If(N < Bz, N, Bz)      # buffer length: min(buffer_size, number of items)

  def inv_main(s):
    g = s.ctx.ghost
    c = s.raw('buf').cell(s.ctx)
    itc = s.raw('it').cell(s.ctx)
    pos = to_z3(itc.pos)
    return dict(
        pos=z3.And(mlen <= pos, pos <= N, to_z3(c.n) == mlen),
        count=g['count'] == pos - mlen,
        buf=buf_facts(c.arr, mlen, pos),
        wit=witness(c.arr, mlen, g['w']),
        em=z3.And(g['em'] == z3.If(z3.And(0 <= q, q < pos, g['w'] == -1), 1, 0), g['valid']))

  def ghost_step(s):
    # where q is after the body, read off the buffer itself: only slots 0 and `swap` can have changed
    g = s.ctx.ghost
    swap = to_z3(s['swap'])
    arr = s.raw('buf').cell(s.ctx).arr
    w0 = g['w']       # not modified by the body: still the head value
    g['w'] = z3.If(arr[0] == q, 0, z3.If(arr[swap] == q, swap, z3.If(z3.Or(w0 == 0, w0 == swap), -1, w0)))

  def inv_drain(s):
    g = s.ctx.ghost
    k = to_z3(s.it)
    c = s.raw('buf').cell(s.ctx)
    n = to_z3(c.n)
    return dict(pos=z3.And(0 <= k, k <= n),
                count=g['count'] == g['count0'] + k,
                em=z3.And(g['em'] == g['em0'] + z3.If(z3.And(g['w'] >= 0, g['w'] < k), 1, 0), g['valid']))
  def after_main(s):
    g = s.ctx.ghost
    g['count0'], g['em0'] = g['count'], g['em']
  loops = {0: Loop(inv=inv_main, ghost_step=ghost_step, ghost=['w', 'em', 'count', 'valid'], expect=r'^it$',
                   mutates=('buf', 'it'), after=after_main),
           1: Loop(inv=inv_drain, ghost=['em', 'count', 'valid'], expect=r'^buf$')}

  def body(ctx):
    ctx.model_vars.update(q=q, buffer_size=Bz, n_items=N)
    kk = z3.Int('k!src')
    ctx.assume(z3.ForAll([kk], z3.Implies(z3.And(0 <= kk, kk < N), src[kk] == kk), patterns=[src[kk]]))
    ctx.assume(Bz >= 1)
    g = ctx.ghost
    g.update(w=z3.IntVal(-1), em=z3.IntVal(0), count=z3.IntVal(0), valid=z3.BoolVal(True),
             em0=z3.IntVal(0), count0=z3.IntVal(0))
    state = {'phase': 0}

    def on_yield(c, v):
      gh = c.ghost
      v = to_z3(v)
      gh['valid'] = z3.And(gh['valid'], 0 <= v, v < N)
      gh['em'] = gh['em'] + z3.If(v == q, 1, 0)
      gh['count'] = gh['count'] + 1
    ctx.on_yield = on_yield
    orig_after = None
    kind, r = eng.run_function(ctx, ex.funcv(loops=loops), [SeqV(src, INT), Bz, RngV()])
    ctx.oblige('bshuf.noraise', kind == 'return')
    if kind != 'return':
      return
    ctx.oblige('bshuf.once', z3.Implies(z3.And(0 <= q, q < N), g['em'] == 1),
               detail='every input item is emitted exactly once (arbitrary item q of the id stream 0..N-1)')
    ctx.oblige('bshuf.count', z3.And(g['count'] == N, g['valid']),
               detail='exactly N items are emitted and each is an input item: with bshuf.once the output is a permutation of the input')
  p.verify('buffered_shuffle', eng, body)


# ---------------------------------------------------------------------------
# the FederatedData-level wrappers: argument and seed plumbing

def v_fd_wrappers(p):
  ex = p.extract(FD, 'shuffle_repeat_batch_federated_data')
  RsS = z3.DeclareSort('RandomState15')
  RS = z3.Function('RandomState', I, RsS)
  RS_NONE = z3.Const('RandomState_unseeded', RsS)
  DRAW = z3.Function('first_randint', RsS, I, I)
  seed = z3.Int('seed')
  seed_none = z3.Bool('seed_is_None')
  bs, cbs, ebs = z3.Ints('batch_size client_buffer_size example_buffer_size')
  rec = {}

  class RsV15(Val):
    def __init__(self, term):
      self.term, self.draws = term, 0

    def method(self, ctx, name, args, kwargs):
      if name == 'randint':
        self.draws += 1
        if self.draws != 1:
          raise Unsupported('second draw')
        return DRAW(self.term, to_z3(args[0]))
      raise Unsupported(f'rng.{name}')

  class FdV15(Val):
    def method(self, ctx, name, args, kwargs):
      if name == 'shuffled_clients':
        rec['shuffled'] = (args, kwargs)
        return ShufV()
      raise Unsupported(f'fd.{name}')

  class ShufV(Val):
    def comprehend(self, ctx, engine, e, g, kind):
      ok = kind == 'gen' and not g.ifs and isinstance(g.target, ast.Tuple) and len(g.target.elts) == 2 and \
          ast.unparse(e.elt) == ast.unparse(g.target.elts[1])
      rec['datasets_of_shuffled'] = ok
      return DatasetsV()

  class DatasetsV(Val):
    pass

  def rs(ctx, s_=None):
    if isinstance(s_, OptV):
      return RsV15(z3.If(s_.is_none, RS_NONE, RS(to_z3(s_.val))))
    return RsV15(RS(to_z3(s_)) if s_ is not None else RS_NONE)

  def bsb(ctx, datasets, **kw):
    rec['bsb'] = (datasets, kw)
    return ()
  import ast
  eng = Engine({'np': Module('np', {'random': Module('np.random', {'RandomState': Handler(rs, 'np.random.RandomState')})}),
                'client_datasets': Module('client_datasets', {'buffered_shuffle_batch_client_datasets': Handler(bsb, 'bsbcd')})})
  eng.sources = [FD]

  def body(ctx):
    rec.clear()
    ctx.model_vars.update(seed=seed, seed_is_None=seed_none)
    ctx.on_yield = lambda c, v: None
    sv = OptV(seed_none, seed)
    kind, r = eng.run_function(ctx, ex.funcv(), [FdV15(), bs, cbs, ebs, sv])
    ctx.oblige('srbfd.noraise', kind == 'return')
    ok = 'shuffled' in rec and 'bsb' in rec and rec.get('datasets_of_shuffled') is True
    ctx.oblige('srbfd.shape', ok, detail='client level: fd.shuffled_clients(...); example level: buffered_shuffle_batch_client_datasets '
                                         'over the datasets of that stream')
    if not ok:
      return
    args, kw = rec['shuffled']
    a = list(args) + [kw[k] for k in ('buffer_size', 'seed') if k in kw]
    okc = len(a) == 2
    ctx.oblige('srbfd.clients.args', okc)
    if okc:
      want = DRAW(z3.If(seed_none, RS_NONE, RS(seed)), z3.IntVal(1 << 32))
      got = a[1]
      gt = (z3.IntVal(-1) if got is None else (to_z3(got.val) if isinstance(got, OptV) else to_z3(got)))
      isnone = z3.BoolVal(got is None) if not isinstance(got, OptV) else got.is_none
      ctx.oblige('srbfd.seed', z3.And(to_z3(a[0]) == cbs, z3.Implies(z3.Not(seed_none), z3.And(z3.Not(isnone), gt == want))),
                 detail='for EVERY integer seed (0 included) the client-level shuffle is seeded by the first draw of '
                        'RandomState(seed): the stream is reproducible for a fixed seed')
    ds, kw2 = rec['bsb']
    r2 = kw2.get('rng')
    ctx.oblige('srbfd.examples.args', z3.And(isinstance(ds, DatasetsV), isinstance(r2, RsV15),
                                             to_z3(kw2.get('batch_size', -1)) == bs, to_z3(kw2.get('buffer_size', -1)) == ebs,
                                             (r2.term if isinstance(r2, RsV15) else RS_NONE) == z3.If(seed_none, RS_NONE, RS(seed))),
               detail='example level: the same RandomState(seed), the requested batch and buffer sizes')
  p.verify('shuffle_repeat_batch_federated_data', eng, body)


def v_pbfd(p):
  """padded_batch_federated_data(fd, hparams, **kwargs) is padded_batch_client_datasets over the datasets of fd.clients()
  with the SAME hparams object and EVERY keyword forwarded (an override dropped in the wrapper changes the batch size or the
  bucket rule without losing a row)."""
  import ast
  ex = p.extract(FD, 'padded_batch_federated_data')
  rec = {}
  bsz, nb = z3.Ints('batch_size_override buckets_override')

  class Tok(Val):
    def __init__(self, name):
      self.name = name

  class CliV(Val):
    def comprehend(self, ctx, engine, e, g, kind):
      rec['datasets_of_clients'] = kind == 'gen' and not g.ifs and isinstance(g.target, ast.Tuple) and \
          len(g.target.elts) == 2 and ast.unparse(e.elt) == ast.unparse(g.target.elts[1])
      return Tok('datasets')

  class FdV(Val):
    def method(self, ctx, name, args, kwargs):
      if name == 'clients' and not args and not kwargs:
        rec['clients'] = True
        return CliV()
      raise Unsupported(f'fd.{name}')

  def pbcd(ctx, *a, **k):
    rec['call'] = (a, k)
    return ()
  class HpTok(Tok):
    def __init__(self, fields):
      Tok.__init__(self, 'constructed hparams')
      self.fields = fields
  eng = Engine({'client_datasets': Module('client_datasets', {
      'padded_batch_client_datasets': Handler(pbcd, 'pbcd'),
      'PaddedBatchHParams': Handler(lambda ctx, **k: HpTok(k), 'PaddedBatchHParams')})})
  eng.sources = [FD]
  for tag, hp, kw in (('hparams+kwargs', Tok('hparams'), {'batch_size': bsz, 'num_batch_size_buckets': nb}),
                      ('hparams', Tok('hparams'), {}), ('kwargs', None, {'batch_size': bsz})):
    def body(ctx, hp=hp, kw=kw):
      rec.clear()
      ctx.on_yield = lambda c, v: None
      kind, r = eng.run_function(ctx, ex.funcv(), [FdV(), hp], dict(kw))
      ctx.oblige('pbfd.noraise', kind == 'return')
      a, k = rec.get('call', ((), {}))
      got_hp = a[1] if len(a) > 1 else k.get('hparams', None)
      rest = {x: y for x, y in k.items() if x != 'hparams'}
      if hp is None and isinstance(got_hp, HpTok) and not rest:
        got_hp, rest = None, dict(got_hp.fields)      # hparams built from exactly the keywords: the same thing
      ok = rec.get('clients') and rec.get('datasets_of_clients') is True and len(a) >= 1 and isinstance(a[0], Tok) and \
          a[0].name == 'datasets' and got_hp is hp and set(rest) == set(kw)
      ctx.oblige('pbfd.args', z3.And(z3.BoolVal(bool(ok)), *[to_z3(rest[x]) == to_z3(kw[x]) for x in kw]) if ok else False,
                 detail='one call padded_batch_client_datasets(datasets of fd.clients(), hparams, **kwargs): the hparams object '
                        f'as given and every keyword override forwarded unchanged (forwarded: {sorted(rest)}, given: {sorted(kw)})')
    p.verify(f'padded_batch_federated_data[{tag}]', eng, body)


def build(p):
  D = 'native/C15.py'
  p.native('padded_batch_federated_data', D, 'pbcd')
  v_pbfd(p)
  p.native('RepeatableIterator', D, 'rep')
  v_repeatable(p)
  p.native('padded_batch_client_datasets', D, 'pbcd')
  v_padded_batch_client_datasets(p)
  p.native('buffered_shuffle', D, 'bshuf')
  v_buffered_shuffle(p)
  p.native('shuffle_repeat_batch_federated_data', D, 'srbfd')
  v_fd_wrappers(p)
  p.native_checks = [
      dict(name='buffered_shuffle', driver=D, payload={'mode': 'sweep', 'fn': 'bshuf'},
           bound='stream lengths 0..11, buffer sizes 1..14, 3 seeds: output is a permutation of the '
                 'input and is reproducible for a fixed seed',
           why_bounded='cross-check on the real code of the permutation proof (bshuf.once / bshuf.count, now under contract) '
                       'and of "reproducible for a fixed seed" (a statement about numpy RandomState)'),
      dict(name='buffered_shuffle_batch_client_datasets', driver=D,
           payload={'mode': 'sweep', 'fn': 'bsbcd'},
           bound='7 client-size lists x batch sizes {1,2,3,5} x buffer sizes {1,2,4,50}: every example '
                 'exactly once, full batches except the last, preprocessor applied once',
           why_bounded='depends on buffered_shuffle; bounded stand-in, not counted as proved'),
  ]
  p.not_covered.append('"in a non-trivial order" (a statement about the RNG)')
  p.trust('buffered_shuffle is verified on the stream of distinct ids 0, 1, 2, ...: it never inspects its items, so the result '
          'transfers to any item stream (parametricity); T-NP: RandomState.shuffle permutes the list in place (a bijection, which '
          'has an inverse), randint(n) is in [0, n); itertools.islice(it, n) takes the next min(n, remaining) items')
  p.trust('FLAT(datasets, k): ghost concatenation of the first k datasets (recursive definition as two axioms)',
          'TABLE contracts of slice_examples / attach_mask / pad_examples / num_examples are the ones proved in C03; '
          'concat_examples: rows concatenated in list order (dict-level proof: see C15 concat section)')
