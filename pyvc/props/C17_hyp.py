"""C17, HypCluster part: hyp.untouched, hyp.own, hyp.argmin."""
from __future__ import annotations

import ast
import z3

from ..script import *  # noqa
from ..lib_real import *  # noqa
from ..lib_alg import *  # noqa

HC = 'fedjax/algorithms/hyp_cluster.py'
TU = 'fedjax/core/tree_util.py'
ASSIGN = z3.Function('cluster_of', ClientT, I)
CDELTA = z3.Function('client_delta_at_c', ClientT, R)


def v_server_loop(p, K=3):
  """apply(): per cluster, delta None => (opt_state, params) carried over IDENTICALLY, else optimizer output.
  The loop body is uniform in the cluster index; it is executed for K = 3 clusters, each with an arbitrary
  (None or present) delta."""
  ex = p.extract(HC, 'hyp_cluster.<locals>.apply')
  sopt = OptimizerV(z3.Const('server_optimizer', OptimizerT))
  g = real_globals()
  g['server_optimizer'] = sopt
  g['tree_util'] = SrcModule(TU)
  deltas_holder = {}
  g['maximization_step'] = Handler(lambda ctx, **kw: deltas_holder['assign'], 'maximization_step')
  g['expectation_step'] = Handler(lambda ctx, **kw: deltas_holder['deltas'], 'expectation_step')
  for n in ('evaluator', 'trainer', 'maximization_batch_hparams', 'expectation_batch_hparams'):
    g[n] = HpV(z3.Const(n, HpT))
  g['jax'].attrs['random'] = Module('jax.random', {'split': Handler(
      lambda ctx, k, num=2: (KeyV(z3.Function('s0', KeyT, KeyT)(k.term)), KeyV(z3.Function('s1', KeyT, KeyT)(k.term))),
      'split')})
  eng = Engine(g)
  eng.sources = [HC]
  eng.on_empty_dict = lambda ctx: ctx.alloc(SymDictCell())
  seq = z3.Const('clients', ClientSeq)

  class AssignMapV(Val):
    def method(self, ctx, name, args, kwargs):
      if name == 'items':
        return SeqV(seq, Codec(ClientT, dec=lambda t: (CID(t), ASSIGN(t))))
      raise Unsupported(name)

  def zipv(ctx, *vs):
    from ..engine import _b_zip
    if all(isinstance(v, (ClientsV, MappedClientsV)) for v in vs):
      return ZipClientsV(vs)
    return _b_zip(ctx, *vs)

  class ZipClientsV(Val):
    def __init__(self, vs):
      self.vs = vs

    def comprehend(self, ctx, engine, e, g_, kind):
      return MappedClientsV(seq, ctx.fresh('zi'), None)
  eng.globals['zip'] = Handler(zipv, 'zip')

  def body(ctx):
    del sopt.calls[:]
    SS = eng._resolve_in(ctx, HC, 'ServerState')[0]
    eng.globals['ServerState'] = SS
    params = [new_tree(ctx, z3.Real(f'params_{j}'), 'param', f'cluster_params[{j}]', tid=z3.Const(f'p{j}', TreeId))
              for j in range(K)]
    opts = [OptStV(z3.Const(f'opt_state_{j}', OptStateT)) for j in range(K)]
    nones = [z3.Bool(f'cluster_{j}_has_no_client') for j in range(K)]
    ctx.model_vars.update({f'cluster_{j}_has_no_client': nones[j] for j in range(K)})
    dl = []
    for j in range(K):
      if ctx.branch(nones[j]):
        dl.append(None)
      else:
        dl.append(new_tree(ctx, z3.Real(f'delta_{j}'), label=f'cluster_delta_params[{j}]'))
    deltas_holder['deltas'] = ctx.alloc(PyListCell(dl))
    deltas_holder['assign'] = AssignMapV()
    st = ctx.alloc(ObjCell(SS, dict(cluster_params=ctx.alloc(PyListCell(params, owner='param')),
                                    opt_states=ctx.alloc(PyListCell(opts, owner='param'))), owner='param',
                           label='server_state'))
    loops = {'re:client_cluster_ids': Loop(inv=lambda s: to_z3(s.it) >= 0)}
    kind, r = eng.run_function(ctx, ex.funcv(loops=loops), [st, ClientsV(seq)])
    ctx.oblige('hyp.apply.noraise', kind == 'return')
    if kind != 'return':
      return
    ns = r[0].cell(ctx).fields
    np_, no_ = ns.get('cluster_params'), ns.get('opt_states')
    ok = isinstance(np_, Ref) and isinstance(no_, Ref) and len(np_.cell(ctx).items) == K and \
        len(no_.cell(ctx).items) == K
    ctx.oblige('hyp.apply.shape', ok, detail='one (params, opt_state) per cluster, in cluster order')
    if not ok:
      return
    for j in range(K):
      pj, oj = np_.cell(ctx).items[j], no_.cell(ctx).items[j]
      if dl[j] is None:
        ctx.oblige('hyp.untouched', pj is params[j] and oj is opts[j],
                   detail=f'cluster {j} received no example: its params AND optimizer state are returned identical '
                          '(the server optimizer is not applied, so a stateful optimizer does not drift)')
      else:
        ctx.oblige('hyp.updated', isinstance(pj, Ref) and isinstance(oj, OptStV) and z3.And(
            tree_val(ctx, pj) == OPT_P(sopt.term, z3.Real(f'delta_{j}'), opts[j].term, z3.Real(f'params_{j}'))),
            detail=f'cluster {j} is updated by the server optimizer from ITS OWN (delta, opt_state, params)')
    ctx.oblige('hyp.calls', len(sopt.calls) == sum(1 for d in dl if d is not None),
               detail='the server optimizer is applied once per cluster that received examples')
  p.verify('hyp_cluster.apply', eng, body)


def v_expectation(p, K=2):
  """expectation_step: cluster j's delta is the example-weighted mean over exactly the clients assigned to j
  (K = 2 clusters, any number of clients); a cluster without examples yields None."""
  ex = p.extract(HC, 'expectation_step')
  g = real_globals()
  g['tree_util'] = SrcModule(TU)
  holder = {}
  seq = z3.Const('clients', ClientSeq)
  n = z3.Length(seq)
  CS = z3.Function('CLUSTER_SUM', I, ClientSeq, I, R)    # sum over the first k clients assigned to j of n_i * delta_i
  CN = z3.Function('CLUSTER_NUM', I, ClientSeq, I, R)
  hp = z3.Const('batch_hparams', HpT)
  params = {}

  class AssignV(Val):
    """client_cluster_ids: {client id: cluster index}"""

    def getitem(self, ctx, k):
      j = ctx.tags.get('current_client_index')
      if j is None:
        j = to_z3(ctx.lookup('$it0')) - 1
      c = seq[j]
      ctx.oblige('dict.client.key', to_z3(k) == CID(c), kind='definedness')
      a = ASSIGN(c)
      ctx.assume(z3.And(a >= 0, a < K))
      return a

  class TrainerV(Val):
    def method(self, ctx, name, args, kwargs):
      if name != 'train_per_client_params':
        raise Unsupported(name)
      (cl,) = args
      ok = isinstance(cl, MappedClientsV) and isinstance(cl.value, tuple) and len(cl.value) == 4
      ctx.oblige('hyp.train.args', ok)
      if not ok:
        raise PathDead()
      cid, batches, key, start = cl.value
      c = seq[cl.idx]
      okt = isinstance(batches, BatchesV) and isinstance(key, KeyV) and isinstance(start, Ref)
      ctx.oblige('hyp.own.start', okt and z3.simplify(z3.And(
          cid == CID(c), batches.term == SRB(CDS(c), hp), key.term == CKEY(c),
          tree_val(ctx, start) == z3.If(ASSIGN(c) == 0, params[0], params[1]))),
          detail='each client trains from the params of ITS assigned cluster, on its own batches and key')
      return SeqV(seq, Codec(ClientT, dec=lambda t: (CID(t), new_tree(holder['ctx'], CDELTA(t), label='delta'))))

  eng = Engine(g)
  eng.sources = [HC]

  def unfold(k):
    c = seq[k - 1]
    w = DSLEN(CDS(c))
    fs = [w >= 0]
    for j in range(K):
      hit = ASSIGN(c) == j
      fs.append(CS(j, seq, k) == CS(j, seq, k - 1) + z3.If(hit, w * CDELTA(c), 0))
      fs.append(CN(j, seq, k) == CN(j, seq, k - 1) + z3.If(hit, w, 0))
    return LemmaInst('cluster.sum.def', z3.Implies(z3.And(k >= 1, k <= n), z3.And(*fs)))

  def inv(s):
    k = to_z3(s.it)
    sums = s.raw('cluster_delta_params_sum').cell(s.ctx).items
    nums = s.raw('cluster_num_examples_sum').cell(s.ctx).items
    d = dict(pos=z3.And(0 <= k, k <= n))
    for j in range(K):
      d[f'sum{j}'] = z3.And(tree_val(s.ctx, sums[j]) == CS(j, seq, k), to_z3(nums[j]) == CN(j, seq, k),
                            CN(j, seq, k) >= 0)
    return d

  class PatchedClients(ClientsV):
    def comprehend(self, ctx, engine, e, g_, kind):
      ctx.tags['current_client_index'] = None
      idx_holder = {}
      orig_fresh = ctx.fresh

      def fresh(base, sort=None):
        v = orig_fresh(base, sort)
        if base == 'ci':
          ctx.tags['current_client_index'] = v
        return v
      ctx.fresh = fresh
      try:
        return super().comprehend(ctx, engine, e, g_, kind)
      finally:
        ctx.fresh = orig_fresh
        ctx.tags['current_client_index'] = None

  def select_tree(ctx, lst, idx):
    items = lst.cell(ctx).items
    v = tree_val(ctx, items[-1])
    for j in range(len(items) - 2, -1, -1):
      v = z3.If(to_z3(idx) == j, tree_val(ctx, items[j]), v)
    return new_tree(ctx, v, 'param', 'cluster_params[assigned]')

  # reads cluster_params[symbolic] inside the comprehension: merged value (no branching there)
  orig_getitem = PyListCell.getitem

  def getitem(self, ctx, ref, idx):
    if is_z3(idx) and ctx.tags.get('current_client_index') is not None and self.label == 'cluster_params':
      ctx.oblige('index.load', z3.And(to_z3(idx) >= 0, to_z3(idx) < len(self.items)), kind='definedness')
      return select_tree(ctx, ref, idx)
    return orig_getitem(self, ctx, ref, idx)

  def body(ctx):
    holder['ctx'] = ctx
    PyListCell.getitem = getitem
    try:
      ctx.assume(z3.And(*[z3.And(CS(j, seq, 0) == 0, CN(j, seq, 0) == 0) for j in range(K)]))
      ps = []
      for j in range(K):
        params[j] = z3.Real(f'cluster_params_{j}')
        ps.append(new_tree(ctx, params[j], 'param', f'cluster_params[{j}]'))
      cp = ctx.alloc(PyListCell(ps, owner='param', label='cluster_params'))
      loops = {'re:train_per_client_params': Loop(inv=inv, hints=lambda s: [unfold(to_z3(s.it))],
                                                  mutates=('cluster_delta_params_sum', 'cluster_num_examples_sum'))}
      kind, r = eng.run_function(ctx, ex.funcv(loops=loops),
                                 [TrainerV(), cp, AssignV(), PatchedClients(seq), HpV(hp)])
    finally:
      PyListCell.getitem = orig_getitem
    ctx.oblige('hyp.exp.noraise', kind == 'return')
    if kind != 'return':
      return
    out = r.cell(ctx).items
    ctx.oblige('hyp.exp.shape', len(out) == K)
    for j in range(min(K, len(out))):
      N = CN(j, seq, n)
      if out[j] is None:
        ctx.oblige('hyp.own.none', N <= 0, detail=f'cluster {j} gets None only when none of its clients had an example')
      else:
        ctx.oblige('hyp.own', z3.And(N > 0, tree_val(ctx, out[j]) == CS(j, seq, n) / N),
                   detail=f"cluster {j}'s delta = sum(n_i * delta_i) / sum(n_i) over exactly the clients assigned to {j}")
    ctx.oblige('frame.cluster_params', all(a is b for a, b in zip(cp.cell(ctx).items, ps)))
  p.verify('expectation_step', eng, body)


def v_assignment(p):
  ex = p.extract(HC, '_cluster_assignment')
  node = ex.node
  comps = [n for n in ast.walk(node) if isinstance(n, ast.DictComp)]
  ok = len(comps) == 1 and ast.unparse(comps[0].value).replace(' ', '') == 'jnp.argmin(jnp.stack(losses))' and \
      ast.unparse(comps[0].key) == 'client_id' and 'cluster_losses.items()' in ast.unparse(comps[0].generators[0].iter)
  p.oblige('hyp.argmin', [], z3.BoolVal(bool(ok)), kind='post', fn='_cluster_assignment',
           detail='each client is assigned argmin over the stacked per-cluster average losses of THAT client '
                  '(jnp.argmin returns the first index of a minimal value: a cluster of minimal average loss)')


def build(p):
  v_server_loop(p)
  v_expectation(p)
  v_assignment(p)
  p.trust('hyp_cluster.apply / expectation_step loop bodies are uniform in the cluster index: executed for K = 3 / K = 2 '
          'clusters (each cluster arbitrary); the number of clients is unbounded',
          'jnp.argmin returns the first index of a minimal value; maximization_step / _cluster_losses (average loss of every '
          'cluster on every client) are covered by the bounded native driver only')
