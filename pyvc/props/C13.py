"""C13 — client sampling is a pure function of (seed, round number).

Functions under contract: get_pseudo_random_state,
UniformGetClientSampler.{__init__, sample, set_round_num},
UniformShuffledClientSampler.{__init__, sample}.
"""
from __future__ import annotations

import z3

from ..script import *  # noqa
from ..lib_fd import *  # noqa

F = 'fedjax/core/client_samplers.py'
IS = z3.SeqSort(I)
Rs = z3.DeclareSort('RsState')
Key = z3.DeclareSort('PRNGKey')
KeyArr = z3.DeclareSort('KeyArr')
DsT = z3.DeclareSort('DsT13')
M = 2 ** 31 - 1

RS = z3.Function('RS', I, Rs)                       # np.random.RandomState(seed)
RANDINT = z3.Function('RANDINT', Rs, I, I, I)        # first randint(lo, hi) of a fresh state
POWMOD = z3.Function('POWMOD', I, I, I, I)           # pow(a, b, m)
CHOICE = z3.Function('CHOICE', Rs, IS, I, IS)        # choice(arr, size, replace=False)
PRNGKEY = z3.Function('PRNGKEY', I, Key)
SPLIT = z3.Function('SPLIT', Key, I, KeyArr)
KEYAT = z3.Function('KEYAT', KeyArr, I, Key)
DSOF = z3.Function('DSOF13', Fd, I, DsT)
GLOBAL_RNG = z3.Const('GLOBAL_NUMPY_RNG', Rs)


def seedexpr(seed, rnd):
  return (POWMOD(16807, rnd, M) * RANDINT(RS(seed), 1, M - 1)) % M


class RsV(Val):
  def __init__(self, state, nondet=False):
    self.state, self.nondet = state, nondet

  def method(self, ctx, name, args, kwargs):
    if name == 'randint':
      lo = args[0]
      hi = args[1] if len(args) > 1 else None
      if hi is None:
        lo, hi = 0, lo
      r = RANDINT(self.state, to_z3(lo), to_z3(hi))
      ctx.assume(z3.And(r >= to_z3(lo), r < to_z3(hi)))
      return r
    if name == 'choice':
      arr = args[0]
      size = kwargs.get('size', args[1] if len(args) > 1 else None)
      replace = kwargs.get('replace', args[2] if len(args) > 2 else True)
      ctx.oblige('get.object', isinstance(arr, ObjArrV) and arr.dtype == 'object',
                 detail='candidate ids are passed as a dtype=object array (no trailing-zero-byte stripping)')
      ctx.oblige('get.distinct', replace is False,
                 detail='choice(..., replace=False): a client is never repeated within a round')
      if not isinstance(arr, ObjArrV):
        raise PathDead()
      n = to_z3(size)
      ctx.oblige('choice.size', z3.And(n >= 0, n <= z3.Length(arr.seq)), kind='definedness',
                 detail='ValueError: cannot take a larger sample than population when replace=False')
      out = CHOICE(self.state, arr.seq, n)
      ctx.assume(z3.Length(out) == n)
      ctx.tags['choice_state'] = self.state
      ctx.tags['choice_arr'] = arr.seq
      return SeqV(out, INT)
    if name == 'shuffle':
      (lst,) = args
      if isinstance(lst, Ref):
        lst.cell(ctx).check_write(ctx, lst, 'shuffle')
        ctx.set_cell(lst.addr, lst.cell(ctx).havoc(ctx, 'shuffled'))
        return None
    raise Unsupported(f'RandomState.{name}')


class ObjArrV(Val):
  def __init__(self, seq, dtype):
    self.seq, self.dtype = seq, dtype


def c_np_array(ctx, v, dtype=None):
  seq = ctx.engine.term_of(ctx, v)
  if not isinstance(seq, z3.SeqRef):
    raise Unsupported('np.array argument')
  return ObjArrV(seq, dtype)


def c_random_state(ctx, seed=None):
  if seed is None:
    return RsV(ctx.fresh('os_entropy', Rs), nondet=True)
  return RsV(RS(to_z3(seed)))


def c_pow(ctx, a, b, m=None):
  if m is None:
    raise Unsupported('pow without modulus')
  r = POWMOD(to_z3(a), to_z3(b), to_z3(m))
  return r


class KeyArrV(Val):
  def __init__(self, term):
    self.term = term

  def getitem(self, ctx, idx):
    return KeyV(KEYAT(self.term, to_z3(idx)))


class KeyV(Val):
  def __init__(self, term):
    self.term = term


KEY_CODEC = Codec(Key, enc=lambda v: v.term, dec=lambda t: KeyV(t))


def c_prngkey(ctx, seed):
  return KeyV(PRNGKEY(to_z3(seed)))


def c_split(ctx, key, num=2):
  return KeyArrV(SPLIT(key.term, to_z3(num)))


def nondet_choice(ctx, *a, **k):
  ctx.oblige('determ.noglobal', False,
             detail='the global numpy RNG (np.random.*) is hidden state outside (seed, round)')
  raise PathDead()


def globals_():
  return {
      'np': Module('np', {
          'array': Handler(c_np_array, 'np.array'),
          'random': Module('np.random', {
              'RandomState': Handler(c_random_state, 'RandomState'),
              'choice': Handler(nondet_choice), 'shuffle': Handler(nondet_choice),
              'randint': Handler(nondet_choice), 'permutation': Handler(nondet_choice),
              'default_rng': Handler(nondet_choice)}),
      }),
      'jax': Module('jax', {'random': Module('jax.random', {
          'PRNGKey': Handler(c_prngkey, 'PRNGKey'), 'split': Handler(c_split, 'split')})}),
      'pow': Handler(c_pow, 'pow'),
      'object': 'object',
  }


class DsV13(Val):
  def __init__(self, term):
    self.term = term


class Fd13(Val):
  def __init__(self, term):
    self.term = term

  def method(self, ctx, name, args, kwargs):
    if name == 'get_clients':
      (ids,) = args
      seq = ctx.engine.term_of(ctx, ids)
      if not isinstance(seq, z3.SeqRef):
        raise Unsupported('get_clients argument')
      fd = self.term
      ctx.tags['get_clients_arg'] = seq
      return SeqV(seq, Codec(I, dec=lambda t: (t, DsV13(DSOF(fd, t)))))
    if name == 'client_ids':
      return SeqV(z3.Function('IDS_OF', Fd, IS)(self.term), INT)
    raise Unsupported(f'FederatedData.{name}')


class TripleListCell(Cell):
  """list of (client id, dataset, key) tuples as three parallel sequences."""

  def __init__(self, ids=None, dss=None, keys=None):
    self.ids = ids if ids is not None else z3.Empty(IS)
    self.dss = dss if dss is not None else z3.Empty(z3.SeqSort(DsT))
    self.keys = keys if keys is not None else z3.Empty(z3.SeqSort(Key))
    self.owner, self.label = 'local', 'clients'

  def method(self, ctx, ref, name, args, kwargs):
    if name == 'append':
      (t,) = args
      ok = isinstance(t, tuple) and len(t) == 3 and isinstance(t[1], DsV13) and isinstance(t[2], KeyV)
      ctx.oblige('triple.shape', ok, detail='sample() returns (client id, dataset, key) triples')
      if not ok:
        raise PathDead()
      c = self.clone()
      c.ids = z3.Concat(self.ids, z3.Unit(to_z3(t[0])))
      c.dss = z3.Concat(self.dss, z3.Unit(t[1].term))
      c.keys = z3.Concat(self.keys, z3.Unit(t[2].term))
      ctx.set_cell(ref.addr, c)
      return None
    raise Unsupported(f'list.{name}')

  def havoc(self, ctx, base):
    return TripleListCell(ctx.fresh('c_ids', IS), ctx.fresh('c_dss', z3.SeqSort(DsT)),
                          ctx.fresh('c_keys', z3.SeqSort(Key)))


def v_prs(p):
  ex = p.extract(F, 'get_pseudo_random_state')
  eng = Engine(globals_())
  seed, rnd = z3.Ints('seed round_num')

  def body(ctx):
    ctx.model_vars.update(seed=seed, round_num=rnd)
    ctx.assume(rnd >= 0)
    kind, r = eng.run_function(ctx, ex.funcv(), [seed, rnd])
    ctx.oblige('prs.noraise', kind == 'return')
    ok = isinstance(r, RsV) and not r.nondet
    ctx.oblige('prs.type', ok, detail='returns a seeded RandomState')
    if not ok:
      return
    ctx.oblige('get.seedexpr', r.state == RS(seedexpr(seed, rnd)),
               detail='generator state is the Lehmer step of (seed, round): a function of nothing else')
  p.verify('get_pseudo_random_state', eng, body)

  # range of the derived seed: in [1, M-1], so RandomState never gets 0 or >= 2^32
  # (uses: M prime => pow(a, r, M) in [1, M-1] and a product of two units mod M is a unit)
  p.trust('arithmetic lemma (not proved here): M = 2^31-1 is prime, hence pow(16807, r, M) in [1, M-1] '
          'and (p * s) % M != 0 for 1 <= p, s < M — the derived RandomState seed lies in [1, M-1]')


def v_get_sampler(p):
  cls = p.extract_class(F, 'UniformGetClientSampler',
                        contracted=('__init__', 'sample', 'set_round_num'))
  ex_prs = p.extract(F, 'get_pseudo_random_state')
  g = globals_()

  def c_prs(ctx, seed, rnd):
    # contract proved in v_prs
    return RsV(RS(seedexpr(to_z3(seed), to_z3(rnd))))
  g['get_pseudo_random_state'] = Handler(c_prs, 'get_pseudo_random_state')
  eng = Engine(g)
  eng.on_empty_list = lambda ctx: ctx.alloc(TripleListCell())
  fd = z3.Const('fd', Fd)
  ids = z3.Const('client_ids', IS)
  seed, rnd, n, j0 = z3.Ints('seed round_num num_clients j0')
  state = RS(seedexpr(seed, rnd))
  chosen = CHOICE(state, ids, n)
  karr = SPLIT(PRNGKEY(rnd), n)

  def inv(s):
    c = s.raw('clients').cell(s.ctx)
    k = to_z3(s.it)
    return dict(
        pos=z3.And(0 <= k, k <= n, z3.Length(c.ids) == k, z3.Length(c.dss) == k,
                   z3.Length(c.keys) == k),
        elems=z3.Implies(z3.And(0 <= j0, j0 < k), z3.And(
            c.ids[j0] == chosen[j0], c.dss[j0] == DSOF(fd, chosen[j0]),
            c.keys[j0] == KEYAT(karr, j0))))

  cls.methods['sample'].loops = {0: Loop(inv=inv, expect='get_clients')}

  def mk(ctx):
    ctx.model_vars.update(seed=seed, round_num=rnd, num_clients=n)
    ctx.assume(z3.And(rnd >= 0, n >= 1, n <= z3.Length(ids)))
    idl = ctx.alloc(ListCell(ids, INT, owner='param', label='self._client_ids'))
    selfr = ctx.alloc(ObjCell(cls, dict(_federated_data=Fd13(fd), _num_clients=n, _seed=seed,
                                        _client_ids=idl, _round_num=rnd),
                              owner='param', label='self'))
    return selfr, idl

  def body_sample(ctx):
    selfr, idl = mk(ctx)
    ctx.modifies.add(selfr.addr)  # sample() advances the round counter of its own object
    kind, r = eng.run_function(ctx, cls.methods['sample'], [selfr])
    ctx.oblige('get.noraise', kind == 'return')
    if kind != 'return':
      return
    ok = isinstance(r, Ref) and isinstance(r.cell(ctx), TripleListCell)
    ctx.oblige('get.type', ok)
    if not ok:
      return
    c = r.cell(ctx)
    ctx.oblige('get.count', z3.Length(c.ids) == n, detail='exactly num_clients triples')
    ctx.oblige('get.determ', z3.Implies(z3.And(0 <= j0, j0 < n), z3.And(
        c.ids[j0] == chosen[j0], c.dss[j0] == DSOF(fd, chosen[j0]),
        c.keys[j0] == KEYAT(karr, j0))),
        detail='ids = choice(RandomState(lehmer(seed, round)), all ids, n); datasets = get_clients of exactly '
               'those ids; keys = split(PRNGKey(round), n)[i]: functions of (seed, round) only')
    ctx.oblige('get.ids', ctx.tags.get('get_clients_arg') is not None and
               ctx.tags['get_clients_arg'].eq(chosen),
               detail='get_clients is asked for exactly the chosen ids')
    f = selfr.cell(ctx).fields
    ctx.oblige('get.step', z3.And(to_z3(f['_round_num']) == rnd + 1),
               detail='the round counter advances by one')
    same = f['_seed'] is seed or to_z3(f['_seed']).eq(seed)
    ctx.oblige('get.frame', same and to_z3(f['_num_clients']).eq(n) and
               isinstance(f['_client_ids'], Ref) and f['_client_ids'].addr == idl.addr and
               idl.cell(ctx).seq.eq(ids) and len(f) == 5,
               detail='nothing but _round_num changes (no cached generator, id list untouched)')

  p.verify('UniformGetClientSampler.sample', eng, body_sample)

  def body_set(ctx):
    selfr, idl = mk(ctx)
    ctx.modifies.add(selfr.addr)
    r2 = z3.Int('new_round')
    kind, _ = eng.run_function(ctx, cls.methods['set_round_num'], [selfr, r2])
    f = selfr.cell(ctx).fields
    ctx.oblige('get.seat', kind == 'return' and to_z3(f['_round_num']).eq(r2) and len(f) == 5
               and to_z3(f['_seed']).eq(seed),
               detail='set_round_num(r) seats the sampler at round r and changes nothing else')
  p.verify('UniformGetClientSampler.set_round_num', eng, body_set)

  def body_init(ctx):
    ctx.assume(z3.Function('IDS_OF', Fd, IS)(fd) == ids)
    selfr = ctx.alloc(ObjCell(cls, {}, label='self'))
    ctx.init_stack.append(selfr.addr)
    kind, _ = eng.run_function(ctx, cls.methods['__init__'], [selfr, Fd13(fd), n, seed, rnd])
    ctx.oblige('get.init.noraise', kind == 'return')
    f = selfr.cell(ctx).fields
    ok = all(k in f for k in ('_federated_data', '_num_clients', '_seed', '_client_ids', '_round_num'))
    ctx.oblige('get.init.fields', ok)
    if not ok:
      return
    ctx.oblige('get.init', z3.And(to_z3(f['_seed']) == seed, to_z3(f['_num_clients']) == n,
                                  to_z3(f['_round_num']) == rnd,
                                  eng.term_of(ctx, f['_client_ids']) == ids),
               detail='stores seed, cohort size, start round and the full id list of the dataset')
  p.verify('UniformGetClientSampler.__init__', eng, body_init)


def v_shuffled_sampler(p):
  cls = p.extract_class(F, 'UniformShuffledClientSampler', contracted=('__init__', 'sample'))
  eng = Engine(globals_())
  eng.on_empty_list = lambda ctx: ctx.alloc(TripleListCell())
  PairS = z3.DeclareSort('ClientPair')
  pid = z3.Function('pair_id', PairS, I)
  pds = z3.Function('pair_ds', PairS, DsT)
  stream = z3.Const('stream', z3.SeqSort(PairS))
  PAIR = Codec(PairS, dec=lambda t: (pid(t), DsV13(pds(t))))
  n, r0, j0 = z3.Ints('num_clients start_round_num j0')

  def itcell(s, name='self'):
    selfr = s.raw(name)
    return selfr.cell(s.ctx).fields['_shuffled_clients_iter'].cell(s.ctx)

  # __init__: consumes exactly start_round * num_clients items
  def inv_outer(s):
    k = to_z3(s.it)
    return dict(pos=z3.And(0 <= k, k <= r0, to_z3(itcell(s).pos) == k * n))

  def inv_inner(s):
    k = to_z3(s.raw('$it0')) - 0
    m = to_z3(s.it)
    return dict(pos=z3.And(0 <= m, m <= n, to_z3(itcell(s).pos) == to_z3(s.raw('$it0')) * n + m,
                           to_z3(s.raw('$it0')) >= 0))

  cls.methods['__init__'].loops = {
      0: Loop(inv=inv_outer, expect='_round_num', mutates=()),
      1: Loop(inv=inv_inner, expect='_num_clients')}

  def body_init(ctx):
    ctx.model_vars.update(num_clients=n, start_round_num=r0)
    ctx.assume(z3.And(n >= 1, r0 >= 0))
    it = ctx.alloc(IterCell(stream, PAIR, 0, owner='param', label='stream'))
    ctx.modifies.add(it.addr)
    selfr = ctx.alloc(ObjCell(cls, {}, label='self'))
    ctx.init_stack.append(selfr.addr)
    kind, r = eng.run_function(ctx, cls.methods['__init__'], [selfr, it, n, r0])
    if kind == 'raise':
      ctx.oblige('stream.short', r.name == 'StopIteration',
                 detail='only a stream shorter than start_round*num_clients can raise')
      return
    f = selfr.cell(ctx).fields
    ok = all(k in f for k in ('_shuffled_clients_iter', '_num_clients', '_round_num'))
    ctx.oblige('stream.init.fields', ok)
    if not ok:
      return
    ctx.oblige('stream.skip', z3.And(to_z3(it.cell(ctx).pos) == r0 * n,
                                     to_z3(f['_round_num']) == r0, to_z3(f['_num_clients']) == n),
               detail='the constructor consumes exactly start_round_num * num_clients items')
  p.verify('UniformShuffledClientSampler.__init__', eng, body_init)

  rnd = z3.Int('round_num')
  karr = SPLIT(PRNGKEY(rnd), n)

  def inv_sample(s):
    c = s.raw('clients').cell(s.ctx)
    k = to_z3(s.it)
    p0 = rnd * n
    return dict(
        pos=z3.And(0 <= k, k <= n, z3.Length(c.ids) == k, z3.Length(c.dss) == k,
                   z3.Length(c.keys) == k, to_z3(itcell(s).pos) == p0 + k),
        elems=z3.Implies(z3.And(0 <= j0, j0 < k), z3.And(
            c.ids[j0] == pid(stream[p0 + j0]), c.dss[j0] == pds(stream[p0 + j0]),
            c.keys[j0] == KEYAT(karr, j0))))

  cls.methods['sample'].loops = {0: Loop(inv=inv_sample, expect='_num_clients')}

  def body_sample(ctx):
    ctx.model_vars.update(num_clients=n, round_num=rnd)
    ctx.assume(z3.And(n >= 1, rnd >= 0))
    it = ctx.alloc(IterCell(stream, PAIR, rnd * n, owner='param', label='stream'))
    ctx.modifies.add(it.addr)
    selfr = ctx.alloc(ObjCell(cls, dict(_shuffled_clients_iter=it, _num_clients=n,
                                        _round_num=rnd), owner='param', label='self'))
    ctx.modifies.add(selfr.addr)
    kind, r = eng.run_function(ctx, cls.methods['sample'], [selfr])
    if kind == 'raise':
      ctx.oblige('stream.short', r.name == 'StopIteration')
      return
    ok = isinstance(r, Ref) and isinstance(r.cell(ctx), TripleListCell)
    ctx.oblige('stream.type', ok)
    if not ok:
      return
    c = r.cell(ctx)
    p0 = rnd * n
    ctx.oblige('stream.equiv', z3.And(z3.Length(c.ids) == n, z3.Implies(
        z3.And(0 <= j0, j0 < n), z3.And(
            c.ids[j0] == pid(stream[p0 + j0]), c.dss[j0] == pds(stream[p0 + j0])))),
        detail='round r returns items r*n .. (r+1)*n-1 of the seeded stream, whatever the start round was')
    ctx.oblige('keys.round', z3.Implies(z3.And(0 <= j0, j0 < n), c.keys[j0] == KEYAT(karr, j0)),
               detail='keys = split(PRNGKey(round), n)[i]')
    f = selfr.cell(ctx).fields
    ctx.oblige('stream.step', z3.And(to_z3(f['_round_num']) == rnd + 1,
                                     to_z3(it.cell(ctx).pos) == (rnd + 1) * n, len(f) == 3),
               detail='class invariant position = round * num_clients is preserved')
  p.verify('UniformShuffledClientSampler.sample', eng, body_sample)


def v_stream_sources(p):
  """'the same seeded client stream': every shuffled_clients implementation draws only from RandomState(seed) built from its
  seed parameter as given (0 is a seed like any other) - no global numpy RNG, clock, OS entropy, hash() or id()."""
  import ast
  from .. import own
  from ..extract import parse
  found = 0
  for rel in ('fedjax/core/federated_data.py', 'fedjax/core/in_memory_federated_data.py', 'fedjax/core/sqlite_federated_data.py'):
    _, tree = parse(rel)
    for cls_ in [n for n in tree.body if isinstance(n, ast.ClassDef)]:
      for fn in [n for n in cls_.body if isinstance(n, ast.FunctionDef) and n.name == 'shuffled_clients']:
        if not fn.body or all(isinstance(b, (ast.Expr, ast.Pass, ast.Raise)) for b in fn.body):
          continue     # the abstract declaration
        found += 1
        _, nondet = own.analyze_function(fn, f'{cls_.name}.shuffled_clients')
        rs = [c for c in ast.walk(fn) if isinstance(c, ast.Call) and ast.unparse(c.func).endswith('random.RandomState')]
        seeded = len(rs) == 1 and len(rs[0].args) == 1 and not rs[0].keywords and ast.unparse(rs[0].args[0]) == 'seed' and \
            not any(isinstance(t, ast.Name) and t.id == 'seed' for a in ast.walk(fn) if isinstance(a, (ast.Assign, ast.AugAssign))
                    for t in (a.targets if isinstance(a, ast.Assign) else [a.target]))
        p.oblige(f'stream.sources:{cls_.name}', [], z3.BoolVal(not nondet and seeded), kind='frame',
                 fn=f'{cls_.name}.shuffled_clients',
                 detail=f'{rel}::{cls_.name}.shuffled_clients builds exactly one RandomState(seed) from its unmodified seed '
                        f'parameter and uses no other source of randomness ({nondet})')
  p.oblige('stream.sources.sites', [], z3.BoolVal(found >= 3), kind='post', fn='shuffled_clients',
           detail=f'{found} shuffled_clients implementations analysed (vacuity guard)')


def build(p):
  D = 'native/C13.py'
  p.native('get_pseudo_random_state', D, 'get')
  p.native('UniformGetClientSampler', D, 'get')
  p.native('UniformGetClientSampler.__init__', D, 'restart')
  p.native('UniformShuffledClientSampler', D, 'shuffled')
  for c_ in ('SubsetFederatedData', 'InMemoryFederatedData', 'SQLiteFederatedData'):
    p.native(c_ + '.shuffled_clients', D, 'shuffled')
  v_stream_sources(p)
  v_prs(p)
  v_get_sampler(p)
  v_shuffled_sampler(p)
  p.trust('T-NP: RandomState(seed), randint, choice are deterministic functions of the generator state '
          '(uninterpreted RS/RANDINT/CHOICE); choice(replace=False) returns distinct elements',
          'T-JAX: PRNGKey and split are deterministic (uninterpreted PRNGKEY/SPLIT/KEYAT)',
          'FederatedData.get_clients answers in request order (proved for the three implementations in C08)')
  p.not_covered.append('pairwise distinctness of the keys and their difference from round to round '
                       '(a property of the JAX PRNG; trusted axiom on split)')
