"""C01 — a federated-averaging round equals its mathematical definition.

Functions under contract (fedjax/algorithms/fed_avg.py):
create_train_for_each_client.<locals>.{client_init, client_step, client_final},
federated_averaging.<locals>.{init, apply, server_update}.
Uses the contracts of C02 (for_each_client), C04 (shuffle_repeat_batch), C07 (tree_*).
"""
from __future__ import annotations

import z3

from ..script import *  # noqa
from ..lib_real import *  # noqa
from ..lib_alg import *  # noqa

from ..lib_round import *  # noqa

FA = 'fedjax/algorithms/fed_avg.py'


def v_apply(p):
  verify_fedavg_round(p, FA, 'federated_averaging', 'federated_averaging')


def v_client(p):
  exs = {n: p.extract(FA, f'create_train_for_each_client.<locals>.{n}')
         for n in ('client_init', 'client_step', 'client_final')}
  Key = KeyT
  SPLIT0 = z3.Function('split0', Key, Key)
  SPLIT1 = z3.Function('split1', Key, Key)
  BatchT = z3.DeclareSort('BatchT1')
  G = z3.Function('grad_at_c', TreeId, BatchT, Key, R)
  copt = OptimizerV(z3.Const('client_optimizer', OptimizerT))
  g = real_globals()
  g['jax'].attrs['random'] = Module('jax.random', {'split': Handler(
      lambda ctx, k, num=2: (KeyV(SPLIT0(k.term)), KeyV(SPLIT1(k.term))), 'split')})
  g['client_optimizer'] = copt

  class BatchV1(Val):
    def __init__(self, term):
      self.term = term

  def grad_fn(ctx, prm, batch, key):
    return new_tree(ctx, G(tree_tid(ctx, prm), batch.term, key.term), label='grads')
  g['grad_fn'] = Handler(grad_fn, 'grad_fn')
  eng = Engine(g)
  w, pv = z3.Reals('server_params_at_c client_params_at_c')
  wt, ptid = z3.Const('server_params', TreeId), z3.Const('client_params', TreeId)
  k0 = z3.Const('rng', Key)
  os_ = z3.Const('opt_state', OptStateT)
  b = z3.Const('batch', BatchT)

  def body(ctx):
    del copt.calls[:]
    sp = new_tree(ctx, w, 'param', 'server params', tid=wt)
    kind, st = eng.run_function(ctx, exs['client_init'].funcv(), [sp, KeyV(k0)])
    get = lambda d, k: ctx.engine.getitem(ctx, d, k)
    ctx.oblige('client.init', kind == 'return' and get(st, 'params') is sp and get(st, 'rng').term.eq(k0)
               and get(st, 'opt_state').term.eq(OPT_INIT(copt.term, wt)),
               detail='every client starts from the server parameters, a fresh optimizer state and its own key')
    cp = new_tree(ctx, pv, 'param', 'client params', tid=ptid)
    state = ctx.alloc(DictCell([('params', cp), ('opt_state', OptStV(os_)), ('rng', KeyV(k0))],
                               owner='param', label='client_step_state'))
    kind, nxt = eng.run_function(ctx, exs['client_step'].funcv(), [state, BatchV1(b)])
    ctx.oblige('client.step.noraise', kind == 'return')
    if kind == 'return':
      gval = G(ptid, b, SPLIT1(k0))
      ctx.oblige('client.fold', z3.And(
          tree_val(ctx, get(nxt, 'params')) == OPT_P(copt.term, gval, os_, pv),
          get(nxt, 'rng').term == SPLIT0(k0)) if len(copt.calls) == 1 and copt.calls[0][2] is cp else False,
          detail='one step = optimizer(grad(params, batch, split(rng)[1]), opt_state, params); rng <- split(rng)[0]')
      ctx.oblige('client.fold.state', isinstance(get(nxt, 'opt_state'), OptStV) and
                 get(nxt, 'opt_state').term.eq(OPT_S(copt.term, tree_tid(ctx, copt.calls[0][0]), os_, ptid))
                 if copt.calls else False, detail='the optimizer state is threaded through the steps')
    kind, d = eng.run_function(ctx, exs['client_final'].funcv(), [sp, state])
    ctx.oblige('client.delta', kind == 'return' and tree_val(ctx, d) == w - pv,
               detail='delta = server params - locally trained params (sign)')
  p.verify('fed_avg.create_train_for_each_client', eng, body)


def build(p):
  D = 'native/C01.py'
  p.native('federated_averaging', D, 'round')
  p.native('fed_avg.create_train_for_each_client', D, 'round')
  v_client(p)
  v_apply(p)
  p.trust('for_each_client contract (C02): one (id, output) per input client in input order, output = '
          'final(shared, fold(step, init(shared, key), batches)), independent of the backend',
          'optimizers and grad_fn are pure functions (uninterpreted OPT_P/OPT_S/G); client ids pairwise distinct (C13 get.distinct)',
          'independence of the client order = commutativity/associativity of + over R (not a separate obligation)',
          'tree_util contracts are the real bodies verified in C07 (inlined here from the source)')
  p.not_covered.append('size of the floating-point rounding error; that plain SGD leaves params unchanged on a zero mean '
                       '(sgd contract p - lr*0 = p is a one-line consequence of apply.post)')
