"""C01 — a federated-averaging round equals its mathematical definition.

Functions under contract (fedjax/algorithms/fed_avg.py):
create_train_for_each_client.<locals>.{client_init, client_step, client_final},
federated_averaging.<locals>.{init, apply, server_update}.
Uses the contracts of C02 (for_each_client), C04 (shuffle_repeat_batch), C07 (tree_*).
"""
from __future__ import annotations

import z3

from ..script import *  # noqa
from ..lib_real import *  # noqa
from ..lib_alg import *  # noqa

from ..lib_round import *  # noqa

FA = 'fedjax/algorithms/fed_avg.py'


def v_apply(p):
  verify_fedavg_round(p, FA, 'federated_averaging', 'federated_averaging')


def v_client(p):
  verify_fedavg_client(p, FA, 'fed_avg')


def build(p):
  D = 'native/C01.py'
  p.native('federated_averaging', D, 'round')
  p.native('fed_avg.create_train_for_each_client', D, 'round')
  v_client(p)
  v_apply(p)
  # a round depends on THIS round's (state, clients) only: no closure / module state survives between apply calls (weights
  # looked up in a table that outlives the round would be the sizes of an earlier round)
  from . import C10
  C10.v_frames(p, files=['fedjax/algorithms/fed_avg.py'], min_sites=1)
  p.trust('for_each_client contract (C02): one (id, output) per input client in input order, output = '
          'final(shared, fold(step, init(shared, key), batches)), independent of the backend',
          'optimizers and grad_fn are pure functions (uninterpreted OPT_P/OPT_S/G); client ids pairwise distinct (C13 get.distinct)',
          'independence of the client order = commutativity/associativity of + over R (not a separate obligation)',
          'tree_util contracts are the real bodies verified in C07 (inlined here from the source)')
  p.not_covered.append('size of the floating-point rounding error; that plain SGD leaves params unchanged on a zero mean '
                       '(sgd contract p - lr*0 = p is a one-line consequence of apply.post)')
  p.not_covered.append('order-independence of the aggregation when the backend returns the clients in another order (pmap): native cross-check only')
