"""C03 helpers at dict level: slice_examples, num_examples, attach_mask,
pad_examples are proved, at an arbitrary feature, to implement the TABLE
contracts the callers use (lib_data.c_*)."""
from __future__ import annotations

import z3

from ..script import *  # noqa
from ..lib_cols import *  # noqa
from ..lib_data import MaskV, MASK_KEY

F = 'fedjax/core/client_datasets.py'


PROMOTE = z3.Function('np_result_type', DType, DType, DType)     # numpy type promotion; only PROMOTE(d, d) = d is known


def c_concatenate(ctx, parts, axis=0):
  items = ctx.engine.concrete_items(ctx, parts)
  cols = [(x.cell(ctx).col if isinstance(x, Ref) and isinstance(x.cell(ctx), ArrCell) else x) for x in items]
  if not cols or not all(isinstance(c, ColD) for c in cols) or to_z3(axis) is None:
    raise Unsupported('np.concatenate arguments')
  rows, trail, dt = cols[0].rows, cols[0].trail, cols[0].dtype
  for c in cols[1:]:
    ctx.oblige('concat.shape', c.trail == trail, kind='definedness', detail='ValueError: trailing dimensions must match')
    rows = z3.Concat(rows, c.rows)
    d2 = PROMOTE(dt, c.dtype)
    ctx.assume(z3.Implies(dt == c.dtype, d2 == dt))
    dt = d2
  return ColD(rows, trail, dt, True)


def helper_globals():
  dts = {n_: z3.Const('np_' + n_, DType) for n_ in ('int8', 'uint8', 'int16', 'int32', 'int64', 'float32', 'float64', 'bool_')}
  return {
      'EXAMPLE_MASK_KEY': MASK_KEY,
      'np': Module('np', dict(dts, zeros=Handler(c_np_zeros, 'np.zeros'), arange=Handler(c_np_arange, 'np.arange'),
                              concatenate=Handler(c_concatenate, 'np.concatenate'))),
      'num_examples': Handler(c_num_examples_d, 'num_examples'),
      'assert_consistent_rows': Handler(lambda ctx, ex: None, 'assert_consistent_rows'),
  }


def c_num_examples_d(ctx, examples, validate=True):
  if isinstance(examples, ExamplesD):
    ctx.assume(ex_n(examples.xid) >= 0)
    return ex_n(examples.xid)
  raise Unsupported('num_examples argument')


def build(p):
  p.native('slice_examples', 'native/C03.py', 'helpers')
  p.native('pad_examples', 'native/C03.py', 'helpers')
  p.native('attach_mask', 'native/C03.py', 'helpers')
  p.native('num_examples', 'native/C03.py', 'helpers')
  xid = z3.Const('examples', ExD)
  n = ex_n(xid)
  kf = z3.Const('k', Feat)  # arbitrary feature

  # ---- slice_examples
  ex = p.extract(F, 'slice_examples')
  eng = Engine(helper_globals())
  lo, hi = z3.Ints('lo hi')
  lo_none, hi_none = z3.Bools('lo_none hi_none')

  def body_slice(ctx):
    ctx.model_vars.update(N=n, lo=lo, hi=hi, lo_none=lo_none, hi_none=hi_none)
    ctx.assume(n >= 0)
    a = None if ctx.branch(lo_none) else lo
    b = None if ctx.branch(hi_none) else hi
    exs = ExamplesD(xid, ctx.fresh('has_mask', 'bool'))
    kind, r = eng.run_function(ctx, ex.funcv(), [exs, SliceV(a, b, None)])
    ctx.oblige('noraise', kind == 'return')
    ok = isinstance(r, DerivedD) and r.base is exs and not r.extra
    ctx.oblige('slice.keys', ok, detail='result has exactly the input features')
    if not ok:
      return
    got = r.col(ctx, kf)
    src = exs.col(ctx, kf)
    want, _, _ = seq_slice(src.rows, a, b)
    ctx.oblige('slice.rows', got.rows == want,
               detail='every column is v[index] with CPython slice clamping')
    ctx.oblige('slice.meta', z3.And(got.trail == src.trail, got.dtype == src.dtype),
               detail='dtype and trailing shape unchanged')

  p.verify('slice_examples', eng, body_slice)

  # ---- num_examples
  ex = p.extract(F, 'num_examples')
  eng2 = Engine(helper_globals())

  def body_num(ctx):
    ctx.assume(n >= 0)
    exs = ExamplesD(xid, ctx.fresh('has_mask', 'bool'))
    for validate in (True, False):
      kind, r = eng2.run_function(ctx, ex.funcv(), [exs, validate])
      ctx.oblige('noraise', kind == 'return')
      ctx.oblige('num.post', to_z3(r) == n, detail='number of rows of the (consistent) columns')

  p.verify('num_examples', eng2, body_num)

  # ---- attach_mask
  ex = p.extract(F, 'attach_mask')
  eng3 = Engine(helper_globals())
  hm = z3.Bool('has_mask')

  def body_attach(ctx):
    ctx.model_vars.update(has_mask=hm)
    exs = ExamplesD(xid, hm)
    mask = MaskV(z3.Int('mask_n'), z3.Int('mask_c'))
    kind, r = eng3.run_function(ctx, ex.funcv(), [exs, mask])
    if kind == 'raise':
      ctx.oblige('attach.raise', z3.And(hm, r.name == 'ValueError'),
                 detail='ValueError exactly when the mask key is already present')
      return
    ctx.oblige('attach.noraise', z3.Not(hm))
    ok = isinstance(r, DerivedD) and r.base is exs and set(r.extra) == {MASK_KEY} \
        and r.extra[MASK_KEY] is mask
    ctx.oblige('attach.keys', ok, detail='input features plus the mask feature, mask stored as given')
    if not ok:
      return
    got, src = r.col(ctx, kf), exs.col(ctx, kf)
    ctx.oblige('attach.cols', z3.And(got.rows == src.rows, got.trail == src.trail,
                                     got.dtype == src.dtype), detail='columns unchanged')

  p.verify('attach_mask', eng3, body_attach)

  # ---- pad_examples
  ex = p.extract(F, 'pad_examples')
  eng4 = Engine(helper_globals())
  size = z3.Int('size')

  def body_pad(ctx):
    ctx.model_vars.update(has_mask=hm, N=n, size=size)
    ctx.assume(n >= 0)
    exs = ExamplesD(xid, hm)
    kind, r = eng4.run_function(ctx, ex.funcv(), [exs, size])
    if kind == 'raise':
      ctx.oblige('pad.raise', z3.And(z3.Or(hm, n > size), r.name == 'ValueError'),
                 detail='ValueError exactly when a mask is present or size is too small')
      return
    ctx.oblige('pad.noraise', z3.And(z3.Not(hm), n <= size))
    ok = isinstance(r, Ref) and isinstance(r.cell(ctx), DictCell)
    ctx.oblige('pad.type', ok)
    if not ok:
      return
    cell = r.cell(ctx)
    items = dict(cell.items)
    okm = set(items) == {MASK_KEY} and isinstance(items[MASK_KEY], MaskV)
    ctx.oblige('pad.keys', okm, detail='result = input features + mask')
    if not okm:
      return
    m = items[MASK_KEY]
    ctx.oblige('padded.mask.prefix', z3.And(to_z3(m.n) == size, to_z3(m.c) == n),
               detail='mask[i] = (i < current_size) over `size` rows')
    # the loop body ran at an arbitrary feature `key`; all facts on this path
    # are about that feature, so the postcondition is stated at it
    d = dict_as_derived(ctx, cell)
    key = cell.layers[0][1]
    got, src = d.col(ctx, key), exs.col(ctx, key)
    zeros = ZeroRows(size, src.trail, src.dtype)
    ctx.oblige('padded.zero', got.rows == z3.Concat(src.rows, z3.SubSeq(zeros, n, size - n)),
               detail='rows [0,c) are the input rows, rows [c,size) are rows of np.zeros')
    ctx.oblige('padded.meta', z3.And(got.trail == src.trail, got.dtype == src.dtype,
                                     z3.Length(got.rows) == size),
               detail='dtype and trailing shape unchanged, exactly `size` rows')

  p.verify('pad_examples', eng4, body_pad)
  p.trust('T-NP: np.zeros(shape, dtype) is a fresh all-zero array; np.arange(n) < c is the '
          'prefix mask; ndarray slice assignment requires equal shapes; v.shape[1:], v.dtype')
