"""C08, part 2: InMemoryFederatedData and SubsetFederatedData."""
from __future__ import annotations

import z3

from ..script import *  # noqa
from ..lib_fd import *  # noqa
from .C08 import (CD_MODULE, DsV, NUMEX, opt, optvars, FD, IM)

DATA = z3.Function('DATA', I, ExT)
DsT = z3.DeclareSort('DsT')
HASSET = z3.Function('HASSET', Fd, IdSet)
DSOF = z3.Function('DSOF', Fd, I, DsT)
SIZEOF = z3.Function('SIZEOF', Fd, I, I)
FSLICE = z3.Function('FSLICE', Fd, B, I, B, I, Fd)
FPC = z3.Function('FPC', Fd, Fn, Fd)
FPB = z3.Function('FPB', Fd, Fn, Fd)
F0 = z3.Const('F0', z3.DeclareSort('FeatList'))


def optparts(v):
  if v is None:
    return z3.BoolVal(True), z3.IntVal(0)
  if isinstance(v, OptV):
    return v.is_none, to_z3(v.val)
  return z3.BoolVal(False), to_z3(v)


class DsOpaque(Val):
  def __init__(self, term):
    self.term = term


class FdV(Val):
  """An arbitrary FederatedData seen through the interface contract."""

  def __init__(self, term):
    self.term = term

  def has(self, x):
    return z3.Select(HASSET(self.term), to_z3(x))

  def method(self, ctx, name, args, kwargs):
    if name in ('get_client', 'client_size'):
      (cid,) = args
      if ctx.branch(z3.Not(self.has(cid))):
        raise RaiseSig(ExcV('KeyError'))
      if name == 'get_client':
        return DsOpaque(DSOF(self.term, to_z3(cid)))
      return SIZEOF(self.term, to_z3(cid))
    if name == 'slice':
      a = args[0] if len(args) > 0 else kwargs.get('start')
      b = args[1] if len(args) > 1 else kwargs.get('stop')
      an, av = optparts(a)
      bn, bv = optparts(b)
      new = FSLICE(self.term, an, av, bn, bv)
      y = z3.Int('y!fs')
      ctx.assume(z3.ForAll([y], z3.Select(HASSET(new), y) ==
                           z3.And(z3.Select(HASSET(self.term), y), inr(a, b, y))))
      return FdV(new)
    if name in ('preprocess_client', 'preprocess_batch'):
      (fn,) = args
      new = (FPC if name == 'preprocess_client' else FPB)(self.term, fn.term)
      ctx.assume(HASSET(new) == HASSET(self.term))
      return FdV(new)
    if name == 'client_ids':
      return IdSetV(HASSET(self.term))
    if name == 'get_clients':
      (ids,) = args
      if not isinstance(ids, SeqV):
        raise Unsupported('get_clients argument')
      fd = self.term
      # contract: pairs in request order (KeyError from the base for ids outside
      # its own view is propagated unchanged and not modelled as a branch here)
      return SeqV(ids.seq, Codec(I, dec=lambda t: (t, DsOpaque(DSOF(fd, t)))))
    raise Unsupported(f'FederatedData.{name}')


def v_subset(p):
  names = ('__init__', 'slice', 'client_size', 'get_client', 'get_clients',
           'preprocess_client', 'preprocess_batch', 'num_clients', 'client_ids')
  exs = {n: p.extract(FD, f'SubsetFederatedData.{n}') for n in names}
  eng = Engine({'client_datasets': CD_MODULE})
  cls = p.extract_class(FD, 'SubsetFederatedData', contracted=names)
  methods = cls.methods
  eng.globals['SubsetFederatedData'] = cls
  base = z3.Const('base', Fd)
  S = z3.Const('subset_ids', IdSet)
  x = z3.Int('client_id')

  def mk(ctx):
    ctx.model_vars['client_id'] = x
    return ctx.alloc(ObjCell(cls, dict(_base=FdV(base), _client_ids=IdSetV(S)),
                             owner='param', label='self'))

  def view(x_):
    return z3.And(z3.Select(S, x_), z3.Select(HASSET(base), x_))

  def point(name):
    def body(ctx):
      selfr = mk(ctx)
      kind, r = eng.run_function(ctx, methods[name], [selfr, x])
      if kind == 'raise':
        ctx.oblige('sub.keyerror', z3.And(r.name == 'KeyError', z3.Not(view(x))),
                   detail='KeyError exactly for ids outside the subset view')
        return
      ctx.oblige('sub.point.inview', view(x))
      if name == 'get_client':
        ctx.oblige('sub.point.value', isinstance(r, DsOpaque) and r.term.eq(DSOF(base, x)),
                   detail="the base dataset's client, unchanged")
      else:
        ctx.oblige('sub.point.value', to_z3(r) == SIZEOF(base, x))
    p.verify(f'SubsetFederatedData.{name}', eng, body)

  point('get_client')
  point('client_size')

  def body_slice(ctx):
    selfr = mk(ctx)
    st, sp = opt('start'), opt('stop')
    optvars(ctx.model_vars, 'start', 'stop')
    kind, r = eng.run_function(ctx, methods['slice'], [selfr, st, sp])
    ctx.oblige('sub.slice.noraise', kind == 'return')
    ok = isinstance(r, Ref) and r.addr != selfr.addr and isinstance(r.cell(ctx), ObjCell) and \
        isinstance(r.cell(ctx).fields.get('_client_ids'), IdSetV) and \
        isinstance(r.cell(ctx).fields.get('_base'), FdV)
    ctx.oblige('sub.slice.new', ok, detail='slice derives a new view object')
    if not ok:
      return
    f = r.cell(ctx).fields
    ctx.oblige('sub.slice', f['_client_ids'].has(x) == z3.And(z3.Select(S, x), inr(st, sp, x)),
               detail='kept ids = { i in ids | start <= i < stop }')
    ctx.oblige('sub.slice.base', f['_base'].has(x) == z3.And(z3.Select(HASSET(base), x),
                                                             inr(st, sp, x)),
               detail='the base is sliced with the same range')
    old = selfr.cell(ctx).fields
    ctx.oblige('frame.view', old['_client_ids'].term.eq(S) and old['_base'].term.eq(base))

  p.verify('SubsetFederatedData.slice', eng, body_slice)

  def prep(name, fun):
    def body(ctx):
      selfr = mk(ctx)
      fn = FnV(z3.Const('fn', Fn))
      kind, r = eng.run_function(ctx, methods[name], [selfr, fn])
      ctx.oblige('sub.prep.noraise', kind == 'return')
      ok = isinstance(r, Ref) and r.addr != selfr.addr and isinstance(r.cell(ctx), ObjCell)
      ctx.oblige('sub.prep.new', ok)
      if not ok:
        return
      f = r.cell(ctx).fields
      okf = isinstance(f.get('_base'), FdV) and isinstance(f.get('_client_ids'), IdSetV)
      ctx.oblige('sub.prep.fields', okf)
      if not okf:
        return
      ctx.oblige('sub.prep', z3.And(f['_base'].term == fun(base, fn.term),
                                    f['_client_ids'].has(x) == z3.Select(S, x)),
                 detail='same ids, base with fn registered at the same level')
      old = selfr.cell(ctx).fields
      ctx.oblige('frame.view', old['_client_ids'].term.eq(S) and old['_base'].term.eq(base))
    p.verify(f'SubsetFederatedData.{name}', eng, body)

  prep('preprocess_client', FPC)
  prep('preprocess_batch', FPB)

  ids = z3.Const('client_ids', z3.SeqSort(I))

  def body_get_clients(ctx):
    selfr = mk(ctx)
    ctx.ghost.update(n=z3.IntVal(0), ok=z3.BoolVal(True))

    def on_yield(c, v):
      g = c.ghost
      okv = isinstance(v, tuple) and len(v) == 2 and isinstance(v[1], DsOpaque)
      c.oblige('sub.getclients.pair', okv)
      if not okv:
        raise PathDead()
      k = g['n']
      g['ok'] = z3.And(g['ok'], to_z3(v[0]) == ids[k], v[1].term == DSOF(base, ids[k]),
                       z3.Select(S, ids[k]))
      g['n'] = k + 1
    ctx.on_yield = on_yield
    f = exs['get_clients'].funcv(loops={0: Loop(
        inv=lambda s: dict(pos=z3.And(s.ctx.ghost['n'] == to_z3(s.it) , s.ctx.ghost['ok'],
                                      0 <= to_z3(s.it), to_z3(s.it) <= z3.Length(ids))),
        expect='get_clients')})
    kind, r = eng.run_function(ctx, f, [selfr, SeqV(ids, INT)])
    if kind == 'raise':
      k = ctx.ghost['n']
      ctx.oblige('sub.getclients.keyerror', z3.And(r.name == 'KeyError', z3.Not(z3.Select(S, ids[k]))),
                 detail='KeyError at the first requested id outside the subset')
      return
    ctx.oblige('sub.getclients.order', z3.And(ctx.ghost['ok'], ctx.ghost['n'] == z3.Length(ids)),
               detail='one pair per requested id, in request order, all inside the subset')

  p.verify('SubsetFederatedData.get_clients', eng, body_get_clients)

  def body_init(ctx):
    selfr = ctx.alloc(ObjCell(cls, {}, label='self'))
    ctx.init_stack.append(selfr.addr)
    validate = ctx.branch(z3.Bool('validate'))
    kind, r = eng.run_function(ctx, methods['__init__'], [selfr, FdV(base), IdSetV(S), validate])
    w = z3.Int('w')
    bad = z3.Exists([w], z3.And(z3.Select(S, w), z3.Not(z3.Select(HASSET(base), w))))
    if kind == 'raise':
      ctx.oblige('sub.init.reject', z3.And(r.name == 'ValueError', validate, bad),
                 detail='ValueError exactly when validating and some id is not a client of the base')
      return
    ctx.oblige('sub.init.accept', z3.Implies(z3.BoolVal(validate), z3.Not(bad)))
    f = selfr.cell(ctx).fields
    ok = isinstance(f.get('_client_ids'), IdSetV) and isinstance(f.get('_base'), FdV)
    ctx.oblige('sub.init.fields', ok)
    if ok:
      ctx.oblige('sub.init', z3.And(f['_client_ids'].has(x) == z3.Select(S, x),
                                    f['_base'].term == base))

  p.verify('SubsetFederatedData.__init__', eng, body_init)

  def body_num(ctx):
    selfr = mk(ctx)
    kind, r = eng.run_function(ctx, methods['num_clients'], [selfr])
    ctx.oblige('sub.num', kind == 'return' and to_z3(r).eq(CARD(S)),
               detail='number of ids in the subset')
  p.verify('SubsetFederatedData.num_clients', eng, body_num)


def v_inmemory(p):
  names = ('__init__', 'slice', 'client_size', 'get_client', 'get_clients', 'num_clients',
           'preprocess_client', 'preprocess_batch', '_client_dataset')
  exs = {n: p.extract(IM, f'InMemoryFederatedData.{n}') for n in names}
  eng = Engine({'client_datasets': CD_MODULE})
  loops = {'__init__': {0: Loop(inv=lambda s: to_z3(s.it) >= 0, expect='_client_ids')}}
  cls = p.extract_class(IM, 'InMemoryFederatedData', loops=loops, contracted=names)
  methods = cls.methods
  eng.globals['InMemoryFederatedData'] = cls
  K = z3.Const('ids', IdSet)
  pc, pb = z3.Consts('preprocess_client preprocess_batch', Chain)
  x = z3.Int('client_id')

  def uniform(ctx):
    # precondition of the constructor contract: every client has the same
    # feature list (otherwise __init__ raises ValueError by design)
    y = z3.Int('y!u')
    ctx.assume(z3.ForAll([y], FEATS(DATA(y)) == F0))

  def mk(ctx):
    ctx.model_vars['client_id'] = x
    uniform(ctx)
    return ctx.alloc(ObjCell(cls, dict(
        _preprocess_client=ChainV(pc), _preprocess_batch=ChainV(pb),
        _client_to_data_mapping=MapV(K, lambda t: DATA(t)),
        _client_ids=IdSetV(K, is_list=True), _features=FeatsV(F0)),
        owner='param', label='self'))

  def body_get(ctx):
    selfr = mk(ctx)
    kind, r = eng.run_function(ctx, methods['get_client'], [selfr, x])
    if kind == 'raise':
      ctx.oblige('mem.keyerror', z3.And(r.name == 'KeyError', z3.Not(z3.Select(K, x))),
                 detail='KeyError exactly for ids outside the view')
      return
    ok = isinstance(r, DsV)
    ctx.oblige('mem.get.type', ok)
    if ok:
      ctx.oblige('chain.order', z3.And(z3.Select(K, x), r.ex.term == CAPPLY(pc, x, DATA(x)),
                                       r.chain.term == pb),
                 detail='client chain applied to the stored examples, batch chain handed to ClientDataset')
  p.verify('InMemoryFederatedData.get_client', eng, body_get)

  def body_size(ctx):
    selfr = mk(ctx)
    kind, r = eng.run_function(ctx, methods['client_size'], [selfr, x])
    if kind == 'raise':
      ctx.oblige('mem.keyerror', z3.And(r.name == 'KeyError', z3.Not(z3.Select(K, x))))
      return
    allex = z3.Function('ALLEX', ExT, Chain, ExT)(CAPPLY(pc, x, DATA(x)), pb)
    ctx.oblige('size.agree', z3.And(z3.Select(K, x), to_z3(r) == NUMEX(allex)),
               detail='client_size(id) is the number of examples of get_client(id)')
  p.verify('InMemoryFederatedData.client_size', eng, body_size)

  def body_slice(ctx):
    selfr = mk(ctx)
    st, sp = opt('start'), opt('stop')
    optvars(ctx.model_vars, 'start', 'stop')
    kind, r = eng.run_function(ctx, methods['slice'], [selfr, st, sp])
    ctx.oblige('mem.init.safe', kind == 'return',
               detail='deriving a view never raises (also when the range selects no client)')
    if kind != 'return':
      return
    ok = isinstance(r, Ref) and r.addr != selfr.addr and isinstance(r.cell(ctx), ObjCell)
    ctx.oblige('mem.slice.new', ok)
    if not ok:
      return
    f = r.cell(ctx).fields
    m, idl = f.get('_client_to_data_mapping'), f.get('_client_ids')
    okf = isinstance(m, MapV) and isinstance(idl, IdSetV)
    ctx.oblige('mem.slice.fields', okf)
    if not okf:
      return
    ctx.oblige('mem.ids.sorted', idl.is_list and idl.is_sorted,
               detail='class invariant established by the constructor: _client_ids is the SORTED list of the mapping keys '
                      '(a derived view hands the constructor a dict built from a set: only sorting makes iteration deterministic)')
    want = z3.And(z3.Select(K, x), inr(st, sp, x))
    ctx.oblige('mem.slice', z3.And(z3.Select(m.keys, x) == want, idl.has(x) == want),
               detail='kept ids = { i in ids | start <= i < stop }')
    ctx.oblige('mem.slice.data', z3.Implies(want, m.get(x) == DATA(x)),
               detail='examples of kept clients are unchanged')
    ctx.oblige('mem.slice.chains', isinstance(f.get('_preprocess_client'), ChainV) and
               f['_preprocess_client'].term.eq(pc) and f['_preprocess_batch'].term.eq(pb))
    old = selfr.cell(ctx).fields
    ctx.oblige('frame.view', old['_client_ids'].term.eq(K) and
               old['_client_to_data_mapping'].keys.eq(K))
  p.verify('InMemoryFederatedData.slice', eng, body_slice)

  def prep(name, which):
    def body(ctx):
      selfr = mk(ctx)
      w = z3.Int('w0')
      ctx.assume(z3.Select(K, w))  # constructor precondition: at least one client (see mem.init.safe)
      fn = FnV(z3.Const('fn', Fn))
      kind, r = eng.run_function(ctx, methods[name], [selfr, fn])
      ctx.oblige('mem.prep.noraise', kind == 'return')
      ok = kind == 'return' and isinstance(r, Ref) and r.addr != selfr.addr
      ctx.oblige('mem.prep.new', ok)
      if not ok:
        return
      f = r.cell(ctx).fields
      c, b = f.get('_preprocess_client'), f.get('_preprocess_batch')
      okc = isinstance(c, ChainV) and isinstance(b, ChainV) and isinstance(
          f.get('_client_to_data_mapping'), MapV)
      ctx.oblige('mem.prep.type', okc)
      if not okc:
        return
      grown, kept, kept0, base = (c, b, pb, pc) if which == 'client' else (b, c, pc, pb)
      ctx.oblige('prep.chain', z3.And(
          chain_fns(grown.term) == z3.Concat(chain_fns(base), z3.Unit(fn.term)),
          kept.term == kept0), detail=f'fn is appended to the {which}-level chain only')
      ctx.oblige('mem.prep.ids', z3.Select(f['_client_to_data_mapping'].keys, x) == z3.Select(K, x))
      old = selfr.cell(ctx).fields
      ctx.oblige('frame.view', old['_preprocess_client'].term.eq(pc) and
                 old['_preprocess_batch'].term.eq(pb))
    p.verify(f'InMemoryFederatedData.{name}', eng, body)

  prep('preprocess_client', 'client')
  prep('preprocess_batch', 'batch')

  def body_num(ctx):
    selfr = mk(ctx)
    kind, r = eng.run_function(ctx, methods['num_clients'], [selfr])
    ctx.oblige('mem.num', kind == 'return' and to_z3(r).eq(CARD(K)))
  p.verify('InMemoryFederatedData.num_clients', eng, body_num)

  # iteration paths enumerate the (sorted) _client_ids list itself: with mem.ids.sorted the order is deterministic
  import ast as _ast
  for meth, pat in (('clients', 'self.get_clients(self._client_ids)'), ('client_sizes', 'self._client_ids'),
                    ('client_ids', 'sorted(self._client_ids)')):
    exm = p.extract(IM, f'InMemoryFederatedData.{meth}')
    srcs = []
    for n_ in _ast.walk(exm.node):
      if isinstance(n_, _ast.For):
        srcs.append(_ast.unparse(n_.iter))
      elif isinstance(n_, _ast.YieldFrom):
        srcs.append(_ast.unparse(n_.value))
      elif isinstance(n_, _ast.Return) and n_.value is not None:
        srcs.append(_ast.unparse(n_.value))
    p.oblige(f'mem.iter.order:{meth}', [], z3.BoolVal(any(pat in s_ for s_ in srcs)), kind='post', fn=f'InMemoryFederatedData.{meth}',
             detail=f'{meth}() enumerates {pat} (found: {srcs})')


def build(p):
  v_subset(p)
  v_inmemory(p)
  p.trust('FederatedData interface contract for the wrapped base of SubsetFederatedData '
          '(get_client/client_size raise KeyError outside the view; slice intersects; '
          'preprocess_* keep the ids; get_clients answers in request order)',
          'InMemoryFederatedData constructor precondition: uniform feature lists and consistent rows '
          '(otherwise it raises ValueError by design)')
  p.not_covered.append('shuffled_clients (each pass visits each client once): buffered_shuffle is proved in C15; the composition '
                       'with clients() is checked by the bounded native stand-in views_all_access_paths on every run')
  p.not_covered.append('clients()/client_ids()/client_sizes() enumeration order of SQLite (ORDER BY rowid) '
                       'versus sorted order of the in-memory implementations — see known finding on size.agree')
