"""C05, part 2: models._evaluate_model_step and evaluate_model."""
from __future__ import annotations

import z3

from ..script import *  # noqa
from ..lib_real import *  # noqa
from .C05 import (M, U, MO, I, ROW, eval_globals, module_frame, stat_fields, inD, MetricV)

BatchS = z3.DeclareSort('BatchS')
BSeq = z3.SeqSort(BatchS)
HASMASK = z3.Function('batch_has_mask', BatchS, z3.BoolSort())
BA = z3.Function('batch_stat_accum', BatchS, R)     # evaluate_batch(metric, b, pred(b), mask(b)).accum
BW = z3.Function('batch_stat_weight', BatchS, R)
FA = z3.Function('FOLD_A', BSeq, I, R)
FW = z3.Function('FOLD_W', BSeq, I, R)


class BatchV(Val):
  def __init__(self, term):
    self.term = term

  def getitem(self, ctx, key):
    if key == '__mask__':
      if ctx.branch(z3.Not(HASMASK(self.term))):
        raise RaiseSig(ExcV('KeyError'))
      return MaskV5(self.term, 'own')
    raise Unsupported('batch feature')

  def method(self, ctx, name, args, kwargs):
    if name == 'values':
      return BatchValuesV(self)
    raise Unsupported(f'batch.{name}')


class BatchValuesV(Val):
  def __init__(self, b):
    self.b = b

  def make_iter(self, ctx):
    return self

  def next(self, ctx, *d):
    return ColV5(self.b)


class ColV5(Val):
  def __init__(self, b):
    self.b = b

  def length(self, ctx):
    return NROWS(self.b.term)


NROWS = z3.Function('batch_rows', BatchS, I)


class MaskV5(Val):
  """kind 'own': the batch's mask feature; 'ones': all True over `n` rows."""

  def __init__(self, bterm, kind, n=None):
    self.bterm, self.kind, self.n = bterm, kind, n

  def method(self, ctx, name, args, kwargs):
    if name == 'astype':
      return self
    raise Unsupported(f'mask.{name}')


class PredV(Val):
  def __init__(self, params, batch):
    self.params, self.batch = params, batch


def build(p):
  ex_step = p.extract(MO, '_evaluate_model_step')
  ex_eval = p.extract(MO, 'evaluate_model')
  g = eval_globals()
  calls = []

  def c_evaluate_batch(ctx, metric, batch, pred, mask=None):
    calls.append((metric, batch, pred, mask))
    cls = ctx.lookup('MeanStat')
    # contract (batch.mask): the reduced statistic of the real rows of this batch: in the domain
    a, w = BA(batch.term), BW(batch.term)
    ctx.assume(inD(a, w))
    return ctx.alloc(ObjCell(cls, dict(accum=new_tree(ctx, a), weight=new_tree(ctx, w)),
                             label='batch stat'))

  def c_ones(ctx, shape, dtype=None):
    items = shape.cell(ctx).items if isinstance(shape, Ref) else [shape]
    return MaskV5(None, 'ones', items[0])

  g['metrics'] = SrcModule(M, {'evaluate_batch': Handler(c_evaluate_batch, 'evaluate_batch')})
  g['jnp'].attrs['ones'] = Handler(c_ones, 'jnp.ones')
  g['client_datasets'] = Module('client_datasets', {'EXAMPLE_MASK_KEY': '__mask__'})
  g['isinstance'] = Handler(lambda ctx, v, t: isinstance(v, Ref) and isinstance(v.cell(ctx), ObjCell)
                            and v.cell(ctx).cls is not None and v.cell(ctx).cls.name in ('MeanStat', 'SumStat'),
                            'isinstance')
  eng = Engine(g)
  eng.sources = [MO, M, U]
  b = z3.Const('batch', BatchS)
  a0, w0 = z3.Reals('acc0 wt0')
  params = object.__new__(Val)

  class ModelV(Val):
    def __init__(self, ctx):
      self.metrics = ctx.alloc(DictCell([('m', MetricV('mean', None, None))]))

    def getattr(self, ctx, name):
      if name == 'eval_metrics':
        return self.metrics
      if name == 'apply_for_eval':
        return Handler(lambda c, prm, bt: PredV(prm, bt), 'apply_for_eval')
      raise Unsupported(f'model.{name}')

  def body_step(ctx):
    module_frame(ctx, MO)
    del calls[:]
    ctx.model_vars.update(has_mask=HASMASK(b))
    ctx.assume(inD(a0, w0))
    MS = eng._resolve_in(ctx, M, 'MeanStat')[0]
    eng.globals['MeanStat'] = MS
    prev = ctx.alloc(ObjCell(MS, dict(accum=new_tree(ctx, a0, 'param'), weight=new_tree(ctx, w0, 'param')),
                             owner='param', label='previous stat'))
    stat = ctx.alloc(DictCell([('m', prev)], owner='param', label='stat dict'))
    model = ModelV(ctx)
    bv = BatchV(b)
    kind, r = eng.run_function(ctx, ex_step.funcv(), [model, params, bv, stat])
    ctx.oblige('step.noraise', kind == 'return')
    if kind != 'return':
      return
    ctx.oblige('step.calls', len(calls) == 1, detail='each metric is evaluated once per batch')
    if len(calls) != 1:
      return
    metric, batch, pred, mask = calls[0]
    ctx.oblige('model.batch', batch is bv and isinstance(pred, PredV) and pred.batch is bv and
               pred.params is params,
               detail='the metric sees this batch and the predictions of these params on this batch')
    okm = isinstance(mask, MaskV5)
    ctx.oblige('model.mask.type', okm, detail='a mask is always passed to evaluate_batch')
    if okm:
      ctx.oblige('model.mask', z3.Implies(HASMASK(b), z3.BoolVal(mask.kind == 'own' and mask.bterm is not None
                                                                 and mask.bterm.eq(b))),
                 detail="a batch with a mask feature is evaluated under that batch's mask")
      ctx.oblige('model.defaultmask', z3.Implies(z3.Not(HASMASK(b)), z3.And(
          z3.BoolVal(mask.kind == 'ones'), (to_z3(mask.n) == NROWS(b)) if mask.n is not None else False)),
                 detail='no mask feature: an all-True mask over all rows of the batch')
    out = ctx.engine.getitem(ctx, r, 'm')
    f = stat_fields(ctx, out)
    ctx.oblige('model.merge', z3.And(f['accum'] == a0 + BA(b), f['weight'] == w0 + BW(b)),
               detail='new stat = previous stat merged with the statistic of this batch')
    pf = stat_fields(ctx, prev)
    ctx.oblige('frame.stat', z3.And(pf['accum'] == a0, pf['weight'] == w0),
               detail='the incoming statistic is not modified')
  p.verify('_evaluate_model_step', eng, body_step)

  # evaluate_model: fold over the batches
  bs = z3.Const('batches', BSeq)
  n = z3.Length(bs)
  BCODEC = Codec(BatchS, dec=lambda t: BatchV(t))

  def fold_axioms():
    s = z3.Const('fs', BSeq)
    k = z3.Int('fk')
    return [z3.ForAll([s], z3.And(FA(s, 0) == 0, FW(s, 0) == 0)),
            z3.ForAll([s, k], z3.Implies(z3.And(k >= 1, k <= z3.Length(s)), z3.And(
                FA(s, k) == FA(s, k - 1) + BA(s[k - 1]), FW(s, k) == FW(s, k - 1) + BW(s[k - 1]))),
                patterns=[FA(s, k)]),
            z3.ForAll([s, k], z3.Implies(z3.And(k >= 1, k <= z3.Length(s)),
                                         FW(s, k) == FW(s, k - 1) + BW(s[k - 1])), patterns=[FW(s, k)])]

  def c_step(ctx, model, prm, batch, stat):
    # contract of _evaluate_model_step (model.merge)
    prev = ctx.engine.getitem(ctx, stat, 'm')
    pf = stat_fields(ctx, prev)
    ctx.assume(inD(BA(batch.term), BW(batch.term)))
    MS = eng.globals['MeanStat']
    new = ctx.alloc(ObjCell(MS, dict(accum=new_tree(ctx, pf['accum'] + BA(batch.term)),
                                     weight=new_tree(ctx, pf['weight'] + BW(batch.term)))))
    return ctx.alloc(DictCell([('m', new)]))

  g2 = dict(g)
  g2['_evaluate_model_step'] = Handler(c_step, '_evaluate_model_step')
  eng2 = Engine(g2)
  eng2.sources = [MO, M, U]

  def inv(s):
    k = to_z3(s.it)
    st = s.raw('stat')
    cur = s.ctx.engine.getitem(s.ctx, st, 'm')
    f = stat_fields(s.ctx, cur)
    return dict(pos=z3.And(0 <= k, k <= n),
                fold=z3.And(f['accum'] == FA(bs, k), f['weight'] == FW(bs, k)),
                dom=inD(f['accum'], f['weight']))

  def stat_sort(ctx, nm):
    MS = eng2.globals['MeanStat']
    o = ctx.alloc(ObjCell(MS, dict(accum=new_tree(ctx, ctx.fresh('acc', 'real')),
                                   weight=new_tree(ctx, ctx.fresh('wt', 'real')))))
    return ctx.alloc(DictCell([('m', o)]))

  loops = {0: Loop(inv=inv, expect='batches', sorts={'stat': stat_sort})}

  def body_eval(ctx):
    module_frame(ctx, MO)
    for a in fold_axioms():
      ctx.assume(a)
    MS = eng2._resolve_in(ctx, M, 'MeanStat')[0]
    eng2.globals['MeanStat'] = MS
    eng.globals['MeanStat'] = MS
    model = ModelV(ctx)
    it = ctx.alloc(IterCell(bs, BCODEC, 0, owner='param', label='batches'))
    ctx.modifies.add(it.addr)
    kind, r = eng2.run_function(ctx, ex_eval.funcv(loops=loops), [model, params, it])
    ctx.oblige('evalmodel.noraise', kind == 'return')
    if kind != 'return':
      return
    out = tree_val(ctx, ctx.engine.getitem(ctx, r, 'm'))
    W = FW(bs, n)
    ctx.oblige('model.fold', out == z3.If(W > 0, FA(bs, n) / W, 0),
               detail='evaluate_model = result of folding merge over the per-batch statistics, starting from zero(): '
                      'with merge commutative/associative any partition and order of the same examples gives the same value; '
                      'an empty input gives 0')
    ctx.oblige('once', to_z3(it.cell(ctx).pos) == n, detail='batches are consumed exactly once')
  p.verify('evaluate_model', eng2, body_eval)
