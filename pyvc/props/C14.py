"""C14 — every built-in metric equals its definition on its whole domain.

Index-array model: an array is its entry at arbitrary indices (POS = sequence
position, CLS = class).  Reductions (sum / any / all over positions) return an
opaque value and RECORD what was reduced, so each obligation compares the
recorded per-position expression with an independent definition, pointwise.
Sorting is modelled by its order relation: `argsort(x)` = stable ascending
order of x (ties: lowest index first); `[::-1]` reverses it; `[:k]` keeps
py_slice(n, k) leading positions.
"""
from __future__ import annotations

import ast
import z3

from ..script import *  # noqa
from ..lib_real import *  # noqa
from .C05 import module_frame, stat_fields, metric_globals

M = 'fedjax/core/metrics.py'
U = 'fedjax/core/util.py'
I = z3.IntSort()
B = z3.BoolSort()
POS = z3.Int('pos')
CLS = z3.Int('cls')
C2 = z3.Int('cls2')
NCLS = z3.Int('num_classes')
TGT = z3.Function('target', I, I)           # target[pos]
SC = z3.Function('score', I, I, R)          # pred[pos, cls]
LM = z3.Function('logits_mask', I, R)       # logits_mask[cls]
LOGP = z3.Function('log_softmax', I, I, R)  # log_softmax(pred)[pos, cls]


class IdxV(Val):
  """An array given by its entry at (POS, CLS); `axes` says which indices it has."""

  def __init__(self, val, axes, is_bool=False):
    self.val, self.axes, self.is_bool = val, tuple(axes), is_bool

  def num(self):
    if self.is_bool or isinstance(self.val, z3.BoolRef):
      return z3.If(self.val, z3.RealVal(1), z3.RealVal(0))
    v = to_z3(self.val)
    return z3.ToReal(v) if v.is_int() else v

  def binop(self, ctx, op, other, reflected):
    if op == 'Neg':
      return IdxV(-self.num(), self.axes)
    o = other if isinstance(other, IdxV) else IdxV(to_z3(other) if not isinstance(other, bool) else z3.BoolVal(other), ())
    axes = tuple(a for a in ('pos', 'cls') if a in self.axes or a in o.axes)
    a, b = (o, self) if reflected else (self, o)
    if op == 'Mult' and (a.is_bool or b.is_bool):
      if a.is_bool and b.is_bool:
        return IdxV(z3.And(a.val, b.val), axes, True)
      m, x = (a, b) if a.is_bool else (b, a)
      return IdxV(z3.If(m.val, x.num(), z3.RealVal(0)), axes)
    return IdxV(ctx.engine.arith(ctx, op, a.num(), b.num()), axes)

  def compare(self, ctx, op, other):
    o = other if isinstance(other, IdxV) else IdxV(to_z3(other), ())
    axes = tuple(a for a in ('pos', 'cls') if a in self.axes or a in o.axes)
    a, b = to_z3(self.val), to_z3(o.val)
    if a.sort() != b.sort():
      a, b = self.num(), o.num()
    r = {'Eq': a == b, 'NotEq': a != b, 'Lt': a < b, 'LtE': a <= b, 'Gt': a > b, 'GtE': a >= b}[op]
    return IdxV(r, axes, True)

  def method(self, ctx, name, args, kwargs):
    if name == 'astype':
      return IdxV(self.num(), self.axes) if args and args[0] in ('float32',) else self
    raise Unsupported(f'array.{name}')

  def getattr(self, ctx, name):
    if name == 'shape':
      return ShapeIV(self)
    if name == 'at':
      return AtV(self)
    if name == 'ndim':
      return len(self.axes)
    raise Unsupported(f'array.{name}')

  def length(self, ctx):
    return NCLS if self.axes[:1] == ('cls',) else SEQLEN

  def getitem(self, ctx, idx):
    raise Unsupported('array indexing')


SEQLEN = z3.Int('seq_len')


class ShapeIV(Val):
  def __init__(self, arr):
    self.arr = arr

  def getitem(self, ctx, idx):
    if idx == -1 and self.arr.axes[-1:] == ('cls',):
      return NCLS
    raise Unsupported('shape index')


def record(ctx, kind, arr, res):
  ctx.tags.setdefault('reductions', []).append((kind, arr, res))
  return res


def c_sum(ctx, x, axis=None):
  if not isinstance(x, IdxV):
    x = IdxV(to_z3(x) if not isinstance(x, z3.BoolRef) else x, (), isinstance(x, z3.BoolRef))
  if not x.axes:
    # jnp.sum of a scalar: the scalar (as a number)
    return IdxV(x.num(), ())
  red = x.axes[-1] if axis in (None, -1) else x.axes[0]
  rest = tuple(a for a in x.axes if a != red)
  s = ctx.fresh(f'sum_over_{red}', 'real')
  record(ctx, ('sum', red), x, s)
  return IdxV(s, rest)


def c_any(ctx, x, axis=None):
  if isinstance(x, MemberV):
    return x.any(ctx)
  if not isinstance(x, IdxV):
    raise Unsupported('jnp.any argument')
  red = x.axes[-1] if axis in (None, -1) else x.axes[0]
  rest = tuple(a for a in x.axes if a != red)
  b = ctx.fresh(f'any_over_{red}', 'bool')
  cond = x.val if isinstance(x.val, z3.BoolRef) else (x.num() != 0)
  record(ctx, ('any', red), IdxV(cond, x.axes, True), b)
  return IdxV(b, rest, True)


def c_all(ctx, x, axis=None):
  if not isinstance(x, IdxV):
    raise Unsupported('jnp.all argument')
  red = x.axes[-1]
  rest = tuple(a for a in x.axes if a != red)
  b = ctx.fresh(f'all_over_{red}', 'bool')
  cond = x.val if isinstance(x.val, z3.BoolRef) else (x.num() != 0)
  record(ctx, ('all', red), IdxV(cond, x.axes, True), b)
  return IdxV(b, rest, True)


ARGMAX = z3.Function('first_argmax', I, I)   # jnp.argmax(pred', axis=-1)[pos] of the array recorded at the call


def c_argmax(ctx, x, axis=-1):
  ok = isinstance(x, IdxV) and x.axes[-1:] == ('cls',)
  ctx.oblige('argmax.axis', ok and axis == -1, detail='argmax is taken over the class axis')
  if not ok:
    raise PathDead()
  ctx.tags.setdefault('argmax_of', []).append(x)
  rest = x.axes[:-1]
  am = ARGMAX(POS) if rest else ARGMAX(z3.IntVal(0))
  return IdxV(am, rest)


class SortedV(Val):
  """Result of argsort along the class axis: `before(i, j)` is the order relation on classes."""

  def __init__(self, before, axes, stop=None):
    self.before, self.axes, self.stop = before, axes, stop

  def getitem(self, ctx, idx):
    sl = idx[-1] if isinstance(idx, tuple) else idx
    if isinstance(idx, tuple):
      lead = idx[:-1]
      if not all(isinstance(s, SliceV) and s.lo is None and s.hi is None and s.step is None for s in lead):
        raise Unsupported('argsort indexing')
    if not isinstance(sl, SliceV):
      raise Unsupported('argsort indexing')
    if sl.step == -1 and sl.lo is None and sl.hi is None:
      bf = self.before
      return SortedV(lambda i, j: z3.And(i != j, z3.Not(bf(i, j))), self.axes, self.stop)
    if sl.step in (None, 1) and sl.lo is None:
      start, stop = slice_bounds(NCLS, None, sl.hi)
      return SortedV(self.before, self.axes, to_z3(stop))
    raise Unsupported('argsort slice')

  def compare(self, ctx, op, other):
    if op != 'Eq' or not isinstance(other, IdxV):
      raise Unsupported('comparison of sorted indices')
    return MemberV(self, other)


class MemberV(Val):
  """top_k_pred == target (broadcast): any() over the kept positions = membership."""

  def __init__(self, srt, target):
    self.srt, self.target = srt, target

  def any(self, ctx):
    ctx.tags.setdefault('topk', []).append(self)
    b = ctx.fresh('target_in_topk', 'bool')
    self.res = b
    return IdxV(b, self.target.axes, True)

  def method(self, ctx, name, args, kwargs):
    if name == 'astype':
      return self
    raise Unsupported(name)


def c_argsort(ctx, x, axis=-1):
  ok = isinstance(x, IdxV) and x.axes[-1:] == ('cls',)
  ctx.oblige('argsort.axis', ok, detail='argsort is taken over the class axis')
  if not ok:
    raise PathDead()
  key = x.num()

  def before(i, j):
    ki = z3.substitute(key, (CLS, i))
    kj = z3.substitute(key, (CLS, j))
    return z3.Or(ki < kj, z3.And(ki == kj, i < j))   # T-JNP: argsort is stable ascending
  return SortedV(before, x.axes)


def c_ones_like(ctx, x, dtype=None):
  return IdxV(z3.RealVal(1), x.axes)


def c_one_hot(ctx, x, n, dtype=None):
  return IdxV(z3.If(to_z3(x.val) == CLS, z3.RealVal(1), z3.RealVal(0)), x.axes + ('cls',))


def c_log_softmax(ctx, x):
  ctx.tags['log_softmax_of'] = x
  return IdxV(LOGP(POS, CLS), x.axes)


ISNEGINF = z3.Function('is_neg_inf', R, z3.BoolSort())
ISPOSINF = z3.Function('is_pos_inf', R, z3.BoolSort())
POSINF = z3.Real('pos_inf')
SOFTP = z3.Function('softmax_f32', I, I, R)   # jax.nn.softmax(pred)[pos, cls] as computed in float32


def c_softmax(ctx, x):
  # library contract (float32): every entry is in [0, 1]; an entry more than ~87 (103 with subnormals) below the row
  # maximum underflows to exactly 0 - the contract therefore does NOT promise > 0
  ctx.tags['log_softmax_of'] = x
  ctx.tags['softmax_terms'] = True
  ctx.assume(z3.And(SOFTP(POS, CLS) >= 0, SOFTP(POS, CLS) <= 1))
  return IdxV(SOFTP(POS, CLS), x.axes)


def c_log(ctx, x):
  v = as_idx(x)
  t = v.num()
  ctx.oblige('log.arg.positive', t > 0, kind='definedness',
             detail='jnp.log of a value that can be 0 in float32 gives -inf (and nan after 0 * -inf): a softmax probability '
                    'underflows to 0 when its logit lies ~87 below the row maximum, so log(softmax(x)) is not the finite '
                    'log_softmax(x) = x - logsumexp(x) on extreme magnitudes')
  if ctx.tags.get('softmax_terms') and z3.is_app(t) and t.decl().eq(SOFTP):
    return IdxV(LOGP(POS, CLS), v.axes)     # over the reals log(softmax) = log_softmax
  raise Unsupported('jnp.log of a general expression')


def globals14():
  g = metric_globals()
  for mod in (g['jnp'], g['jax'].attrs['numpy']):
    mod.attrs.update(sum=Handler(c_sum, 'jnp.sum'), any=Handler(c_any, 'jnp.any'), all=Handler(c_all, 'jnp.all'),
                     argmax=Handler(c_argmax, 'jnp.argmax'), argsort=Handler(c_argsort, 'jnp.argsort'),
                     ones_like=Handler(c_ones_like, 'jnp.ones_like'), float32='float32',
                     transpose=Handler(lambda ctx, x: x, 'jnp.transpose'),
                     array=Handler(lambda ctx, x, copy=None, dtype=None: x, 'jnp.array'),
                     maximum=Handler(lambda ctx, a, b: lift_idx(zmax, a, b), 'jnp.maximum'),
                     where=Handler(lambda ctx, c, a, b: where_idx(c, a, b), 'jnp.where'),
                     log=Handler(c_log, 'jnp.log'),
                     # +-inf are not reals: an uninterpreted classifier and two opaque constants (nothing is assumed about
                     # arithmetic with them, so an identity that holds only through them is not provable)
                     isneginf=Handler(lambda ctx, x: IdxV(ISNEGINF(as_idx(x).num()), as_idx(x).axes), 'jnp.isneginf'),
                     isposinf=Handler(lambda ctx, x: IdxV(ISPOSINF(as_idx(x).num()), as_idx(x).axes), 'jnp.isposinf'),
                     isinf=Handler(lambda ctx, x: IdxV(z3.Or(ISNEGINF(as_idx(x).num()), ISPOSINF(as_idx(x).num())),
                                                       as_idx(x).axes), 'jnp.isinf'),
                     inf=POSINF)
  g['jax'].attrs['nn'] = Module('jax.nn', {'one_hot': Handler(c_one_hot, 'one_hot'),
                                           'log_softmax': Handler(c_log_softmax, 'log_softmax'),
                                           'softmax': Handler(c_softmax, 'softmax')})
  g['util'] = SrcModule(U)
  return g


def as_idx(x):
  if isinstance(x, IdxV):
    return x
  if isinstance(x, bool):
    return IdxV(z3.BoolVal(x), (), True)
  return IdxV(to_z3(x), ())


def lift_idx(f, a, b):
  a, b = as_idx(a), as_idx(b)
  axes = tuple(x for x in ('pos', 'cls') if x in a.axes or x in b.axes)
  return IdxV(f(a.num(), b.num()), axes)


def where_idx(c, a, b):
  c, a, b = as_idx(c), as_idx(a), as_idx(b)
  axes = tuple(x for x in ('pos', 'cls') if x in c.axes or x in a.axes or x in b.axes)
  cond = c.val if isinstance(c.val, z3.BoolRef) else c.num() != 0
  return IdxV(z3.If(cond, a.num(), b.num()), axes)


def masked(vals):
  return z3.Or(*[TGT(POS) == v for v in vals]) if vals else z3.BoolVal(False)


def weight_spec(vals):
  return z3.If(masked(vals), z3.RealVal(0), z3.RealVal(1))


def find_reduction(ctx, res):
  for kind, arr, r in ctx.tags.get('reductions', []):
    if z3.is_expr(r) and r.eq(res):
      return kind, arr
  return None, None


def v_target_weight(p, eng):
  ex = p.extract(M, 'get_target_weight')
  for n in (0, 1, 2):
    vals = [z3.Int(f'masked_value_{i}') for i in range(n)]

    def body(ctx, vals=vals):
      ctx.model_vars.update({f'masked_value_{i}': v for i, v in enumerate(vals)})
      ctx.model_vars['target_at_pos'] = TGT(POS)
      kind, r = eng.run_function(ctx, ex.funcv(), [IdxV(TGT(POS), ('pos',)), tuple(vals)])
      ctx.oblige('seq.weight.noraise', kind == 'return')
      if kind == 'return':
        ctx.oblige('seq.weight', as_idx(r).num() == weight_spec(vals),
                   detail='target_weight[pos] = 1 unless target[pos] is one of the masked target values')
    p.verify(f'get_target_weight[{n} masked values]', eng, body)


def run_metric(ctx, eng, clsname, fields, per_position=False):
  module_frame(ctx, M)
  cls = ctx.lookup(clsname)
  selfr = ctx.alloc(ObjCell(cls, fields, owner='param', label=clsname))
  ex = ctx.alloc(DictCell([('y', IdxV(TGT(POS), ('pos',))), ('domain_id', IdxV(z3.Int('domain_id'), ()))],
                          owner='param'))
  pred = IdxV(SC(POS, CLS), ('pos', 'cls'))
  st = eng.call_method(ctx, selfr, 'evaluate_example', [ex, pred])
  return st


def v_sequence_metrics(p, eng):
  mv = (z3.Int('masked_value_0'),)
  w = weight_spec(mv)

  def common(ctx):
    ctx.model_vars.update(masked_value_0=mv[0], target_at_pos=TGT(POS), num_classes=NCLS, k=z3.Int('k'))
    ctx.assume(NCLS >= 1)

  def check_pair(ctx, st, name, num_spec, den_spec, per_position, detail):
    f = stat_fields(ctx, st)
    acc, wt = as_idx(f['accum']), as_idx(f['weight'])
    if per_position:
      ctx.oblige(f'{name}.perpos', z3.And(acc.num() == num_spec, wt.num() == den_spec),
                 detail=detail + ' (per position: the vector of the scalar definition)')
      return
    sums = [(a_, r_) for k_, a_, r_ in ctx.tags.get('reductions', []) if k_ == ('sum', 'pos')]
    ok = len(sums) == 2
    ctx.oblige(f'{name}.sums', ok, detail='accum and weight are built from two sums over the sequence positions')
    if ok:
      (a1, s1), (a2, s2) = sums
      ctx.oblige(f'{name}.def', z3.And(a1.num() == num_spec, a2.num() == den_spec), detail=detail)
      # MeanStat.new sanitisation of (sum of numerators, sum of weights)
      ctx.oblige(f'{name}.stat', z3.And(wt.num() == z3.If(s2 > 0, s2, 0), acc.num() == z3.If(wt.num() == 0, 0, s1)),
                 detail='the statistic is MeanStat.new(sum of numerators, sum of weights)')

  for pp in (False, True):
    # token accuracy (with a logits mask)
    def body_acc(ctx, pp=pp):
      common(ctx)
      fields = dict(target_key='y', pred_key=None, masked_target_values=mv,
                    logits_mask=IdxV(LM(CLS), ('cls',)), per_position=pp)
      st = run_metric(ctx, eng, 'SequenceTokenAccuracy', fields)
      am = ctx.tags.get('argmax_of', [])
      ok = len(am) == 1
      ctx.oblige('seqtokacc.argmax', ok and z3.simplify(am[0].num() == SC(POS, CLS) + LM(CLS)) if ok else False,
                 detail='the prediction is the FIRST maximal class of (logits + logits mask)')
      correct = z3.If(TGT(POS) == ARGMAX(POS), z3.RealVal(1), z3.RealVal(0))
      check_pair(ctx, st, 'seqtokacc', z3.If(masked(mv), 0, correct), w, pp,
                 'correct tokens among the non-masked positions / number of non-masked positions')
    p.verify(f'SequenceTokenAccuracy[per_position={pp}]', eng, body_acc)

    def body_oov(ctx, pp=pp, n_oov=1):
      pass

    for n_oov in (1, 2):
      def body_oov(ctx, pp=pp, n_oov=n_oov):
        common(ctx)
        ov = tuple(z3.Int(f'oov_value_{i}') for i in range(n_oov))
        ctx.model_vars.update({f'oov_value_{i}': v for i, v in enumerate(ov)})
        fields = dict(target_key='y', pred_key=None, oov_target_values=ov, masked_target_values=mv, per_position=pp)
        st = run_metric(ctx, eng, 'SequenceTokenOOVRate', fields)
        is_oov = z3.Or(*[TGT(POS) == v for v in ov])
        check_pair(ctx, st, 'oov', z3.If(z3.And(z3.Not(masked(mv)), is_oov), z3.RealVal(1), z3.RealVal(0)), w, pp,
                   'a position counts as out-of-vocabulary iff its target is ONE OF the oov values')
      p.verify(f'SequenceTokenOOVRate[{n_oov} oov values, per_position={pp}]', eng, body_oov)

    def body_topk(ctx, pp=pp):
      common(ctx)
      k = z3.Int('k')
      fields = dict(k=k, target_key='y', pred_key=None, masked_target_values=mv, logits_mask=None, per_position=pp)
      st = run_metric(ctx, eng, 'SequenceTokenTopKAccuracy', fields)
      tk = ctx.tags.get('topk', [])
      ok = len(tk) == 1
      ctx.oblige('seqtopk.shape', ok, detail='one membership test of the target in the first-k sorted classes')
      if not ok:
        return
      topk_obligations(ctx, 'seqtopk', tk[0], SC(POS, CLS), k)
      check_pair(ctx, st, 'seqtopk', z3.If(masked(mv), z3.RealVal(0), z3.If(tk[0].res, z3.RealVal(1), z3.RealVal(0))),
                 w, pp, 'hits among the non-masked positions / number of non-masked positions')
    p.verify(f'SequenceTokenTopKAccuracy[per_position={pp}]', eng, body_topk)

  # counts, length, truncation
  def body_counts(ctx):
    common(ctx)
    st = run_metric(ctx, eng, 'SequenceTokenCount', dict(target_key='y', masked_target_values=mv))
    a = as_idx(stat_fields(ctx, st)['accum'])
    k1, a1 = find_reduction(ctx, a.val)
    ctx.oblige('count.tokens', k1 == ('sum', 'pos') and z3.simplify(a1.num() == w) if k1 else False,
               detail='number of non-masked tokens')
    st = run_metric(ctx, eng, 'SequenceCount', dict(target_key='y', masked_target_values=mv))
    a = as_idx(stat_fields(ctx, st)['accum'])
    k1, a1 = find_reduction(ctx, a.val if not (z3.is_app(a.val) and a.val.decl().kind() == z3.Z3_OP_ITE)
                            else a.val.arg(0))
    ctx.oblige('count.sequences', k1 == ('any', 'pos') and z3.simplify(a1.val == z3.Not(masked(mv))) if k1 else False,
               detail='1 iff the sequence has at least one non-masked token (jnp.any, not jnp.all)')
    st = run_metric(ctx, eng, 'SequenceLength', dict(target_key='y', masked_target_values=mv))
    sums = [(a_, r_) for k_, a_, r_ in ctx.tags.get('reductions', []) if k_ == ('sum', 'pos')]
    ctx.oblige('len.def', len(sums) >= 2 and z3.simplify(sums[-1][0].num() == w) if sums else False,
               detail='length = number of non-masked tokens (weight: sequence non-empty)')
  p.verify('SequenceTokenCount/SequenceCount/SequenceLength', eng, body_counts)

  # sequence-level cross entropy: per-token loss as a contract symbol (ce.def), summed over the non-masked positions;
  # the weight is 1 iff the sequence has a non-masked token - whatever the loss values are
  TOKLOSS = z3.Function('token_loss', z3.IntSort(), z3.RealSort())

  def body_seqce(ctx, cls_name, token_level):
    common(ctx)
    module_frame(ctx, M)
    eng.globals['unreduced_cross_entropy_loss'] = Handler(lambda c, t, pr: IdxV(TOKLOSS(POS), ('pos',)),
                                                          'unreduced_cross_entropy_loss (ce.def)')
    try:
      st = run_metric(ctx, eng, cls_name, dict(target_key='y', pred_key=None, masked_target_values=mv, **({'per_position': False} if token_level else {})))
    finally:
      eng.globals.pop('unreduced_cross_entropy_loss', None)
    f = stat_fields(ctx, st)
    reds = ctx.tags.get('reductions', [])
    sums = [(a_, r_) for k_, a_, r_ in reds if k_ == ('sum', 'pos')]
    anys = [(a_, r_) for k_, a_, r_ in reds if k_ == ('any', 'pos')]
    okn = bool(sums) and z3.simplify(sums[0][0].num() == z3.If(masked(mv), 0, TOKLOSS(POS))) is not None
    ctx.oblige(f'{cls_name}.num', z3.simplify(sums[0][0].num() == z3.If(masked(mv), 0, TOKLOSS(POS))) if sums else False,
               detail='numerator: sum of the token losses over the non-masked positions')
    if token_level:
      ctx.oblige(f'{cls_name}.den', len(sums) == 2 and z3.simplify(sums[1][0].num() == w) if len(sums) == 2 else False,
                 detail='denominator: the number of non-masked tokens')
    else:
      ctx.oblige(f'{cls_name}.den', len(anys) == 1 and z3.simplify(anys[0][0].val == z3.Not(masked(mv))) if len(anys) == 1 else False,
                 detail='weight: 1 iff SOME token is non-masked (any over the target weights - not over the loss values, which '
                        'can all be exactly 0 for saturated logits)')
  p.verify('SequenceCrossEntropyLoss', eng, lambda c: body_seqce(c, 'SequenceCrossEntropyLoss', False))
  p.verify('SequenceTokenCrossEntropyLoss', eng, lambda c: body_seqce(c, 'SequenceTokenCrossEntropyLoss', True))

  def body_trunc(ctx):
    common(ctx)
    eos = z3.Int('eos_target_value')
    st = run_metric(ctx, eng, 'SequenceTruncationRate', dict(eos_target_value=eos, target_key='y',
                                                             masked_target_values=mv))
    reds = ctx.tags.get('reductions', [])
    alls = [(k_, a_) for k_, a_, r_ in reds if k_ == ('all', 'pos')]
    anys = [(k_, a_) for k_, a_, r_ in reds if k_ == ('any', 'pos')]
    ctx.oblige('trunc.def', len(alls) == 1 and len(anys) == 1 and z3.simplify(z3.And(
        alls[0][1].val == (TGT(POS) != eos), anys[0][1].val == z3.Not(masked(mv)))) if alls and anys else False,
        detail='truncated iff NO position holds the end-of-sequence value; counted only for non-empty sequences')
  p.verify('SequenceTruncationRate', eng, body_trunc)


def topk_obligations(ctx, name, member, score, k):
  i, j = z3.Ints('ci cj')
  si = z3.substitute(score, (CLS, i))
  sj = z3.substitute(score, (CLS, j))
  spec_before = z3.Or(si > sj, z3.And(si == sj, i < j))
  rng = z3.And(0 <= i, i < NCLS, 0 <= j, j < NCLS, i != j)
  ctx.oblige(f'{name}.order', z3.Implies(rng, member.srt.before(i, j) == spec_before),
             detail='classes are ranked by decreasing score, ties toward the LOWEST class index (arbitrary classes i != j)')
  keep = member.srt.stop if member.srt.stop is not None else NCLS
  want = z3.If(k < 0, 0, z3.If(k > NCLS, NCLS, k))
  ctx.oblige(f'{name}.def', keep == want,
             detail='exactly the first max(0, min(k, num_classes)) ranked classes are considered: k < 1 gives 0, '
                    'k >= num_classes gives 1 (a Python slice [:k] with negative k would keep num_classes + k)')


def v_classification(p, eng):
  def body_acc(ctx):
    ctx.assume(NCLS >= 1)
    module_frame(ctx, M)
    cls = ctx.lookup('Accuracy')
    selfr = ctx.alloc(ObjCell(cls, dict(target_key='y', pred_key=None), owner='param'))
    ex = ctx.alloc(DictCell([('y', IdxV(TGT(z3.IntVal(0)), ()))], owner='param'))
    st = eng.call_method(ctx, selfr, 'evaluate_example', [ex, IdxV(SC(z3.IntVal(0), CLS), ('cls',))])
    f = stat_fields(ctx, st)
    am = ctx.tags.get('argmax_of', [])
    ok = len(am) == 1 and z3.simplify(am[0].num() == SC(z3.IntVal(0), CLS))
    ctx.oblige('acc.def', z3.And(as_idx(f['accum']).num() == z3.If(TGT(z3.IntVal(0)) == ARGMAX(z3.IntVal(0)), z3.RealVal(1), z3.RealVal(0)),
                                 as_idx(f['weight']).num() == 1) if ok is not False and len(am) == 1 else False,
               detail='1 iff the target equals the first maximal class (ties toward the lowest index), weight 1')
  p.verify('Accuracy', eng, body_acc)

  def body_topk(ctx):
    ctx.assume(NCLS >= 1)
    k = z3.Int('k')
    ctx.model_vars.update(k=k, num_classes=NCLS)
    module_frame(ctx, M)
    cls = ctx.lookup('TopKAccuracy')
    selfr = ctx.alloc(ObjCell(cls, dict(k=k, target_key='y', pred_key=None), owner='param'))
    ex = ctx.alloc(DictCell([('y', IdxV(TGT(z3.IntVal(0)), ()))], owner='param'))
    st = eng.call_method(ctx, selfr, 'evaluate_example', [ex, IdxV(SC(z3.IntVal(0), CLS), ('cls',))])
    tk = ctx.tags.get('topk', [])
    ok = len(tk) == 1
    ctx.oblige('topk.shape', ok)
    if not ok:
      return
    topk_obligations(ctx, 'topk', tk[0], SC(z3.IntVal(0), CLS), k)
    f = stat_fields(ctx, st)
    ctx.oblige('topk.stat', z3.And(as_idx(f['accum']).num() == z3.If(tk[0].res, z3.RealVal(1), z3.RealVal(0)),
                                   as_idx(f['weight']).num() == 1))
  p.verify('TopKAccuracy', eng, body_topk)

  def body_ce(ctx):
    ctx.assume(NCLS >= 1)
    module_frame(ctx, M)
    f = ctx.lookup('unreduced_cross_entropy_loss')
    r = eng.call_value(ctx, f, [IdxV(TGT(POS), ('pos',)), IdxV(SC(POS, CLS), ('pos', 'cls'))], {})
    v = as_idx(r)
    inner = v.num()
    # result = -(sum over classes of one_hot(target)[cls] * log_softmax[cls])
    neg = z3.simplify(-inner)
    k1, a1 = find_reduction(ctx, neg) if z3.is_const(neg) else (None, None)
    ls = ctx.tags.get('log_softmax_of')
    ctx.oblige('ce.def', k1 == ('sum', 'cls') and z3.simplify(a1.num() == z3.If(TGT(POS) == CLS, LOGP(POS, CLS), 0))
               if k1 else False,
               detail='loss = - sum_c one_hot(target)[c] * log_softmax(pred)[c] = -log_softmax(pred)[target]')
    ctx.oblige('ce.logits', isinstance(ls, IdxV) and z3.simplify(ls.num() == SC(POS, CLS)),
               detail='log_softmax is taken of the predictions')
  p.verify('unreduced_cross_entropy_loss', eng, body_ce)


class AtV(Val):
  def __init__(self, arr):
    self.arr = arr

  def getitem(self, ctx, idx):
    return AtIdxV(self.arr, idx)


class AtIdxV(Val):
  def __init__(self, arr, idx):
    self.arr, self.idx = arr, idx

  def method(self, ctx, name, args, kwargs):
    if name == 'set':
      ctx.tags.setdefault('at_set', []).append((self.arr, self.idx, args[0]))
      return IdxV(z3.Real('cm_entry'), ('cls', 'cls2'))
    raise Unsupported(name)


def v_confusion(p, eng):
  def body(ctx):
    ctx.assume(NCLS >= 1)
    module_frame(ctx, M)
    eng.globals['jnp'].attrs['zeros'] = Handler(lambda c, shape: ZerosV(shape), 'jnp.zeros')
    cls = ctx.lookup('ConfusionMatrix')
    selfr = ctx.alloc(ObjCell(cls, dict(num_classes=NCLS, target_key='y', pred_key=None), owner='param'))
    ex = ctx.alloc(DictCell([('y', IdxV(TGT(z3.IntVal(0)), ()))], owner='param'))
    try:
      kind = 'return'
      st = eng.call_method(ctx, selfr, 'evaluate_example', [ex, IdxV(SC(z3.IntVal(0), CLS), ('cls',))])
    except RaiseSig as e:
      ctx.oblige('cm.noraise', False, detail='raises although num_classes matches')
      return
    sets = ctx.tags.get('at_set', [])
    ok = len(sets) == 1 and isinstance(sets[0][0], ZerosV) and isinstance(sets[0][1], tuple) and len(sets[0][1]) == 2
    ctx.oblige('cm.shape', ok, detail='one entry of a zero matrix is set')
    if not ok:
      return
    row, col = sets[0][1]
    ctx.oblige('cm.one', z3.And(as_idx(row).num() == z3.ToReal(TGT(z3.IntVal(0))),
                                as_idx(col).num() == z3.ToReal(ARGMAX(z3.IntVal(0))), to_z3(sets[0][2]) == 1),
               detail='exactly one count, at (target, predicted = first argmax): trace / total is the accuracy')
  p.verify('ConfusionMatrix', eng, body)


class ZerosV(IdxV):
  def __init__(self, shape):
    super().__init__(z3.RealVal(0), ('cls', 'cls2'))
    self.shape = shape


def v_per_domain(p, eng):
  def body(ctx):
    module_frame(ctx, M)
    D = z3.Int('domain')   # arbitrary row of the per-domain statistic
    did = z3.Int('domain_id')
    base_a, base_w = z3.Reals('base_accum base_weight')
    MS = ctx.lookup('MeanStat')

    class BaseMetric(Val):
      def method(self, c, name, args, kwargs):
        if name == 'evaluate_example':
          return c.alloc(ObjCell(MS, dict(accum=IdxV(base_a, ()), weight=IdxV(base_w, ())), label='base stat'))
        if name == 'zero':
          return c.alloc(ObjCell(MS, dict(accum=IdxV(z3.RealVal(0), ()), weight=IdxV(z3.RealVal(0), ())), label='zero'))
        raise Unsupported(name)
    eng.globals['jax'].attrs['nn'].attrs['one_hot'] = Handler(
        lambda c, x, n, dtype=None: IdxV(to_z3(x.val) == D, ('dom',), True), 'one_hot')
    eng.globals['apply_mask'] = Handler(lambda c, m, a, b: where_idx(m, a, b), 'apply_mask')
    from .C05 import c_tree_map_stats
    eng.globals['jax'].attrs['tree_util'] = Module('jax.tree_util', {'tree_map': Handler(c_tree_map_stats, 'tree_map')})
    eng.globals['jnp'].attrs['expand_dims'] = Handler(lambda c, a, axis=None: a, 'expand_dims')
    cls = ctx.lookup('PerDomainMetric')
    selfr = ctx.alloc(ObjCell(cls, dict(base=BaseMetric(), num_domains=z3.Int('num_domains'),
                                        domain_id_key='domain_id'), owner='param'))
    ex = ctx.alloc(DictCell([('domain_id', IdxV(did, ()))], owner='param'))
    st = eng.call_method(ctx, selfr, 'evaluate_example', [ex, IdxV(SC(z3.IntVal(0), CLS), ('cls',))])
    f = stat_fields(ctx, st)
    ctx.oblige('perdomain.restrict', z3.And(
        as_idx(f['accum']).num() == z3.If(did == D, base_a, 0), as_idx(f['weight']).num() == z3.If(did == D, base_w, 0)),
        detail="row d of the per-domain statistic is the base statistic if d is the example's domain, else the base zero")
  p.verify('PerDomainMetric', eng, body)


def v_per_domain_fp(p, eng):
  """Same contract in float32 with a base statistic that may be +-inf (a target under a -inf logit mask): selecting the
  row must not do arithmetic on the unselected rows (0 * inf = NaN would poison every other domain)."""
  from .C11 import FPV, fpv, F32
  from .C05 import c_tree_map_stats

  class FA(FPV):
    def getattr(self, ctx, name):
      if name == 'ndim':
        return 0
      return super().getattr(ctx, name)

  class MaskV(Val):
    """one_hot(domain_id, num_domains) at row D: boolean (dtype=jnp.bool_) or 0.0 / 1.0"""

    def __init__(self, c, as_bool):
      self.c, self.as_bool = c, as_bool

    def num(self):
      return z3.If(self.c, z3.FPVal(1.0, F32), z3.FPVal(0.0, F32))

    def binop(self, ctx, op, other, reflected):
      return FA(self.num()).binop(ctx, op, other, reflected)

  def body(ctx):
    module_frame(ctx, M)
    D, did = z3.Int('domain'), z3.Int('domain_id')
    ba, bw = z3.FP('base_accum32', F32), z3.FP('base_weight32', F32)
    ctx.model_vars.update(domain=D, domain_id=did, base_accum=ba, base_weight=bw)
    ctx.assume(z3.And(z3.Not(z3.fpIsNaN(ba)), z3.Not(z3.fpIsNaN(bw)), z3.Not(z3.fpIsInf(bw))))
    MS = ctx.lookup('MeanStat')

    class BaseMetric(Val):
      def method(self, c, name, args, kwargs):
        if name == 'evaluate_example':
          return c.alloc(ObjCell(MS, dict(accum=FA(ba), weight=FA(bw)), label='base stat'))
        if name == 'zero':
          return c.alloc(ObjCell(MS, dict(accum=FA(z3.FPVal(0.0, F32)), weight=FA(z3.FPVal(0.0, F32))), label='zero'))
        raise Unsupported(name)

    def one_hot(c, x, n, dtype=None):
      xv = x.val if hasattr(x, 'val') else x
      return MaskV(to_z3(xv) == D, dtype is not None and 'bool' in str(dtype))

    def where(c, m, a, b):
      cond = m.c if isinstance(m, MaskV) else m
      return FA(z3.If(cond, fpv(a).t, fpv(b).t))
    eng.globals['jax'].attrs['nn'].attrs['one_hot'] = Handler(one_hot, 'one_hot')
    eng.globals['apply_mask'] = Handler(where, 'apply_mask')
    eng.globals['jnp'].attrs['where'] = Handler(where, 'jnp.where')
    eng.globals['jnp'].attrs['bool_'] = 'bool_'
    eng.globals['jax'].attrs['tree_util'] = Module('jax.tree_util', {'tree_map': Handler(c_tree_map_stats, 'tree_map')})
    eng.globals['jnp'].attrs['expand_dims'] = Handler(lambda c, a, axis=None: a, 'expand_dims')
    cls = ctx.lookup('PerDomainMetric')
    selfr = ctx.alloc(ObjCell(cls, dict(base=BaseMetric(), num_domains=z3.Int('num_domains'), domain_id_key='domain_id'),
                              owner='param'))
    ex = ctx.alloc(DictCell([('domain_id', IdxV(did, ()))], owner='param'))
    st = eng.call_method(ctx, selfr, 'evaluate_example', [ex, IdxV(SC(z3.IntVal(0), CLS), ('cls',))])
    f = stat_fields(ctx, st)
    ok = isinstance(f.get('accum'), FPV) and isinstance(f.get('weight'), FPV)
    ctx.oblige('perdomain.fp.shape', ok)
    if not ok:
      return
    zero = z3.FPVal(0.0, F32)
    ctx.oblige('perdomain.restrict.fp', z3.And(z3.fpEQ(f['accum'].t, z3.If(did == D, ba, zero)),
                                               z3.fpEQ(f['weight'].t, z3.If(did == D, bw, zero))),
               detail="float32, base statistic possibly +-inf: row d is the base statistic if d is the example's domain, else exactly 0 "
                      '(no NaN from 0 * inf in the other domains)')
  p.verify('PerDomainMetric[float32]', eng, body)


def build(p):
  D = 'native/C14.py'
  p.native('', D, 'metrics')
  eng = Engine(globals14())
  eng.sources = [M, U]
  v_target_weight(p, eng)
  v_sequence_metrics(p, eng)
  v_classification(p, eng)
  v_confusion(p, Engine(globals14()))
  e2 = Engine(globals14())
  e2.sources = [M, U]
  v_per_domain(p, e2)
  e3 = Engine(globals14())
  e3.sources = [M, U]
  v_per_domain_fp(p, e3)
  p.trust('T-JNP: argmax returns the FIRST maximal index; argsort is stable ascending; x[::-1] reverses; x[:k] follows Python '
          'slice clamping; any(sorted[:kept] == t) is membership of t among the kept leading positions; one_hot, log_softmax, '
          '.at[i, j].set(v)',
          'index-array model: an array is its entry at arbitrary (position, class); reductions are opaque values whose '
          'reduced expression is recorded and compared pointwise with the independent definition',
          'masked_target_values / oov_target_values tuples of length 0..2 (the loops over them are uniform)')
  p.not_covered.append('extreme magnitudes (overflow of log_softmax to inf) — floating point of XLA')
  p.not_covered.append('float32 saturation of log_softmax (losses exactly 0 / inf): the sequence cross-entropy contracts are over reals')
