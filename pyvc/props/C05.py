"""C05 — evaluation is invariant to batching and padding (metric monoid).

Functions under contract: util.safe_div; MeanStat.{new, result, merge, reduce};
SumStat.{new, result, merge, reduce}; apply_mask; evaluate_batch;
models._evaluate_model_step; evaluate_model; zero() of every built-in metric.
"""
from __future__ import annotations

import ast
import z3

from ..script import *  # noqa
from ..lib_real import *  # noqa

M = 'fedjax/core/metrics.py'
U = 'fedjax/core/util.py'
MO = 'fedjax/core/models.py'
I = z3.IntSort()
RA = z3.ArraySort(I, R)
SUMROWS = z3.Function('SUMROWS', RA, R)   # jnp.sum over the leading (row) axis
ROW = z3.Int('row')                       # an arbitrary row index


def c_sum(ctx, x, axis=0, **kw):
  """jnp.sum over rows: the argument's value is an expression in ROW."""
  v = tree_val(ctx, x) if isinstance(x, Ref) else x
  v = to_z3(v)
  if v.sort() != R:
    v = z3.ToReal(v)
  t = new_tree(ctx, SUMROWS(z3.Lambda([ROW], v)))
  t.cell(ctx).sum_of = v
  return t


def c_array_nocopy(ctx, x, copy=None, dtype=None):
  return x


def metric_globals():
  g = real_globals()
  for mod in (g['jnp'], g['jax'].attrs['numpy']):
    mod.attrs['sum'] = Handler(c_sum, 'jnp.sum')
    mod.attrs['array'] = Handler(c_array_nocopy, 'jnp.array')
    mod.attrs['expand_dims'] = Handler(lambda ctx, a, axis=None: a, 'jnp.expand_dims')
    mod.attrs['bool_'] = 'bool_'
  g['util'] = SrcModule(U)
  g['dataclasses'] = Module('dataclasses', {'dataclass': Handler(lambda ctx, c=None, **k: c, 'dataclass')})
  return g


def module_frame(ctx, relpath):
  ctx.push_frame(())
  f = FuncV(ast.parse('def _m(): pass').body[0], (), name='<module>')
  f.relpath = relpath
  ctx.cur_frame()['$func'] = f


def stat_fields(ctx, s):
  c = s.cell(ctx)
  return {k: (tree_val(ctx, v) if isinstance(v, Ref) else v) for k, v in c.fields.items()}


def inD(a, w):
  return z3.Or(z3.And(a == 0, w == 0), w > 0)


def v_safe_div(p):
  ex = p.extract(U, 'safe_div')
  eng = Engine(real_globals())
  a, b = z3.Reals('a b')

  def body(ctx):
    ctx.model_vars.update(a=a, b=b)
    kind, r = eng.run_function(ctx, ex.funcv(), [new_tree(ctx, a, 'param'), new_tree(ctx, b, 'param')])
    ctx.oblige('safediv.noraise', kind == 'return')
    ctx.oblige('safediv.def', tree_val(ctx, r) == z3.If(b != 0, a / b, 0),
               detail='a / b, and 0 where b == 0')
  p.verify('safe_div', eng, body)

  def body_fp(ctx):
    fa, fb = z3.FP('a', FP32), z3.FP('b', FP32)
    ctx.model_vars.update(a=fa, b=fb)
    fin = lambda x: z3.And(z3.Not(z3.fpIsNaN(x)), z3.Not(z3.fpIsInf(x)))
    ctx.assume(z3.And(fin(fa), fin(fb)))
    kind, r = eng.run_function(ctx, ex.funcv(), [new_tree(ctx, fa, 'param'), new_tree(ctx, fb, 'param')])
    v = tree_val(ctx, r)
    ctx.oblige('result.nonan', z3.Not(z3.fpIsNaN(v)), detail='IEEE float32: finite a, b never give NaN (0/0 -> 0)')
    ctx.oblige('result.zero', z3.Implies(z3.fpIsZero(fb), z3.fpIsZero(v)),
               detail='IEEE float32: an empty / fully masked input (weight 0) yields exactly 0')
  p.verify('safe_div[float32]', eng, body_fp)


def v_stats(p):
  for n in ('MeanStat.new', 'MeanStat.result', 'MeanStat.merge', 'MeanStat.reduce',
            'SumStat.new', 'SumStat.result', 'SumStat.merge', 'SumStat.reduce'):
    p.extract(M, n)
  eng = Engine(metric_globals())
  eng.sources = [M, U]
  a1, w1, a2, w2, a3, w3 = z3.Reals('a1 w1 a2 w2 a3 w3')

  def mean(ctx, a, w):
    MS = ctx.lookup('MeanStat')
    return eng.call_value(ctx, MS.getattr(ctx, 'new'), [a, w], {})

  def body_mean(ctx):
    ctx.model_vars.update(a1=a1, w1=w1, a2=a2, w2=w2, a3=a3, w3=w3)
    module_frame(ctx, M)
    s = mean(ctx, a1, w1)
    f = stat_fields(ctx, s)
    ctx.oblige('new.sanitize', z3.And(f['weight'] == z3.If(w1 > 0, w1, 0),
                                      f['accum'] == z3.If(w1 > 0, a1, 0), inD(f['accum'], f['weight'])),
               detail='new() maps values outside the domain to the identity and is the identity on the domain')
    # in-domain statistics
    ctx.assume(z3.And(inD(a1, w1), inD(a2, w2), inD(a3, w3)))
    x, y, z = mean(ctx, a1, w1), mean(ctx, a2, w2), mean(ctx, a3, w3)
    zero = mean(ctx, 0.0, 0.0)
    fz = stat_fields(ctx, zero)
    ctx.oblige('zero.def', z3.And(fz['accum'] == 0, fz['weight'] == 0))
    xy = eng.call_method(ctx, x, 'merge', [y])
    yx = eng.call_method(ctx, y, 'merge', [x])
    fxy, fyx = stat_fields(ctx, xy), stat_fields(ctx, yx)
    ctx.oblige('merge.closed', inD(fxy['accum'], fxy['weight']))
    ctx.oblige('merge.def', z3.And(fxy['accum'] == a1 + a2, fxy['weight'] == w1 + w2),
               detail='on the domain merge adds the weighted sums and the weights')
    ctx.oblige('merge.comm', z3.And(fxy['accum'] == fyx['accum'], fxy['weight'] == fyx['weight']))
    l = stat_fields(ctx, eng.call_method(ctx, xy, 'merge', [z]))
    r = stat_fields(ctx, eng.call_method(ctx, x, 'merge', [eng.call_method(ctx, y, 'merge', [z])]))
    ctx.oblige('merge.assoc', z3.And(l['accum'] == r['accum'], l['weight'] == r['weight']))
    xz = stat_fields(ctx, eng.call_method(ctx, x, 'merge', [zero]))
    zx = stat_fields(ctx, eng.call_method(ctx, zero, 'merge', [x]))
    ctx.oblige('merge.ident', z3.And(xz['accum'] == a1, xz['weight'] == w1, zx['accum'] == a1,
                                     zx['weight'] == w1), detail='zero is a two-sided identity')
    res = tree_val(ctx, eng.call_method(ctx, x, 'result', []))
    ctx.oblige('result.def', res == z3.If(w1 > 0, a1 / w1, 0),
               detail='weighted mean, 0 for the zero statistic')
    ctx.oblige('frame.stat', stat_fields(ctx, x)['accum'] == a1,
               detail='merge/result return new objects; operands unchanged')

  p.verify('MeanStat', eng, body_mean)

  # DTYPE: several built-in metrics pass a bool array as the weight (jnp.any(...)).
  # new() must hand back a numeric weight, otherwise merge computes bool + bool = OR.
  def body_bool(ctx):
    module_frame(ctx, M)
    wb = z3.Bool('weight_is_true')
    ctx.model_vars.update(weight_is_true=wb, a1=a1)
    wt = new_tree(ctx, z3.If(wb, z3.RealVal(1), z3.RealVal(0)), 'param', 'bool weight')
    wt.cell(ctx).is_bool = True
    s = mean(ctx, new_tree(ctx, a1, 'param', 'accum'), wt)
    c = s.cell(ctx)
    wout = c.fields['weight']
    ctx.oblige('new.promote', isinstance(wout, Ref) and not wout.cell(ctx).is_bool,
               detail='a bool weight is promoted to a numeric weight by new(): merging two such statistics adds '
                      'their weights instead of OR-ing them')
    s2 = mean(ctx, new_tree(ctx, a2, 'param'), wt)
    f = stat_fields(ctx, eng.call_method(ctx, s, 'merge', [s2]))
    ctx.oblige('merge.boolweights', f['weight'] == 2 * z3.If(wb, z3.RealVal(1), z3.RealVal(0)),
               detail='two single-example statistics with weight True merge to weight 2')
  p.verify('MeanStat[bool weight]', eng, body_bool)

  # reduce over a vector of in-domain statistics: sanitisation is a no-op, so
  # reduce is the pair of sums => reduce(u ++ v) = merge(reduce u, reduce v)
  A = z3.Function('stat_a', I, R)
  W = z3.Function('stat_w', I, R)
  SA = z3.Function('PREFIX_A', I, R)
  SW = z3.Function('PREFIX_W', I, R)
  k = z3.Int('k')
  p.oblige('reduce.lemma.step', [inD(A(k), W(k)), SW(k) >= 0, z3.Implies(SW(k) == 0, SA(k) == 0),
                                 SA(k + 1) == SA(k) + A(k), SW(k + 1) == SW(k) + W(k)],
           z3.And(SW(k + 1) >= 0, z3.Implies(SW(k + 1) == 0, SA(k + 1) == 0)), kind='lemma',
           detail='inductive step: partial sums of in-domain statistics stay in the domain '
                  '(sum of weights 0 => sum of accums 0)', fn='MeanStat.reduce')
  p.oblige('reduce.lemma.base', [SA(0) == 0, SW(0) == 0],
           z3.And(SW(0) >= 0, z3.Implies(SW(0) == 0, SA(0) == 0)), kind='lemma', fn='MeanStat.reduce')

  def body_reduce(ctx):
    module_frame(ctx, M)
    MS = ctx.lookup('MeanStat')
    acc = new_tree(ctx, A(ROW), 'param', 'accum vector')
    wt = new_tree(ctx, W(ROW), 'param', 'weight vector')
    s = ctx.alloc(ObjCell(MS, dict(accum=acc, weight=wt), owner='param', label='stat vector'))
    r = eng.call_method(ctx, s, 'reduce', [])
    f = stat_fields(ctx, r)
    SUMA, SUMW = SUMROWS(z3.Lambda([ROW], A(ROW))), SUMROWS(z3.Lambda([ROW], W(ROW)))
    ctx.oblige('reduce.def', z3.And(f['weight'] == z3.If(SUMW > 0, SUMW, 0),
                                    f['accum'] == z3.If(SUMW > 0, SUMA, 0)),
               detail='reduce = new(sum of accums, sum of weights) over the row axis')
    # with the lemma (total weight >= 0, and 0 only if the total accum is 0):
    ctx.assume(z3.And(SUMW >= 0, z3.Implies(SUMW == 0, SUMA == 0)))
    ctx.oblige('reduce.hom', z3.And(f['weight'] == SUMW, f['accum'] == SUMA),
               detail='for in-domain rows reduce is exactly (sum a_i, sum w_i): additive over any split of the rows')
  p.verify('MeanStat.reduce', eng, body_reduce)

  def body_sum(ctx):
    module_frame(ctx, M)
    SS = ctx.lookup('SumStat')
    new = lambda v: eng.call_value(ctx, SS.getattr(ctx, 'new'), [v], {})
    x, y, z, zero = new(a1), new(a2), new(a3), new(0.0)
    val = lambda s: stat_fields(ctx, s)['accum']
    m = lambda u, v: eng.call_method(ctx, u, 'merge', [v])
    ctx.oblige('sum.merge.def', val(m(x, y)) == a1 + a2)
    ctx.oblige('sum.merge.comm', val(m(x, y)) == val(m(y, x)))
    ctx.oblige('sum.merge.assoc', val(m(m(x, y), z)) == val(m(x, m(y, z))))
    ctx.oblige('sum.merge.ident', z3.And(val(m(x, zero)) == a1, val(m(zero, x)) == a1))
    ctx.oblige('sum.result', tree_val(ctx, eng.call_method(ctx, x, 'result', [])) == a1)
    vec = ctx.alloc(ObjCell(SS, dict(accum=new_tree(ctx, A(ROW), 'param')), owner='param'))
    ctx.oblige('sum.reduce', val(eng.call_method(ctx, vec, 'reduce', [])) ==
               SUMROWS(z3.Lambda([ROW], A(ROW))))
  p.verify('SumStat', eng, body_sum)


class MetricV(Val):
  """An arbitrary metric whose per-example statistic is a MeanStat/SumStat."""

  def __init__(self, kind, ex_a, ex_w):
    self.kind, self.ex_a, self.ex_w = kind, ex_a, ex_w

  def method(self, ctx, name, args, kwargs):
    cls = ctx.lookup('MeanStat' if self.kind == 'mean' else 'SumStat')
    new = cls.getattr(ctx, 'new')
    if name == 'zero':
      return ctx.engine.call_value(ctx, new, [0.0, 0.0] if self.kind == 'mean' else [0.0], {})
    raise Unsupported(f'metric.{name}')

  def getattr(self, ctx, name):
    if name == 'evaluate_example':
      return Handler(lambda c, ex, pred: self.example_stat(c), 'evaluate_example')
    raise Unsupported(f'metric.{name}')

  def example_stat(self, ctx):
    # the single-example statistic of row ROW (in the metric's domain)
    cls = ctx.lookup('MeanStat' if self.kind == 'mean' else 'SumStat')
    if self.kind == 'mean':
      return ctx.alloc(ObjCell(cls, dict(accum=new_tree(ctx, self.ex_a(ROW)),
                                         weight=new_tree(ctx, self.ex_w(ROW))), label='row stat'))
    return ctx.alloc(ObjCell(cls, dict(accum=new_tree(ctx, self.ex_a(ROW))), label='row stat'))


def c_vmap(ctx, f, *a, **k):
  # T-JAX: vmap(f)(xs)[i] = f(xs[i]) — evaluated at the arbitrary row ROW
  return Handler(lambda c, *args: c.engine.call_value(c, f, list(args), {}), 'vmapped')


def c_tree_map_stats(ctx, f, *trees, is_leaf=None):
  """tree_map over Stat dataclasses (pytree nodes): field by field."""
  if all(isinstance(t, Ref) and isinstance(t.cell(ctx), ObjCell) for t in trees):
    if is_leaf is not None:
      return ctx.engine.call_value(ctx, f, list(trees), {})
    cells = [t.cell(ctx) for t in trees]
    names = list(cells[0].fields)
    out = {}
    for n in names:
      out[n] = ctx.engine.call_value(ctx, f, [c.fields[n] for c in cells], {})
    return ctx.alloc(ObjCell(cells[0].cls, out, label='mapped stat'))
  if all(isinstance(t, Ref) and isinstance(t.cell(ctx), DictCell) for t in trees):
    keys = [k for k, _ in trees[0].cell(ctx).items]
    res = DictCell()
    ref = ctx.alloc(res)
    for kk in keys:
      vals = [ctx.engine.getitem(ctx, t, kk) for t in trees]
      ctx.engine.setitem(ctx, ref, kk, c_tree_map_stats(ctx, f, *vals, is_leaf=is_leaf))
    return ref
  return c_tree_map(ctx, f, *trees)


def eval_globals():
  g = metric_globals()
  tm = Handler(c_tree_map_stats, 'tree_map')
  g['jax'].attrs['vmap'] = Handler(c_vmap, 'jax.vmap')
  g['jax'].attrs['tree_util'] = Module('jax.tree_util', {'tree_map': tm})
  g['jax'].attrs['tree'] = Module('jax.tree', {'map': tm})
  return g


def v_evaluate_batch(p):
  p.extract(M, 'evaluate_batch')
  p.extract(M, 'apply_mask')
  g = eval_globals()

  class ShapedV(Val):
    pass
  eng = Engine(g)
  eng.sources = [M, U]
  EA = z3.Function('example_accum', I, R)
  EW = z3.Function('example_weight', I, R)
  MASK = z3.Function('mask', I, z3.BoolSort())

  # apply_mask uses len(a.shape): arrays here are 1-D over rows
  def c_apply_mask(ctx, mask, a, b):
    # contract proved below (body_apply_mask): where(mask[row], a, b) on the leading axis
    return new_tree(ctx, z3.If(tree_val_b(ctx, mask), to_z3(num(ctx, a)), to_z3(num(ctx, b))))

  def tree_val_b(ctx, m):
    return m.term if isinstance(m, MaskRowV) else zbool(m)

  class MaskRowV(Val):
    def __init__(self, term):
      self.term = term

  for kind in ('mean', 'sum'):
    def body(ctx, kind=kind):
      module_frame(ctx, M)
      ctx.assume(z3.ForAll([ROW], inD(EA(ROW), EW(ROW))))
      metric = MetricV(kind, EA, EW)
      eb = ctx.lookup('evaluate_batch')
      eng.globals['apply_mask'] = Handler(c_apply_mask, 'apply_mask')
      try:
        r = eng.call_value(ctx, eb, [metric, object.__new__(Val), object.__new__(Val),
                                     MaskRowV(MASK(ROW))], {})
      finally:
        del eng.globals['apply_mask']
      f = stat_fields(ctx, r)
      want_a = SUMROWS(z3.Lambda([ROW], z3.If(MASK(ROW), EA(ROW), z3.RealVal(0))))
      if kind == 'mean':
        want_w = SUMROWS(z3.Lambda([ROW], z3.If(MASK(ROW), EW(ROW), z3.RealVal(0))))
        ctx.oblige('batch.mask', z3.And(f['weight'] == z3.If(want_w > 0, want_w, 0),
                                        f['accum'] == z3.If(want_w > 0, want_a, 0)),
                   detail='evaluate_batch = reduce over rows of (mask ? single-example stat : zero): padded rows are '
                          'replaced by zero() whatever they contain')
      else:
        ctx.oblige('batch.mask', f['accum'] == want_a,
                   detail='evaluate_batch = sum over rows of (mask ? single-example stat : zero)')
      # fully masked batch: every row is the zero statistic
      ctx.assume(z3.ForAll([ROW], z3.Not(MASK(ROW))))
      zero_vec = SUMROWS(z3.Lambda([ROW], z3.RealVal(0)))
      ctx.assume(zero_vec == 0)  # sum of zeros
      ctx.oblige('batch.allmasked', z3.And(*[v == 0 for v in f.values()]),
                 detail='an all-False mask yields the zero statistic')
    p.verify(f'evaluate_batch[{kind}]', eng, body)

  # no mask: plain reduce of the per-row stats
  def body_nomask(ctx):
    module_frame(ctx, M)
    metric = MetricV('mean', EA, EW)
    eb = ctx.lookup('evaluate_batch')
    r = eng.call_value(ctx, eb, [metric, object.__new__(Val), object.__new__(Val)], {})
    f = stat_fields(ctx, r)
    sw = SUMROWS(z3.Lambda([ROW], EW(ROW)))
    ctx.oblige('batch.nomask', f['weight'] == z3.If(sw > 0, sw, 0))
  p.verify('evaluate_batch[no mask]', eng, body_nomask)

  # apply_mask itself: argument order
  ex = p.extract(M, 'apply_mask')

  class ArrShapeV(Val):
    def __init__(self, val, rank):
      self.val, self.rank = val, rank

    def getattr(self, ctx, name):
      if name == 'shape':
        return tuple(range(self.rank))
      raise Unsupported(name)

  def c_where3(ctx, c, a, b):
    return new_tree(ctx, z3.If(c.term, a.val, b.val))

  g2 = eval_globals()
  for mod in (g2['jnp'],):
    mod.attrs['where'] = Handler(c_where3, 'jnp.where')
    mod.attrs['expand_dims'] = Handler(lambda ctx, m, axes: m, 'jnp.expand_dims')
  eng2 = Engine(g2)
  x, y = z3.Reals('x y')

  def body_apply_mask(ctx):
    kind, r = eng2.run_function(ctx, ex.funcv(), [MaskRowV(MASK(ROW)), ArrShapeV(x, 1), ArrShapeV(y, 2)])
    ctx.oblige('applymask.def', kind == 'return' and tree_val(ctx, r) == z3.If(MASK(ROW), x, y),
               detail='apply_mask(mask, a, b) = a on rows where the mask is True, b elsewhere')
  p.verify('apply_mask', eng2, body_apply_mask)


def v_metric_zeros(p):
  """zero() of every built-in metric is the zero of the Stat type its
  evaluate_example returns (checked on the real class bodies)."""
  import re
  from ..extract import parse
  src, tree = parse(M)
  eng = Engine(metric_globals())
  eng.sources = [M, U]
  classes = [n for n in tree.body if isinstance(n, ast.ClassDef)]
  metric_classes = []
  for c in classes:
    names = {m.name for m in c.body if isinstance(m, ast.FunctionDef)}
    if {'zero', 'evaluate_example'} <= names and c.name not in ('Metric',):
      metric_classes.append(c)
  p.oblige('zero.classes', [], z3.BoolVal(len(metric_classes) >= 14), kind='post',
           detail=f'{len(metric_classes)} built-in metric classes found', fn='metrics')
  for c in metric_classes:
    if c.name in ('PerDomainMetric', 'ConfusionMatrix'):
      continue
    ev = [m for m in c.body if isinstance(m, ast.FunctionDef) and m.name == 'evaluate_example'][0]
    rets = {ast.unparse(r.value.func) for r in ast.walk(ev) if isinstance(r, ast.Return)
            and isinstance(r.value, ast.Call)}
    p.extract(M, f'{c.name}.zero')

    def body(ctx, c=c, rets=rets):
      module_frame(ctx, M)
      cls = ctx.lookup(c.name)
      selfr = ctx.alloc(ObjCell(cls, {}, owner='param', label=c.name))
      z = eng.call_method(ctx, selfr, 'zero', [])
      ok = isinstance(z, Ref) and isinstance(z.cell(ctx), ObjCell)
      ctx.oblige('zero.type', ok)
      if not ok:
        return
      zc = z.cell(ctx)
      ctx.oblige('zero.shape', {f'{zc.cls.name}.new'} == rets,
                 detail=f'{c.name}: zero() has the Stat type evaluate_example returns ({sorted(rets)})')
      f = stat_fields(ctx, z)
      ctx.oblige('zero.ident', z3.And(*[to_z3(v) == 0 for v in f.values()]),
                 detail=f'{c.name}: zero() is the identity statistic (all components 0)')
    p.verify(f'{c.name}.zero', eng, body)


def v_metric_identity(p):
  """evaluate_batch / evaluate_model are jitted with the Metric as a STATIC argument: the trace cache is keyed by the
  metric's == / hash, so every constructor field must take part in them (no compare=False / hash=False / eq=False)."""
  import ast
  from ..extract import parse
  _, tree = parse(M)
  bad, n_cls = [], 0
  for cls in [n for n in tree.body if isinstance(n, ast.ClassDef)]:
    decs = [ast.unparse(d) for d in cls.decorator_list]
    if not any('dataclass' in d for d in decs):
      continue
    n_cls += 1
    for d in cls.decorator_list:
      if isinstance(d, ast.Call):
        for k in d.keywords:
          if k.arg in ('eq', 'unsafe_hash') and isinstance(k.value, ast.Constant) and k.value.value is False:
            bad.append(f'{cls.name}: @dataclass({k.arg}=False)')
    for st in cls.body:
      v = getattr(st, 'value', None)
      if isinstance(st, (ast.AnnAssign, ast.Assign)) and isinstance(v, ast.Call) and ast.unparse(v.func).endswith('field'):
        for k in v.keywords:
          if k.arg in ('compare', 'hash') and isinstance(k.value, ast.Constant) and k.value.value is False:
            bad.append(f'{cls.name}.{ast.unparse(st.target) if isinstance(st, ast.AnnAssign) else ast.unparse(st.targets[0])}: '
                       f'field({k.arg}=False)')
  p.oblige('metric.static.identity', [], z3.BoolVal(not bad and n_cls >= 10), kind='frame', fn='metrics.py',
           detail=f'all fields of the {n_cls} Metric / Stat dataclasses take part in == and hash (static-argument cache key of the '
                  f'jitted evaluation): {bad}')
  _, mtree = parse(MO) if 'MO' in globals() else (None, None)


def build(p):
  D = 'native/C05.py'
  for fn in ('MeanStat', 'SumStat', 'safe_div', 'evaluate_batch', 'apply_mask', '_evaluate_model_step',
             'evaluate_model'):
    p.native(fn, D, 'monoid')
  v_safe_div(p)
  v_stats(p)
  v_evaluate_batch(p)
  v_metric_zeros(p)
  v_metric_identity(p)
  from . import C05_model
  C05_model.build(p)
  p.trust('T-JAX: vmap(f)(xs)[i] = f(xs[i]); tree_map over Stat dataclasses maps their fields; jnp.sum over the row axis '
          'is an uninterpreted SUMROWS with sum of zeros = 0 and additivity over splits of the rows',
          'REAL-ALG for the algebra; IEEE float32 (z3 FP) for safe_div NaN-freedom',
          'induction principle for reduce.lemma (base and step are discharged)')
  p.not_covered.append('metrics supplied by users; PerDomainMetric/ConfusionMatrix zero() (broadcast / zeros matrix) are '
                       'covered by the bounded native check only')
