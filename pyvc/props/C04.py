"""C04 — shuffled batching: exact count, without replacement, seeded.

Functions under contract: ShuffleRepeatBatchView.__init__ / __iter__.
"""
from __future__ import annotations

import z3

from ..script import *  # noqa
from ..lib_data import *  # noqa

F = 'fedjax/core/client_datasets.py'
I = z3.IntSort()

ARANGE = z3.Function('ARANGE', I, IntSeq)             # np.arange(n)
ZEROS = z3.Function('ZEROS', I, IntSeq)               # np.zeros((n,), int32)
RngState = z3.DeclareSort('RngState')
RS = z3.Function('RS', I, RngState)                   # RandomState(seed) for seed != None
SHUF = z3.Function('SHUF', IntSeq, RngState, IntSeq)  # buf after rng.shuffle(buf)
NEXT = z3.Function('NEXT', RngState, RngState)
IsPerm = z3.Function('IsPerm', IntSeq, I, z3.BoolSort())  # a permutation of 0..n-1


def axioms():
  s, t = z3.Consts('ax_s ax_t', IntSeq)
  n, a, l = z3.Ints('ax_n ax_a ax_l')
  st = z3.Const('ax_st', RngState)
  return [
      z3.ForAll([n], z3.Implies(n >= 0, z3.And(IsPerm(ARANGE(n), n),
                                                z3.Length(ARANGE(n)) == n)),
                patterns=[ARANGE(n)]),
      z3.ForAll([n], z3.Implies(n >= 0, z3.Length(ZEROS(n)) == n), patterns=[ZEROS(n)]),
      # T-NP: RandomState.shuffle permutes its argument in place
      z3.ForAll([s, st, n], z3.Implies(IsPerm(s, n), IsPerm(SHUF(s, st), n)),
                patterns=[IsPerm(SHUF(s, st), n)]),
      z3.ForAll([s, st], z3.Length(SHUF(s, st)) == z3.Length(s), patterns=[SHUF(s, st)]),
      z3.ForAll([s, n], z3.Implies(IsPerm(s, n), z3.And(InRange(s, n), z3.Length(s) == n)),
                patterns=[IsPerm(s, n)]),
      z3.ForAll([s, n, a, l], z3.Implies(InRange(s, n), InRange(z3.SubSeq(s, a, l), n)),
                patterns=[InRange(z3.SubSeq(s, a, l), n)]),
      z3.ForAll([s, t, n], InRange(z3.Concat(s, t), n) == z3.And(InRange(s, n), InRange(t, n)),
                patterns=[InRange(z3.Concat(s, t), n)]),
      z3.ForAll([n], InRange(z3.Empty(IntSeq), n)),
  ]


class RngCell(Cell):
  """np.random.RandomState object: `state` is its abstract state."""

  def __init__(self, state, fresh_here):
    self.state = state
    self.fresh_here = fresh_here
    self.owner = 'local'
    self.label = 'rng'

  def method(self, ctx, ref, name, args, kwargs):
    if name == 'shuffle':
      (buf,) = args
      if not (isinstance(buf, Ref) and isinstance(buf.cell(ctx), ListCell)):
        raise Unsupported('shuffle argument')
      bc = buf.cell(ctx)
      bc.check_write(ctx, buf, 'shuffle')
      ctx.set_cell(buf.addr, bc._with(SHUF(bc.seq, self.state)))
      nc = self.clone()
      nc.state = NEXT(self.state)
      ctx.set_cell(ref.addr, nc)
      ctx.ghost['nshuffle'] = ctx.ghost.get('nshuffle', z3.IntVal(0)) + 1
      ctx.ghost['shuffled_since'] = z3.BoolVal(True)
      return None
    raise Unsupported(f'RandomState.{name}')

  def havoc(self, ctx, base):
    c = self.clone()
    c.state = ctx.fresh(base + '_state', RngState)
    return c


def c_random_state(ctx, seed=None):
  if isinstance(seed, OptV):
    st = z3.If(seed.is_none, ctx.fresh('os_entropy', RngState), RS(to_z3(seed.val)))
  elif seed is None:
    st = ctx.fresh('os_entropy', RngState)
  else:
    st = RS(to_z3(seed))
  return ctx.alloc(RngCell(st, True))


def c_arange(ctx, n, dtype=None):
  ctx.oblige('arange.nonneg', to_z3(n) >= 0, kind='definedness')
  return ctx.alloc(ListCell(ARANGE(to_z3(n)), INT, is_array=True, label='buf'))


def c_zeros(ctx, shape, dtype=None):
  if not (isinstance(shape, tuple) and len(shape) == 1):
    raise Unsupported('np.zeros shape')
  n = to_z3(shape[0])
  ctx.oblige('zeros.nonneg', n >= 0, kind='definedness',
             detail='ValueError: negative dimensions are not allowed')
  return ctx.alloc(ListCell(ZEROS(n), INT, is_array=True, label='indices'))


def view_globals():
  return {
      'np': Module('np', {
          'arange': Handler(c_arange, 'np.arange'),
          'zeros': Handler(c_zeros, 'np.zeros'),
          'int32': 'int32',
          'random': Module('np.random', {'RandomState': Handler(c_random_state,
                                                                'np.random.RandomState')}),
      }),
  }


def v_init(p):
  ex = p.extract(F, 'ShuffleRepeatBatchView.__init__')
  eng = Engine(view_globals())
  did = z3.Const('ds', DsId)
  N = z3.Length(ds_rows(did))
  B, E, S, seed = z3.Ints('batch_size num_epochs num_steps seed')
  e_none, s_none, seed_none, drop, skip = z3.Bools(
      'num_epochs_none num_steps_none seed_none drop_remainder skip_shuffle')
  hp_cls = ClassModel('ShuffleRepeatBatchHParams')

  def body(ctx):
    ctx.model_vars.update(N=N, batch_size=B, num_epochs=E, num_steps=S,
                          num_epochs_none=e_none, num_steps_none=s_none,
                          drop_remainder=drop)
    ctx.assume(z3.And(B >= 1, z3.Or(e_none, E >= 0), z3.Or(s_none, S >= 0)))
    hp = ctx.alloc(ObjCell(hp_cls, dict(
        batch_size=B, num_epochs=OptV(e_none, E), num_steps=OptV(s_none, S),
        drop_remainder=drop, seed=OptV(seed_none, seed), skip_shuffle=skip),
        owner='param', label='hparams'))
    selfr = ctx.alloc(ObjCell(None, {}, label='self'))
    ctx.init_stack.append(selfr.addr)
    kind, _ = eng.run_function(ctx, ex.funcv(), [selfr, DatasetV(did), hp])
    ctx.oblige('noraise', kind == 'return')
    f = ctx.heap[selfr.addr].fields
    need = ('_client_dataset', '_data_size', '_batch_size', '_num_steps', '_seed',
            '_skip_shuffle')
    ok = all(k in f for k in need)
    ctx.oblige('fields', ok)
    if not ok:
      return
    ctx.oblige('post.data_size', to_z3(f['_data_size']) == N)
    ctx.oblige('post.batch_size', to_z3(f['_batch_size']) == B)
    ctx.oblige('post.skip', zbool(f['_skip_shuffle']) == skip)
    sd = f['_seed']
    ctx.oblige('post.seed', isinstance(sd, OptV) and sd.is_none.eq(seed_none)
               and sd.val.eq(seed), detail='the seed is stored unchanged')
    k = f['_num_steps']
    T = N * E
    if k is None:
      ctx.oblige('steps.none', z3.And(e_none, s_none),
                 detail='unbounded exactly when both num_epochs and num_steps are None')
      return
    if isinstance(k, OptV):
      ctx.oblige('steps.notnone', z3.Not(k.is_none))
      k = k.val
    k = to_z3(k)
    ctx.oblige('steps.some', z3.Not(z3.And(e_none, s_none)))
    # documented count, stated without //
    ceil_k = z3.Int('ceil_k')   # the unique k with (k-1)*B < T <= k*B
    floor_k = z3.Int('floor_k')  # the unique k with k*B <= T < (k+1)*B
    by_epochs = z3.If(drop, z3.And(k * B <= T, T < (k + 1) * B),
                      z3.And(k * B >= T, (k - 1) * B < T))
    ctx.oblige('steps.epochs', z3.Implies(z3.And(z3.Not(e_none), s_none), by_epochs),
               detail='num_epochs only: as few batches as needed (ceil), or floor when dropping the remainder')
    ctx.oblige('steps.only', z3.Implies(z3.And(e_none, z3.Not(s_none)), k == S),
               detail='num_steps only: exactly num_steps batches')
    ke = z3.Int('ke')
    ke_def = z3.If(drop, z3.And(ke * B <= T, T < (ke + 1) * B),
                   z3.And(ke * B >= T, (ke - 1) * B < T))
    ctx.oblige('steps.min', z3.Implies(z3.And(z3.Not(e_none), z3.Not(s_none), ke_def),
                                       k == z3.If(S <= ke, S, ke)),
               detail='both set: the fewer of the two counts')

  p.verify('ShuffleRepeatBatchView.__init__', eng, body)


def v_iter(p):
  ex = p.extract(F, 'ShuffleRepeatBatchView.__iter__')
  eng = Engine(view_globals())
  did = z3.Const('ds', DsId)
  raw = ds_rows(did)
  N = z3.Length(raw)
  B, K, seed = z3.Ints('batch_size num_steps seed')
  k_none, seed_none, skip = z3.Bools('num_steps_none seed_none skip_shuffle')
  empty = z3.Empty(IntSeq)

  def partial(buf, i):
    return z3.If(i < N, z3.SubSeq(buf, 0, i), empty)

  def common(s):
    g = s.ctx.ghost
    buf, i = s['buf'], to_z3(s['i'])
    return dict(
        perm=z3.And(IsPerm(buf, N), z3.Length(buf) == N),
        pos=z3.And(0 <= i, i <= N, to_z3(s['buf_size']) == N),
        windows=z3.And(g['allperm'], g['allcyc']),
        cyclic=z3.Implies(skip, buf == ARANGE(N)),
        reshuffle=z3.Implies(z3.And(z3.Not(skip), i < N), g['shuffled_since']),
        count=z3.And(g['count'] == to_z3(s['num_steps']), g['count'] >= 0),
        full=g['allB'])

  def inv_outer(s):
    g = s.ctx.ghost
    buf, i = s['buf'], to_z3(s['i'])
    return dict(common(s), stream=g['emitted'] == z3.Concat(g['done'], partial(buf, i)),
                bound=z3.Implies(z3.Not(k_none), g['count'] <= K))

  def inv_inner(s):
    g = s.ctx.ghost
    buf, i = s['buf'], to_z3(s['i'])
    ind, filled = s['indices'], to_z3(s['filled'])
    return dict(
        common(s),
        shape=z3.And(z3.Length(ind) == B, 0 <= filled, filled <= B,
                     to_z3(s['desired_size']) == B),
        emitted=g['emitted'] == s.old('$emitted'),
        inrange=InRange(z3.SubSeq(ind, 0, filled), N),
        stream=z3.Concat(g['emitted'], z3.SubSeq(ind, 0, filled)) ==
        z3.Concat(g['done'], partial(buf, i)),
        bound=z3.Implies(z3.Not(k_none), g['count'] < K))

  def ghost_step_inner(s):
    # a window (epoch) completes exactly when the buffer is used up
    g = s.ctx.ghost
    buf, i = s['buf'], to_z3(s['i'])
    done_now = i == N
    g['allperm'] = z3.And(g['allperm'], z3.Implies(done_now, IsPerm(buf, N)))
    g['allcyc'] = z3.And(g['allcyc'], z3.Implies(z3.And(done_now, skip), buf == ARANGE(N)))
    g['done'] = z3.If(done_now, z3.Concat(g['done'], buf), g['done'])
    g['nwin'] = g['nwin'] + z3.If(done_now, 1, 0)
    g['shuffled_since'] = z3.If(done_now, z3.BoolVal(False), g['shuffled_since'])

  ls, lp, lq = z3.Const('l_s', IntSeq), z3.Int('l_p'), z3.Int('l_q')
  split = p.prove_lemma('seq.split', [ls, lp, lq], z3.Implies(
      z3.And(0 <= lp, lp <= lq, lq <= z3.Length(ls)),
      z3.SubSeq(ls, 0, lq) == z3.Concat(z3.SubSeq(ls, 0, lp), z3.SubSeq(ls, lp, lq - lp))),
      detail='a prefix splits into a shorter prefix and the slice between them')

  def hints_inner(s):
    filled, used = to_z3(s['filled']), to_z3(s['used'])
    fh = s.head('filled')
    return [
        ('assert', 'kept', z3.SubSeq(s['indices'], 0, fh) == z3.SubSeq(s.head('indices'), 0, fh)),
        ('assert', 'chunk', z3.SubSeq(s['indices'], fh, used) ==
         z3.SubSeq(s['buf'], to_z3(s['i']) - used, used)),
        ('assert', 'bufperm', IsPerm(s['buf'], N)),
        ('assert', 'chunkrange', InRange(z3.SubSeq(s['buf'], to_z3(s['i']) - used, used), N)),
        split(s['indices'], fh, filled)]

  loops = {
      0: Loop(inv=inv_outer, expect=r'desired_num_steps',
              decreases=None),
      1: Loop(inv=inv_inner, expect=r'filled', ghost_step=ghost_step_inner,
              hints=hints_inner,
              decreases=lambda s: B - to_z3(s['filled'])),
  }

  def on_yield(ctx, v):
    g = ctx.ghost
    ok = isinstance(v, TableV) and v.mask is None and z3.is_app(v.rows) and \
        v.rows.decl().eq(Gather) and v.rows.arg(0).eq(raw)
    ctx.oblige('yield.gather', ok,
               detail='a batch is raw_examples[indices] for every feature')
    if not ok:
      raise PathDead()
    idx = v.rows.arg(1)
    ctx.oblige('yield.preprocessed', len(v.pre) == 1 and v.pre[0] == ds_pre(did),
               detail='each batch went through the dataset preprocessor exactly once')
    g['allB'] = z3.And(g['allB'], z3.Length(idx) == B)
    g['emitted'] = z3.Concat(g['emitted'], idx)
    g['count'] = g['count'] + 1

  def body(ctx):
    ctx.model_vars.update(N=N, batch_size=B, num_steps=K, num_steps_none=k_none,
                          skip_shuffle=skip, seed=seed, seed_none=seed_none)
    for a in axioms():
      ctx.assume(a)
    ctx.assume(z3.And(N >= 1, B >= 1, z3.Or(k_none, K >= 0)))
    selfr = ctx.alloc(ObjCell(None, dict(
        _client_dataset=DatasetV(did), _data_size=N, _batch_size=B,
        _num_steps=OptV(k_none, K), _seed=OptV(seed_none, seed), _skip_shuffle=skip),
        owner='param', label='self'))
    ctx.ghost.update(emitted=empty, done=empty, count=z3.IntVal(0), nwin=z3.IntVal(0),
                     allperm=z3.BoolVal(True), allcyc=z3.BoolVal(True),
                     allB=z3.BoolVal(True), shuffled_since=z3.BoolVal(False),
                     nshuffle=z3.IntVal(0))
    ctx.on_yield = on_yield
    entry_epoch = next(ctx.names)
    kind, _ = eng.run_function(ctx, ex.funcv(loops=loops), [selfr])
    ctx.oblige('noraise', kind == 'return', detail='no exception (indices always in range)')
    if kind != 'return':
      return
    g = ctx.ghost
    ctx.oblige('iter.count', z3.Implies(z3.Not(k_none), g['count'] == K),
               detail='exactly num_steps batches')
    ctx.oblige('iter.full', g['allB'], detail='every batch has exactly batch_size rows')
    ctx.oblige('iter.window.perm', g['allperm'],
               detail='every complete window of N drawn indices is a permutation of 0..N-1')
    ctx.oblige('iter.window.cyclic', g['allcyc'],
               detail='skip_shuffle: every window is the original order')
    # the stream is exactly the completed windows followed by a prefix of the current one
    try:
      loc = eng.final_locals(ctx)
      buf, i = loc['buf'], loc['i']
      ctx.oblige('iter.stream', g['emitted'] == z3.Concat(
          g['done'], partial(eng.term_of(ctx, buf), to_z3(i))),
          detail='drawn stream = completed windows ++ prefix of the current shuffled buffer')
      rng = loc['rng']
      okr = isinstance(rng, Ref) and rng.addr > entry_epoch and isinstance(
          rng.cell(ctx), RngCell)
      ctx.oblige('determ.seed', okr,
                 detail='the RandomState is created inside __iter__ (fresh per iteration) from the seed')
    except KeyError:
      ctx.oblige('iter.locals', False, detail='expected locals buf, i, rng')

  p.verify('ShuffleRepeatBatchView.__iter__', eng, body)

  # determinism: the initial rng state is a function of the seed alone
  def body_seed(ctx):
    r1 = c_random_state(ctx, OptV(seed_none, seed))
    r2 = c_random_state(ctx, OptV(seed_none, seed))
    ctx.oblige('determ.seed.state', z3.Implies(
        z3.Not(seed_none), r1.cell(ctx).state == r2.cell(ctx).state),
        detail='seed != None: two iterations start from the same generator state')
  p.verify('np.random.RandomState(contract)', eng, body_seed)


def build(p):
  D = 'native/C04.py'
  p.native('ShuffleRepeatBatchView.__init__', D, 'steps', lambda m: dict(
      N=m['N'], batch_size=m['batch_size'],
      num_epochs=None if m['num_epochs_none'] else m['num_epochs'],
      num_steps=None if m['num_steps_none'] else m['num_steps'],
      drop_remainder=m['drop_remainder']))
  p.native('ShuffleRepeatBatchView.__iter__', D, 'iter', lambda m: dict(
      N=m['N'], batch_size=m['batch_size'],
      num_steps=None if m['num_steps_none'] else m['num_steps'],
      skip_shuffle=m['skip_shuffle'], seed=None if m['seed_none'] else m['seed'] % 2**32))
  v_init(p)
  v_iter(p)
  # "every hyper-parameter combination" reaches the view through the public entry point: hparams + keyword overrides
  from . import C03
  p.native('ClientDataset.', D, 'entry')
  p.native('ClientDataset.__', D, 'sliced')
  C03.v_entry_points(p, only=('shuffle_repeat_batch',))
  C03.v_view_stateless(p, ('ShuffleRepeatBatchView',))
  p.trust(
      'T-NP: RandomState(seed) is a deterministic function of seed != None; rng.shuffle(buf) '
      'replaces buf by a permutation of itself (uninterpreted SHUF) and advances the generator',
      'T-NP: np.arange(n) is the identity permutation; np.zeros((n,)) has n entries; basic '
      'slice reads/writes follow CPython clamping; fancy indexing v[idx] raises unless all idx in range',
      'IsPerm/InRange are abstract predicates: IsPerm(s,n) => InRange(s,n), InRange distributes '
      'over concat/sub-sequence (axioms stated in props/C04.py::axioms)',
      'corollaries of iter.window.perm (first ceil(N/B) batches cover everything; usage counts '
      'differ by at most one) are pencil-and-paper consequences, not separate obligations')
  p.not_covered.append('that successive shuffles produce *different* permutations (a property of the PRNG)')
