"""C20 — packaged dataset preprocessors and models agree with each other.

Functions under contract: shakespeare._build_look_up_table, shakespeare.preprocess_client,
the id constants of datasets/shakespeare.py vs models/shakespeare.py and of
datasets/stackoverflow.py vs models/stackoverflow.py, cifar100.preprocess_image_tff
(crop arithmetic + standardisation floor), emnist.domain_id.
"""
from __future__ import annotations

import ast
import z3

from ..script import *  # noqa
from ..lib_real import *  # noqa
from ..extract import parse, module_constant

SD = 'fedjax/datasets/shakespeare.py'
SM = 'fedjax/models/shakespeare.py'
OD = 'fedjax/datasets/stackoverflow.py'
OM = 'fedjax/models/stackoverflow.py'
CI = 'fedjax/datasets/cifar100.py'
EM = 'fedjax/datasets/emnist.py'
I = z3.IntSort()
IS = z3.SeqSort(I)
FULL = z3.Function('np_full', I, I, IS)   # np.full([n], v)
LAST = z3.Function('LAST_INDEX', IS, I, I, I)   # last index < k at which byte b occurs in vocab, or -1


def v_table(p):
  ex = p.extract(SD, '_build_look_up_table')
  vocab = z3.Const('vocab', IS)
  n = z3.Length(vocab)
  nr = z3.Int('num_reserved')
  b0 = z3.Int('byte')

  def c_full(ctx, shape, val, dtype=None):
    items = shape.cell(ctx).items if isinstance(shape, Ref) else [shape]
    m = to_z3(items[0])
    return ctx.alloc(ArrayCell(z3.K(I, to_z3(val)), m, label='table'))   # T-NP: np.full([n], v)

  eng = Engine({'np': Module('np', {'full': Handler(c_full, 'np.full'), 'int32': 'int32'})})

  def unfold(k):
    return LemmaInst('last.def', z3.Implies(z3.And(k >= 1, k <= n), LAST(vocab, k, b0) ==
                                           z3.If(vocab[k - 1] == b0, k - 1, LAST(vocab, k - 1, b0))))

  def inv(s):
    k = to_z3(s.it)
    t = s['table']
    li = LAST(vocab, k, b0)
    return dict(pos=z3.And(0 <= k, k <= n),
                entry=t[b0] == z3.If(li >= 0, nr + li, nr + n),      # spec OOV = num_reserved + |vocab| (not a local name)
                last=z3.And(li >= -1, li < k))

  loops = {0: Loop(inv=inv, expect='enumerate', hints=lambda s: [unfold(to_z3(s.it))])}

  def body(ctx):
    ctx.model_vars.update(num_reserved=nr, byte=b0, vocab_len=n)
    j = z3.Int('j!v')
    ctx.assume(z3.ForAll([j], z3.Implies(z3.And(0 <= j, j < n), z3.And(vocab[j] >= 0, vocab[j] < 256))))
    ctx.assume(z3.And(nr >= 0, 0 <= b0, b0 < 256, LAST(vocab, 0, b0) == -1))
    kind, r = eng.run_function(ctx, ex.funcv(loops=loops), [SeqV(vocab, INT), nr])
    ctx.oblige('shk.table.noraise', kind == 'return')
    if kind != 'return':
      return
    tbl, size = r
    t = tbl.cell(ctx).arr
    li = LAST(vocab, n, b0)
    ctx.oblige('shk.table', z3.And(to_z3(tbl.cell(ctx).n) == 256, t[b0] == z3.If(li >= 0, nr + li, nr + n),
                                   z3.Or(t[b0] == nr + n, z3.And(nr <= t[b0], t[b0] < nr + n))),
               detail='every byte maps to num_reserved + (last) index in the vocabulary, or to OOV = num_reserved + |vocab|')
    ctx.oblige('shk.vocab_size', to_z3(size) == nr + n + 1, detail='VOCAB_SIZE = num_reserved + |vocab| + 1 (OOV is the last label)')
  p.verify('shakespeare._build_look_up_table', eng, body)


def v_ids(p):
  """The label ids assumed by each packaged model are the ones its dataset module produces."""
  for ds_rel, md_rel, name in ((SD, SM, 'shakespeare'), (OD, OM, 'stackoverflow')):
    src, tree = parse(md_rel)
    fn = [n for n in tree.body if isinstance(n, ast.FunctionDef) and n.name == 'create_lstm_model'][0]
    p.extract(md_rel, 'create_lstm_model')
    eng = Engine()
    V = z3.Int('vocab_size')
    got = {}

    def body(ctx, fn=fn, got=got):
      ctx.push_frame(())
      ctx.store('vocab_size', V)
      for s in fn.body:
        if isinstance(s, ast.Assign) and len(s.targets) == 1 and isinstance(s.targets[0], ast.Name) and \
            s.targets[0].id in ('pad', 'bos', 'eos', 'oov', 'full_vocab_size'):
          v = eng.eval(ctx, s.value)
          ctx.store(s.targets[0].id, v)
          got[s.targets[0].id] = v
    eng.explore(p.sink, f'{name}.ids', body)
    ok = set(got) == {'pad', 'bos', 'eos', 'oov', 'full_vocab_size'}
    p.oblige(f'ids.{name}.found', [], z3.BoolVal(ok), kind='post', fn=f'models/{name}',
             detail='the model defines pad, bos, eos, oov and full_vocab_size from vocab_size')
    if not ok:
      continue
    if name == 'shakespeare':
      vocab = None
      dsrc, dtree = parse(ds_rel)
      for n_ in ast.walk(dtree):
        if isinstance(n_, ast.Call) and ast.unparse(n_.func) == '_build_look_up_table':
          vocab = ast.literal_eval(n_.args[0])
          nres = [k.value.value for k in n_.keywords if k.arg == 'num_reserved'][0]
      default_v = [d.value for a, d in zip(fn.args.args[-len(fn.args.defaults):], fn.args.defaults)
                   if a.arg == 'vocab_size'][0]
      PAD, BOS, EOS = (module_constant(ds_rel, k) for k in ('PAD', 'BOS', 'EOS'))
      vs = len(vocab) + nres + 1   # shk.vocab_size
      OOV = vs - 1
      hyp = [V == default_v]
      p.oblige('ids.shakespeare.vocab', [], z3.BoolVal(default_v == len(vocab)), kind='post', fn='models/shakespeare',
               detail=f'default vocab_size {default_v} = number of characters in the dataset vocabulary {len(vocab)}')
      want = dict(pad=PAD, bos=BOS, eos=EOS, oov=OOV, full_vocab_size=vs)
    else:
      # stackoverflow tokenizer: 0 pad, 1 bos, 2 eos, words at 3.., oov buckets start at len(vocab) + 3 (1 bucket)
      hyp = [V >= 0]
      want = dict(pad=0, bos=1, eos=2, oov=V + 3, full_vocab_size=V + 4)
    # the logits mask of accuracy_in_vocab: -inf exactly at the special labels {pad, bos, eos, oov}, 0 at every word label
    # (the construction only depends on vocab_size: executed for three concrete vocabulary sizes)
    pre = []
    for st in fn.body:
      if isinstance(st, ast.FunctionDef):
        break
      if isinstance(st, (ast.Assign, ast.For, ast.AugAssign)):
        pre.append(st)
    bad = []
    for v_ in (1, 7, 50):
      ns = {'vocab_size': v_, 'jnp': type('J', (), {'inf': float('inf')})()}
      try:
        exec(compile(ast.Module(body=pre, type_ignores=[]), md_rel, 'exec'), ns)   # pure constant / list arithmetic of the prefix
        lm = ns.get('logits_mask')
        special = {ns['pad'], ns['bos'], ns['eos'], ns['oov']}
        okm = isinstance(lm, tuple) and len(lm) == ns['full_vocab_size'] and all(
            (x == float('-inf')) == (i in special) and (i in special or x == 0) for i, x in enumerate(lm))
      except Exception as e:  # pylint: disable=broad-except
        okm, lm = False, f'{type(e).__name__}: {e}'
      if not okm:
        bad.append((v_, [i for i, x in enumerate(lm) if x == float('-inf')] if isinstance(lm, tuple) else lm))
    p.oblige(f'ids.{name}.logits_mask', [], z3.BoolVal(not bad), kind='post', fn=f'models/{name}',
             detail='logits_mask is -inf exactly at {pad, bos, eos, oov} and 0 elsewhere, of length full_vocab_size '
                    f'(vocab_size 1, 7, 50; masked positions found: {bad})')
    # the training loss ignores the padding label on EVERY path: each reduction over the token axis in train_loss is applied
    # to the per-token loss AFTER it was multiplied by (targets != pad) (an option such as expected_length must not reach a
    # stale, unmasked value)
    tl = [n_ for n_ in ast.walk(fn) if isinstance(n_, ast.FunctionDef) and n_.name == 'train_loss']
    lbad = []
    if len(tl) != 1:
      lbad.append('train_loss not found')
    else:
      masked = set()
      for st in ast.walk(tl[0]):
        tgt = val = None
        if isinstance(st, ast.AugAssign) and isinstance(st.op, ast.Mult) and isinstance(st.target, ast.Name):
          tgt, val = st.target.id, st.value
        elif isinstance(st, ast.Assign) and len(st.targets) == 1 and isinstance(st.targets[0], ast.Name) and \
            isinstance(st.value, ast.BinOp) and isinstance(st.value.op, ast.Mult):
          tgt, val = st.targets[0].id, st.value
        if tgt and 'targets != pad' in ast.unparse(val):
          masked.add(tgt)
      reds = [c for c in ast.walk(tl[0]) if isinstance(c, ast.Call) and ast.unparse(c.func) in ('jnp.sum', 'jnp.mean')]
      if not masked or not reds:
        lbad.append(f'no masked per-token loss / no reduction (masked names {sorted(masked)})')
      for c in reds:
        if not (c.args and isinstance(c.args[0], ast.Name) and c.args[0].id in masked):
          lbad.append(f'line {c.lineno}: {ast.unparse(c)[:60]} reduces a value that is not the masked per-token loss')
    p.oblige(f'ids.{name}.loss.pad', [], z3.BoolVal(not lbad), kind='post', fn=f'models/{name}',
             detail=f'train_loss reduces only the per-token loss multiplied by (targets != pad): {lbad}')
    # the metrics are wired to the ids by NAME: every label tuple handed to a metric is built from pad / bos / eos / oov
    wired, loose = 0, []
    for c in ast.walk(fn):
      if isinstance(c, ast.Call) and ast.unparse(c.func).startswith('metrics.'):
        for k in c.keywords:
          if k.arg in ('masked_target_values', 'oov_target_values', 'eos_target_value'):
            wired += 1
            names = [x for x in ast.walk(k.value) if isinstance(x, (ast.Name, ast.Constant))]
            if not names or any(isinstance(x, ast.Constant) or x.id not in ('pad', 'bos', 'eos', 'oov') for x in names):
              loose.append(ast.unparse(k))
            if k.arg == 'oov_target_values' and ast.unparse(k.value) != '(oov,)':
              loose.append(ast.unparse(k))
            if k.arg == 'eos_target_value' and ast.unparse(k.value) != 'eos':
              loose.append(ast.unparse(k))
            if k.arg == 'masked_target_values' and 'pad' not in [x.id for x in names if isinstance(x, ast.Name)]:
              loose.append(ast.unparse(k))
    p.oblige(f'ids.{name}.metrics', [], z3.BoolVal(wired >= 5 and not loose), kind='post', fn=f'models/{name}',
             detail=f'{wired} label arguments of the eval metrics are built from pad / bos / eos / oov (padding always masked, OOV rate '
                    f'on (oov,), truncation on eos): {loose}')
    for k, w in want.items():
      p.oblige(f'ids.{name}.{k}', hyp, to_z3(got[k]) == to_z3(w), kind='post', fn=f'models/{name}',
               model_vars={'vocab_size': V},
               detail=f'model {k} id = dataset {k} id ({w}): the loss / metric masks and logits masks built from it '
                      'refer to the labels the packaged preprocessor really produces')


SQRTF = z3.Function('np_sqrt', R, R)


def v_cifar(p):
  ex = p.extract(CI, 'preprocess_image_tff')
  node = ex.node
  h, w = z3.Ints('crop_height crop_width')
  eng = Engine()

  def find_assign(name, within=None):
    out = []
    for n in ast.walk(within or node):
      if isinstance(n, ast.Assign) and any(isinstance(t, ast.Name) and t.id == name for t in n.targets):
        out.append(n)
    return out

  def body(ctx):
    ctx.model_vars.update(crop_height=h, crop_width=w)
    ctx.assume(z3.And(1 <= h, h <= 32, 1 <= w, w <= 32))
    ctx.push_frame(())
    ctx.store('crop_height', h)
    ctx.store('crop_width', w)
    for nm, dim in (('height_offset', h), ('width_offset', w)):
      a = find_assign(nm)
      ok = len(a) == 1
      ctx.oblige(f'cifar.crop.site.{nm}', ok)
      if not ok:
        continue
      v = to_z3(eng.eval(ctx, a[0].value))
      ctx.oblige('cifar.crop', v == (32 - dim) / 2,
                 detail=f'{nm} = (32 - crop) // 2: the centre crop of tf.image.resize_with_crop_or_pad (odd sizes included)')
      ctx.oblige('cifar.crop.inside', z3.And(v >= 0, v + dim <= 32), detail='the window lies inside the 32x32 image')
  eng.explore(p.sink, 'cifar100.preprocess_image_tff[centre crop]', body)

  # range check: ValueError exactly outside 1..32
  guard = [n for n in node.body if isinstance(n, ast.If) and isinstance(n.body[0], ast.Raise)]

  def body_guard(ctx):
    ctx.model_vars.update(crop_height=h, crop_width=w)
    ctx.push_frame(())
    ctx.store('crop_height', h)
    ctx.store('crop_width', w)
    ok = len(guard) >= 1
    ctx.oblige('cifar.guard.site', ok)
    if ok:
      c = eng.truth(ctx, eng.eval(ctx, guard[0].test))
      ctx.oblige('cifar.guard', zbool(c) == z3.Not(z3.And(1 <= h, h <= 32, 1 <= w, w <= 32)),
                 detail='crop sizes outside 1..32 are rejected')
  g_eng = Engine()
  g_eng.explore(p.sink, 'cifar100.preprocess_image_tff[guard]', lambda c: body_guard(c))

  # random crop: begin in [0, 32 - crop], end = begin + crop
  def body_random(ctx):
    off = z3.Int('uniform_draw')
    ctx.model_vars.update(crop_height=h, uniform_draw=off)
    ctx.assume(z3.And(1 <= h, h <= 32, off >= 0))
    limit = 32 - h + 1
    begin = off % limit
    ctx.oblige('cifar.random.window', z3.And(begin >= 0, begin + h <= 32),
               detail='random crop offsets (draw % (32 - crop + 1)) give a sub-window of the requested shape')
  Engine().explore(p.sink, 'cifar100.preprocess_image_tff[random crop]', body_random)
  # the structure the arithmetic above relies on
  src = ast.unparse(node)
  p.oblige('cifar.random.site', [], z3.BoolVal('limit = shape - crop_shape + 1' in src and '% limit' in src and
                                              'end_i, end_j, _ = offset + crop_shape' in src), kind='post',
           fn='preprocess_image_tff', detail='random crop: limit = shape - crop_shape + 1, offset = draw % limit, end = offset + crop_shape')

  # standardisation floor: max(std, 1/sqrt(num_pixels))  [tf.image.per_image_standardization]
  a = find_assign('image_adjusted_std')

  def body_std(ctx):
    npx = z3.Real('num_pixels')
    std = z3.Real('image_std')
    ctx.model_vars.update(num_pixels=npx, image_std=std)
    ctx.assume(z3.And(npx >= 3, std >= 0))
    s = SQRTF(npx)
    ctx.assume(z3.And(s > 0, s * s == npx))
    ctx.push_frame(())
    ctx.store('num_pixels', npx)
    ctx.store('image_std', std)
    ok = len(a) == 1
    ctx.oblige('cifar.std.site', ok)
    if not ok:
      return
    v = ctx.engine.eval(ctx, a[0].value)
    ctx.oblige('cifar.std', to_z3(v) == z3.If(std >= 1 / s, std, 1 / s),
               detail='adjusted_stddev = max(stddev, 1 / sqrt(num_pixels)) as tf.image.per_image_standardization defines it '
                      '(matters for low-contrast and constant images)')
  Engine({'np': Module('np', {'maximum': Handler(lambda c, x, y: zmax(to_z3(x), to_z3(y)), 'np.maximum'),
                              'sqrt': Handler(lambda c, x: SQRTF(to_z3(x)), 'np.sqrt')})}).explore(
      p.sink, 'cifar100.preprocess_image_tff[standardisation]', body_std)


def v_emnist(p):
  ex = p.extract(EM, 'domain_id')
  L = z3.Int('len_client_id')
  NUM = z3.Function('int_of_slice', I, I, I)   # int(client_id[a:b])

  class IdV(Val):
    def length(self, ctx):
      return L

    def getitem(self, ctx, idx):
      return IdSliceV(idx.lo, idx.hi)

  class IdSliceV(Val):
    def __init__(self, a, b):
      self.a, self.b = a, b

    def to_int(self, ctx):
      return NUM(to_z3(self.a), to_z3(self.b))
  eng = Engine()

  def body(ctx):
    ctx.model_vars['len_client_id'] = L
    kind, r = eng.run_function(ctx, ex.funcv(), [IdV()])
    if kind == 'raise':
      ctx.oblige('emnist.reject', z3.And(r.name == 'ValueError', L != 25, L != 8),
                 detail='ids of any other length raise ValueError')
      return
    # "[16-byte hex hash]:f[4 digits]_[2 digits]" -> digits at [18:22]; "f[4 digits]_[2 digits]" -> digits at [1:5]
    cid = z3.If(L == 25, NUM(18, 22), NUM(1, 5))
    ctx.oblige('emnist.domain', z3.And(z3.Or(L == 25, L == 8),
                                       to_z3(r) == z3.If(z3.And(2100 <= cid, cid <= 2599), 0, 1)),
               detail='domain 0 (HIGH_SCHOOL) iff the 4-digit writer number is in [2100, 2599], for both id formats')
  p.verify('emnist.domain_id', eng, body)


def v_tasks(p):
  """training/tasks.get_task wires a packaged dataset to its packaged model.  ids.* prove that each model's DEFAULT label
  conventions are those of its dataset, so every branch of get_task must (a) pair datasets.<X> with models.<X>, (b) call the
  model constructor with no argument that touches the label conventions (vocabulary size, special ids, class count; the
  EMNIST `only_digits` switch must be the one given to the dataset), and (c) preprocess train and test identically."""
  TK = 'fedjax/training/tasks.py'
  ex = p.extract(TK, 'get_task')
  allowed = {'emnist': {'only_digits'}, 'shakespeare': set(), 'stackoverflow': {'expected_length'}, 'cifar100': set()}
  branches = []
  node = [n for n in ex.node.body if isinstance(n, ast.If)]
  cur = node[0] if node else None
  while isinstance(cur, ast.If):
    t = cur.test
    nm = ast.literal_eval(t.comparators[0]) if isinstance(t, ast.Compare) and isinstance(t.comparators[0], ast.Constant) else None
    branches.append((nm, cur.body))
    cur = cur.orelse[0] if len(cur.orelse) == 1 and isinstance(cur.orelse[0], ast.If) else None
  for nm, body in branches:
    calls = [c for st in body for c in ast.walk(st) if isinstance(c, ast.Call)]
    data = [c for c in calls if ast.unparse(c.func).startswith('datasets.') and ast.unparse(c.func).endswith('.load_data')]
    mods = [c for c in calls if ast.unparse(c.func).startswith('models.')]
    bad = []
    if len(data) != 1 or len(mods) != 1:
      bad.append(f'{len(data)} load_data calls, {len(mods)} model constructors')
    else:
      dname, mname = ast.unparse(data[0].func).split('.')[1], ast.unparse(mods[0].func).split('.')[1]
      if dname != mname:
        bad.append(f'datasets.{dname} paired with models.{mname}')
      kws = {k.arg: ast.unparse(k.value) for k in mods[0].keywords}
      if mods[0].args or not set(kws) <= allowed.get(mname, set()):
        bad.append(f'model constructor arguments {ast.unparse(mods[0])} (allowed keywords: {sorted(allowed.get(mname, set()))})')
      dk = {k.arg: ast.unparse(k.value) for k in data[0].keywords}
      if 'only_digits' in kws and kws['only_digits'] != dk.get('only_digits'):
        bad.append(f"only_digits: model {kws['only_digits']} vs dataset {dk.get('only_digits')}")
    pre = {}
    for st in body:
      if isinstance(st, ast.Assign) and isinstance(st.value, ast.Call) and ast.unparse(st.value.func).endswith('.preprocess_batch'):
        pre.setdefault(ast.unparse(st.targets[0]), []).append(ast.unparse(st.value.args[0]) if st.value.args else None)
    if pre and (set(pre) != {'train', 'test'} or pre['train'] != pre['test']):
      bad.append(f'train / test preprocessed differently: {pre}')
    p.oblige(f'task.wiring:{nm}', [], z3.BoolVal(not bad), kind='precondition', fn='get_task',
             detail=f'{nm}: dataset and model of the same package, label conventions left at the defaults proved by ids.*, '
                    f'train and test preprocessed alike ({bad})')
  p.oblige('task.wiring.tasks', [], z3.BoolVal(len(branches) >= 6 and all(n for n, _ in branches)), kind='post', fn='get_task',
           detail=f'{len(branches)} task branches analysed (vacuity guard)')


def v_cifar_wrapper(p):
  """preprocess_batch_tff is preprocess_image_tff on 'x' with (crop_height, crop_width, distort) in that order, 'y' unchanged."""
  ex = p.extract(CI, 'preprocess_batch_tff')
  h, w = z3.Ints('crop_height crop_width')
  dist = z3.Bool('distort')
  rec = {}

  class Tok(Val):
    def __init__(self, name):
      self.name = name

  class Ex(Val):
    def getitem(self, ctx, idx):
      return Tok(f'examples[{idx!r}]')

  def image(ctx, *args, **kw):
    rec['args'], rec['kw'] = args, kw
    return Tok('image')
  eng = Engine({'preprocess_image_tff': Handler(image, 'preprocess_image_tff')})

  def body(ctx):
    rec.clear()
    ctx.model_vars.update(crop_height=h, crop_width=w)
    kind, r = eng.run_function(ctx, ex.funcv(), [Ex(), h, w, dist])
    ctx.oblige('cifar.wrapper.noraise', kind == 'return')
    if kind != 'return':
      return
    sig = ['images', 'crop_height', 'crop_width', 'distort']
    got = dict(zip(sig, rec.get('args', ())))
    got.update(rec.get('kw', {}))
    ok = isinstance(got.get('images'), Tok) and got['images'].name == "examples['x']" and len(got) == 4
    ctx.oblige('cifar.wrapper.args', z3.And(z3.BoolVal(bool(ok)), to_z3(got.get('crop_height', -1)) == h,
                                            to_z3(got.get('crop_width', -1)) == w,
                                            to_z3(got.get('distort', False)) == dist) if ok else False,
               detail="the wrapper calls preprocess_image_tff(examples['x'], crop_height, crop_width, distort): height and width "
                      'are not swapped (non-square crops)')
    items = dict(r.cell(ctx).items) if isinstance(r, Ref) and hasattr(r.cell(ctx), 'items') else {}
    ctx.oblige('cifar.wrapper.result', set(items) == {'x', 'y'} and isinstance(items.get('x'), Tok) and items['x'].name == 'image'
               and isinstance(items.get('y'), Tok) and items['y'].name == "examples['y']",
               detail="result = {'x': processed images, 'y': labels unchanged}")
  p.verify('cifar100.preprocess_batch_tff', eng, body)


def build(p):
  D = 'native/C20.py'
  p.native('', D, 'packaged')

  def cifar_input(m):
    if 'image_std' in m:
      return dict(kind='cifar', image='lowcontrast', crop_height=24, crop_width=24, seed=0)
    hh, ww = int(m.get('crop_height', 24)), int(m.get('crop_width', 24))
    if not (1 <= hh <= 32 and 1 <= ww <= 32):
      return None
    return dict(kind='cifar', image='random', crop_height=hh, crop_width=ww, seed=0)
  p.native('cifar100', D, 'packaged', cifar_input)
  p.native('ids', D, 'packaged', lambda m: dict(kind='ids'))
  p.native('models/', D, 'packaged', lambda m: dict(kind='ids'))
  v_table(p)
  v_ids(p)
  v_cifar(p)
  v_cifar_wrapper(p)
  v_tasks(p)
  v_emnist(p)
  from . import C20_join
  C20_join.build(p)
  p.native_checks = [dict(
      name='row_independence', driver=D, payload={'mode': 'sweep', 'fn': 'rows'},
      bound='EMNIST conv/dense/logistic, CIFAR logistic, Shakespeare and StackOverflow LSTMs: batches of 2-4 random rows; each '
            "row's per-example loss and prediction equal those of the row evaluated alone",
      why_bounded='a statement about haiku/XLA forward passes (no contract within reach); bounded stand-in, not counted as proved')]
  p.trust("TensorFlow's documented definitions: per_image_standardization uses max(stddev, 1/sqrt(N)); "
          'resize_with_crop_or_pad crops at (size - target) // 2',
          'T-PY: int(bytes) of ASCII digits; np.full; list slicing; row-major reshape preserves order',
          'StackOverflow tokenizer (TensorFlow lookup ops) produces pad 0, bos 1, eos 2, words from 3, one OOV bucket at vocab+3 '
          '(its documentation; the tokenizer body is TensorFlow code outside the subset)')
  p.not_covered.append('packaged models score each example independently of the other rows: bounded native check only')
