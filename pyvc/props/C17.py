"""C17 — algorithm-specific invariants hold along every training history.

Each invariant is proved inductive (one-step preservation from the real code
plus establishment by init); histories of any length follow.
"""
from __future__ import annotations

import ast
import z3

from ..script import *  # noqa
from ..lib_real import *  # noqa
from ..lib_alg import *  # noqa
from .C05 import SUMROWS, ROW

AF = 'fedjax/algorithms/agnostic_fed_avg.py'
ML = 'fedjax/algorithms/mime_lite.py'
AP = 'fedjax/algorithms/apfl.py'
OP = 'fedjax/core/optimizers.py'
U = 'fedjax/core/util.py'
I = z3.IntSort()
DOMI = z3.Int('d')  # an arbitrary domain index
EXP = z3.Function('EXPF', R, R)


class VecV(Val):
  """A vector over the domain index: `val` is its entry at the arbitrary index d."""

  def __init__(self, val):
    self.val = to_z3(val) if not is_z3(val) else val

  def binop(self, ctx, op, other, reflected):
    o = other.val if isinstance(other, VecV) else to_z3(num(ctx, other))
    a, b = (o, self.val) if reflected else (self.val, o)
    if op == 'Div':
      a = z3.ToReal(a) if a.is_int() else a
      b = z3.ToReal(b) if b.is_int() else b
      return VecV(a / b)   # array division: no exception
    return VecV(ctx.engine.arith(ctx, op, a, b))


def SUMD(expr):
  return SUMROWS(z3.Lambda([DOMI], expr))


def c_vec_sum(ctx, a, axis=None):
  """jnp.sum over the domain axis: an opaque scalar; what was summed is recorded so that obligations can
  state it (keeps the formulas free of lambdas: refutations then come with models)."""
  s = ctx.fresh('sum_over_domains', 'real')
  ctx.tags.setdefault('sums', []).append((s, a.val))
  return s


def _vv(ctx, x):
  if isinstance(x, VecV):
    return x.val
  t = to_z3(num(ctx, x))
  return z3.ToReal(t) if t.is_int() else t


def vec_globals():
  g = real_globals()

  def v_exp(ctx, x):
    e = EXP(x.val)
    ctx.assume(e > 0)
    return VecV(e)

  for mod in (g['jnp'], g['jax'].attrs['numpy']):
    mod.attrs.update(
        exp=Handler(v_exp, 'jnp.exp'),
        maximum=Handler(lambda ctx, a, b: VecV(zmax(_vv(ctx, a), _vv(ctx, b))), 'jnp.maximum'),
        minimum=Handler(lambda ctx, a, b: VecV(z3.If(_vv(ctx, a) <= _vv(ctx, b), _vv(ctx, a), _vv(ctx, b))), 'jnp.minimum'),
        zeros_like=Handler(lambda ctx, a: VecV(z3.RealVal(0)), 'jnp.zeros_like'),
        sum=Handler(c_vec_sum, 'jnp.sum'))
  return g


def v_update_domain_weights(p):
  ex = p.extract(AF, 'update_domain_weights')
  eng = Engine(vec_globals())
  W = z3.Function('domain_weight', I, R)
  L = z3.Function('mean_domain_loss', I, R)
  lr = z3.Real('domain_learning_rate')

  def body(ctx):
    ctx.model_vars['domain_learning_rate'] = lr
    j = z3.Int('j')
    # invariant I(state): a probability vector
    ctx.assume(z3.ForAll([j], W(j) >= 0))
    kind, r = eng.run_function(ctx, ex.funcv(), [VecV(W(DOMI)), VecV(L(DOMI)), lr, 'eg'])
    ctx.oblige('afa.eg.noraise', kind == 'return')
    if kind != 'return' or not isinstance(r, VecV):
      ctx.oblige('afa.eg.type', False)
      return
    e = EXP(lr * L(DOMI))
    m = z3.If(W(DOMI) * e >= 0, W(DOMI) * e, 0)
    sums = ctx.tags.get('sums', [])
    ctx.oblige('afa.simplex.norm', len(sums) == 1 and z3.simplify(sums[0][1] == m) if len(sums) == 1 else False,
               detail='exactly one sum over the domains is taken, of the clipped unnormalised weights')
    if len(sums) != 1:
      return
    S = sums[0][0]
    ctx.oblige('afa.simplex.form', r.val == m / S,
               detail="new weight d = max(w_d * exp(lr * loss_d), 0) / sum_d' max(w_d' * exp(lr * loss_d'), 0)")
    ctx.oblige('afa.simplex.nonneg', z3.Implies(S > 0, r.val >= 0), detail='every new domain weight is >= 0')
    ctx.oblige('afa.simplex.positive', z3.Implies(W(DOMI) > 0, m > 0),
               detail='a positive weight stays positive (exp > 0), so the normaliser is > 0 whenever the old vector '
                      'had a positive entry (sum of non-negatives with a positive term)')
    # sum_d (m_d / S) = (sum_d m_d) / S = 1: linearity of the sum in a factor that does not depend on d
    ctx.oblige('afa.simplex.scalar', z3.BoolVal(not _mentions(S, DOMI)),
               detail='the normaliser is one scalar for all domains (renormalisation is not dropped or done per entry)')
  p.verify('update_domain_weights[eg]', eng, body)

  def body_none(ctx):
    v = VecV(W(DOMI))
    kind, r = eng.run_function(ctx, ex.funcv(), [v, VecV(L(DOMI)), lr, 'none'])
    ctx.oblige('afa.none', kind == 'return' and r is v, detail="'none' returns the weights unchanged")
    kind, r = eng.run_function(ctx, ex.funcv(), [v, VecV(L(DOMI)), lr, 'other'])
    ctx.oblige('afa.reject', kind == 'raise' and r.name == 'ValueError')
  p.verify('update_domain_weights[none]', eng, body_none)


def _mentions(term, var):
  seen = set()
  stack = [term]
  while stack:
    t = stack.pop()
    if t.get_id() in seen:
      continue
    seen.add(t.get_id())
    if z3.is_var(t):
      continue
    if z3.is_quantifier(t):
      continue  # bound occurrences inside SUMROWS(Lambda ...) do not count
    if t.eq(var):
      return True
    stack.extend(t.children())
  return False


def v_window(p):
  ex_up = p.extract(AF, 'agnostic_federated_averaging.<locals>.server_update')
  ex_init = p.extract(AF, 'agnostic_federated_averaging.<locals>.init')
  Vec = z3.DeclareSort('DomainVec')
  VCODEC = Codec(Vec, enc=lambda v: v.term, dec=lambda t: VecTermV(t))

  class VecTermV(Val):
    def __init__(self, term):
      self.term = term

  sopt = OptimizerV(z3.Const('server_optimizer', OptimizerT))
  g = real_globals()
  g['server_optimizer'] = sopt
  g['util'] = Module('util', {'safe_div': Handler(lambda ctx, a, b: VecTermV(z3.Const('mean_loss', Vec)), 'safe_div')})
  g['update_domain_weights'] = Handler(lambda ctx, w, l, lr, alg: VecTermV(z3.Const('new_weights', Vec)),
                                       'update_domain_weights')
  g['domain_learning_rate'] = z3.Real('lr')
  g['domain_algorithm'] = 'eg'
  eng = Engine(g)
  eng.sources = [AF]
  win = z3.Const('domain_window', z3.SeqSort(Vec))
  newcount = z3.Const('sum_domain_num', Vec)

  def body(ctx):
    ctx.model_vars['window_len'] = z3.Length(win)
    ctx.assume(z3.Length(win) >= 1)
    # the configured size: by afa.window.init and afa.window.len every state's window has exactly that many entries
    kw = z3.Int('domain_window_size')
    ctx.assume(kw == z3.Length(win))
    eng.globals['domain_window_size'] = kw
    SS = eng._resolve_in(ctx, AF, 'ServerState')[0]
    eng.globals['ServerState'] = SS
    wl = ctx.alloc(ListCell(win, VCODEC, owner='param', label='server_state.domain_window'))
    sp = new_tree(ctx, z3.Real('p'), 'param')
    st = ctx.alloc(ObjCell(SS, dict(params=sp, opt_state=OptStV(z3.Const('os', OptStateT)),
                                    domain_weights=VecTermV(z3.Const('w', Vec)), domain_window=wl),
                           owner='param', label='server_state'))
    kind, r = eng.run_function(ctx, ex_up.funcv(), [st, new_tree(ctx, z3.Real('mean_delta'), 'param'),
                                                    VecTermV(z3.Const('loss_sum', Vec)), VecTermV(newcount)])
    ctx.oblige('afa.window.noraise', kind == 'return')
    if kind != 'return':
      return
    nw = r.cell(ctx).fields.get('domain_window')
    ok = isinstance(nw, Ref) and isinstance(nw.cell(ctx), ListCell)
    ctx.oblige('afa.window.type', ok)
    if not ok:
      return
    s2 = nw.cell(ctx).seq
    n = z3.Length(win)
    ctx.oblige('afa.window.len', z3.Length(s2) == n, detail='the window keeps its length')
    ctx.oblige('afa.window.shift', s2 == z3.Concat(z3.SubSeq(win, 1, n - 1), z3.Unit(newcount)),
               detail="new window = old window without its oldest entry, followed by this round's per-domain counts")
    ctx.oblige('frame.window', wl.cell(ctx).seq.eq(win) and nw.addr != wl.addr,
               detail="the input state's window list is not modified")
  p.verify('agnostic_federated_averaging.server_update', eng, body)

  # init builds a window of domain_window_size entries
  def body_init(ctx):
    k = z3.Int('domain_window_size')
    ctx.assume(k >= 1)
    SS = eng._resolve_in(ctx, AF, 'ServerState')[0]
    eng.globals['ServerState'] = SS
    eng.globals['domain_window_size'] = k
    eng.globals['init_domain_weights'] = VecTermV(z3.Const('w0', Vec))
    eng.globals['init_domain_window'] = VecTermV(z3.Const('win0', Vec))

    class OneList(Val):
      def __init__(self, item):
        self.item = item

      def binop(self, ctx, op, other, reflected):
        if op == 'Mult' and is_int(other):
          s = ctx.fresh('window', z3.SeqSort(Vec))
          j = z3.Int('j!w')
          ctx.assume(z3.Length(s) == z3.If(to_z3(other) > 0, to_z3(other), 0))   # T-PY: [x] * k
          ctx.assume(z3.ForAll([j], z3.Implies(z3.And(0 <= j, j < z3.Length(s)), s[j] == self.item.term)))
          return ctx.alloc(ListCell(s, VCODEC))
        raise Unsupported('list op')
    eng.globals['jnp'] = Module('jnp', {'array': Handler(lambda c, x: x, 'jnp.array')})
    old = eng.e_List
    eng.e_List = lambda c, e: OneList(eng.eval(c, e.elts[0])) if len(e.elts) == 1 else old(c, e)
    try:
      kind, r = eng.run_function(ctx, ex_init.funcv(), [new_tree(ctx, z3.Real('p'), 'param')])
    finally:
      del eng.e_List
    ok = kind == 'return' and isinstance(r.cell(ctx).fields.get('domain_window'), Ref)
    ctx.oblige('afa.window.init', ok and z3.Length(r.cell(ctx).fields['domain_window'].cell(ctx).seq) == k,
               detail='init builds a window of exactly domain_window_size entries')
  p.verify('agnostic_federated_averaging.init', eng, body_init)


def v_alpha(p):
  """afa.nodata: the per-domain scaling alpha = weights / mean(window) stays finite when a domain (or every
  domain) received no example during the whole window.  IEEE float32 obligation on the real expression."""
  ex = p.extract(AF, 'agnostic_federated_averaging.<locals>.apply')
  stm = [n for n in ast.walk(ex.node) if isinstance(n, ast.Assign) and
         any(isinstance(t, ast.Name) and t.id == 'alpha' for t in n.targets)]
  p.oblige('afa.alpha.site', [], z3.BoolVal(len(stm) == 1), kind='post', fn='agnostic.apply',
           detail='apply() computes alpha in exactly one assignment')
  if len(stm) != 1:
    return
  g = real_globals()
  w = z3.FP('domain_weight', FP32)
  m = z3.FP('window_mean', FP32)

  class WinV(Val):
    pass
  for mod in (g['jnp'],):
    mod.attrs['asarray'] = Handler(lambda ctx, x: x, 'jnp.asarray')
    mod.attrs['mean'] = Handler(lambda ctx, x, axis=None: new_tree(ctx, m, label='window mean'), 'jnp.mean')
  g['util'] = SrcModule(U)
  eng = Engine(g)
  eng.sources = [AF]

  def body(ctx):
    ctx.model_vars.update(domain_weight=w, window_mean=m)
    fin = lambda x: z3.And(z3.Not(z3.fpIsNaN(x)), z3.Not(z3.fpIsInf(x)))
    zero = z3.FPVal(0, FP32)
    ctx.assume(z3.And(fin(w), fin(m), z3.fpGEQ(w, zero), z3.fpLEQ(w, z3.FPVal(1, FP32)), z3.fpGEQ(m, zero),
                      z3.Not(z3.fpIsNegative(m))))
    # counts are whole numbers: a positive window mean is at least 1/window_size; keep it >= 2^-20
    ctx.assume(z3.Or(z3.fpIsZero(m), z3.fpGEQ(m, z3.FPVal(2.0 ** -20, FP32))))
    st = ctx.alloc(ObjCell(None, dict(domain_weights=new_tree(ctx, w, 'param'), domain_window=WinV()),
                           owner='param', label='server_state'))
    module_frame_local(ctx, AF)
    ctx.store('server_state', st)
    v = eng.eval(ctx, stm[0].value)
    a = tree_val(ctx, v)
    ctx.oblige('afa.nodata', z3.And(z3.Not(z3.fpIsNaN(a)), z3.Not(z3.fpIsInf(a))),
               detail='IEEE float32: alpha is finite for every domain, also one without any example in the window '
                      '(window mean 0): otherwise inf * 0 = NaN reaches the client weights, the parameters and the domain weights')
  p.verify('agnostic_federated_averaging.apply[alpha]', eng, body)


def v_scaled_loss(p):
  """afa.nodata (second site): the client loss sum(alpha * domain losses) / beta is finite when beta = 0."""
  ex = p.extract(AF, 'create_scaled_loss.<locals>.scaled_loss')
  stm = [n for n in ast.walk(ex.node) if isinstance(n, ast.Assign) and
         any(isinstance(t, ast.Name) and t.id == 'loss' for t in n.targets) and 'beta' in ast.unparse(n.value)]
  p.oblige('afa.loss.site', [], z3.BoolVal(len(stm) == 1), kind='post', fn='scaled_loss',
           detail='the scaled loss divides by beta in exactly one assignment')
  if len(stm) != 1:
    return
  g = real_globals()
  s_ = z3.FP('weighted_loss_sum', FP32)
  beta = z3.FP('beta', FP32)
  g['jnp'].attrs['sum'] = Handler(lambda ctx, x, axis=None: new_tree(ctx, s_), 'jnp.sum')
  g['util'] = SrcModule(U)
  eng = Engine(g)
  eng.sources = [AF]

  def body(ctx):
    ctx.model_vars.update(weighted_loss_sum=s_, beta=beta)
    fin = lambda x: z3.And(z3.Not(z3.fpIsNaN(x)), z3.Not(z3.fpIsInf(x)))
    zero = z3.FPVal(0, FP32)
    ctx.assume(z3.And(fin(s_), fin(beta), z3.fpGEQ(beta, zero), z3.Not(z3.fpIsNegative(beta))))
    # beta = sum_d alpha_d * count_d and the numerator = sum_d alpha_d * loss_d: beta = 0 => every alpha_d * count_d = 0
    ctx.assume(z3.Implies(z3.fpIsZero(beta), z3.fpIsZero(s_)))
    ctx.assume(z3.Or(z3.fpIsZero(beta), z3.fpGEQ(beta, z3.FPVal(2.0 ** -20, FP32))))
    ctx.assume(z3.fpLEQ(z3.fpAbs(s_), z3.FPVal(2.0 ** 60, FP32)))
    module_frame_local(ctx, AF)
    ctx.store('alpha', new_tree(ctx, z3.FP('alpha', FP32), 'param'))
    ctx.store('domain_sum_loss', new_tree(ctx, z3.FP('dsl', FP32), 'param'))
    ctx.store('beta', new_tree(ctx, beta, 'param'))
    v = eng.eval(ctx, stm[0].value)
    a = tree_val(ctx, v)
    ctx.oblige('afa.nodata.loss', z3.And(z3.Not(z3.fpIsNaN(a)), z3.Not(z3.fpIsInf(a))),
               detail='IEEE float32: the client loss is finite (0) for a client whose domains all have zero scaling (beta = 0)')
  p.verify('agnostic_fed_avg.scaled_loss[beta]', eng, body)


def module_frame_local(ctx, relpath):
  ctx.push_frame(())
  f = FuncV(ast.parse('def _m(): pass').body[0], (), name='<module>')
  f.relpath = relpath
  ctx.cur_frame()['$func'] = f


def v_ml_clip(p):
  """MimeLite: what reaches the aggregate is the output of tree_clip_by_global_norm when a bound is set."""
  ex = p.extract(ML, 'mime_lite.<locals>.apply')
  node = ex.node
  loop = [n for n in ast.walk(node) if isinstance(n, ast.For) and 'train_for_each_client' in ast.unparse(n.iter)]
  ok = len(loop) == 1
  facts = {}
  if ok:
    body = loop[0].body
    # position of the guarded clip and of the accumulation in the loop body
    clip_i = acc_i = None
    for i, s in enumerate(body):
      src = ast.unparse(s)
      if isinstance(s, ast.If) and 'client_delta_clip_norm is not None' in ast.unparse(s.test):
        inner = [ast.unparse(x) for x in s.body]
        if any(x.startswith('delta_params = tree_util.tree_clip_by_global_norm(delta_params, client_delta_clip_norm)')
               or x.replace('\n', '').replace(' ', '').startswith(
                   'delta_params=tree_util.tree_clip_by_global_norm(delta_params,client_delta_clip_norm)')
               for x in inner):
          clip_i = i
      if 'tree_util.tree_weight(delta_params' in src and 'delta_params_sum' in src:
        acc_i = i
    rebinds = [i for i, s in enumerate(body) if isinstance(s, ast.Assign) and
               any(isinstance(t, ast.Name) and t.id == 'delta_params' for t in s.targets)]
    facts = dict(clip_i=clip_i, acc_i=acc_i, rebinds=rebinds)
    ok = clip_i is not None and acc_i is not None and clip_i < acc_i and not [r for r in rebinds if r > clip_i]
  p.oblige('ml.clip', [], z3.BoolVal(bool(ok)), kind='post', fn='mime_lite.apply',
           detail='dataflow: when client_delta_clip_norm is set, delta_params is re-bound to '
                  'tree_clip_by_global_norm(delta_params, bound) BEFORE it is weighted into the aggregate and not '
                  f're-bound afterwards ({facts}); by C07 clip.bound its norm is <= the bound')


def v_ignore_grads(p):
  ex_a = p.extract(OP, 'ignore_grads_haiku.<locals>.apply')
  ex_i = p.extract(OP, 'ignore_grads_haiku.<locals>.init')
  ex_f = p.extract(OP, 'ignore_grads_haiku.<locals>.non_trainable_to_none')
  Name = z3.DeclareSort('HkName')
  NT = z3.Function('is_non_trainable', Name, Name, z3.BoolSort())
  PARAM = z3.Function('param_entry', Name, Name, R)
  GRAD = z3.Function('grad_entry', Name, Name, R)
  BASEP = z3.Function('base_optimizer_output', Name, Name, R)
  m0, n0 = z3.Consts('module_name name', Name)

  class NTSet(Val):
    def contains(self, ctx, item):
      return NT(item[0], item[1])

    def iterate(self, ctx):
      raise Unsupported('plain iteration over the non-trainable names')

    def pointwise_binding(self, ctx):
      a, b = ctx.fresh('nt_m', Name), ctx.fresh('nt_n', Name)
      ctx.assume(NT(a, b))
      return (a, b), (a, b)

  class HkV(Val):
    """A haiku params structure: entry(m, n) is a real at the coordinate or None."""

    def __init__(self, is_none, val, overrides=None, mutable=False):
      self.is_none, self.val = is_none, val   # functions (m, n) -> z3
      self.mutable = mutable

    def getitem(self, ctx, key):
      return HkModV(self, key)

  class HkModV(Val):
    def __init__(self, hk, m):
      self.hk, self.m = hk, m

    def getitem(self, ctx, key):
      return HkEntry(self.hk.is_none(self.m, key), self.hk.val(self.m, key))

    def setitem(self, ctx, key, value):
      if not self.hk.mutable:
        ctx.oblige('ign.immutable', False, detail='store into an immutable haiku structure')
        raise PathDead()
      pw = ctx.tags.get('$pointwise')
      okk = pw is not None and isinstance(pw[0], tuple) and self.m is pw[0][0] and key is pw[0][1]
      if not okk or not isinstance(value, HkEntry):
        raise Unsupported('store into a haiku structure outside the pointwise loop')
      old_none, old_val = self.hk.is_none, self.hk.val
      self.hk.is_none = lambda a, b: z3.If(NT(a, b), z3.substitute(value.is_none, (pw[0][0], a), (pw[0][1], b)), old_none(a, b))
      self.hk.val = lambda a, b: z3.If(NT(a, b), z3.substitute(value.val, (pw[0][0], a), (pw[0][1], b)), old_val(a, b))

  class HkEntry(Val):
    def __init__(self, is_none, val):
      self.is_none, self.val = is_none, val

  def hk_map(ctx, f, params):
    """hk.data_structures.map(f, params): f is evaluated by the engine at an arbitrary entry, once under each
    outcome of "is this entry named non-trainable" (the only thing f may branch on)."""
    a, b = ctx.fresh('hm', Name), ctx.fresh('hn', Name)
    v = ctx.fresh('hv', 'real')
    outs = {}
    for flag in (True, False):
      base = len(ctx.pc)
      ctx.pc.append(NT(a, b) if flag else z3.Not(NT(a, b)))
      depth = ctx.dpos
      try:
        outs[flag] = ctx.engine.call_value(ctx, f, [a, b, v], {})
      finally:
        del ctx.pc[base:]
      if ctx.dpos != depth:
        raise Unsupported('the mapped function branches on something else than the non-trainable names')

    def none_of(r):
      return z3.BoolVal(r is None)

    def val_of(r):
      return v if r is None else to_z3(r)
    def is_none(x, y):
      inner = z3.If(NT(x, y), none_of(outs[True]), none_of(outs[False]))
      return z3.Or(params.is_none(x, y), inner)

    def val(x, y):
      e = z3.If(NT(x, y), val_of(outs[True]), val_of(outs[False]))
      return z3.substitute(e, (v, params.val(x, y)), (a, x), (b, y))
    return HkV(is_none, val)

  g = {
      'hk': Module('hk', {'data_structures': Module('hk.data_structures', {
          'map': Handler(hk_map, 'hk.data_structures.map'),
          'to_mutable_dict': Handler(lambda ctx, h: HkV(h.is_none, h.val, mutable=True), 'to_mutable_dict'),
          'to_immutable_dict': Handler(lambda ctx, h: HkV(h.is_none, h.val), 'to_immutable_dict')})}),
      'non_trainable_names': NTSet(),
      'non_trainable_to_none': ex_f.funcv(),
  }
  base_calls = []

  class BaseOpt(Val):
    def method(self, ctx, name, args, kwargs):
      if name == 'apply':
        gr, s, pr = args
        base_calls.append((gr, s, pr))
        # T-OPT/optax: None leaves are skipped and stay None; the rest is the base optimizer's output
        return (OptStV(z3.Const('base_state_out', OptStateT)), HkV(pr.is_none, lambda a, b: BASEP(a, b)))
      if name == 'init':
        base_calls.append(args)
        return OptStV(z3.Const('base_state0', OptStateT))
      raise Unsupported(name)

    def getattr(self, ctx, name):
      return Handler(lambda c, *a: self.method(c, name, list(a), {}), f'optimizer.{name}')
  g['optimizer'] = BaseOpt()
  eng = Engine(g)

  # the mapping function itself
  def body_f(ctx):
    v = z3.Real('value')
    kind, r = eng.run_function(ctx, ex_f.funcv(), [m0, n0, v])
    if r is None:
      ctx.oblige('ign.mask.none', NT(m0, n0), detail='an entry is masked to None only if it is named non-trainable')
    else:
      ctx.oblige('ign.mask.keep', z3.And(z3.Not(NT(m0, n0)), to_z3(r) == v),
                 detail='every other entry is passed through unchanged')
  p.verify('ignore_grads_haiku.non_trainable_to_none', eng, body_f)

  def body_apply(ctx):
    del base_calls[:]
    params = HkV(lambda a, b: z3.BoolVal(False), lambda a, b: PARAM(a, b))
    grads = HkV(lambda a, b: z3.BoolVal(False), lambda a, b: GRAD(a, b))
    kind, r = eng.run_function(ctx, ex_a.funcv(), [grads, OptStV(z3.Const('s', OptStateT)), params])
    ctx.oblige('ign.noraise', kind == 'return')
    if kind != 'return':
      return
    out = r[1]
    ctx.oblige('ign.identity', z3.And(out.val(m0, n0) == z3.If(NT(m0, n0), PARAM(m0, n0), BASEP(m0, n0)),
                                      z3.Not(out.is_none(m0, n0))),
               detail='named entries come back equal to the input entries (bit-identical: they are the same arrays); '
                      'all other entries are what the base optimizer returned')
    ok = len(base_calls) == 1
    ctx.oblige('ign.base.once', ok)
    if ok:
      gr, s, pr = base_calls[0]
      ctx.oblige('ign.base.masked', z3.And(gr.is_none(m0, n0) == NT(m0, n0), pr.is_none(m0, n0) == NT(m0, n0),
                                           z3.Implies(z3.Not(NT(m0, n0)), z3.And(gr.val(m0, n0) == GRAD(m0, n0),
                                                                                 pr.val(m0, n0) == PARAM(m0, n0)))),
                 detail='the base optimizer sees exactly the trainable entries (the named ones are None in grads AND params)')
    ctx.oblige('frame.params', z3.Not(params.is_none(m0, n0)) == z3.BoolVal(True) and not params.mutable)
  p.verify('ignore_grads_haiku.apply', eng, body_apply)

  def body_init(ctx):
    del base_calls[:]
    params = HkV(lambda a, b: z3.BoolVal(False), lambda a, b: PARAM(a, b))
    kind, r = eng.run_function(ctx, ex_i.funcv(), [params])
    ok = kind == 'return' and len(base_calls) == 1
    ctx.oblige('ign.init', ok and z3.simplify(base_calls[0][0].is_none(m0, n0) == NT(m0, n0)) if ok else False,
               detail='init masks the same names')
  p.verify('ignore_grads_haiku.init', eng, body_init)


def v_apfl(p):
  from . import C12
  C12.v_apfl_global(p)   # apfl.box (coefficients clipped into [0,1] after every step) is obliged there
  # apfl.keys: the state table is only ever written at ids of participating clients
  ex = p.extract(AP, 'adaptive_personalized_federated_learning.<locals>.apply')
  stores = []
  for n in ast.walk(ex.node):
    if isinstance(n, ast.Assign):
      for t in n.targets:
        if isinstance(t, ast.Subscript) and 'client_states' in ast.unparse(t.value):
          stores.append((ast.unparse(t), n.lineno))
  loops = [n for n in ast.walk(ex.node) if isinstance(n, ast.For) and 'train_for_each_client' in ast.unparse(n.iter)]
  ok = len(stores) == 1 and len(loops) == 1 and isinstance(loops[0].target, ast.Tuple) and \
      stores[0][0].endswith(f'[{ast.unparse(loops[0].target.elts[0])}]') and \
      any(stores[0][1] == getattr(s, 'lineno', -1) for s in loops[0].body)
  p.oblige('apfl.keys', [], z3.BoolVal(bool(ok)), kind='post', fn='apfl.apply',
           detail='dataflow: the only store into the per-client state table is table[client_id] inside the loop over '
                  f'for_each_client outputs ({stores}): keys(new) is a subset of keys(old) + ids(participating clients)')


def v_apfl_table_frame(p):
  """No function of the APFL module other than the training round writes the per-client state table: evaluation reads it
  (`.get(cid, default)`), it never inserts (OWN frame analysis of every function in apfl.py)."""
  from .. import own
  from ..extract import parse
  _, tree = parse(AP)
  bad, n_sites = [], 0
  for n in tree.body:
    if not isinstance(n, ast.FunctionDef):
      continue
    sites, _ = own.analyze_function(n, n.name)
    for s in sites:
      n_sites += 1
      if 'client_states' in s.what and not s.ok:
        bad.append(f'{AP}:{s.lineno} {s.fn}: {s.what.strip()} ({s.why})')
  p.oblige('apfl.keys.frame', [], z3.BoolVal(not bad and n_sites >= 1), kind='frame', fn='apfl',
           detail='every mutation of a client_states table in apfl.py is on a table created in the same call (the copy made by '
                  f'apply); evaluation and helpers never insert into the table of the state they are given ({bad}; {n_sites} sites)')


def build(p):
  D = 'native/C17.py'
  p.native('', D, 'invariants')
  p.native('update_domain_weights', D, 'eg')
  v_update_domain_weights(p)
  v_window(p)
  v_alpha(p)
  v_scaled_loss(p)
  v_ml_clip(p)
  v_ignore_grads(p)
  v_apfl(p)
  v_apfl_table_frame(p)
  from . import C17_hyp
  C17_hyp.build(p)
  from .. import link
  from ..extract import REPO
  link.check(p, [ex.node for ex in p.functions.values()], REPO)
  p.trust('sum lemmas (not proved here): sum_d (f(d) / c) = (sum_d f(d)) / c for c independent of d; a sum of non-negatives '
          'with a positive term is positive — with afa.simplex.form/scalar/positive they give "weights sum to 1"',
          'exp > 0 (uninterpreted positive function); finiteness of exp in float32 for huge losses is not covered',
          'hk.data_structures.map applies f to every (module, name, value); to_mutable_dict / to_immutable_dict copy; '
          'optax-style optimizers skip None leaves',
          'T-PY: [x] * k is a list of k references to x; list slicing and + build new lists')
  p.not_covered.append('finiteness of exp(lr * loss) in float32 for very large losses')
