"""C19 — downloaded and decompressed cache files appear only when complete.

Functions under contract (fedjax/datasets/downloads.py): maybe_download,
maybe_lzma_decompress, validate_file.

Ghost cache directory: for each path label, `exists` (Bool) and `written`
(number of payload bytes it holds, always a prefix of the payload because all
writers append sequentially).  Every library call that touches the network or
the disk is one atomic effect and may fail (a fresh Bool per call site decides);
the crash invariant — a path that is not a `.partial` name exists only with
the complete payload — is obliged after every effect, hence also on every
exceptional exit.
"""
from __future__ import annotations

import z3

from ..script import *  # noqa

F = 'fedjax/datasets/downloads.py'
I = z3.IntSort()
LEN = z3.Int('payload_len')       # size of the file being fetched
DLEN = z3.Int('decompressed_len')  # size of the decompressed content


class PathV(StrV):
  def __init__(self, label, total):
    self.label, self.total = label, total

  def binop(self, ctx, op, other, reflected):
    if op == 'Add' and isinstance(other, str) and not reflected:
      return PathV(self.label + other, self.total)
    return StrV()

  @property
  def is_final(self):
    return not self.label.endswith('.partial') and not self.label.endswith('.tmp')


def fstate(ctx, label):
  g = ctx.ghost
  if 'exists:' + label not in g:
    g['exists:' + label] = ctx.fresh('exists_' + label, 'bool')
    g['written:' + label] = ctx.fresh('written_' + label)
  return g['exists:' + label], g['written:' + label]


def crash_point(ctx, what):
  g = ctx.ghost
  ctx.tags['effects'] = ctx.tags.get('effects', 0) + 1
  for k in list(g):
    if k.startswith('exists:'):
      label = k[len('exists:'):]
      total = ctx.tags['totals'].get(label)
      if total is None:
        continue
      ctx.oblige('cache.atomic', z3.Implies(g[k], g['written:' + label] == total),
                 kind='crash-invariant',
                 detail=f'after `{what}`: {label} either does not exist or holds the complete content')


def fault(ctx, what, exc='OSError'):
  if ctx.branch(ctx.fresh('fault_' + what, 'bool')):
    ctx.tags['faults'] = ctx.tags.get('faults', 0) + 1
    raise RaiseSig(ExcV(exc))


class OutFileV(Val):
  def __init__(self, path):
    self.path = path

  def method(self, ctx, name, args, kwargs):
    if name == '__enter__':
      return self
    if name == '__exit__':
      # close(): flushes the buffered tail; only now is everything handed to write() on disk
      ctx.ghost['open:' + self.path.label] = z3.BoolVal(False)
      return None
    if name == 'write':
      (data,) = args
      if not isinstance(data, BytesV):
        raise Unsupported('write argument')
      fault(ctx, 'write')
      g = ctx.ghost
      lab = self.path.label
      # appended bytes must be the next bytes of the payload for the file to stay a prefix
      ctx.oblige('dl.seq', data.offset == g['written:' + lab], kind='invariant',
                 detail='blocks are appended in order: the file is always a prefix of the payload')
      g['written:' + lab] = g['written:' + lab] + data.n
      crash_point(ctx, 'write')
      return data.n
    raise Unsupported(f'file.{name}')


class BytesV(Val):
  """payload[offset : offset+n]"""

  def __init__(self, offset, n):
    self.offset, self.n = offset, n

  def length(self, ctx):
    return self.n


def c_open(ctx, path, mode='r'):
  if not isinstance(path, PathV):
    raise Unsupported('open path')
  if 'w' in mode or 'x' in mode:
    fault(ctx, 'open')
    e, _ = fstate(ctx, path.label)
    if 'x' in mode and ctx.branch(e):
      # exclusive create: a file left behind by an earlier crash makes this raise (not an injected fault)
      raise RaiseSig(ExcV('FileExistsError'))
    ctx.ghost['exists:' + path.label] = z3.BoolVal(True)
    ctx.ghost['written:' + path.label] = z3.IntVal(0)  # 'wb' truncates
    ctx.ghost['open:' + path.label] = z3.BoolVal(True)   # buffered: the tail is on disk only after close()
    if path.is_final:
      ctx.tags['totals'].setdefault(path.label, path.total)
    crash_point(ctx, f'open({path.label}, wb)')
    return OutFileV(path)
  return InFileV(path)


class InFileV(Val):
  def __init__(self, path):
    self.path = path

  def method(self, ctx, name, args, kwargs):
    if name in ('__enter__',):
      return self
    if name == '__exit__':
      return None
    if name == 'read':
      return DataV(z3.Const('file_data', z3.DeclareSort('Data')))
    raise Unsupported(f'infile.{name}')


Data = z3.DeclareSort('Data')
DLENF = z3.Function('data_len', Data, I)
Hex = z3.DeclareSort('Hex')
SHA = z3.Function('sha256_hex', Data, Hex)


class DataV(Val):
  def __init__(self, term):
    self.term = term

  def length(self, ctx):
    return DLENF(self.term)


class HexV(Val):
  def __init__(self, term):
    self.term = term

  def compare(self, ctx, op, other):
    o = other.term if isinstance(other, HexV) else None
    if o is None:
      raise Unsupported('hexdigest comparison')
    return (self.term == o) if op == 'Eq' else (self.term != o)


class ShaV(Val):
  def __init__(self, data):
    self.data = data

  def method(self, ctx, name, args, kwargs):
    if name == 'hexdigest':
      return HexV(SHA(self.data.term))
    raise Unsupported(f'sha256.{name}')


class RespV(Val):
  """requests.Response (streaming): `pos` bytes consumed so far."""

  def __init__(self, ctx):
    self.pos_key = 'resp_pos'
    ctx.ghost['resp_pos'] = z3.IntVal(0)

  def method(self, ctx, name, args, kwargs):
    if name == 'raise_for_status':
      fault(ctx, 'http_status', 'HTTPError')
      return None
    raise Unsupported(f'response.{name}')

  def getattr(self, ctx, name):
    if name == 'headers':
      return HeadersV()
    if name == 'raw':
      return RawV()
    raise Unsupported(f'response.{name}')


class HeadersV(Val):
  """Response headers: content-length may be ABSENT (chunked / unknown size): a fresh Bool decides."""

  def _present(self, ctx):
    return ctx.branch(ctx.ghost.setdefault('has_content_length', ctx.fresh('has_content_length', 'bool')))

  def getitem(self, ctx, key):
    if key == 'content-length':
      if self._present(ctx):
        return LenStrV()
      ctx.tags['faults'] = ctx.tags.get('faults', 0) + 1     # a KeyError here is a failed transfer, like any I/O error
      raise RaiseSig(ExcV('KeyError'))
    raise Unsupported('header')

  def method(self, ctx, name, args, kwargs):
    if name == 'get' and args and args[0] == 'content-length':
      if self._present(ctx):
        return LenStrV()
      return args[1] if len(args) > 1 else None
    raise Unsupported(f'headers.{name}')


class LenStrV(StrV):
  def to_int(self, ctx):
    return LEN


class RawV(Val):
  def method(self, ctx, name, args, kwargs):
    if name == 'read':
      (b,) = args
      fault(ctx, 'read', 'ConnectionError')
      pos = ctx.ghost['resp_pos']
      rem = LEN - pos
      n = z3.If(to_z3(b) <= rem, to_z3(b), z3.If(rem > 0, rem, z3.IntVal(0)))
      ctx.ghost['resp_pos'] = pos + n
      return BytesV(pos, n)
    raise Unsupported(f'raw.{name}')


def c_requests_get(ctx, url, stream=False, **kw):
  ctx.tags['network'] = ctx.tags.get('network', 0) + 1
  fault(ctx, 'connect', 'ConnectionError')
  return RespV(ctx)


def c_rename(ctx, src, dst):
  if not (isinstance(src, PathV) and isinstance(dst, PathV)):
    raise Unsupported('rename arguments')
  fault(ctx, 'rename')
  g = ctx.ghost
  es, ws = fstate(ctx, src.label)
  ctx.oblige('rename.src.exists', es, kind='definedness', detail='FileNotFoundError in os.rename')
  ctx.oblige('rename.src.closed', z3.Not(g.get('open:' + src.label, z3.BoolVal(False))), kind='precondition',
             detail='the temporary file is closed (flushed) before it is renamed to the final name: a crash or an I/O error at '
                    'flush-on-close after the rename would leave a truncated file under the final name')
  fstate(ctx, dst.label)
  g['exists:' + dst.label] = z3.BoolVal(True)
  g['written:' + dst.label] = ws
  g['exists:' + src.label] = z3.BoolVal(False)
  if dst.is_final:
    ctx.tags['totals'].setdefault(dst.label, dst.total)
  crash_point(ctx, f'rename({src.label} -> {dst.label})')
  return None


def c_copy(ctx, src, dst, *a, **k):
  """shutil.copy / copyfile / copy2: NOT atomic - the destination is created and filled block by block."""
  if not (isinstance(src, PathV) and isinstance(dst, PathV)):
    raise Unsupported('copy arguments')
  fault(ctx, 'copy')
  g = ctx.ghost
  es, ws = fstate(ctx, src.label)
  ctx.oblige('copy.src.exists', es, kind='definedness', detail='FileNotFoundError in shutil.copy')
  fstate(ctx, dst.label)
  g['exists:' + dst.label] = z3.BoolVal(True)
  if dst.is_final:
    ctx.tags['totals'].setdefault(dst.label, dst.total)
  n = ctx.fresh('copied_so_far')
  ctx.assume(z3.And(0 <= n, n <= ws))
  g['written:' + dst.label] = n
  crash_point(ctx, f'copy({src.label} -> {dst.label}) (any number of bytes copied so far)')
  if ctx.branch(ctx.fresh('fault_copy_mid', 'bool')):
    ctx.tags['faults'] = ctx.tags.get('faults', 0) + 1
    raise RaiseSig(ExcV('OSError'))
  g['written:' + dst.label] = ws
  crash_point(ctx, f'copy({src.label} -> {dst.label}) finished')
  return None


def c_remove(ctx, path):
  if not isinstance(path, PathV):
    raise Unsupported('remove path')
  fault(ctx, 'remove')
  e, _ = fstate(ctx, path.label)
  if ctx.branch(z3.Not(e)):
    raise RaiseSig(ExcV('FileNotFoundError'))
  ctx.ghost['exists:' + path.label] = z3.BoolVal(False)
  ctx.ghost['written:' + path.label] = z3.IntVal(0)
  crash_point(ctx, f'remove({path.label})')
  return None


def c_exists(ctx, path):
  if not isinstance(path, PathV):
    raise Unsupported('exists path')
  e, _ = fstate(ctx, path.label)
  if path.is_final:
    ctx.tags['totals'].setdefault(path.label, path.total)
  return e


def c_copyfileobj(ctx, fi, fo):
  if not (isinstance(fo, OutFileV) and isinstance(fi, LzmaV)):
    raise Unsupported('copyfileobj arguments')
  g = ctx.ghost
  lab = fo.path.label
  n = ctx.fresh('copied')
  ctx.assume(z3.And(n >= 0, n <= DLEN))
  ctx.oblige('xz.seq', g['written:' + lab] == 0, kind='invariant',
             detail='decompression starts on an empty output file')
  g['written:' + lab] = n
  crash_point(ctx, 'copyfileobj (any number of bytes copied so far)')
  # T-IO: copyfileobj copies everything or raises
  if ctx.branch(ctx.fresh('fault_copy', 'bool')):
    ctx.tags['faults'] = ctx.tags.get('faults', 0) + 1
    raise RaiseSig(ExcV('LZMAError'))
  ctx.assume(n == DLEN)
  return None


class LzmaV(Val):
  def method(self, ctx, name, args, kwargs):
    if name in ('__enter__',):
      return self
    if name == '__exit__':
      return None
    raise Unsupported(f'lzma.{name}')


def c_lzma_open(ctx, path, mode='rb'):
  if isinstance(path, PathV) and 'exists:' + path.label in ctx.ghost:
    e, _ = fstate(ctx, path.label)
    if ctx.branch(z3.Not(e)):
      raise RaiseSig(ExcV('FileNotFoundError'))      # not an injected fault: the compressed source is gone
  fault(ctx, 'lzma_open')
  return LzmaV()


def c_glob(ctx, pattern):
  """glob.glob(prefix + '.*') over the ghost directory: every existing file whose name extends `prefix.` (the
  directory holds the names the model knows: FILE, FILE.partial, FILE.lzma, ...)."""
  if not (isinstance(pattern, PathV) and pattern.label.endswith('.*')):
    raise Unsupported('glob pattern')
  prefix = pattern.label[:-1]
  out = []
  for k in sorted(ctx.ghost):
    if k.startswith('exists:') and k[len('exists:'):].startswith(prefix):
      label = k[len('exists:'):]
      if ctx.branch(ctx.ghost[k]):
        out.append(PathV(label, ctx.tags['totals'].get(label, LEN)))
  return ctx.alloc(PyListCell(out))


def globals_():
  noop = Handler(lambda ctx, *a, **k: None, 'noop')
  return {
      'os': Module('os', {
          'makedirs': noop, 'rename': Handler(c_rename, 'os.rename'),
          'remove': Handler(c_remove, 'os.remove'), 'unlink': Handler(c_remove, 'os.unlink'),
          'replace': Handler(c_rename, 'os.replace'),
          'path': Module('os.path', {
              'join': Handler(lambda ctx, *a: PathV('FILE', LEN), 'os.path.join'),
              'basename': Handler(lambda ctx, p: StrV(), 'basename'),
              'exists': Handler(c_exists, 'os.path.exists'),
              'splitext': Handler(lambda ctx, p: (PathV(p.label[:p.label.rindex('.')], DLEN),
                                                 p.label[p.label.rindex('.'):]), 'splitext'),
              'expanduser': Handler(lambda ctx, p: StrV(), 'expanduser')})}),
      'urllib': Module('urllib', {'parse': Module('urllib.parse', {
          'urlparse': Handler(lambda ctx, u: UrlV(), 'urlparse')})}),
      'requests': Module('requests', {'get': Handler(c_requests_get, 'requests.get')}),
      'open': Handler(c_open, 'open'),
      'log': noop,
      'default_cache_dir': Handler(lambda ctx: StrV(), 'default_cache_dir'),
      'lzma': Module('lzma', {'open': Handler(c_lzma_open, 'lzma.open')}),
      'glob': Module('glob', {'glob': Handler(c_glob, 'glob.glob'), 'escape': Handler(lambda ctx, p: p, 'glob.escape')}),
      'shutil': Module('shutil', {'copyfileobj': Handler(c_copyfileobj, 'copyfileobj'),
                                  'move': Handler(c_rename, 'shutil.move'), 'copy': Handler(c_copy, 'shutil.copy'),
                                  'copyfile': Handler(c_copy, 'shutil.copyfile'), 'copy2': Handler(c_copy, 'shutil.copy2')}),
      'hashlib': Module('hashlib', {'sha256': Handler(lambda ctx, d: ShaV(d), 'sha256')}),
  }


class UrlV(Val):
  def getattr(self, ctx, name):
    return StrV()


def v_download(p):
  ex = p.extract(F, 'maybe_download')
  eng = Engine(globals_())
  block = 1 << 18

  def inv(s):
    g = s.ctx.ghost
    k = to_z3(s.it)
    w = g['written:FILE.partial']
    return dict(
        pos=z3.And(0 <= k),
        blocks=z3.And(w == z3.If(k * block <= LEN, k * block, LEN), g['resp_pos'] == w,
                      g['exists:FILE.partial']),
        final=z3.Not(g['exists:FILE']))

  loops = {'re:progress_': Loop(inv=inv)}

  def body(ctx):
    ctx.model_vars['payload_len'] = LEN
    ctx.assume(LEN >= 0)
    ctx.tags['totals'] = {}
    # arbitrary crash-consistent cache: the final name, if present, is complete;
    # a stale .partial from an earlier interrupted call may hold anything
    e, w = fstate(ctx, 'FILE')
    ctx.tags['totals']['FILE'] = LEN
    ctx.assume(z3.Implies(e, w == LEN))
    fstate(ctx, 'FILE.partial')
    e0 = e
    rng = Handler(lambda c, n: ctx.engine.call_value(c, eng.globals['range'], [n], {}), 'progress_')
    kind, r = eng.run_function(ctx, ex.funcv(loops=loops), [StrV(), StrV(), rng])
    g = ctx.ghost
    ctx.oblige('dl.atomic.exit', z3.Implies(g['exists:FILE'], g['written:FILE'] == LEN),
               kind='crash-invariant',
               detail='on return and on every exceptional exit the final cache path is absent or complete')
    ctx.oblige('dl.repair', kind == 'return' or ctx.tags.get('faults', 0) > 0,
               detail='from every state an earlier crash can leave (a stale .partial included) a call that meets '
                      'no new I/O error returns: the cache is repaired')
    if kind == 'return':
      ctx.oblige('dl.post', z3.And(g['exists:FILE'], g['written:FILE'] == LEN),
                 detail='a successful call returns a complete cached file (repairing a stale .partial)')
      ctx.oblige('dl.path', isinstance(r, PathV) and r.label == 'FILE')
      ctx.oblige('dl.reuse', z3.Implies(e0, z3.BoolVal(ctx.tags.get('network', 0) == 0)),
                 detail='an already complete cached file is reused without touching the network')
    ctx.oblige('dl.effects', kind != 'return' or True)

  p.verify('maybe_download', eng, body)


def v_lzma(p):
  ex = p.extract(F, 'maybe_lzma_decompress')
  eng = Engine(globals_())

  def body(ctx):
    ctx.model_vars['decompressed_len'] = DLEN
    ctx.assume(DLEN >= 0)
    ctx.tags['totals'] = {}
    e, w = fstate(ctx, 'FILE')
    ctx.tags['totals']['FILE'] = DLEN
    ctx.assume(z3.Implies(e, w == DLEN))
    fstate(ctx, 'FILE.partial')   # a stale .partial from an earlier interrupted call may hold anything
    # the complete cached download (the argument): present when the call starts
    ctx.ghost['exists:FILE.lzma'] = z3.BoolVal(True)
    ctx.ghost['written:FILE.lzma'] = LEN
    e0 = e
    kind, r = eng.run_function(ctx, ex.funcv(), [PathV('FILE.lzma', LEN)])
    g = ctx.ghost
    ctx.oblige('xz.src.kept', z3.And(g['exists:FILE.lzma'], g['written:FILE.lzma'] == LEN), kind='crash-invariant',
               detail='on return and on every exceptional exit the complete cached download (the .lzma source) is still there: '
                      'a failed decompression is repaired by decompressing again, without touching the network')
    ctx.oblige('xz.atomic.exit', z3.Implies(g['exists:FILE'], g['written:FILE'] == DLEN),
               kind='crash-invariant',
               detail='on return and on every exceptional exit the decompressed path is absent or complete')
    ctx.oblige('xz.repair', kind == 'return' or ctx.tags.get('faults', 0) > 0,
               detail='from every state an earlier crash can leave (a stale .partial included) a call that meets '
                      'no new I/O error returns: the cache is repaired')
    if kind == 'return':
      ctx.oblige('xz.post', z3.And(g['exists:FILE'], g['written:FILE'] == DLEN),
                 detail='a successful call returns a complete decompressed file')
      ctx.oblige('xz.path', isinstance(r, PathV) and r.label == 'FILE')

  p.verify('maybe_lzma_decompress', eng, body)

  def body_ext(ctx):
    ctx.tags['totals'] = {}
    kind, r = eng.run_function(ctx, ex.funcv(), [PathV('FILE.gz', LEN)])
    ctx.oblige('xz.ext', kind == 'raise' and r.name == 'ValueError',
               detail='anything but .lzma is rejected')
    ctx.oblige('xz.ext.noeffect', ctx.tags.get('effects', 0) == 0)
  p.verify('maybe_lzma_decompress[ext]', eng, body_ext)


def v_validate(p):
  ex = p.extract(F, 'validate_file')
  eng = Engine(globals_())
  n = z3.Int('expected_num_bytes')
  hx = z3.Const('expected_hexdigest', Hex)
  data = z3.Const('file_data', Data)

  def body(ctx):
    ctx.tags['totals'] = {}
    kind, r = eng.run_function(ctx, ex.funcv(), [PathV('FILE', LEN), n, HexV(hx)])
    ok = z3.And(DLENF(data) == n, SHA(data) == hx)
    if kind == 'raise':
      ctx.oblige('val.reject', z3.And(r.name == 'ValueError', z3.Not(ok)),
                 detail='ValueError exactly when size or sha256 differ')
    else:
      ctx.oblige('val.accept', ok, detail='returns only when both size and sha256 match')
  p.verify('validate_file', eng, body)


# ---------------------------------------------------------------------------
# cifar100.load_split: download -> validate -> decompress -> convert (build, validate, publish)

CF = 'fedjax/datasets/cifar100.py'
CLEN = z3.Int('converted_len')      # size of the converted SQLite file when it is complete


class BuilderV(Val):
  """SQLiteFederatedDataBuilder(path): creates the file (an empty table: not the complete content) when constructed;
  add_many fills it while it consumes its iterator and may fail anywhere in between."""

  def __init__(self, path):
    self.path = path

  def method(self, ctx, name, args, kwargs):
    g = ctx.ghost
    lab = self.path.label
    if name == '__enter__':
      return self
    if name == '__exit__':
      g['open:' + lab] = z3.BoolVal(False)
      return None
    if name == 'add_many':
      n = ctx.fresh('converted_so_far')
      ctx.assume(z3.And(n >= 0, n < CLEN))
      g['written:' + lab] = n
      crash_point(ctx, f'add_many into {lab} (any number of clients written so far)')
      fault(ctx, 'convert')
      g['written:' + lab] = CLEN
      ctx.tags['built'] = lab
      crash_point(ctx, f'add_many into {lab} finished')
      return None
    raise Unsupported(f'builder.{name}')


def v_cifar(p):
  ex = p.extract(CF, 'load_split')

  def mk_globals(ctx_calls):
    g = globals_()

    def c_builder(ctx, path):
      if not isinstance(path, PathV):
        raise Unsupported('builder path')
      fault(ctx, 'builder_open')
      e, _ = fstate(ctx, path.label)
      if ctx.branch(e):
        # CREATE TABLE on an existing database file fails (sqlite3.OperationalError): not an injected fault
        raise RaiseSig(ExcV('OperationalError'))
      ctx.ghost['exists:' + path.label] = z3.BoolVal(True)
      ctx.ghost['written:' + path.label] = z3.IntVal(0)
      ctx.ghost['open:' + path.label] = z3.BoolVal(True)
      if path.is_final:
        ctx.tags['totals'].setdefault(path.label, CLEN)
      ctx_calls.append(('build', path.label))
      crash_point(ctx, f'SQLiteFederatedDataBuilder({path.label})')
      return BuilderV(path)

    def c_new(ctx, path):
      ctx_calls.append(('open', path.label if isinstance(path, PathV) else None))
      return StrV()

    def c_download(ctx, url, cache_dir=None, *a, **k):
      fault(ctx, 'download', 'ConnectionError')
      ctx_calls.append(('download', None))
      return PathV('DL.lzma', LEN)

    def c_validate(ctx, path, nbytes, digest):
      ctx_calls.append(('validate', path.label if isinstance(path, PathV) else None, nbytes, digest))
      fault(ctx, 'validate', 'ValueError')
      return None

    def c_decompress(ctx, path):
      fault(ctx, 'decompress', 'LZMAError')
      ctx_calls.append(('decompress', path.label if isinstance(path, PathV) else None))
      return PathV('DL', DLEN)
    g['downloads'] = Module('downloads', {
        'maybe_download': Handler(c_download, 'maybe_download'), 'validate_file': Handler(c_validate, 'validate_file'),
        'maybe_lzma_decompress': Handler(c_decompress, 'maybe_lzma_decompress'),
        'log': Handler(lambda ctx, *a, **k: None, 'log')})
    g['sqlite_federated_data'] = Module('sqlite_federated_data', {
        'SQLiteFederatedDataBuilder': Handler(c_builder, 'SQLiteFederatedDataBuilder'),
        'TFFSQLiteClientsIterator': Handler(lambda ctx, *a, **k: StrV(), 'TFFSQLiteClientsIterator'),
        'SQLiteFederatedData': Module('SQLiteFederatedData', {'new': Handler(c_new, 'SQLiteFederatedData.new')})})
    g['map'] = Handler(lambda ctx, f, it: StrV(), 'map')
    g['_parse_tf_examples'] = StrV()
    g['os'].attrs['path'].attrs['dirname'] = Handler(lambda ctx, p_: StrV(), 'dirname')
    g['os'].attrs['path'].attrs['join'] = Handler(lambda ctx, *a: PathV('FILE', CLEN), 'os.path.join')
    return g

  for split in ('train', 'test'):
    calls = []
    eng = Engine(mk_globals(calls))
    eng.sources = [CF]

    def body(ctx, split=split, calls=calls, eng=eng):
      del calls[:]
      ctx.model_vars['converted_len'] = CLEN
      ctx.assume(CLEN > 0)
      ctx.tags['totals'] = {'FILE': CLEN}
      # any crash-consistent cache: the converted file, if present, is complete; a stale temporary may hold anything
      e, w = fstate(ctx, 'FILE')
      ctx.assume(z3.Implies(e, w == CLEN))
      fstate(ctx, 'FILE.partial')
      fstate(ctx, 'FILE.tmp')
      e0 = e
      kind, r = eng.run_function(ctx, ex.funcv(), [split, 'sqlite', StrV()])
      g = ctx.ghost
      ctx.oblige('cifar.atomic.exit', z3.Implies(g['exists:FILE'], g['written:FILE'] == CLEN), kind='crash-invariant',
                 detail='on return and on every exceptional exit the converted dataset file is absent or complete under its '
                        'final name (its existence is all that later calls check)')
      ctx.oblige('cifar.repair', kind == 'return' or ctx.tags.get('faults', 0) > 0,
                 detail='from every state an earlier crash can leave (stale temporaries included) a call that meets no new '
                        'error returns')
      names = [c[0] for c in calls]
      if 'decompress' in names:
        i = names.index('decompress')
        val = [c for c in calls[:i] if c[0] == 'validate']
        ok = names[:1] == ['download'] and len(val) == 1 and val[0][1] == 'DL.lzma' and calls[i][1] == 'DL.lzma'
        ctx.oblige('cifar.validated.download', bool(ok),
                   detail='the downloaded archive is validated (size + sha256) before it is decompressed, and it is the '
                          f'validated path that is decompressed (calls: {names})')
        if ok:
          src, tree = eng._module_tree(CF) if hasattr(eng, '_module_tree') else (None, None)
          ctx.oblige('cifar.validated.download.consts',
                     _is_const(ctx, eng, val[0][2], '_TFF_SQLITE_COMPRESSED_NUM_BYTES') and
                     _is_const(ctx, eng, val[0][3], '_TFF_SQLITE_COMPRESSED_HEXDIGEST'),
                     detail='against the pinned size and digest of the TFF archive')
      if kind == 'return':
        ctx.oblige('cifar.post', z3.And(g['exists:FILE'], g['written:FILE'] == CLEN),
                   detail='a successful call leaves the complete converted file under its final name')
        ctx.oblige('cifar.opened', bool(calls and calls[-1] == ('open', 'FILE')),
                   detail='the dataset that is returned is opened on the final cache path')
        built = [c for c in calls if c[0] == 'build']
        ctx.oblige('cifar.reuse', z3.Implies(e0, z3.BoolVal(not built)),
                   detail='a complete converted file is reused: no conversion')
        if built:
          bi = calls.index(built[0])
          val = [c for c in calls[bi:] if c[0] == 'validate']
          ok = len(built) == 1 and len(val) == 1 and val[0][1] == built[0][1]
          ctx.oblige('cifar.validated.converted', bool(ok),
                     detail='the file that was just built is validated (size + sha256 of this split) before it is returned')
          if ok:
            ctx.oblige('cifar.validated.converted.consts',
                       _is_const(ctx, eng, val[0][2], '_FEDJAX_SQLITE_NUM_BYTES', split) and
                       _is_const(ctx, eng, val[0][3], '_FEDJAX_SQLITE_HEXDIGEST', split),
                       detail=f"against the pinned size and digest of the '{split}' split")
    p.verify(f'cifar100.load_split[{split}]', eng, body)

  eng2 = Engine(mk_globals([]))
  eng2.sources = [CF]

  def body_bad(ctx):
    ctx.tags['totals'] = {}
    kind, r = eng2.run_function(ctx, ex.funcv(), ['validation', 'sqlite', StrV()])
    ctx.oblige('cifar.split.reject', kind == 'raise' and r.name == 'ValueError' and ctx.tags.get('effects', 0) == 0,
               detail='an unknown split is rejected before anything is fetched or written')
  p.verify('cifar100.load_split[bad split]', eng2, body_bad)


def v_progress(p):
  """downloads.progress(n), the default driver of maybe_download's block loop: it yields exactly 0, 1, ..., n-1 and then
  stops, OR it raises - it never stops early without an exception (an early silent stop would end the block loop after k < n
  blocks and the truncated .partial would be renamed to the final name).  Its log calls may fail (OSError on stderr)."""
  ex = p.extract(F, 'progress')
  n = z3.Int('num_blocks')

  def c_log(ctx, *a, **k):
    fault(ctx, 'log')
    return None
  eng = Engine({'time': Module('time', {'time': Handler(lambda ctx: ctx.fresh('now', 'real'), 'time.time')}),
                'log': Handler(c_log, 'log'),
                'format_duration': Handler(lambda ctx, x: StrV(), 'format_duration')})

  def inv(s):
    return dict(count=s.ctx.ghost['yielded'] == to_z3(s.it), pos=z3.And(0 <= to_z3(s.it), to_z3(s.it) <= n))
  loops = {0: Loop(inv=inv, ghost=['yielded'])}

  def body(ctx):
    ctx.model_vars['num_blocks'] = n
    ctx.assume(n >= 0)
    ctx.ghost['yielded'] = z3.IntVal(0)

    def on_yield(c, v):
      c.oblige('progress.order', to_z3(v) == c.ghost['yielded'], detail='the k-th value yielded is k')
      c.ghost['yielded'] = c.ghost['yielded'] + 1
    ctx.on_yield = on_yield
    kind, r = eng.run_function(ctx, ex.funcv(loops=loops), [n])
    ctx.oblige('progress.complete', z3.Implies(z3.BoolVal(kind == 'return'), ctx.ghost['yielded'] == n),
               detail='when the generator finishes without raising it has yielded exactly n values: an error while reporting '
                      'progress propagates, it never ends the block loop early')
  p.verify('progress', eng, body)


def _is_const(ctx, eng, v, name, key=None):
  """v is the value of module constant `name` (or name[key]) of cifar100.py."""
  import ast
  from ..extract import parse
  _, tree = parse(CF)
  for n in tree.body:
    if isinstance(n, ast.Assign) and len(n.targets) == 1 and isinstance(n.targets[0], ast.Name) and n.targets[0].id == name:
      try:
        want = ast.literal_eval(n.value)
      except Exception:
        return False
      if key is not None:
        want = want.get(key) if isinstance(want, dict) else None
      return want is not None and type(v) is type(want) and v == want
  return False


def build(p):
  D = 'native/C19.py'
  p.native('maybe_download', D, 'download')
  p.native('maybe_lzma_decompress', D, 'lzma')
  p.native('maybe_lzma_decompress[', D, 'lzma_truncated')
  p.native('validate_file', D, 'validate')
  v_download(p)
  v_lzma(p)
  v_validate(p)
  p.native('cifar100.load_split', D, 'cifar')
  v_cifar(p)
  p.native('progress', D, 'download')
  v_progress(p)
  p.trust('T-IO: open(p, "wb") creates/truncates p atomically; write appends or raises; os.rename is atomic; '
          'r.raw.read(b) returns min(b, remaining) bytes or raises; the content-length header equals the payload '
          'size; shutil.copyfileobj/lzma copy everything or raise; any of these calls may fail (fresh fault flag per call)',
          'progress_ yields like range(n) (its documented contract)')
  p.not_covered.append('concurrent callers writing the same cache path (the source has a TODO; not in the statement)')
