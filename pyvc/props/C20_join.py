"""C20 (continued) — shakespeare.preprocess_client: join, shift by one, pad.

The label stream of a client is  S = concat_j [BOS] ++ TABLE[snippet_j] ++ [EOS].
Ghost: OFF(k) = sum_{j<k} (len(snippet_j) + 2)  (start of snippet k in S).
The stream is described in (snippet, position) coordinates, at an arbitrary
snippet j0 < n and position t0 in [0, len_j0 + 2):

    S[OFF(j0) + t0] = BOS                     if t0 = 0
                    = TABLE[snippet_j0[t0-1]] if 1 <= t0 <= len_j0
                    = EOS                     if t0 = len_j0 + 1

Arrays are *point functions* (index -> term closures): a store or a slice store
wraps the closure, a loop havoc replaces it by a fresh array constant, so every
obligation is quantifier free and a refutation comes with a model.
"""
from __future__ import annotations

import z3

from ..script import *  # noqa
from ..engine import DictCell

SD = 'fedjax/datasets/shakespeare.py'
I = z3.IntSort()
IS = z3.SeqSort(I)
LEN = z3.Function('snippet_len', I, I)          # len(snippet with this id)
BYTE = z3.Function('snippet_byte', I, I, I)     # its t-th byte
# the snippets array is a z3 Seq of opaque snippet ids (nested z3 sequences make both solvers give up)


class SnipV(Val):
  """One bytes object of the snippets array."""

  def __init__(self, sid):
    self.sid = sid

  def length(self, ctx):
    ctx.assume(LEN(self.sid) >= 0)    # T-PY: len() is non-negative
    return LEN(self.sid)

  def to_list(self, ctx):
    self.length(ctx)
    return ctx.alloc(SnipListCell(self.sid))


class SnipListCell(Cell):
  def __init__(self, sid, owner='local', label='list(snippet)'):
    self.sid, self.owner, self.label = sid, owner, label

  def length(self, ctx, ref):
    return LEN(self.sid)


BYTES = Codec(I, enc=lambda v: v.sid, dec=lambda t: SnipV(t))


class FnArrCell(Cell):
  """1-D numpy int array as (length, index -> value closure)."""

  def __init__(self, at, n, owner='local', label=''):
    self.at, self.n, self.owner, self.label = at, n, owner, label

  def length(self, ctx, ref):
    return self.n

  def _idx(self, ctx, idx, what):
    i, n = to_z3(idx), to_z3(self.n)
    ctx.oblige(f'index.{what}', z3.And(i >= -n, i < n), kind='definedness', detail=f'IndexError: {what}')
    return z3.If(i < 0, i + n, i)

  def _bounds(self, sl):
    if sl.step not in (None, 1):
      raise Unsupported('strided slice')
    lo, hi = slice_bounds(to_z3(self.n), sl.lo, sl.hi)
    return to_z3(lo), to_z3(hi)

  def getitem(self, ctx, ref, idx):
    if isinstance(idx, SliceV):
      lo, hi = self._bounds(idx)
      at = self.at
      return ctx.alloc(FnArrCell(lambda p: at(p + lo), z3.If(hi >= lo, hi - lo, 0), label='view'))
    if isinstance(idx, Ref):
      raise Unsupported('fancy read')
    return self.at(self._idx(ctx, idx, 'load'))

  def setitem(self, ctx, ref, idx, value):
    self.check_write(ctx, ref, 'setitem')
    c = self.clone()
    old = self.at
    if isinstance(idx, SliceV):
      lo, hi = self._bounds(idx)
      if not (isinstance(value, Ref) and isinstance(value.cell(ctx), FnArrCell)):
        raise Unsupported('slice store of a non-array')
      v = value.cell(ctx)
      ctx.oblige('store.shape', z3.If(hi >= lo, hi - lo, 0) == to_z3(v.n), kind='definedness',
                 detail='ValueError: could not broadcast input array into the slice (lengths differ)')
      vat = v.at
      c.at = lambda p: z3.If(z3.And(lo <= p, p < hi), vat(p - lo), old(p))
    else:
      i = self._idx(ctx, idx, 'store')
      val = to_z3(value)
      c.at = lambda p: z3.If(p == i, val, old(p))
    ctx.set_cell(ref.addr, c)

  def havoc(self, ctx, base):
    c = self.clone()
    arr = ctx.fresh(base, z3.ArraySort(I, I))
    c.at = lambda p: z3.Select(arr, p)
    return c

  def method(self, ctx, ref, name, args, kwargs):
    if name == 'reshape':
      shp = args[0]
      items = shp.cell(ctx).items if isinstance(shp, Ref) else list(shp)
      ok = len(items) == 2 and not is_z3(items[0]) and items[0] == -1
      if not ok:
        raise Unsupported('reshape other than [-1, k]')
      k = to_z3(items[1])
      n = to_z3(self.n)
      ctx.oblige('reshape.divisible', z3.And(k > 0, n % k == 0), kind='definedness',
                 detail='ValueError: cannot reshape array of size n into shape [-1, k]')
      return Mat2V(ref, k)
    raise Unsupported(f'ndarray.{name}')


class Mat2V(Val):
  """Row-major [-1, k] view of a FnArrCell (T-NP: reshape keeps the flat order)."""

  def __init__(self, base, k):
    self.base, self.k = base, k


class SnipsV(Val):
  """examples['snippets']: an array of byte strings."""

  def __init__(self, seq, on_elt):
    self.seq, self.on_elt = seq, on_elt

  def iterate(self, ctx):
    return IterSpec(seq=self.seq, codec=BYTES)

  def length(self, ctx):
    return z3.Length(self.seq)

  def comprehend(self, ctx, eng, e, g, kind):
    if g.ifs or kind != 'gen':
      raise Unsupported('filtered / non-generator comprehension over the snippets')
    j = z3.Int('j!gen')
    fid = ctx.push_frame(eng.lexical(ctx))
    try:
      eng.assign(ctx, g.target, SnipV(self.seq[j]))
      term = to_z3(eng.eval(ctx, e.elt))
    finally:
      ctx.pop_frame()
    return GenMapV(self, j, term)


class GenMapV(Val):
  def __init__(self, src, j, term):
    self.src, self.j, self.term_j = src, j, term


class TableV(Val):
  """shakespeare.TABLE under the contract proved for _build_look_up_table."""

  def __init__(self, fn):
    self.fn = fn

  def getitem(self, ctx, idx):
    if isinstance(idx, Ref) and isinstance(idx.cell(ctx), SnipListCell):
      sid = idx.cell(ctx).sid
      fn = self.fn
      # T-NP: fancy indexing with a list gathers elementwise; bytes are in [0, 256) = the table's domain
      return ctx.alloc(FnArrCell(lambda t: fn(BYTE(sid, t)), LEN(sid), label='gather'))
    raise Unsupported('TABLE[...] with a non-list index')


def build(p):
  ex = p.extract(SD, 'preprocess_client')
  snips = z3.Const('snippets', IS)
  n = z3.Length(snips)
  s_len = z3.Int('sequence_length')
  OFF = z3.Function('OFF', I, I)
  TBL = z3.Function('TABLE', I, I)
  j0, t0, q = z3.Ints('j0 t0 q')
  consts = {k: module_constant_int(k) for k in ('PAD', 'BOS', 'EOS')}
  PAD, BOS, EOS = consts['PAD'], consts['BOS'], consts['EOS']

  def ln(j):
    return LEN(snips[j])

  def off_def(k):
    return LemmaInst('off.def', z3.Implies(z3.And(0 <= k, k < n), OFF(k + 1) == OFF(k) + ln(k) + 2))

  # induction lemma: OFF is monotone (base + step obligations; induction on m is the meta rule)
  k_, m_ = z3.Ints('k m')
  p.oblige('lemma.off.mono.base', [], OFF(k_) <= OFF(k_), kind='lemma', fn='preprocess_client')
  p.oblige('lemma.off.mono.step', [off_def(m_).formula, ln(m_) >= 0, 0 <= k_, k_ <= m_, m_ < n, OFF(k_) <= OFF(m_)],
           OFF(k_) <= OFF(m_ + 1), kind='lemma', fn='preprocess_client',
           detail='OFF(k) <= OFF(m) for k <= m <= n, by induction on m (lengths are non-negative)')

  def mono(k, m):
    return LemmaInst('off.mono', z3.Implies(z3.And(0 <= k, k <= m, m <= n), OFF(k) <= OFF(m)))

  def stream(j, t):
    return z3.If(t == 0, BOS, z3.If(t == ln(j) + 1, EOS, TBL(BYTE(snips[j], t - 1))))

  def sum_handler(ctx, g, start=0):
    if not isinstance(g, GenMapV):
      raise Unsupported('sum of something else')
    ctx.oblige('join.length.elt', g.term_j == LEN(g.src.seq[g.j]) + 2,
               detail='joined_length sums len(snippet) + 2 (BOS and EOS) over the snippets')
    return OFF(z3.Length(g.src.seq)) + to_z3(start)

  def np_fill(val):
    def h(ctx, shape, *a, dtype=None, **kw):
      items = shape.cell(ctx).items if isinstance(shape, Ref) else [shape]
      if len(items) != 1:
        raise Unsupported('np.zeros / np.full of rank != 1')
      m = to_z3(items[0])
      ctx.oblige('alloc.nonneg', m >= 0, kind='definedness', detail='ValueError: negative dimensions are not allowed')
      v = to_z3(a[0]) if (val is None) else z3.IntVal(val)
      return ctx.alloc(FnArrCell(lambda p_: v, m, label='arr'))
    return h
  np_mod = Module('np', {'zeros': Handler(np_fill(0), 'np.zeros'), 'full': Handler(np_fill(None), 'np.full'),
                         'int32': 'int32'})
  eng = Engine({'np': np_mod, 'sum': Handler(sum_handler, 'sum'), 'TABLE': TableV(TBL)})
  eng.sources = [SD]

  def inv(s):
    k = to_z3(s.it)
    jn = s.raw('joined').cell(s.ctx)
    o = OFF(j0)
    return dict(
        pos=z3.And(0 <= k, k <= n),
        offset=to_z3(s['offset']) == OFF(k),
        length=to_z3(jn.n) == OFF(n),
        done=z3.Implies(z3.And(0 <= j0, j0 < k, 0 <= t0, t0 < ln(j0) + 2),
                        z3.And(OFF(j0 + 1) <= OFF(k), jn.at(o + t0) == stream(j0, t0))))

  def hints(s):
    k = to_z3(s.it)
    return [LemmaInst('T-PY.len.nonneg', z3.And(ln(k) >= 0, ln(j0) >= 0)), off_def(k), off_def(j0), mono(k + 1, n), mono(j0 + 1, k), mono(0, k), mono(0, j0)]
  
  def head_hints(s):
    k = to_z3(s.it)
    return [LemmaInst('T-PY.len.nonneg', z3.And(ln(k) >= 0, ln(j0) >= 0)), off_def(k), off_def(j0), mono(k + 1, n),
            mono(j0 + 1, k), mono(0, k), mono(0, j0)]
  loops = {0: Loop(inv=inv, expect='snippets', hints=hints, head_hints=head_hints)}

  def body(ctx):
    ctx.model_vars.update(sequence_length=s_len, num_snippets=n, j0=j0, t0=t0, q=q)
    ctx.assume(z3.And(s_len >= 2, OFF(0) == 0))
    ctx.assume(mono(0, n).formula)
    # contract of _build_look_up_table (shk.table): labels are in [num_reserved, VOCAB_SIZE) — instance at the byte looked at
    vs = vocab_size_from_contract()
    b = BYTE(snips[j0], t0 - 1)
    ctx.assume(z3.And(3 <= TBL(b), TBL(b) < vs, LEN(snips[j0]) >= 0))
    examples = ctx.alloc(DictCell.from_py({'snippets': SnipsV(snips, None)}))
    kind, r = eng.run_function(ctx, ex.funcv(loops=loops), [b'id', examples, s_len])
    ctx.oblige('join.noraise', kind == 'return')
    if kind != 'return':
      return
    d = r.cell(ctx)
    out = {k: v for k, v in d.items} if d.sym is None else {}
    ok = set(out) == {'x', 'y'} and all(isinstance(v, Mat2V) for v in out.values())
    ctx.oblige('join.keys', ok, detail="the result has exactly the features 'x' and 'y', each reshaped to [-1, sequence_length]")
    if not ok:
      return
    x, y = out['x'].base.cell(ctx), out['y'].base.cell(ctx)
    L = OFF(n)
    for h in (mono(0, n), mono(j0 + 1, n), mono(0, j0), off_def(j0)):
      ctx.assume(h.formula)
    pl = to_z3(x.n)
    m = z3.If(L >= 1, L - 1, 0)
    ctx.oblige('join.width', z3.And(out['x'].k == s_len, out['y'].k == s_len), detail='rows have sequence_length columns')
    ctx.oblige('join.padded', z3.And(to_z3(y.n) == pl, pl % s_len == 0, pl >= m, pl - m < s_len),
               detail='x and y have the same size: the least multiple of sequence_length that holds the L - 1 shifted labels')
    inside = z3.And(0 <= j0, j0 < n, 0 <= t0, t0 < ln(j0) + 2)
    pos = OFF(j0) + t0
    ctx.oblige('join.inputs', z3.Implies(z3.And(inside, pos < L - 1), x.at(pos) == stream(j0, t0)),
               detail='inputs with padding removed = the BOS / characters / EOS label stream of the snippets (without its last label)')
    ctx.oblige('join.shift', z3.Implies(z3.And(inside, pos >= 1), y.at(pos - 1) == stream(j0, t0)),
               detail='targets = the same stream shifted by one: y[p - 1] = S[p] for every p >= 1')
    ctx.oblige('join.pad', z3.Implies(z3.And(m <= q, q < pl), z3.And(x.at(q) == PAD, y.at(q) == PAD)),
               detail='everything after the L - 1 labels is PAD in both features')
    ctx.oblige('join.vocab', z3.Implies(inside, z3.And(0 <= stream(j0, t0), stream(j0, t0) < vs)),
               detail='every label is inside [0, VOCAB_SIZE)')
  p.verify('shakespeare.preprocess_client', eng, body)
  p.trust('T-NP: np.zeros / np.full / slice views / slice stores / fancy indexing with a list of bytes / row-major reshape '
          'follow their documented elementwise meaning (FnArrCell in C20_join.py)',
          'induction on the naturals for lemma off.mono (base and step are obligations)',
          'the label stream is stated in (snippet, position) coordinates; that these cover [0, OFF(n)) exactly once is '
          'arithmetic about OFF, not about the code')


def module_constant_int(name):
  from ..extract import module_constant
  return int(module_constant(SD, name))


def vocab_size_from_contract():
  """VOCAB_SIZE = num_reserved + |vocab| + 1 by the contract shk.vocab_size of _build_look_up_table,
  applied to the literal arguments of the module-level call."""
  import ast
  from ..extract import parse
  _, tree = parse(SD)
  for n_ in ast.walk(tree):
    if isinstance(n_, ast.Call) and ast.unparse(n_.func) == '_build_look_up_table':
      vocab = ast.literal_eval(n_.args[0])
      nres = [k.value.value for k in n_.keywords if k.arg == 'num_reserved'][0]
      return len(vocab) + nres + 1
  raise Undecided('extraction: TABLE, VOCAB_SIZE = _build_look_up_table(...) not found')
