"""C06 — masked gradients and losses ignore padding and batch geometry.

Functions under contract: models.grad.<locals>.scalar_loss (+ the jit(grad(.))
wrapper), _evaluate_average_loss_step, _finalize_average_loss,
evaluate_average_loss, mime.create_grads_for_each_client.<locals>.{client_init,
client_step, client_final}, agnostic_fed_avg.create_domain_metrics_for_each_client
.<locals>.{client_init, client_step}.
"""
from __future__ import annotations

import z3

from ..script import *  # noqa
from ..lib_real import *  # noqa
from .C05 import SUMROWS, ROW, I, module_frame

MO = 'fedjax/core/models.py'
U = 'fedjax/core/util.py'
MI = 'fedjax/algorithms/mime.py'
AF = 'fedjax/algorithms/agnostic_fed_avg.py'
TU = 'fedjax/core/tree_util.py'
B = z3.BoolSort()
Key = z3.DeclareSort('PRNGKey6')
SPLIT0 = z3.Function('split0', Key, Key)
SPLIT1 = z3.Function('split1', Key, Key)
BatchT = z3.DeclareSort('Batch6')
ParamsT = z3.DeclareSort('Params6')
LOSS = z3.Function('example_loss', ParamsT, BatchT, Key, I, R)   # per-example loss of row i
MASK = z3.Function('mask6', BatchT, I, B)
HASMASK = z3.Function('has_mask6', BatchT, B)
NROWS = z3.Function('nrows6', BatchT, I)
REG = z3.Function('regularizer', ParamsT, R)
DOM = z3.Function('domain_id', BatchT, I, I)


class KeyV(Val):
  def __init__(self, term):
    self.term = term


class ParamsV(Val):
  def __init__(self, term):
    self.term = term


class Batch6(Val):
  def __init__(self, term, has_mask=None):
    self.term = term
    self.has_mask = HASMASK(term) if has_mask is None else has_mask

  def contains(self, ctx, key):
    if key == '__mask__':
      return self.has_mask
    raise Unsupported('batch membership')

  def getitem(self, ctx, key):
    if key == '__mask__':
      ctx.oblige('mask.present', self.has_mask, kind='definedness',
                 detail='KeyError: batch has no mask feature')
      return RowV(z3.If(MASK(self.term, ROW), z3.RealVal(1), z3.RealVal(0)), self, is_mask=True)
    if key == 'domain_id':
      return RowV(z3.ToReal(DOM(self.term, ROW)), self, is_ids=True)
    raise Unsupported(f'batch[{key!r}]')


class RowV(Val):
  """A vector over the rows of `batch`: `val` is its entry at the arbitrary ROW."""

  def __init__(self, val, batch, is_mask=False, is_ids=False):
    self.val, self.batch, self.is_mask, self.is_ids = val, batch, is_mask, is_ids

  def binop(self, ctx, op, other, reflected):
    o = other.val if isinstance(other, RowV) else num(ctx, other)
    if op == 'Mult' and (self.is_mask or (isinstance(other, RowV) and other.is_mask)):
      m, x = (self, o) if self.is_mask else (other, self.val)
      mterm = MASK(m.batch.term, ROW)
      return RowV(z3.If(mterm, to_z3(x), z3.RealVal(0)), self.batch)   # x * [m] = m ? x : 0
    a, b = (o, self.val) if reflected else (self.val, o)
    return RowV(ctx.engine.arith(ctx, op, a, b), self.batch)

  def length(self, ctx):
    return NROWS(self.batch.term)

  def method(self, ctx, name, args, kwargs):
    if name == 'astype':
      return self
    raise Unsupported(f'rows.{name}')


def c_sum(ctx, x, axis=None, **kw):
  if isinstance(x, RowV):
    return new_tree(ctx, SUMROWS(z3.Lambda([ROW], x.val)))
  raise Unsupported('jnp.sum argument')


def c_vdot(ctx, a, b):
  if isinstance(a, RowV) and isinstance(b, RowV):
    return c_sum(ctx, a.binop(ctx, 'Mult', b, False))
  raise Unsupported('jnp.vdot arguments')


def c_mean(ctx, x):
  if isinstance(x, RowV):
    s = SUMROWS(z3.Lambda([ROW], x.val))
    return new_tree(ctx, s / z3.ToReal(NROWS(x.batch.term)))
  raise Unsupported('jnp.mean argument')


D0 = z3.Int('domain')  # an arbitrary domain index


def c_segment_sum(ctx, data, ids, num_segments):
  ok = isinstance(data, RowV) and isinstance(ids, RowV) and ids.is_ids
  ctx.oblige('segsum.args', ok, detail='segment_sum(per-row values, domain ids, num_domains)')
  if not ok:
    raise PathDead()
  b = ids.batch.term
  return new_tree(ctx, SUMROWS(z3.Lambda([ROW], z3.If(DOM(b, ROW) == D0, data.val, z3.RealVal(0)))))


def c_split(ctx, key, num=2):
  return (KeyV(SPLIT0(key.term)), KeyV(SPLIT1(key.term)))


def globals6():
  g = real_globals()
  for mod in (g['jnp'], g['jax'].attrs['numpy']):
    mod.attrs.update(sum=Handler(c_sum, 'jnp.sum'), vdot=Handler(c_vdot, 'jnp.vdot'),
                     mean=Handler(c_mean, 'jnp.mean'), float32='float32',
                     zeros=Handler(lambda ctx, n: new_tree(ctx, z3.RealVal(0)), 'jnp.zeros'))
  g['jax'].attrs['random'] = Module('jax.random', {'split': Handler(c_split, 'split')})
  g['jax'].attrs['ops'] = Module('jax.ops', {'segment_sum': Handler(c_segment_sum, 'segment_sum')})
  g['jax'].attrs['grad'] = Handler(lambda ctx, f: GradV(f), 'jax.grad')
  g['util'] = SrcModule(U)
  g['tree_util'] = SrcModule(TU)
  g['client_datasets'] = Module('client_datasets', {'EXAMPLE_MASK_KEY': '__mask__'})
  return g


class GradV(Val):
  def __init__(self, f):
    self.f = f


def pel(ctx, params, batch, key):
  """per_example_loss(params, batch, rng): the vector of per-example losses."""
  return RowV(LOSS(params.term, batch.term, key.term, ROW), batch)


def real_sum(b, p, k):
  return SUMROWS(z3.Lambda([ROW], z3.If(MASK(b, ROW), LOSS(p, b, k, ROW), z3.RealVal(0))))


def real_count(b):
  return SUMROWS(z3.Lambda([ROW], z3.If(MASK(b, ROW), z3.RealVal(1), z3.RealVal(0))))


def v_scalar_loss(p):
  ex = p.extract(MO, 'grad.<locals>.scalar_loss')
  ex_grad = p.extract(MO, 'grad')
  pt, bt, kt = z3.Const('params', ParamsT), z3.Const('batch', BatchT), z3.Const('rng', Key)
  for has_reg in (True, False):
    g = globals6()
    g['per_example_loss'] = Handler(pel, 'per_example_loss')
    g['regularizer'] = Handler(lambda ctx, prm: new_tree(ctx, REG(prm.term)), 'regularizer') if has_reg else None
    eng = Engine(g)
    eng.sources = [MO, U]

    def body(ctx, has_reg=has_reg, eng=eng):
      ctx.model_vars.update(has_mask=HASMASK(bt), n_real=real_count(bt))
      kind, r = eng.run_function(ctx, ex.funcv(), [ParamsV(pt), Batch6(bt), KeyV(kt)])
      ctx.oblige('loss.noraise', kind == 'return')
      if kind != 'return':
        return
      v = tree_val(ctx, r)
      reg = REG(pt) if has_reg else z3.RealVal(0)
      n = real_count(bt)
      ctx.assume(n >= 0)
      ctx.oblige('loss.masked', z3.Implies(HASMASK(bt), v == z3.If(n != 0, real_sum(bt, pt, kt) / n, 0) + reg),
                 detail='padded batch: (sum of the losses of the REAL rows) / (number of real rows) + regularizer, '
                        'with the regularizer exactly once; padded rows never enter; no real row => 0 + regularizer')
      ctx.oblige('loss.unmasked', z3.Implies(z3.Not(HASMASK(bt)), v == SUMROWS(z3.Lambda(
          [ROW], LOSS(pt, bt, kt, ROW))) / z3.ToReal(NROWS(bt)) + reg),
          detail='unpadded batch: mean of the per-example losses + regularizer once')
    p.verify(f'grad.scalar_loss[reg={has_reg}]', eng, body)

  # grad(): returns jit(grad(scalar_loss)) of exactly this closure
  g = globals6()
  eng = Engine(g)
  eng.sources = [MO, U]

  def body_grad(ctx):
    pe = Handler(pel, 'per_example_loss')
    rg = Handler(lambda c, prm: new_tree(c, REG(prm.term)), 'regularizer')
    kind, r = eng.run_function(ctx, ex_grad.funcv(), [pe, rg])
    ok = kind == 'return' and isinstance(r, JitV) and isinstance(r.func, GradV) and \
        isinstance(r.func.f, FuncV) and r.func.f.name == 'scalar_loss'
    ctx.oblige('grad.equal', ok,
               detail='the returned function is jit(grad(scalar_loss)): equal scalar functions have equal gradients '
                      '(extensionality of jax.grad), so loss.masked/loss.unmasked carry over to gradients')
  p.verify('grad', eng, body_grad)


def v_average_loss(p):
  ex_step = p.extract(MO, '_evaluate_average_loss_step')
  ex_fin = p.extract(MO, '_finalize_average_loss')
  ex_eval = p.extract(MO, 'evaluate_average_loss')
  pt, bt, kt = z3.Const('params', ParamsT), z3.Const('batch', BatchT), z3.Const('rng', Key)
  acc, num_ = z3.Reals('accum_loss num_examples')
  g = globals6()
  eng = Engine(g)
  eng.sources = [MO, U]

  def body_step(ctx):
    ctx.model_vars.update(has_mask=HASMASK(bt))
    kind, r = eng.run_function(ctx, ex_step.funcv(), [Handler(pel, 'per_example_loss'), ParamsV(pt),
                                                      Batch6(bt), KeyV(kt), acc, num_])
    ctx.oblige('avg.step.noraise', kind == 'return')
    ok = kind == 'return' and isinstance(r, tuple) and len(r) == 3 and isinstance(r[0], KeyV)
    ctx.oblige('avg.step.shape', ok)
    if not ok:
      return
    use = SPLIT1(kt)
    a2, n2 = num(ctx, r[1]), num(ctx, r[2])
    ctx.oblige('avg.step.rng', r[0].term == SPLIT0(kt), detail='the carried key is the unused half of the split')
    ctx.oblige('avg.step.masked', z3.Implies(HASMASK(bt), z3.And(
        to_z3(a2) == acc + real_sum(bt, pt, use), to_z3(n2) == num_ + real_count(bt))),
        detail='padded batch: accumulates the losses and the count of the real rows only')
    ctx.oblige('avg.step.unmasked', z3.Implies(z3.Not(HASMASK(bt)), z3.And(
        to_z3(a2) == acc + SUMROWS(z3.Lambda([ROW], LOSS(pt, bt, use, ROW))),
        to_z3(n2) == num_ + z3.ToReal(NROWS(bt)))),
        detail='unpadded batch: all rows count')
  p.verify('_evaluate_average_loss_step', eng, body_step)

  for has_reg in (True, False):
    def body_fin(ctx, has_reg=has_reg):
      rg = Handler(lambda c, prm: new_tree(c, REG(prm.term)), 'regularizer') if has_reg else None
      kind, r = eng.run_function(ctx, ex_fin.funcv(), [rg, ParamsV(pt), acc, num_])
      reg = REG(pt) if has_reg else z3.RealVal(0)
      ctx.oblige('avg.post', kind == 'return' and tree_val(ctx, r) == z3.If(num_ != 0, acc / num_, 0) + reg,
                 detail='average = sum / count + regularizer once; an input without real examples gives 0 + regularizer')
    p.verify(f'_finalize_average_loss[reg={has_reg}]', eng, body_fin)

  # evaluate_average_loss: fold over batches through the two contracts above
  BSeq = z3.SeqSort(BatchT)
  bs = z3.Const('batches', BSeq)
  n = z3.Length(bs)
  KEYAT = z3.Function('KEY_AT', Key, I, Key)    # key carried after i batches
  ACC = z3.Function('ACC', BSeq, ParamsT, Key, I, R)
  CNT = z3.Function('CNT', BSeq, I, R)
  BL = z3.Function('batch_real_loss', ParamsT, BatchT, Key, R)
  BN = z3.Function('batch_real_count', BatchT, R)

  def c_step(ctx, per_example_loss=None, params=None, batch=None, rng=None, accum_loss=None,
             num_examples=None):
    a = to_z3(num(ctx, accum_loss))
    c = to_z3(num(ctx, num_examples))
    a = z3.ToReal(a) if a.is_int() else a
    c = z3.ToReal(c) if c.is_int() else c
    return (KeyV(SPLIT0(rng.term)), a + BL(params.term, batch.term, SPLIT1(rng.term)), c + BN(batch.term))

  fin_calls = []

  def c_fin(ctx, regularizer=None, params=None, accum_loss=None, num_examples=None):
    fin_calls.append((regularizer, params, accum_loss, num_examples))
    return new_tree(ctx, ctx.fresh('avg', 'real'))

  g2 = dict(g)
  g2['_evaluate_average_loss_step'] = Handler(c_step, '_evaluate_average_loss_step')
  g2['_finalize_average_loss'] = Handler(c_fin, '_finalize_average_loss')
  eng2 = Engine(g2)

  def axioms():
    s = z3.Const('as', BSeq)
    k = z3.Int('ak')
    pp = z3.Const('ap', ParamsT)
    kk = z3.Const('akey', Key)
    return [
        z3.ForAll([kk], KEYAT(kk, 0) == kk),
        z3.ForAll([kk, k], z3.Implies(k >= 1, KEYAT(kk, k) == SPLIT0(KEYAT(kk, k - 1))), patterns=[KEYAT(kk, k)]),
        z3.ForAll([s, pp, kk], z3.And(ACC(s, pp, kk, 0) == 0, CNT(s, 0) == 0)),
        z3.ForAll([s, pp, kk, k], z3.Implies(z3.And(k >= 1, k <= z3.Length(s)), ACC(s, pp, kk, k) ==
                                             ACC(s, pp, kk, k - 1) + BL(pp, s[k - 1], SPLIT1(KEYAT(kk, k - 1)))),
                  patterns=[ACC(s, pp, kk, k)]),
        z3.ForAll([s, k], z3.Implies(z3.And(k >= 1, k <= z3.Length(s)), CNT(s, k) == CNT(s, k - 1) + BN(s[k - 1])),
                  patterns=[CNT(s, k)])]

  def inv(s):
    k = to_z3(s.it)
    a = to_z3(num(s.ctx, s.raw('accum_loss')))
    c = to_z3(num(s.ctx, s.raw('num_examples')))
    a = z3.ToReal(a) if a.is_int() else a
    c = z3.ToReal(c) if c.is_int() else c
    return dict(pos=z3.And(0 <= k, k <= n),
                fold=z3.And(a == ACC(bs, pt, kt, k), c == CNT(bs, k), s.raw('rng').term == KEYAT(kt, k)))

  loops = {0: Loop(inv=inv, expect='batches', sorts={
      'accum_loss': lambda c, nm: c.fresh(nm, 'real'), 'num_examples': lambda c, nm: c.fresh(nm, 'real'),
      'rng': lambda c, nm: KeyV(c.fresh(nm, Key))})}

  def body_eval(ctx):
    del fin_calls[:]
    for a in axioms():
      ctx.assume(a)
    it = ctx.alloc(IterCell(bs, Codec(BatchT, dec=lambda t: Batch6(t)), 0, owner='param', label='batches'))
    ctx.modifies.add(it.addr)
    rg = Handler(lambda c, prm: new_tree(c, REG(prm.term)), 'regularizer')
    pv = ParamsV(pt)
    kind, r = eng2.run_function(ctx, ex_eval.funcv(loops=loops),
                                [pv, it, KeyV(kt), Handler(pel, 'per_example_loss'), rg])
    ctx.oblige('avg.noraise', kind == 'return')
    ok = kind == 'return' and len(fin_calls) == 1
    ctx.oblige('avg.finalize.once', ok, detail='finalisation (division + regularizer) happens exactly once, after all batches')
    if not ok:
      return
    reg_, prm_, a_, c_ = fin_calls[0]
    a_, c_ = to_z3(num(ctx, a_)), to_z3(num(ctx, c_))
    a_ = z3.ToReal(a_) if a_.is_int() else a_
    c_ = z3.ToReal(c_) if c_.is_int() else c_
    ctx.oblige('avg.inv', z3.And(a_ == ACC(bs, pt, kt, n), c_ == CNT(bs, n)) if prm_ is pv and reg_ is rg else False,
               detail='accum = sum over all batches of the real-row losses, num = number of real rows: the same for '
                      'every padded batch size / bucket count (C03: the real rows are the same)')
    ctx.oblige('once', to_z3(it.cell(ctx).pos) == n)
  p.verify('evaluate_average_loss', eng2, body_eval)


def v_mime_grads(p):
  exs = {n: p.extract(MI, f'create_grads_for_each_client.<locals>.{n}')
         for n in ('client_init', 'client_step', 'client_final')}
  pt, bt, kt = z3.Const('params', ParamsT), z3.Const('batch', BatchT), z3.Const('rng', Key)
  G = z3.Function('grad_at_c', ParamsT, BatchT, Key, R)   # gradient of the batch loss at the coordinate
  g = globals6()
  g['grad_fn'] = Handler(lambda ctx, prm, b, k: new_tree(ctx, G(prm.term, b.term, k.term), label='grads'), 'grad_fn')
  eng = Engine(g)
  eng.sources = [MI, TU]
  gs, ns = z3.Reals('grads_sum num_sum')

  def body_step(ctx):
    pv = ParamsV(pt)
    state = ctx.alloc(DictCell([('params', pv), ('rng', KeyV(kt)), ('num_sum', ns),
                                ('grads_sum', new_tree(ctx, gs, 'param', 'grads_sum'))], owner='param',
                               label='client_step_state'))
    kind, r = eng.run_function(ctx, exs['client_step'].funcv(), [state, Batch6(bt, has_mask=True)])
    ctx.oblige('fullgrad.step.noraise', kind == 'return')
    if kind != 'return':
      return
    get = lambda k: ctx.engine.getitem(ctx, r, k)
    nb = real_count(bt)
    ctx.oblige('fullgrad.inv', z3.And(
        tree_val(ctx, get('grads_sum')) == gs + nb * G(pt, bt, SPLIT1(kt)),
        to_z3(num(ctx, get('num_sum'))) == ns + nb),
        detail='grads_sum += (number of real rows) * batch gradient; num_sum += number of real rows')
    ctx.oblige('fullgrad.keys', z3.And(get('rng').term == SPLIT0(kt)) if isinstance(get('rng'), KeyV) else False,
               detail='key plumbing: carry split[0], use split[1]')
    ctx.oblige('fullgrad.params', get('params') is pv)
    ctx.oblige('frame.state', len(state.cell(ctx).items) == 4 and state.cell(ctx).items[2][1] is ns)
  p.verify('mime.create_grads_for_each_client.client_step', eng, body_step)

  def body_init_final(ctx):
    pv = ParamsV(pt)
    g['jnp'].attrs['zeros_like'] = Handler(lambda c, x: z3.RealVal(0), 'zeros_like')
    tm = g['jax'].attrs['tree_util'].attrs['tree_map']
    g['jax'].attrs['tree_util'].attrs['tree_map'] = Handler(
        lambda c, f, t: new_tree(c, z3.RealVal(0)) if isinstance(t, ParamsV) else tm.fn(c, f, t), 'tree_map')
    try:
      kind, st = eng.run_function(ctx, exs['client_init'].funcv(), [pv, KeyV(kt)])
    finally:
      g['jax'].attrs['tree_util'].attrs['tree_map'] = tm
    ok = kind == 'return'
    ctx.oblige('fullgrad.init', ok and ctx.engine.getitem(ctx, st, 'params') is pv and
               to_z3(num(ctx, ctx.engine.getitem(ctx, st, 'num_sum'))) == 0 and
               tree_val(ctx, ctx.engine.getitem(ctx, st, 'grads_sum')) == 0 and
               ctx.engine.getitem(ctx, st, 'rng').term.eq(kt),
               detail='starts from (0, 0) with the client key: an empty client yields (0, 0)')
    if not ok:
      return
    kind, out = eng.run_function(ctx, exs['client_final'].funcv(), [pv, st])
    ctx.oblige('fullgrad.final', kind == 'return' and isinstance(out, tuple) and len(out) == 2 and
               out[0] is ctx.engine.getitem(ctx, st, 'grads_sum') and out[1] is ctx.engine.getitem(ctx, st, 'num_sum'),
               detail='client output = (grads_sum, num_sum)')
  p.verify('mime.create_grads_for_each_client.client_init/final', eng, body_init_final)


def v_domain(p):
  ex = p.extract(AF, 'create_domain_metrics_for_each_client.<locals>.client_step')
  pt, bt, kt = z3.Const('params', ParamsT), z3.Const('batch', BatchT), z3.Const('rng', Key)
  g = globals6()
  g['per_example_loss'] = Handler(pel, 'per_example_loss')
  g['regularizer'] = None   # precondition taken from the only call site (agnostic_federated_averaging passes None)
  g['num_domains'] = z3.Int('num_domains')
  eng = Engine(g)
  eng.sources = [AF]
  dl, dn = z3.Reals('domain_loss_d domain_num_d')

  def body(ctx):
    pv = ParamsV(pt)
    state = ctx.alloc(DictCell([('params', pv), ('rng', KeyV(kt)),
                                ('domain_loss', new_tree(ctx, dl, 'param')),
                                ('domain_num', new_tree(ctx, dn, 'param'))], owner='param', label='step_state'))
    kind, r = eng.run_function(ctx, ex.funcv(), [state, Batch6(bt, has_mask=True)])
    ctx.oblige('domain.noraise', kind == 'return')
    if kind != 'return':
      return
    get = lambda k: ctx.engine.getitem(ctx, r, k)
    use = SPLIT1(kt)
    want_l = SUMROWS(z3.Lambda([ROW], z3.If(DOM(bt, ROW) == D0, z3.If(
        MASK(bt, ROW), LOSS(pt, bt, use, ROW), z3.RealVal(0)), z3.RealVal(0))))
    want_n = SUMROWS(z3.Lambda([ROW], z3.If(DOM(bt, ROW) == D0, z3.If(
        MASK(bt, ROW), z3.RealVal(1), z3.RealVal(0)), z3.RealVal(0))))
    ctx.oblige('domain.sum', z3.And(tree_val(ctx, get('domain_loss')) == dl + want_l,
                                    tree_val(ctx, get('domain_num')) == dn + want_n),
               detail='for every domain d: loss sum and count of the REAL rows whose domain id is d')
    ctx.oblige('domain.keys', get('rng').term == SPLIT0(kt) if isinstance(get('rng'), KeyV) else False)
  p.verify('agnostic_fed_avg.create_domain_metrics_for_each_client.client_step', eng, body)

  # the only call site passes no regularizer (the helper would add it once per *batch*)
  from ..extract import source_of
  import ast
  tree = ast.parse(source_of(AF))
  calls = [n for n in ast.walk(tree) if isinstance(n, ast.Call) and
           ast.unparse(n.func).endswith('create_domain_metrics_for_each_client')]
  ok = len(calls) >= 1 and all(len(c.args) + len(c.keywords) <= 2 for c in calls)
  p.oblige('domain.callsite', [], z3.BoolVal(ok), kind='precondition', fn='agnostic_fed_avg',
           detail='every call of create_domain_metrics_for_each_client leaves regularizer=None '
                  f'({len(calls)} call site(s))')


def v_server_normalisation(p):
  """Every "sum over clients / total count" in the round functions is the zero-safe tree_inverse_weight: with no real
  example the full-batch gradient and the mean update are 0, not NaN."""
  import ast
  from ..extract import parse
  TARGETS = ('server_grads', 'mean_delta_params')
  gsum, n = z3.Real('sum_at_coordinate'), z3.Real('total_count')
  found = 0
  for alg in ('fed_avg', 'fed_prox', 'mime', 'mime_lite', 'agnostic_fed_avg', 'apfl'):
    rel = f'fedjax/algorithms/{alg}.py'
    _, tree = parse(rel)
    for fn in ast.walk(tree):
      if not (isinstance(fn, ast.FunctionDef) and fn.name == 'apply'):
        continue
      for st in ast.walk(fn):
        if not (isinstance(st, ast.Assign) and len(st.targets) == 1 and isinstance(st.targets[0], ast.Name) and
                st.targets[0].id in TARGETS):
          continue
        names = sorted({x.id for x in ast.walk(st.value) if isinstance(x, ast.Name)} - {'tree_util', 'jax', 'jnp', 'util'})
        sums = [x for x in names if 'sum' in x and not x.startswith('num') and x != 'weight_sum']
        nums = [x for x in names if x.startswith('num') or x == 'weight_sum']
        if len(sums) != 1 or len(nums) != 1:
          p.oblige(f'norm.shape:{alg}.{st.targets[0].id}', [], z3.BoolVal(False), kind='post', fn=f'{alg}.apply',
                   detail=f'{ast.unparse(st)[:120]}: expected one summed tree and one count')
          continue
        found += 1
        g = real_globals()
        g['tree_util'] = SrcModule(TU)
        g['util'] = SrcModule(U)
        eng = Engine(g)
        eng.sources = [rel]

        def body(ctx, st=st, sums=sums, nums=nums, alg=alg):
          ctx.model_vars.update(total_count=n, sum_at_coordinate=gsum)
          ctx.assume(n >= 0)
          ctx.push_frame(())
          ctx.store(sums[0], new_tree(ctx, gsum, 'param'))
          ctx.store(nums[0], n)
          r = eng.eval(ctx, st.value)
          ctx.oblige('norm.safe', tree_val(ctx, r) == z3.If(n > 0, gsum / n, 0),
                     detail=f'{alg}.apply: `{ast.unparse(st)[:110]}` is sum / count for count > 0 and 0 (not 0/0 = NaN) for a round '
                            'without real examples')
        p.extract(rel, fn.name) if False else None
        eng.explore(p.sink, f'{alg}.apply[{st.targets[0].id}]', body)
  p.oblige('norm.sites', [], z3.BoolVal(found >= 7), kind='post', fn='algorithms',
           detail=f'{found} normalisation sites (server gradient / mean update) found in the round functions')


def build(p):
  D = 'native/C06.py'
  for fn in ('grad', '_evaluate_average_loss_step', '_finalize_average_loss', 'evaluate_average_loss',
             'mime.', 'agnostic_fed_avg.'):
    p.native(fn, D, 'masked')
  for alg_ in ('fed_avg.apply', 'fed_prox.apply', 'mime.apply', 'mime_lite.apply', 'agnostic_fed_avg.apply', 'apfl.apply', 'norm.'):
    p.native(alg_, D, 'empty_round')
  p.native('agnostic_fed_avg', D, 'agnostic_round')
  v_scalar_loss(p)
  v_average_loss(p)
  v_mime_grads(p)
  v_domain(p)
  v_server_normalisation(p)
  # "with the regularizer contributing exactly once": in every algorithm builder the loss / gradient constructors that take a
  # regularizer receive the builder's option (dropped on one path it would contribute zero times there)
  from . import C12
  p.native('hyp_cluster.', D, 'hyp_assign')
  p.native('mime.mime', D, 'mime_reg')
  C12.v_regularizer_sites(p)
  p.trust('rows model: a vector over the batch rows is its entry at an arbitrary row; jnp.sum / vdot / mean / segment_sum '
          'are SUMROWS of the pointwise expression; x * mask = mask ? x : 0 (mask is 0/1)',
          'per-example loss is an uninterpreted function of (params, batch, key, row): the property hypothesis',
          'jax.grad is extensional and linear; jax.random.split is deterministic; safe_div contract from C05 '
          '(float32 NaN-freedom there)')
  p.not_covered.append('dataflow of the server-side sums in mime / mime_lite (which clients, which weights) is part of C12/C10; their zero-safe normalisation is norm.safe here')
