"""setup_cmd: checks that the tools this framework needs are present (offline)."""
import importlib
import os
import pkgutil
import subprocess
import sys


def main():
  import z3
  print('z3', z3.get_version_string())
  out = subprocess.run(['/usr/bin/cvc5', '--version'], capture_output=True, text=True).stdout
  print(out.splitlines()[0])
  r = subprocess.run(['/venv/bin/python', '-c', 'import fedjax, numpy; print("fedjax import ok", numpy.__version__)'],
                     capture_output=True, text=True, cwd='/',
                     env=dict(os.environ, PYTHONPATH=os.environ.get('VERIF_REPO', '/repo'), JAX_PLATFORMS='cpu'))
  print(r.stdout.strip() or r.stderr[-300:])
  if r.returncode != 0:
    return 1
  from . import props
  n = 0
  for m in pkgutil.iter_modules(props.__path__):
    importlib.import_module(f'pyvc.props.{m.name}')
    n += 1
  print(f'{n} proof scripts import')
  bad = cross_check() + broken_bodies()
  print('selftest', 'FAILED' if bad else 'ok')
  return 1 if bad else 0


CROSS = r'''
def f_div(a, b):
  return (a // b, a % b, -a // b, a % -b if b != 0 else 0)

def f_slice(xs, i, j):
  ys = list(xs)
  ys.append(i)
  ys.insert(0, j)
  ys.reverse()
  z = ys.pop()
  return (ys[1:3], ys[:-1], ys[i:j], z, len(ys))

def f_sort(xs):
  ys = [(x % 3, x) for x in xs]
  ys.sort(key=lambda t: t[0], reverse=True)
  return ys

def f_loop(n):
  s = 0
  out = []
  for i in range(0, n, 2):
    if i % 3 == 0:
      continue
    s += i
    out.append(s)
  while s > 10:
    s //= 2
  return (s, out, min(n, 4), max(n, 4))

def f_try(n):
  log = []
  try:
    try:
      if n > 2:
        raise ValueError('x')
      log.append('body')
    finally:
      log.append('fin')
  except ValueError:
    log.append('caught')
  return log

def gen(n):
  for i in range(n):
    yield i * i

def f_gen(n):
  t = []
  for v in gen(n):
    t.append(v + 1)
  return t

def f_dict(n):
  d = {'a': 1}
  d['b'] = n
  d['a'] += n
  e = dict(d)
  e.pop('b')
  return (sorted_items(d), sorted_items(e), 'b' in e, len(d))

def sorted_items(d):
  return [(k, d[k]) for k in ('a', 'b') if k in d]

def f_nested(n):
  def inner(k):
    return k + n
  return [inner(i) for i in range(3)] + [x for x in (inner(n), n * 2)]
'''

CASES = [('f_div', (7, 2)), ('f_div', (-7, 2)), ('f_div', (7, -2)), ('f_div', (-7, -3)),
         ('f_slice', ([1, 2, 3, 4], 1, 3)), ('f_slice', ([5], 0, 9)), ('f_slice', ([1, 2, 3], -2, 2)),
         ('f_sort', ([5, 3, 9, 4, 6, 1],)), ('f_loop', (0,)), ('f_loop', (9,)), ('f_loop', (40,)),
         ('f_try', (1,)), ('f_try', (5,)), ('f_gen', (0,)), ('f_gen', (4,)), ('f_dict', (3,)), ('f_nested', (2,))]


def to_py(ctx, v):
  import z3
  from .core import Ref, PyListCell, ListCell, is_z3
  from .engine import DictCell
  if isinstance(v, Ref):
    c = v.cell(ctx)
    if isinstance(c, PyListCell):
      return [to_py(ctx, x) for x in c.items]
    if isinstance(c, DictCell):
      return {k: to_py(ctx, x) for k, x in c.items}
    raise ValueError(f'cell {type(c).__name__}')
  if isinstance(v, tuple):
    return tuple(to_py(ctx, x) for x in v)
  if is_z3(v):
    s = z3.simplify(v)
    if z3.is_int_value(s):
      return s.as_long()
    if z3.is_true(s) or z3.is_false(s):
      return z3.is_true(s)
    raise ValueError(f'symbolic result {s}')
  return v


def cross_check():
  """The symbolic executor on concrete inputs must agree with CPython."""
  import ast
  from .core import FuncV, Sink, PyListCell
  from .engine import Engine, Loop
  tree = ast.parse(CROSS)
  ns = {}
  exec(compile(tree, '<cross>', 'exec'), ns)
  defs = {n.name: n for n in tree.body if isinstance(n, ast.FunctionDef)}
  bad = 0
  for name, args in CASES:
    want = ns[name](*[list(a) if isinstance(a, list) else a for a in args])
    got = {}
    eng = Engine({})

    def body(ctx):
      for n_, d in defs.items():
        eng.globals[n_] = FuncV(d, (), name=n_, loops={i: Loop(unroll=40) for i in range(4)})
      a = [ctx.alloc(PyListCell(list(x))) if isinstance(x, list) else x for x in args]
      kind, r = eng.run_function(ctx, eng.globals[name], a)
      got['v'] = (kind, to_py(ctx, r) if kind == 'return' else r.name)
    sink = Sink()
    paths = eng.explore(sink, name, body)
    norm = lambda x: json_norm(x)
    if paths != 1 or got.get('v') != ('return', want) and norm(got.get('v', (None, None))[1]) != norm(want):
      print(f'  CROSS-CHECK MISMATCH {name}{args}: engine {got.get("v")} ({paths} paths), CPython {want}')
      bad += 1
  print(f'cross-check: {len(CASES)} concrete runs of the executor against CPython, {bad} mismatches')
  return bad


def json_norm(x):
  if isinstance(x, (list, tuple)):
    return [json_norm(y) for y in x]
  if isinstance(x, dict):
    return {k: json_norm(v) for k, v in x.items()}
  return x


BROKEN = r'''
def total(xs):
  s = 0
  for x in xs:
    s = s + x
  return s

def total_broken(xs):
  s = 0
  for x in xs:
    s = s + x
  return s + 1

def clamp(x, lo, hi):
  if x < lo:
    return lo
  if x > hi:
    return hi
  return x

def clamp_broken(x, lo, hi):
  if x < lo:
    return lo
  if x >= hi:
    return hi - 1
  return x
'''


def broken_bodies():
  """A correct body must verify and a deliberately broken one must be refuted (with the loop rule and the solver chain)."""
  import ast
  import z3
  from .core import FuncV, Sink, SeqV, INT
  from .engine import Engine, Loop
  from . import solve
  tree = ast.parse(BROKEN)
  defs = {n.name: n for n in tree.body if isinstance(n, ast.FunctionDef)}
  SUM = z3.Function('SUM', z3.SeqSort(z3.IntSort()), z3.IntSort(), z3.IntSort())
  xs = z3.Const('xs', z3.SeqSort(z3.IntSort()))
  bad = 0
  for name, expect in (('total', 'unsat'), ('total_broken', 'sat'), ('clamp', 'unsat'), ('clamp_broken', 'sat')):
    eng = Engine({})
    sink = Sink()

    def body(ctx):
      if name.startswith('total'):
        def inv(s):
          return s['s'] == SUM(xs, z3.IntVal(0) + s.it)
        def hints(s):
          k = s.it
          from .core import LemmaInst
          return [LemmaInst('sum.def', z3.And(SUM(xs, 0) == 0, z3.Implies(z3.And(k >= 1, k <= z3.Length(xs)),
                                                                         SUM(xs, k) == SUM(xs, k - 1) + xs[k - 1])))]
        ctx.assume(SUM(xs, 0) == 0)
        f = FuncV(defs[name], (), name=name, loops={0: Loop(inv=lambda s: z3.And(s['s'] == SUM(xs, s.it), s.it >= 0, s.it <= z3.Length(xs)), hints=hints)})
        kind, r = eng.run_function(ctx, f, [SeqV(xs, INT)])
        ctx.oblige('post', r == SUM(xs, z3.Length(xs)))
      else:
        x, lo, hi = z3.Ints('x lo hi')
        ctx.assume(lo <= hi)
        kind, r = eng.run_function(ctx, FuncV(defs[name], (), name=name), [x, lo, hi])
        ctx.oblige('post', z3.And(lo <= r, r <= hi, z3.Implies(z3.And(lo <= x, x <= hi), r == x)))
    eng.explore(sink, name, body)
    obs = sink.obligations
    if not obs:
      print(f'  BROKEN-BODY {name}: zero obligations')
      bad += 1
      continue
    solve.discharge(obs, 'quick')
    sts = {o.result['status'] for o in obs}
    verdict = 'sat' if 'sat' in sts else ('unsat' if sts == {'unsat'} else 'unknown')
    if verdict != expect:
      print(f'  BROKEN-BODY {name}: expected {expect}, got {verdict} ({[(o.name, o.result["status"]) for o in obs]})')
      bad += 1
  print(f'broken bodies: 2 correct bodies verified, 2 broken bodies refuted' if not bad else f'broken bodies: {bad} wrong verdicts')
  return bad


if __name__ == '__main__':
  sys.exit(main())
