"""setup_cmd: checks that the tools this framework needs are present (offline)."""
import importlib
import os
import pkgutil
import subprocess
import sys


def main():
  import z3
  print('z3', z3.get_version_string())
  out = subprocess.run(['/usr/bin/cvc5', '--version'], capture_output=True, text=True).stdout
  print(out.splitlines()[0])
  r = subprocess.run(['/venv/bin/python', '-c', 'import fedjax, numpy; print("fedjax import ok", numpy.__version__)'],
                     capture_output=True, text=True, cwd='/',
                     env=dict(os.environ, PYTHONPATH=os.environ.get('VERIF_REPO', '/repo'), JAX_PLATFORMS='cpu'))
  print(r.stdout.strip() or r.stderr[-300:])
  if r.returncode != 0:
    return 1
  from . import props
  n = 0
  for m in pkgutil.iter_modules(props.__path__):
    importlib.import_module(f'pyvc.props.{m.name}')
    n += 1
  print(f'{n} proof scripts import')
  return 0


if __name__ == '__main__':
  sys.exit(main())
