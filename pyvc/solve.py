"""Discharging obligations: z3 (python API) first, cvc5 CLI for what z3 leaves open."""
from __future__ import annotations

import concurrent.futures
import os
import subprocess
import tempfile
import time
import z3

CVC5 = '/usr/bin/cvc5'


def model_value(m, t):
  try:
    v = m.eval(t, model_completion=True)
  except z3.Z3Exception:
    return None
  return py_value(v)


def py_value(v):
  if z3.is_int_value(v):
    return v.as_long()
  if z3.is_true(v):
    return True
  if z3.is_false(v):
    return False
  if z3.is_rational_value(v):
    n, d = v.numerator_as_long(), v.denominator_as_long()
    return n / d if d != 1 else float(n)
  if z3.is_algebraic_value(v):
    return float(v.approx(20).as_fraction())
  if z3.is_string_value(v):
    return v.as_string()
  if isinstance(v, z3.SeqRef):
    # sequence literal: unit/concat/empty
    out = []
    ok = _seq_items(v, out)
    if ok:
      return out
  if z3.is_fp(v):
    return str(v)
  return str(v)


def _seq_items(v, out):
  k = v.decl().kind()
  if k == z3.Z3_OP_SEQ_EMPTY:
    return True
  if k == z3.Z3_OP_SEQ_UNIT:
    out.append(py_value(v.arg(0)))
    return True
  if k == z3.Z3_OP_SEQ_CONCAT:
    return all(_seq_items(v.arg(i), out) for i in range(v.num_args()))
  return False


def check_z3(ob, timeout_ms):
  s = z3.Solver()
  s.set('timeout', timeout_ms)
  s.add(ob.formula())
  t0 = time.time()
  r = s.check()
  dt = time.time() - t0
  if r == z3.unsat:
    return 'unsat', dt, None, None
  if r == z3.sat:
    m = s.model()
    vals = {k: model_value(m, t) for k, t in ob.model_vars.items()}
    return 'sat', dt, vals, str(m)[:4000]
  return 'unknown', dt, None, s.reason_unknown()


def to_smt2(ob):
  s = z3.Solver()
  s.add(ob.formula())
  return s.to_smt2()


def check_cvc5(ob, timeout_s):
  smt = to_smt2(ob)
  # z3 prints (declare-fun ...) with its own seq ops; cvc5 accepts seq.* in ALL logic
  smt = '(set-logic ALL)\n' + smt
  with tempfile.NamedTemporaryFile('w', suffix='.smt2', delete=False) as f:
    f.write(smt)
    path = f.name
  t0 = time.time()
  try:
    p = subprocess.run(
        [CVC5, '--strings-exp', '--nl-ext-tplanes', f'--tlimit={int(timeout_s * 1000)}',
         path], capture_output=True, text=True, timeout=timeout_s + 5)
    out = p.stdout.strip().splitlines()
    res = out[0] if out else 'unknown'
    if res not in ('sat', 'unsat'):
      res = 'unknown'
    return res, time.time() - t0, (p.stdout + p.stderr)[:500]
  except subprocess.TimeoutExpired:
    return 'unknown', time.time() - t0, 'timeout'
  finally:
    os.unlink(path)


def discharge(obligations, tier='quick', log=None):
  """Fills ob.result = dict(status, backend, ms, model, note)."""
  t_z3 = 10_000 if tier == 'quick' else 60_000
  t_cvc = 30 if tier == 'quick' else 180
  open_obs = []
  for ob in obligations:
    st, dt, vals, note = check_z3(ob, t_z3)
    ob.result = {'status': st, 'backend': 'z3', 'ms': round(dt * 1000, 1),
                 'model': vals, 'note': note if st != 'unsat' else None}
    if st == 'unknown':
      open_obs.append(ob)
  if open_obs:
    with concurrent.futures.ThreadPoolExecutor(max_workers=8) as ex:
      futs = {ex.submit(check_cvc5, ob, t_cvc): ob for ob in open_obs}
      for fut in concurrent.futures.as_completed(futs):
        ob = futs[fut]
        st, dt, note = fut.result()
        if st == 'unsat':
          ob.result = {'status': 'unsat', 'backend': 'cvc5',
                       'ms': round(dt * 1000, 1) + ob.result['ms'], 'model': None,
                       'note': None}
        elif st == 'sat':
          # refuted by cvc5 only: no z3 model; keep as sat without values
          ob.result = {'status': 'sat', 'backend': 'cvc5',
                       'ms': round(dt * 1000, 1) + ob.result['ms'], 'model': {},
                       'note': note}
        else:
          ob.result['note'] = f"z3: {ob.result['note']}; cvc5: {note}"
  return obligations
