"""Discharging obligations with solver *processes* (z3 5.1 CLI, cvc5 1.0.3).

The python z3 API is used only to build terms and print SMT-LIB; every check
runs in a child process, so a solver crash or hang can never take the checker
down (it counts as `unknown` for that back end).  Pass 1: z3 with a short
budget, many at a time.  Pass 2: what is left goes to cvc5 and z3 side by side
with a long budget; the first definitive answer wins.
"""
from __future__ import annotations

import concurrent.futures
import os
import subprocess
import tempfile
import time
import z3

CVC5 = '/usr/bin/cvc5'
Z3CLI = '/usr/local/bin/z3-new' if os.path.exists('/usr/local/bin/z3-new') else 'z3'
WORKERS = int(os.environ.get('VERIF_WORKERS', '14'))


# ------------------------------------------------------------------ s-exprs
def parse_sexprs(text):
  toks = []
  i, n = 0, len(text)
  while i < n:
    c = text[i]
    if c in '()':
      toks.append(c)
      i += 1
    elif c.isspace():
      i += 1
    elif c == '"':
      j = i + 1
      while j < n and text[j] != '"':
        j += 1
      toks.append(text[i:j + 1])
      i = j + 1
    elif c == '|':
      j = text.index('|', i + 1)
      toks.append(text[i:j + 1])
      i = j + 1
    else:
      j = i
      while j < n and not text[j].isspace() and text[j] not in '()':
        j += 1
      toks.append(text[i:j])
      i = j
  out = []
  stack = [out]
  for t in toks:
    if t == '(':
      new = []
      stack[-1].append(new)
      stack.append(new)
    elif t == ')':
      if len(stack) > 1:
        stack.pop()
    else:
      stack[-1].append(t)
  return out


def sx_value(v):
  """SMT-LIB value -> python (ints, bools, rationals, int/bool sequences)."""
  if isinstance(v, str):
    if v == 'true':
      return True
    if v == 'false':
      return False
    try:
      return int(v)
    except ValueError:
      pass
    try:
      return float(v)
    except ValueError:
      return v
  if not v:
    return None
  h = v[0]
  if h == '-' and len(v) == 2:
    x = sx_value(v[1])
    return -x if isinstance(x, (int, float)) else str(v)
  if h == '/' and len(v) == 3:
    a, b = sx_value(v[1]), sx_value(v[2])
    try:
      return a / b
    except Exception:
      return str(v)
  if h == 'seq.unit':
    return [sx_value(v[1])]
  if h == 'seq.++':
    out = []
    for x in v[1:]:
      y = sx_value(x)
      if not isinstance(y, list):
        return str(v)
      out.extend(y)
    return out
  if h == 'as' and len(v) >= 2 and v[1] == 'seq.empty':
    return []
  return str(v)


def to_smt2(ob, with_values=True):
  s = z3.Solver()
  s.add(ob.formula())
  text = s.to_smt2()
  if with_values and ob.model_vars:
    # only terms whose free constants are declared by the formula can be queried
    declared = set()
    seen = set()

    def consts(t, acc):
      if t.get_id() in seen and acc is declared:
        return
      if acc is declared:
        seen.add(t.get_id())
      if z3.is_quantifier(t):
        consts(t.body(), acc)
        return
      if z3.is_app(t):
        if t.num_args() == 0 and t.decl().kind() == z3.Z3_OP_UNINTERPRETED:
          acc.add(t.decl().name())
        for c in t.children():
          consts(c, acc)
    consts(ob.formula(), declared)

    def ok(t):
      acc = set()
      consts(t, acc)
      return acc <= declared
    terms = ' '.join(t.sexpr() for t in ob.model_vars.values() if z3.is_expr(t) and ok(t))
    if terms:
      text += f'\n(get-value ({terms}))\n'
  return text


def run_solver(cmd, text, timeout_s):
  with tempfile.NamedTemporaryFile('w', suffix='.smt2', delete=False) as f:
    f.write(text)
    path = f.name
  t0 = time.time()
  try:
    p = subprocess.run(cmd + [path], capture_output=True, text=True,
                       timeout=timeout_s + 10)
    out = (p.stdout or '').strip()
    first = out.splitlines()[0].strip() if out else ''
    if first not in ('sat', 'unsat'):
      note = (out + ' ' + (p.stderr or ''))[:200].replace('\n', ' ')
      if p.returncode < 0:
        note = f'solver process died with signal {-p.returncode}; ' + note
      return 'unknown', time.time() - t0, note
    return first, time.time() - t0, out
  except subprocess.TimeoutExpired:
    return 'unknown', time.time() - t0, 'timeout'
  finally:
    try:
      os.unlink(path)
    except OSError:
      pass


def model_from_output(ob, out):
  if not ob.model_vars:
    return {}
  body = out.split('\n', 1)[1] if '\n' in out else ''
  try:
    sx = parse_sexprs(body)
  except Exception:
    return {}
  pairs = sx[0] if sx and isinstance(sx[0], list) else []
  names = [k for k, t in ob.model_vars.items() if z3.is_expr(t)]
  vals = {}
  for k, pr in zip(names, pairs):
    if isinstance(pr, list) and len(pr) == 2:
      vals[k] = sx_value(pr[1])
  return vals


def z3_cmd(t):
  return [Z3CLI, f'-T:{max(1, int(t))}']


def cvc5_cmd(t):
  return [CVC5, '--strings-exp', '--nl-ext-tplanes', '--produce-models',
          f'--tlimit={int(t * 1000)}']


def discharge(obligations, tier='quick', log=None):
  """Fills ob.result = dict(status, backend, ms, model, note)."""
  t_short = 3 if tier == 'quick' else 10
  t_long = 90 if tier == 'quick' else 400
  # obligations decided by another back end (e.g. Lean) arrive with their result
  preset = [ob for ob in obligations if getattr(ob, 'external', None)]
  for ob in preset:
    ob.result = dict(ob.external)
  all_obligations = obligations
  obligations = [ob for ob in obligations if not getattr(ob, 'external', None)]
  # SMT-LIB text is produced in this thread (the z3 API is not thread safe)
  texts = {id(ob): to_smt2(ob) for ob in obligations}

  def p1(ob):
    st, dt, out = run_solver(z3_cmd(t_short), texts[id(ob)], t_short)
    return st, dt, out

  with concurrent.futures.ThreadPoolExecutor(max_workers=WORKERS) as ex:
    futs = {ex.submit(p1, ob): ob for ob in obligations}
    done = {}
    for fut in concurrent.futures.as_completed(futs):
      done[id(futs[fut])] = fut.result()
  for ob in obligations:
    st, dt, out = done[id(ob)]
    ob.result = {'status': st, 'backend': 'z3', 'ms': round(dt * 1000, 1), 'model': None,
                 'note': None}
    if st == 'sat':
      ob.result['model'] = model_from_output(ob, out)
      ob.result['note'] = out[:3000]
    elif st == 'unknown':
      ob.result['note'] = out
  open_obs = [ob for ob in obligations if ob.result['status'] == 'unknown']
  if open_obs:
    def p2(ob):
      return second_pass_text(texts[id(ob)], t_long)
    with concurrent.futures.ThreadPoolExecutor(max_workers=max(2, WORKERS // 2)) as ex:
      futs = {ex.submit(p2, ob): ob for ob in open_obs}
      res = {}
      for fut in concurrent.futures.as_completed(futs):
        res[id(futs[fut])] = fut.result()
    for ob in open_obs:
      st, backend, dt, out = res[id(ob)]
      ms = round(dt * 1000, 1) + ob.result['ms']
      if st == 'unsat':
        ob.result = {'status': 'unsat', 'backend': backend, 'ms': ms, 'model': None,
                     'note': None}
      elif st == 'sat':
        ob.result = {'status': 'sat', 'backend': backend, 'ms': ms,
                     'model': model_from_output(ob, out), 'note': out[:3000]}
      else:
        ob.result = {'status': 'unknown', 'backend': backend, 'ms': ms, 'model': None,
                     'note': out}
  return all_obligations


def second_pass_text(text, t_long):
  return _second(text, t_long)


def _second(text, t_long):
  files = []
  for prefix in ('', '(set-logic ALL)\n'):
    with tempfile.NamedTemporaryFile('w', suffix='.smt2', delete=False) as f:
      f.write(prefix + text)
      files.append(f.name)
  t0 = time.time()
  procs = {}
  try:
    procs['z3'] = subprocess.Popen(z3_cmd(t_long) + [files[0]], stdout=subprocess.PIPE,
                                   stderr=subprocess.STDOUT, text=True)
    procs['cvc5'] = subprocess.Popen(cvc5_cmd(t_long) + [files[1]], stdout=subprocess.PIPE,
                                     stderr=subprocess.STDOUT, text=True)
    notes = {}
    pending = dict(procs)
    while pending and time.time() - t0 < t_long + 15:
      for name, p in list(pending.items()):
        if p.poll() is None:
          continue
        out = (p.stdout.read() or '').strip()
        del pending[name]
        first = out.splitlines()[0].strip() if out else ''
        if first in ('sat', 'unsat'):
          return first, name, time.time() - t0, out
        notes[name] = out[:160].replace('\n', ' ')
      time.sleep(0.02)
    return 'unknown', 'z3+cvc5', time.time() - t0, '; '.join(
        f'{k}: {notes.get(k) or "timeout"}' for k in sorted(procs))
  finally:
    for p in procs.values():
      if p.poll() is None:
        p.kill()
      try:
        p.wait(timeout=5)
      except Exception:
        pass
    for pth in files:
      try:
        os.unlink(pth)
      except OSError:
        pass


def reachability(obligations, t=3):
  """Vacuity guard: every *named* obligation must be reachable, i.e. at least one of its
  instances has a satisfiable hypothesis set (path condition + preconditions + invariant).
  Returns (checked_names, vacuous_names).  `unknown` counts as reachable (not shown vacuous)."""
  groups = {}
  for ob in obligations:
    if getattr(ob, 'external', None):
      continue
    if z3.is_false(z3.simplify(ob.goal)):
      continue     # "this point is unreachable" obligations: contradictory hypotheses ARE the proof
    groups.setdefault(ob.name.split('#')[0], []).append(ob)

  def text(ob):
    s = z3.Solver()
    s.add(*ob.assumptions)
    return s.to_smt2()
  todo = {n: list(obs) for n, obs in groups.items() if all(ob.assumptions for ob in obs)}
  vacuous = []
  # round 1: first instance of every name, in parallel; later rounds: remaining instances of names still unsat
  pending = {n: 0 for n in todo}
  while pending:
    batch = [(n, todo[n][i]) for n, i in pending.items()]
    texts = [(n, text(ob)) for n, ob in batch]    # z3 API: this thread only
    with concurrent.futures.ThreadPoolExecutor(max_workers=WORKERS) as ex:
      res = list(ex.map(lambda nt: (nt[0], run_solver(z3_cmd(t), nt[1], t)[0]), texts))
    nxt = {}
    for n, st in res:
      if st == 'unsat':
        i = pending[n] + 1
        if i < len(todo[n]):
          nxt[n] = i
        else:
          vacuous.append(n)
    pending = nxt
  return len(groups), sorted(vacuous)
