"""Verdicts, replay files, known findings and evidence."""
from __future__ import annotations

import importlib
import json
import os
import re
import subprocess
import sys
import time

import z3

from .core import Undecided
from .script import Proof
from . import solve

VERIF = os.path.dirname(os.path.dirname(os.path.abspath(__file__)))
VENV_PY = '/venv/bin/python'
REPO = os.environ.get('VERIF_REPO', '/repo')

ASSUMED_SEMANTICS = [
    'python int is mathematical Z (numpy int32 index buffers assumed not to overflow)',
    '// and % are floor division / modulo; slices clamp as in CPython',
    'float / array elements are R in REAL-mode obligations (rounding error not bounded); '
    'FP32 obligations use z3 IEEE-754 binary32 RNE',
    'left-to-right evaluation, short-circuit and/or, one thread, insertion-ordered dicts',
    'the VC generator (pyvc), its Python-subset semantics and the library contract table are '
    'the trusted computing base: tested by mutants and native replays, not proved',
    'decorators jax.jit / dataclass are semantic identity (donation is tracked separately)',
]


def base_name(n):
  return n.split('#')[0]


def load_known():
  path = os.path.join(VERIF, 'known_findings.json')
  if not os.path.exists(path):
    return {'known': [], 'fixed': []}
  return json.load(open(path))


def load_pinned(pid):
  path = os.path.join(VERIF, 'pinned', f'{pid}.json')
  if not os.path.exists(path):
    return None
  return json.load(open(path))


def write_json(path, obj):
  os.makedirs(os.path.dirname(path), exist_ok=True)
  tmp = path + '.tmp'
  with open(tmp, 'w') as f:
    json.dump(obj, f, indent=1, default=str)
  os.replace(tmp, path)


def run_native(driver, payload, timeout=240):
  """Runs a replay driver under the repo's interpreter.  Returns dict."""
  env = dict(os.environ)
  env['PYTHONPATH'] = REPO + os.pathsep + VERIF
  env.setdefault('JAX_PLATFORMS', 'cpu')
  env['PYTHONDONTWRITEBYTECODE'] = '1'
  try:
    p = subprocess.run([VENV_PY, os.path.join(VERIF, driver)],
                       input=json.dumps(payload), capture_output=True, text=True,
                       timeout=timeout, env=env, cwd='/')
  except subprocess.TimeoutExpired:
    return {'ran': False, 'failed': False, 'output': 'native driver timeout'}
  out = (p.stdout or '')[-4000:]
  err = (p.stderr or '')[-2000:]
  res = None
  for line in reversed(p.stdout.splitlines()):
    if line.startswith('NATIVE-RESULT '):
      try:
        res = json.loads(line[len('NATIVE-RESULT '):])
      except ValueError:
        pass
      break
  if res is None:
    return {'ran': False, 'failed': False, 'output': out + err,
            'returncode': p.returncode}
  res['ran'] = True
  res.setdefault('output', out[-1500:])
  return res


def run_replay_file(pid, path):
  rec = json.load(open(path))
  drv = rec.get('driver')
  if not drv:
    print(f'replay {path}: no native driver recorded; obligation '
          f"{rec.get('obligation')} solver output follows\n{rec.get('solver_output')}")
    return 1
  res = run_native(drv['script'], drv['payload'])
  print(json.dumps(res, indent=1))
  if res.get('failed'):
    print(f'VIOLATION property={pid} replay={path}')
    return 1
  return 0


def run_property(pid, tier, seed, verbose=False):
  t0 = time.time()
  mod = importlib.import_module(f'pyvc.props.{pid}')
  p = Proof(pid, tier, seed)
  ev_path = os.path.join(os.environ.get('VERIF_EVIDENCE_DIR') or os.path.join(VERIF, 'evidence'), f'{pid}.json')
  try:
    try:
      mod.build(p)
    except Undecided:
      raise
    except Exception as e:   # pylint: disable=broad-except
      # A proof script failing on a tree whose functions differ from the pinned ones lost its binding to the code
      # (renamed local, changed shape of a value): that is "cannot be brought under contract", not a checker bug.
      pinned0 = load_pinned(pid)
      pinned_sha = {f['function']: f['sha256_16'] for f in (pinned0 or {}).get('functions', [])}
      changed = [ex.path for ex in p.functions.values() if pinned_sha.get(ex.path) not in (None, ex.sha)]
      if not changed:
        raise
      import traceback as _tb
      where = _tb.extract_tb(e.__traceback__)[-1]
      raise Undecided(f'contract binding lost on changed function(s) {changed[:3]}: {type(e).__name__}: {e} '
                      f'({os.path.basename(where.filename)}:{where.lineno})')
  except Undecided as e:
    # The generator cannot bring the current source under contract (outside the
    # subset / binding lost).  Nothing is proved.  A violation needs a replayed
    # input, so the registered native drivers sweep the real code (bounded); a
    # failing input is reported as a violation, none leaves the run undecided.
    rec = native_fallback(p, pid, str(e), seed, tier)
    write_evidence(p, ev_path, t0, [rec] if rec else [], [], undecided=str(e))
    if rec:
      print(f'  verification conditions could not be generated ({e}); bounded native search '
            f'of the real code found a failing input')
      print(f"VIOLATION property={pid} replay={rec['path']}")
      return 1
    print(f'UNDECIDED property={pid} reason={e}')
    return 2
  obs = p.sink.obligations
  if not obs:
    print(f'UNDECIDED property={pid} reason=zero obligations generated (vacuous)')
    return 2
  solve.discharge(obs, tier)
  refuted = [o for o in obs if o.result['status'] == 'sat']
  unknown = [o for o in obs if o.result['status'] == 'unknown']
  if verbose:
    for o in obs:
      r = o.result
      print(f"  {r['status']:7s} {r['backend']:4s} {r['ms']:8.1f}ms  {o.name}")
  known = load_known()
  pinned = load_pinned(pid)
  pinned_names = set(pinned['obligations']) if pinned else None
  violations = []
  known_lines = []
  undecided_notes = []
  for o in refuted:
    kf = match_known(known, pid, o)
    if kf is not None:
      ok, note = check_known_region(mod, kf, o)
      if ok:
        line = f"KNOWN-FINDING: property={pid} {kf['what']}"
        if line not in known_lines:
          known_lines.append(line)
        # what is proved: the obligation outside the recorded region
        o.result = dict(o.result, status='unsat', backend='z3 (outside known-finding region)',
                        known_region=kf.get('region'))
        continue
      # outside the recorded region: a different violation
    rec = make_replay(mod, p, pid, o)
    in_pinned = pinned_names is None or base_name(o.name) in pinned_names
    if rec['native'].get('failed') or in_pinned:
      violations.append((o, rec))
    else:
      undecided_notes.append(f'{o.name}: refuted in the model but not an obligation of the '
                             'pinned tree and no failing native input found')
  # vacuity guard: an obligation that is only ever checked under contradictory hypotheses proves nothing
  n_names, vacuous = solve.reachability(obs)
  p.reach = {'named_obligations': n_names, 'unreachable': vacuous}
  for n in vacuous:
    undecided_notes.append(f'{n}: every instance has contradictory hypotheses (vacuous): a precondition, invariant or '
                           'assumption excludes everything')
  # solver gave no verdict: a violation needs a replayed input, so search the
  # obligation's function natively (bounded); a failing input is a violation,
  # none leaves the run undecided
  tried = {}
  for o in list(unknown):
    key = o.fn
    if key not in tried:
      tried[key] = make_replay(mod, p, pid, o)
    rec = tried[key]
    if rec['native'].get('failed'):
      if all(v[0] is not o for v in violations) and not any(
          v[1] is rec for v in violations):
        violations.append((o, rec))
  # native bounded stand-ins / always-on native checks declared by the script; every replay driver of the property is
  # also swept once as a bounded cross-check of the contracts against the real code (never counted as proved)
  declared = list(getattr(p, 'native_checks', []))
  have = {(b['driver'], b['payload'].get('fn')) for b in declared}
  for drv, fn in sorted(getattr(p, 'native_sweeps', ())):
    if (drv, fn) not in have:
      declared.append(dict(name=f'crosscheck_{fn}', driver=drv, payload={'mode': 'sweep', 'fn': fn},
                           bound=f'the bounded input family of checker `{fn}` in {drv} (the replay driver of this property)',
                           why_bounded='cross-check of the contracts on the real code; the deductive obligations above are the proof'))
  p.native_checks = declared
  for b in getattr(p, 'native_checks', []):
    res = run_native(b['driver'], dict(b['payload'], seed=seed, tier=tier),
                     timeout=b.get('timeout', 900))
    b['result'] = {k: res.get(k) for k in ('ran', 'failed', 'cases', 'distinct', 'witness', 'bound')}
    if not res.get('ran'):
      undecided_notes.append(f"bounded stand-in {b['name']} did not run: {res.get('output', '')[-300:]}")
    elif res.get('failed'):
      kf = match_known_native(known, pid, b, res)
      if kf is not None:
        line = f"KNOWN-FINDING: property={pid} {kf['what']}"
        if line not in known_lines:
          known_lines.append(line)
        continue
      path = os.path.join(VERIF, 'replays', pid, f"{b['name']}.json")
      rec = {'property': pid, 'obligation': 'bounded:' + b['name'], 'kind': 'bounded-standin',
             'native': res, 'driver': {'script': b['driver'],
                                       'payload': dict(b['payload'], only=res.get('witness'))}}
      write_json(path, rec)
      violations.append((None, dict(rec, path=path)))
  write_evidence(p, ev_path, t0, violations, unknown, known_lines=known_lines,
                 undecided_notes=undecided_notes)
  for line in known_lines:
    print(line)
  if violations:
    violations = [(o, rec) for o, rec in violations]
    for o, rec in violations:
      tail = '' if rec['native'].get('failed') else ' no-failing-input-found'
      name = o.name if o is not None else rec['obligation']
      print(f"  failed obligation: {name} ({(o.detail if o is not None else '')})")
      print(f"VIOLATION property={pid} replay={rec['path']}{tail}")
    return 1
  if unknown or undecided_notes:
    for o in unknown:
      print(f"UNDECIDED property={pid} obligation={o.name} note={o.result['note']}")
    for n in undecided_notes:
      print(f'UNDECIDED property={pid} {n}')
    return 2
  if tier == 'thorough' and not os.environ.get('VERIF_REPO'):
    audit = mutation_audit(pid)
    if audit is not None:
      try:
        ev = json.load(open(ev_path))
        ev['coverage']['mutation_audit'] = audit
        write_json(ev_path, ev)
      except Exception:  # pylint: disable=broad-except
        pass
  print(f'OK property={pid} obligations={len(obs)} discharged={len(obs) - len(refuted)} '
        f'paths={p.paths} wall={time.time() - t0:.1f}s')
  return 0


def mutation_audit(pid):
  """thorough tier: kill-audit of this check on scratch copies (tools/mutaudit.py); evidence only, never the verdict."""
  path = os.path.join(VERIF, 'mutants', 'mutants.json')
  if not os.path.exists(path) or pid not in json.load(open(path)):
    return None
  r = subprocess.run([sys.executable, os.path.join(VERIF, 'tools', 'mutaudit.py'), pid], capture_output=True, text=True,
                     env=dict(os.environ, VERIF_TIER='quick'))
  for line in r.stdout.splitlines():
    if line.startswith('MUTATION-AUDIT '):
      res = json.loads(line[len('MUTATION-AUDIT '):])
      print(f"  mutation audit: {res['killed']} breaking mutants detected, {res['equivalent_ok']} equivalent mutants left alone, "
            f"undecided: {len(res.get('undecided', []))}, survived: {res['survived']}, false alarms: {res['false_alarm']}")
      return res
  return {'error': (r.stdout + r.stderr)[-500:]}


def native_fallback(p, pid, reason, seed, tier):
  seen = set()

  class _O:  # a stand-in obligation so that replayers can be asked for their driver
    result = {}
    name = ''
    fn = ''
  for prefix, mk in p.replayers.items():
    try:
      drv = mk(_O())
    except Exception:
      continue
    if not drv or not drv.get('sweep'):
      continue
    key = (drv['script'], drv['sweep'].get('fn'))
    if key in seen:
      continue
    seen.add(key)
    res = run_native(drv['script'], dict(drv['sweep'], seed=seed, tier=tier))
    if res.get('failed'):
      path = os.path.join(VERIF, 'replays', pid, 'undecided_' + re.sub(
          r'[^A-Za-z0-9_.-]+', '_', str(key[1])) + '.json')
      rec = {'property': pid, 'obligation': f'(no VC: {reason})', 'kind': 'native-search',
             'detail': 'obligations could not be generated; failing input found by the bounded '
                       'native search of the function(s) the contract covers',
             'native': res, 'path': path,
             'driver': {'script': drv['script'],
                        'payload': dict(drv['sweep'], only=res.get('witness'))}}
      write_json(path, rec)
      return rec
  # whatever part of the script did not get to register its drivers before the build stopped: sweep every checker of the
  # property's native driver
  script = f'native/{pid}.py'
  if os.path.exists(os.path.join(VERIF, script)):
    res = run_native(script, {'mode': 'sweep', 'fn': '*', 'seed': seed, 'tier': tier}, timeout=900)
    if res.get('failed'):
      fn = (res.get('witness') or {}).get('fn', 'all')
      path = os.path.join(VERIF, 'replays', pid, 'undecided_' + re.sub(r'[^A-Za-z0-9_.-]+', '_', str(fn)) + '.json')
      rec = {'property': pid, 'obligation': f'(no VC: {reason})', 'kind': 'native-search',
             'detail': 'obligations could not be generated; failing input found by the bounded native search (all checkers of '
                       'the property)',
             'native': res, 'path': path,
             'driver': {'script': script, 'payload': {'mode': 'sweep', 'fn': fn, 'only': res.get('witness')}}}
      write_json(path, rec)
      return rec
  return None


def match_known(known, pid, o):
  for k in known.get('known', []):
    if k['property'] == pid and k.get('obligation') and re.fullmatch(
        k['obligation'], base_name(o.name)):
      return k
  return None


def match_known_native(known, pid, b, res):
  for k in known.get('known', []):
    if k['property'] == pid and k.get('native') == b['name']:
      w = json.dumps(res.get('witness'), sort_keys=True)
      if re.search(k.get('witness_pattern', '.*'), w):
        return k
  return None


def check_known_region(mod, kf, o):
  """The obligation must hold outside the recorded region R and still fail
  inside it.  R is a predicate over the obligation's model variables."""
  regions = getattr(mod, 'KNOWN_REGIONS', {})
  R = regions.get(kf.get('region'))
  if R is None:
    return False, 'no region predicate'
  r = R(o.model_vars)
  s = z3.Solver()
  s.set('timeout', 20000)
  s.add(o.formula(), z3.Not(r))
  if s.check() != z3.unsat:
    return False, 'fails outside the recorded region'
  return True, ''


_NATIVE_MEMO = {}


def make_replay(mod, p, pid, o):
  path = os.path.join(VERIF, 'replays', pid,
                      re.sub(r'[^A-Za-z0-9_.#-]+', '_', o.name) + '.json')
  rec = {
      'property': pid,
      'obligation': o.name,
      'kind': o.kind,
      'detail': o.detail,
      'function': o.fn,
      'line': o.lineno,
      'model': o.result.get('model'),
      'backend': o.result.get('backend'),
      'solver_output': o.result.get('note'),
      'path': path,
      'native': {'ran': False, 'failed': False},
  }
  for ex in p.functions.values():
    if ex.qualname == o.fn or ex.qualname.endswith(o.fn):
      rec['source'] = ex.record()
  replayer = None
  for prefix, fn in sorted(p.replayers.items(), key=lambda kv: -len(kv[0])):
    if o.name.startswith(prefix) or o.fn.startswith(prefix):
      replayer = fn
      break
  if replayer is not None:
    try:
      drv = replayer(o)
    except Exception as e:  # replay construction must never mask the verdict
      drv = None
      rec['native']['output'] = f'replayer error: {e!r}'
    if drv:
      rec['driver'] = drv
      # native runs are memoised: the same driver payload is run once, and the bounded sweep of a checker is run once per
      # check, however many instances (#k, one per path) of an obligation were refuted
      key1 = json.dumps([drv['script'], drv['payload']], sort_keys=True, default=str)
      if key1 not in _NATIVE_MEMO:
        _NATIVE_MEMO[key1] = run_native(drv['script'], drv['payload'])
      res = _NATIVE_MEMO[key1]
      rec['native'] = res
      if not res.get('failed') and drv.get('sweep'):
        key2 = json.dumps([drv['script'], drv['sweep']], sort_keys=True, default=str)
        if key2 not in _NATIVE_MEMO:
          _NATIVE_MEMO[key2] = run_native(drv['script'], drv['sweep'])
        res2 = _NATIVE_MEMO[key2]
        if res2.get('failed'):
          rec['native'] = res2
          rec['driver'] = {'script': drv['script'],
                           'payload': dict(drv['sweep'], only=res2.get('witness'))}
  write_json(path, rec)
  return rec


def assume_sites(pid):
  """Mechanical scan: every `assume(` in the proof script of the property and in the theory libraries it imports.
  Each is a precondition, a definition of a ghost / reduction symbol at the point of interest, an instance of a proved
  lemma, or a trusted library fact - the categories are described in `trusted_base`; the list lets a reader audit them."""
  props = os.path.join(VERIF, 'pyvc', 'props')
  files = sorted(f for f in os.listdir(props) if f.startswith(pid) and f.endswith('.py'))
  libs = set()
  out = []
  for f in files:
    src = open(os.path.join(props, f)).read()
    for m in re.finditer(r'from \.\.(lib_\w+) import|from \.\. import (lib_\w+)|from \.(C\d\d\w*) import', src):
      name = m.group(1) or m.group(2)
      if name:
        libs.add(os.path.join(VERIF, 'pyvc', name + '.py'))
      elif m.group(3):
        libs.add(os.path.join(props, m.group(3) + '.py'))
  for path_ in [os.path.join(props, f) for f in files] + sorted(libs):
    if not os.path.exists(path_):
      continue
    for i, line in enumerate(open(path_).read().splitlines(), 1):
      if re.search(r'\b(ctx|c|s\.ctx|c2)\.assume\(', line):
        out.append(f'{os.path.relpath(path_, VERIF)}:{i}: {line.strip()[:110]}')
  return {'count': len(out), 'sites': out[:400]}


def write_evidence(p, path, t0, violations, unknown, known_lines=(), undecided=None,
                   undecided_notes=()):
  obs = p.sink.obligations
  discharged = [o for o in obs if o.result and o.result['status'] == 'unsat']
  by_backend = {}
  ms = 0.0
  for o in discharged:
    by_backend[o.result['backend']] = by_backend.get(o.result['backend'], 0) + 1
  for o in obs:
    if o.result:
      ms += o.result['ms']
  samples = []
  for o in obs[:400]:
    if len(samples) >= 4:
      break
    if o.kind in ('post', 'invariant') and o.result and o.result['status'] == 'unsat':
      try:
        smt = solve.to_smt2(o)
      except Exception:
        smt = ''
      samples.append({'obligation': o.name, 'function': o.fn, 'kind': o.kind,
                      'detail': o.detail, 'backend': o.result['backend'],
                      'ms': o.result['ms'], 'smtlib_excerpt': smt[-1200:]})
  if not samples and obs:
    o = obs[0]
    samples.append({'obligation': o.name, 'function': o.fn, 'kind': o.kind})
  names = sorted({base_name(o.name) for o in obs})
  ev = {
      'property_id': p.prop_id,
      'tier': p.tier if p.tier in ('quick', 'thorough') else 'quick',
      'seed': p.seed,
      'level': 'proof',
      'coverage': {
          'obligations': len(obs),
          'discharged': len(discharged),
          'checker_cmd': f'python3-vt -m pyvc.main {p.prop_id} --tier {p.tier}',
          'trusted_base': p.trusted,
          'samples': samples,
          'functions_under_contract': [ex.record() for ex in p.functions.values()],
          'obligation_names': names,
          'discharged_by_backend': by_backend,
          'solver_ms_total': round(ms, 1),
          'symbolic_paths': p.paths,
          'refuted': [o.name for o in obs if o.result and o.result['status'] == 'sat'],
          'proved_outside_known_region': [o.name for o in obs if o.result and o.result.get('known_region')],
          'unknown': [o.name for o in unknown],
          'known_findings_reported': list(known_lines),
          'bounded_standins': [
              {k: b.get(k) for k in ('name', 'bound', 'result', 'why_bounded')}
              for b in getattr(p, 'native_checks', [])],
          'assume_sites': assume_sites(p.prop_id),
          'reachability': getattr(p, 'reach', None),
          'decided_during_execution': len(p.sink.trivial),
          'not_covered': p.not_covered,
          'notes': p.notes + list(undecided_notes) + ([undecided] if undecided else []),
      },
      'assumptions': ASSUMED_SEMANTICS + p.assumptions,
      'wall_s': round(time.time() - t0, 2),
      'violations': len(violations),
  }
  write_json(path, ev)


def pin(pid):
  """Records the obligation names of the current (pinned) tree."""
  mod = importlib.import_module(f'pyvc.props.{pid}')
  p = Proof(pid, 'quick', 0)
  mod.build(p)
  names = sorted({base_name(o.name) for o in p.sink.obligations} | {base_name(n) for n in p.sink.trivial})
  write_json(os.path.join(VERIF, 'pinned', f'{pid}.json'),
             {'property': pid, 'obligations': names,
              'functions': [ex.record() for ex in p.functions.values()]})
  return names
