"""Domain values for federated datasets (C08, C13).

Client ids are `bytes`; every formula only *compares* ids, so ids are modelled
as elements of an arbitrary total order (z3 Int): a quantifier-free order
formula valid in Z is valid in every total order, hence for byte strings
(trailing zero bytes and prefixes included).
"""
from __future__ import annotations

import ast
import z3

from .core import *  # noqa
from .engine import *  # noqa

I = z3.IntSort()
B = z3.BoolSort()
IdSet = z3.ArraySort(I, B)
ExT = z3.DeclareSort('ExT')        # an Examples value (opaque)
Fn = z3.DeclareSort('Fn')          # a preprocessing function object
FnSeq = z3.SeqSort(Fn)
Chain = z3.DeclareSort('Chain')    # a ClientPreprocessor / BatchPreprocessor object
Blob = z3.DeclareSort('Blob')
Fd = z3.DeclareSort('Fd')          # an abstract FederatedData object

chain_fns = z3.Function('chain_fns', Chain, FnSeq)           # abstract view of a chain
CAPPLY = z3.Function('CAPPLY', Chain, I, ExT, ExT)            # client chain applied
FN_CODEC = Codec(Fn, enc=lambda v: v.term if isinstance(v, FnV) else v,
                 dec=lambda t: FnV(t))
APPLY1 = z3.Function('APPLY1', Fn, ExT, ExT)                  # batch fn(examples)
APPLY2 = z3.Function('APPLY2', Fn, I, ExT, ExT)               # client fn(id, examples)
DCOPY = z3.Function('DCOPY', ExT, ExT)                        # dict(examples)


class FnV(Val):
  """A user preprocessing function (pure, deterministic: trusted)."""

  def __init__(self, term):
    self.term = term

  def call(self, ctx, args, kwargs):
    if len(args) == 1 and isinstance(args[0], ExV):
      return ExV(APPLY1(self.term, args[0].term))
    if len(args) == 2 and isinstance(args[1], ExV):
      return ExV(APPLY2(self.term, to_z3(args[0]), args[1].term))
    raise Unsupported('preprocessing fn arguments')

  def fresh_like(self, ctx, base):
    return FnV(ctx.fresh(base, Fn))


class ExV(Val):
  """An Examples dict as an opaque value."""

  def __init__(self, term):
    self.term = term

  def dict_copy(self, ctx):
    return ExV(DCOPY(self.term))

  def fresh_like(self, ctx, base):
    return ExV(ctx.fresh(base, ExT))

  def truth(self, ctx):
    return True


class ChainV(Val):
  """A preprocessor chain object seen through its contract."""

  def __init__(self, term):
    self.term = term

  def method(self, ctx, name, args, kwargs):
    if name == 'append':
      (fn,) = args
      new = ctx.fresh('chain', Chain)
      # contract of {Client,Batch}Preprocessor.append (proved from the bodies in
      # props/C08.py::v_chains): a new object, receiver unchanged
      ctx.assume(chain_fns(new) == z3.Concat(chain_fns(self.term), z3.Unit(fn.term)))
      ctx.assume(new != self.term)
      return ChainV(new)
    raise Unsupported(f'preprocessor.{name}')

  def call(self, ctx, args, kwargs):
    cid, ex = args
    return ExV(CAPPLY(self.term, to_z3(cid), ex.term))

  def identity(self, ctx):
    return self.term

  def truth(self, ctx):
    return True


class IdSetV(Val):
  """A set (or sorted duplicate-free list) of client ids: z3 Array Int->Bool."""

  def __init__(self, term, is_list=False, is_sorted=None):
    self.term = term
    self.is_list = is_list
    # a list is in sorted (deterministic) order unless it was built by list(<set or dict view>)
    self.is_sorted = is_list if is_sorted is None else is_sorted

  def to_list(self, ctx):
    # list(<keys / set>): the same ids in the container's own order (dict: insertion; set: hash order)
    return IdSetV(self.term, is_list=True, is_sorted=self.is_list and self.is_sorted)

  def has(self, x):
    return z3.Select(self.term, to_z3(x))

  def contains(self, ctx, item):
    return self.has(item)

  def comprehend(self, ctx, engine, e, g, kind):
    """{ elt(i) for i in self if cond(i) }: evaluated at an arbitrary id."""
    if not isinstance(g.target, ast.Name):
      raise Unsupported('comprehension target')
    x = ctx.fresh('id')
    depth = ctx.dpos
    fid = ctx.push_frame(engine.lexical(ctx))
    old_nb = ctx.tags.get('$nobranch')
    ctx.tags['$nobranch'] = True
    base_pc = len(ctx.pc)
    ctx.pc.append(z3.Select(self.term, x))  # the bound variable ranges over this set
    try:
      engine.assign(ctx, g.target, x)
      conds = [engine.truth(ctx, engine.eval(ctx, c)) for c in g.ifs]
      if kind == 'dict':
        k = engine.eval(ctx, e.key)
        v = engine.eval(ctx, e.value)
      else:
        k = engine.eval(ctx, e.elt)
        v = None
    finally:
      ctx.pop_frame()
      ctx.tags['$nobranch'] = old_nb
      del ctx.pc[base_pc:]
    if ctx.dpos != depth:
      raise Unsupported('branching inside a set comprehension')
    if not (is_z3(k) and k.eq(x)):
      raise Unsupported('comprehension does not keep the id')
    y = z3.Int('y!c')
    c = zand(*conds)
    body = z3.And(z3.Select(self.term, y), z3.substitute(zbool(c), (x, y)))
    newset = z3.Lambda([y], body)
    if kind == 'dict':
      if not isinstance(v, ExV):
        raise Unsupported('dict comprehension value')
      return MapV(newset, lambda t, v=v, x=x: z3.substitute(v.term, (x, t)))
    return IdSetV(newset, is_list=(kind == 'list'))

  def key_set(self, ctx):
    return IdSetV(self.term)

  def getitem(self, ctx, idx):
    if not self.is_list:
      raise Unsupported('indexing a set')
    if not (isinstance(idx, int) and idx == 0):
      raise Unsupported('only [0] of a sorted id list is modelled')
    w = ctx.fresh('w')
    ctx.oblige('index.first', z3.Exists([w], z3.Select(self.term, w)), kind='definedness',
               detail='IndexError: list index out of range (empty id list)')
    m = ctx.fresh('minid')
    ctx.assume(z3.Select(self.term, m))
    return m

  def sorted(self, ctx, **kw):
    return IdSetV(self.term, is_list=True, is_sorted=True)

  def length(self, ctx):
    return CARD(self.term)

  def truth(self, ctx):
    w = z3.Int('w!t')
    return z3.Exists([w], z3.Select(self.term, w))

  def method(self, ctx, name, args, kwargs):
    if name == 'difference':
      o = args[0]
      if isinstance(o, IdSetV):
        y = z3.Int('y!d')
        return IdSetV(z3.Lambda([y], z3.And(z3.Select(self.term, y),
                                            z3.Not(z3.Select(o.term, y)))))
    raise Unsupported(f'set.{name}')

  def make_iter(self, ctx):
    return IdIterV(self)

  def iterate(self, ctx):
    seq = ctx.fresh('ids', z3.SeqSort(I))
    j = z3.Int('j!m')
    # the elements of the (sorted / arbitrary-order) enumeration are members
    ctx.assume(z3.ForAll([j], z3.Implies(z3.And(0 <= j, j < z3.Length(seq)),
                                         z3.Select(self.term, seq[j]))))
    return IterSpec(seq=seq, codec=INT)


class IdIterV(Val):
  def __init__(self, s):
    self.s = s


CARD = z3.Function('CARD', IdSet, I)


class MapV(Val):
  """client_to_data_mapping: ids -> Examples."""

  def __init__(self, keys, get):
    self.keys, self.get = keys, get

  def getitem(self, ctx, key):
    k = to_z3(key)
    if ctx.tags.get('$nobranch'):
      ctx.oblige('key.present', z3.Select(self.keys, k), kind='definedness',
                 detail='KeyError: client id not in the mapping')
    elif ctx.branch(z3.Not(z3.Select(self.keys, k))):
      raise RaiseSig(ExcV('KeyError'))
    return ExV(self.get(k))

  def method(self, ctx, name, args, kwargs):
    if name == 'keys':
      return IdSetV(self.keys)
    raise Unsupported(f'mapping.{name}')


def inr(lo, hi, x):
  """x in the half-open range [lo, hi) where lo/hi may be None / OptV."""
  def part(b, f):
    if b is None:
      return z3.BoolVal(True)
    if isinstance(b, OptV):
      return z3.Or(b.is_none, f(to_z3(b.val)))
    return f(to_z3(b))
  return z3.And(part(lo, lambda v: v <= x), part(hi, lambda v: x < v))


class OpaqueV(Val):
  """Result of a pure, total library operation we do not look into (e.g.
  `dataset[feature].shape[0]`): every further pure access yields another
  unknown.  Used only for values the obligations never mention."""

  def getattr(self, ctx, name):
    return OpaqueV()

  def getitem(self, ctx, idx):
    return OpaqueV()

  def fresh_like(self, ctx, base):
    return OpaqueV()


FEATS = z3.Function('FEATS', ExT, z3.DeclareSort('FeatList'))


EMPTY_FEATS = z3.Const('EMPTY_FEATS', z3.DeclareSort('FeatList'))


class FeatsV(Val):
  """list(examples.keys())"""

  def __init__(self, term):
    self.term = term

  def to_list(self, ctx):
    return self

  def compare(self, ctx, op, other):
    if isinstance(other, Ref) and isinstance(other.cell(ctx), PyListCell) \
        and not other.cell(ctx).items:
      other = FeatsV(EMPTY_FEATS)  # the literal []
    if isinstance(other, FeatsV):
      return (self.term == other.term) if op == 'Eq' else (self.term != other.term)
    raise Unsupported('feature list comparison')

  def getitem(self, ctx, idx):
    return OpaqueV()


def _ex_method(self, ctx, name, args, kwargs):
  if name == 'keys':
    return FeatsV(FEATS(self.term))
  raise Unsupported(f'Examples.{name}')


ExV.method = _ex_method
ExV.getitem = lambda self, ctx, idx: OpaqueV()
