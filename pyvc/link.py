"""Link obligations: every library call made by a function under contract must
exist in the installed library and accept the keyword names used at the call
site (inspect.signature under /venv/bin/python).  This is what reports calls
such as jnp.clip(a_min=..., a_max=...) or jax.device_put_sharded on an image
whose jax removed them: the contract table would otherwise trust a function
that cannot be called."""
from __future__ import annotations

import ast
import json
import os
import subprocess

import z3

PREFIXES = {'jnp': 'jax.numpy', 'jax': 'jax', 'np': 'numpy'}

HELPER = r'''
import importlib, inspect, json, sys
items = json.load(sys.stdin)
out = {}
for key, (dotted, kws) in items.items():
  parts = dotted.split('.')
  try:
    obj = importlib.import_module(parts[0])
    i = 1
    while i < len(parts):
      try:
        obj = getattr(obj, parts[i])
      except AttributeError:
        obj = importlib.import_module('.'.join(parts[:i + 1]))
      i += 1
  except Exception as e:
    out[key] = f'missing: {type(e).__name__}: {e}'
    continue
  try:
    sig = inspect.signature(obj)
  except (TypeError, ValueError):
    out[key] = 'ok'
    continue
  names = set(sig.parameters)
  varkw = any(p.kind == p.VAR_KEYWORD for p in sig.parameters.values())
  bad = [k for k in kws if k not in names and not varkw]
  out[key] = 'ok' if not bad else f'unexpected keyword(s) {bad} for {dotted}{sig}'
print('LINK ' + json.dumps(out))
'''


def dotted(f):
  parts = []
  while isinstance(f, ast.Attribute):
    parts.append(f.attr)
    f = f.value
  if isinstance(f, ast.Name):
    parts.append(f.id)
    return '.'.join(reversed(parts))
  return None


def collect(nodes):
  """(dotted library name, keyword names) of calls, incl. functools.partial(f, kw=...)."""
  found = {}
  for node in nodes:
    for c in ast.walk(node):
      if not isinstance(c, ast.Call):
        continue
      name = dotted(c.func)
      kws = [k.arg for k in c.keywords if k.arg]
      if name in ('partial', 'functools.partial') and c.args:
        name = dotted(c.args[0])
      if not name:
        continue
      head = name.split('.')[0]
      if head not in PREFIXES:
        continue
      full = PREFIXES[head] + name[len(head):]
      found.setdefault((full, tuple(sorted(kws))), c.lineno)
      # attribute references used as values (e.g. jax.device_put_sharded passed around)
    for a in ast.walk(node):
      if isinstance(a, ast.Attribute):
        name = dotted(a)
        if name and name.split('.')[0] in PREFIXES and name.count('.') >= 1:
          head = name.split('.')[0]
          full = PREFIXES[head] + name[len(head):]
          found.setdefault((full, ()), a.lineno)
  return found


def check(p, nodes, repo):
  found = collect(nodes)
  if not found:
    return
  items = {str(i): [k[0], list(k[1])] for i, k in enumerate(found)}
  env = dict(os.environ, PYTHONPATH=repo, JAX_PLATFORMS='cpu')
  r = subprocess.run(['/venv/bin/python', '-c', HELPER], input=json.dumps(items), capture_output=True,
                     text=True, env=env, cwd='/', timeout=300)
  res = None
  for line in r.stdout.splitlines():
    if line.startswith('LINK '):
      res = json.loads(line[5:])
  if res is None:
    from .core import Undecided
    raise Undecided('link check helper did not run: ' + r.stderr[-300:])
  for i, k in enumerate(found):
    verdict = res[str(i)]
    name = f"link:{k[0]}({','.join(k[1])})"
    p.oblige(name, [], z3.BoolVal(verdict == 'ok'), kind='link',
             detail=f'{k[0]} exists in the installed library and accepts keywords {list(k[1])}'
                    + ('' if verdict == 'ok' else f' — {verdict}'), fn='link')
