"""Generic contracts of a FedAvg-shaped round (used by C01, C10, C12)."""
from __future__ import annotations

import z3

from .script import *  # noqa
from .lib_real import *  # noqa
from .lib_alg import *  # noqa

TU = 'fedjax/core/tree_util.py'
DELTA = z3.Function('client_delta_at_c', ClientT, TreeId, R)   # final(w, fold(step, init(w, key), batches)) at the coordinate
DSUM = z3.Function('DSUM', ClientSeq, TreeId, I, R)            # sum_{i<k} n_i * delta_i
NSUM = z3.Function('NSUM', ClientSeq, I, R)                    # sum_{i<k} n_i

def sum_axioms():
  s = z3.Const('ss', ClientSeq)
  k = z3.Int('sk')
  w = z3.Const('sw', TreeId)
  return [
      z3.ForAll([s, w], z3.And(DSUM(s, w, 0) == 0, NSUM(s, 0) == 0)),
      z3.ForAll([s, w, k], z3.Implies(z3.And(k >= 1, k <= z3.Length(s)), DSUM(s, w, k) ==
                                      DSUM(s, w, k - 1) + DSLEN(CDS(s[k - 1])) * DELTA(s[k - 1], w)),
                patterns=[DSUM(s, w, k)]),
      z3.ForAll([s, k], z3.Implies(z3.And(k >= 1, k <= z3.Length(s)),
                                   NSUM(s, k) == NSUM(s, k - 1) + DSLEN(CDS(s[k - 1]))),
                patterns=[NSUM(s, k)]),
      z3.ForAll([s, k], z3.Implies(z3.And(k >= 0, k <= z3.Length(s)), NSUM(s, k) >= 0), patterns=[NSUM(s, k)]),
  ]


def sum_unfold(seq, w, k):
  """Instance of the defining recursion of DSUM / NSUM at k (quantifier-free:
  refutations then come with a model)."""
  return LemmaInst('sum.def', z3.Implies(z3.And(k >= 1, k <= z3.Length(seq)), z3.And(
      DSUM(seq, w, k) == DSUM(seq, w, k - 1) + DSLEN(CDS(seq[k - 1])) * DELTA(seq[k - 1], w),
      NSUM(seq, k) == NSUM(seq, k - 1) + DSLEN(CDS(seq[k - 1])), DSLEN(CDS(seq[k - 1])) >= 0)))


def make_train_contract(holder, seq, hp, params_ref_getter, record):
  """Contract of train_for_each_client = for_each_client(client_init, client_step, client_final)
  (C02 *.fold / *.one): one (id, output) per input client, same order."""
  def c_train(ctx, shared, clients):
    ok = isinstance(clients, MappedClientsV) and clients.seq.eq(seq) and isinstance(clients.value, tuple) \
        and len(clients.value) == 3
    ctx.oblige('apply.clients', ok, detail='every input client is handed to for_each_client as (id, batches, key)')
    if not ok:
      raise PathDead()
    cid, batches, key = clients.value
    c = seq[clients.idx]
    okb = is_z3(cid) and isinstance(batches, BatchesV) and isinstance(key, KeyV)
    ctx.oblige('apply.triple', okb and z3.simplify(z3.And(
        cid == CID(c), batches.term == SRB(CDS(c), hp), key.term == CKEY(c))),
        detail="each client trains on ITS OWN shuffle_repeat_batch stream (the algorithm's client hparams) with ITS OWN key")
    record['shared'] = shared
    w = tree_tid(ctx, shared)

    def dec(t):
      return (CID(t), new_tree(holder['ctx'], DELTA(t, w), label='client delta'))
    return SeqV(seq, Codec(ClientT, dec=dec))
  return c_train


def verify_fedavg_round(p, FA, factory, label, extra_globals=None):
  """apply/server_update/init of a factory whose round has the FedAvg skeleton."""
  ex = p.extract(FA, f'{factory}.<locals>.apply')
  ex_up = p.extract(FA, f'{factory}.<locals>.server_update')
  ex_init = p.extract(FA, f'{factory}.<locals>.init')
  seq = z3.Const('clients', ClientSeq)
  n = z3.Length(seq)
  hp = z3.Const('client_batch_hparams', HpT)
  j0 = z3.Int('j0')
  pval = z3.Real('server_params_at_c')
  ptid = z3.Const('server_params', TreeId)
  ost = z3.Const('server_opt_state', OptStateT)
  holder, record = {}, {}
  g = real_globals()
  g['tree_util'] = SrcModule(TU, {'tree_l2_norm': Handler(lambda ctx, t: new_tree(ctx, ctx.fresh('norm', 'real')),
                                                          'tree_l2_norm')})
  sopt = OptimizerV(z3.Const('server_optimizer', OptimizerT))
  g['server_optimizer'] = sopt
  g['client_batch_hparams'] = HpV(hp)
  g['train_for_each_client'] = Handler(make_train_contract(holder, seq, hp, None, record),
                                       'train_for_each_client')
  g['server_update'] = ex_up.funcv()   # sibling closure: inlined callee
  g.update(extra_globals or {})
  eng = Engine(g)
  eng.sources = [FA]
  eng.on_empty_dict = lambda ctx: ctx.alloc(SymDictCell())

  def inv(s):
    k = to_z3(s.it)
    ds = tree_val(s.ctx, s.raw('delta_params_sum'))
    ns = to_z3(s['num_examples_sum'])
    keys = s.raw('client_diagnostics').cell(s.ctx).keys
    return dict(
        pos=z3.And(0 <= k, k <= n),
        sums=z3.And(ds == DSUM(seq, ptid, k), ns == NSUM(seq, k), NSUM(seq, k) >= 0),
        diag=z3.And(z3.Length(keys) == k, z3.Implies(z3.And(0 <= j0, j0 < k), keys[j0] == CID(seq[j0]))))

  loops = {0: Loop(inv=inv, expect='train_for_each_client',
                   hints=lambda s: [sum_unfold(seq, ptid, to_z3(s.it))])}

  def body(ctx):
    holder['ctx'] = ctx
    del sopt.calls[:]
    ctx.model_vars.update(n_clients=n)
    ctx.assume(z3.And(DSUM(seq, ptid, 0) == 0, NSUM(seq, 0) == 0))  # definition at 0
    sp = new_tree(ctx, pval, 'param', 'server_state.params', tid=ptid)
    SS = eng._resolve_in(ctx, FA, 'ServerState')[0]
    eng.globals['ServerState'] = SS
    st = ctx.alloc(ObjCell(SS, dict(params=sp, opt_state=OptStV(ost)), owner='param', label='server_state'))
    kind, r = eng.run_function(ctx, ex.funcv(loops=loops), [st, ClientsV(seq)])
    ctx.oblige('apply.noraise', kind == 'return')
    if kind != 'return':
      return
    ok = isinstance(r, tuple) and len(r) == 2 and isinstance(r[0], Ref) and isinstance(r[0].cell(ctx), ObjCell)
    ctx.oblige('apply.shape', ok, detail='returns (ServerState, diagnostics)')
    if not ok:
      return
    ctx.oblige('apply.shared', record.get('shared') is sp, detail='clients start from the server parameters')
    ctx.oblige('apply.server.once', len(sopt.calls) == 1,
               detail='the server optimizer is applied exactly once per round (also when no example was seen)')
    if len(sopt.calls) != 1:
      return
    gr, s_, p_ = sopt.calls[0]
    N = NSUM(seq, n)
    mean = z3.If(N > 0, DSUM(seq, ptid, n) / N, 0)
    ctx.oblige('apply.post', z3.And(tree_val(ctx, gr) == mean) if (p_ is sp and isinstance(s_, OptStV)
                                                                   and s_.term.eq(ost)) else False,
               detail='server optimizer is applied to (example-weighted mean of client deltas, server opt state, '
                      'server params); the mean is sum(n_i * delta_i) / sum(n_i), and exactly 0 when sum(n_i) = 0')
    f = r[0].cell(ctx).fields
    new_p, new_s = f.get('params'), f.get('opt_state')
    okf = isinstance(new_p, Ref) and isinstance(new_s, OptStV)
    ctx.oblige('apply.rounds', okf and r[0].addr != st.addr,
               detail='the result is a fresh well-formed ServerState(params, opt_state): rounds compose')
    if okf:
      ctx.oblige('apply.state', z3.And(
          tree_val(ctx, new_p) == OPT_P(sopt.term, mean, ost, pval),
          new_s.term == OPT_S(sopt.term, tree_tid(ctx, gr), ost, ptid)),
          detail='new params / opt state are exactly what the server optimizer returned')
    d = r[1]
    okd = isinstance(d, Ref) and isinstance(d.cell(ctx), SymDictCell)
    ctx.oblige('apply.diag.type', okd)
    if okd:
      keys = d.cell(ctx).keys
      ctx.oblige('apply.diag.one', z3.And(z3.Length(keys) == n, z3.Implies(
          z3.And(0 <= j0, j0 < n), keys[j0] == CID(seq[j0]))),
          detail='exactly one diagnostics entry per participating client (ids are pairwise distinct)')
    old = st.cell(ctx).fields
    ctx.oblige('frame.state', old['params'] is sp and sp.cell(ctx).valid and sp.cell(ctx).val.eq(pval),
               detail="the caller's server state is neither modified nor donated")

  p.verify(f'{label}.apply', eng, body)

  # server_update + init in isolation
  def body_update(ctx):
    del sopt.calls[:]
    SS = eng._resolve_in(ctx, FA, 'ServerState')[0]
    eng.globals['ServerState'] = SS
    sp = new_tree(ctx, pval, 'param', tid=ptid)
    st = ctx.alloc(ObjCell(SS, dict(params=sp, opt_state=OptStV(ost)), owner='param'))
    m = new_tree(ctx, z3.Real('mean_delta'), 'param')
    kind, r = eng.run_function(ctx, ex_up.funcv(), [st, m])
    ok = kind == 'return' and len(sopt.calls) == 1 and sopt.calls[0][0] is m and sopt.calls[0][2] is sp
    ctx.oblige('update.def', ok, detail='server_update applies the server optimizer to the mean delta')
    kind, r = eng.run_function(ctx, ex_init.funcv(), [sp])
    ctx.oblige('init.def', kind == 'return' and r.cell(ctx).fields['params'] is sp and
               r.cell(ctx).fields['opt_state'].term.eq(OPT_INIT(sopt.term, ptid)))
  p.verify(f'{label}.server_update/init', eng, body_update)


