"""Generic contracts of a FedAvg-shaped round (used by C01, C10, C12)."""
from __future__ import annotations

import z3

from .script import *  # noqa
from .lib_real import *  # noqa
from .lib_alg import *  # noqa

TU = 'fedjax/core/tree_util.py'
DELTA = z3.Function('client_delta_at_c', ClientT, TreeId, R)   # final(w, fold(step, init(w, key), batches)) at the coordinate
DSUM = z3.Function('DSUM', ClientSeq, TreeId, I, R)            # sum_{i<k} n_i * delta_i
NSUM = z3.Function('NSUM', ClientSeq, I, R)                    # sum_{i<k} n_i

def sum_axioms():
  s = z3.Const('ss', ClientSeq)
  k = z3.Int('sk')
  w = z3.Const('sw', TreeId)
  return [
      z3.ForAll([s, w], z3.And(DSUM(s, w, 0) == 0, NSUM(s, 0) == 0)),
      z3.ForAll([s, w, k], z3.Implies(z3.And(k >= 1, k <= z3.Length(s)), DSUM(s, w, k) ==
                                      DSUM(s, w, k - 1) + DSLEN(CDS(s[k - 1])) * DELTA(s[k - 1], w)),
                patterns=[DSUM(s, w, k)]),
      z3.ForAll([s, k], z3.Implies(z3.And(k >= 1, k <= z3.Length(s)),
                                   NSUM(s, k) == NSUM(s, k - 1) + DSLEN(CDS(s[k - 1]))),
                patterns=[NSUM(s, k)]),
      z3.ForAll([s, k], z3.Implies(z3.And(k >= 0, k <= z3.Length(s)), NSUM(s, k) >= 0), patterns=[NSUM(s, k)]),
  ]


def sum_unfold(seq, w, k):
  """Instance of the defining recursion of DSUM / NSUM at k (quantifier-free:
  refutations then come with a model)."""
  return LemmaInst('sum.def', z3.Implies(z3.And(k >= 1, k <= z3.Length(seq)), z3.And(
      DSUM(seq, w, k) == DSUM(seq, w, k - 1) + DSLEN(CDS(seq[k - 1])) * DELTA(seq[k - 1], w),
      NSUM(seq, k) == NSUM(seq, k - 1) + DSLEN(CDS(seq[k - 1])), DSLEN(CDS(seq[k - 1])) >= 0)))


def make_train_contract(holder, seq, hp, params_ref_getter, record):
  """Contract of train_for_each_client = for_each_client(client_init, client_step, client_final)
  (C02 *.fold / *.one): one (id, output) per input client, same order."""
  def c_train(ctx, shared, clients):
    ok = isinstance(clients, MappedClientsV) and clients.seq.eq(seq) and isinstance(clients.value, tuple) \
        and len(clients.value) == 3
    ctx.oblige('apply.clients', ok, detail='every input client is handed to for_each_client as (id, batches, key)')
    if not ok:
      raise PathDead()
    cid, batches, key = clients.value
    c = seq[clients.idx]
    okb = is_z3(cid) and isinstance(batches, BatchesV) and isinstance(key, KeyV)
    ctx.oblige('apply.triple', okb and z3.simplify(z3.And(
        cid == CID(c), batches.term == SRB(CDS(c), hp), key.term == CKEY(c))),
        detail="each client trains on ITS OWN shuffle_repeat_batch stream (the algorithm's client hparams) with ITS OWN key")
    record['shared'] = shared
    w = tree_tid(ctx, shared)

    def dec(t):
      return (CID(t), new_tree(holder['ctx'], DELTA(t, w), label='client delta'))
    return SeqV(seq, Codec(ClientT, dec=dec))
  return c_train


def verify_fedavg_round(p, FA, factory, label, extra_globals=None):
  """apply/server_update/init of a factory whose round has the FedAvg skeleton."""
  ex = p.extract(FA, f'{factory}.<locals>.apply')
  ex_up = p.extract(FA, f'{factory}.<locals>.server_update')
  ex_init = p.extract(FA, f'{factory}.<locals>.init')
  seq = z3.Const('clients', ClientSeq)
  n = z3.Length(seq)
  hp = z3.Const('client_batch_hparams', HpT)
  j0 = z3.Int('j0')
  pval = z3.Real('server_params_at_c')
  ptid = z3.Const('server_params', TreeId)
  ost = z3.Const('server_opt_state', OptStateT)
  holder, record = {}, {}
  g = real_globals()
  g['tree_util'] = SrcModule(TU, {'tree_l2_norm': Handler(lambda ctx, t: new_tree(ctx, ctx.fresh('norm', 'real')),
                                                          'tree_l2_norm')})
  sopt = OptimizerV(z3.Const('server_optimizer', OptimizerT))
  g['server_optimizer'] = sopt
  g['client_batch_hparams'] = HpV(hp)
  g['train_for_each_client'] = Handler(make_train_contract(holder, seq, hp, None, record),
                                       'train_for_each_client')
  g['server_update'] = ex_up.funcv()   # sibling closure: inlined callee
  g.update(extra_globals or {})
  eng = Engine(g)
  eng.sources = [FA]
  eng.on_empty_dict = lambda ctx: ctx.alloc(SymDictCell())

  def inv(s):
    k = to_z3(s.it)
    ds = tree_val(s.ctx, s.raw('delta_params_sum'))
    ns = to_z3(s['num_examples_sum'])
    keys = s.raw('client_diagnostics').cell(s.ctx).keys
    return dict(
        pos=z3.And(0 <= k, k <= n),
        sums=z3.And(ds == DSUM(seq, ptid, k), ns == NSUM(seq, k), NSUM(seq, k) >= 0),
        diag=z3.And(z3.Length(keys) == k, z3.Implies(z3.And(0 <= j0, j0 < k), keys[j0] == CID(seq[j0]))))

  loops = {0: Loop(inv=inv, expect='train_for_each_client',
                   hints=lambda s: [sum_unfold(seq, ptid, to_z3(s.it))])}

  def body(ctx):
    holder['ctx'] = ctx
    del sopt.calls[:]
    ctx.model_vars.update(n_clients=n)
    ctx.assume(z3.And(DSUM(seq, ptid, 0) == 0, NSUM(seq, 0) == 0))  # definition at 0
    sp = new_tree(ctx, pval, 'param', 'server_state.params', tid=ptid)
    SS = eng._resolve_in(ctx, FA, 'ServerState')[0]
    eng.globals['ServerState'] = SS
    st = ctx.alloc(ObjCell(SS, dict(params=sp, opt_state=OptStV(ost)), owner='param', label='server_state'))
    kind, r = eng.run_function(ctx, ex.funcv(loops=loops), [st, ClientsV(seq)])
    ctx.oblige('apply.noraise', kind == 'return')
    if kind != 'return':
      return
    ok = isinstance(r, tuple) and len(r) == 2 and isinstance(r[0], Ref) and isinstance(r[0].cell(ctx), ObjCell)
    ctx.oblige('apply.shape', ok, detail='returns (ServerState, diagnostics)')
    if not ok:
      return
    ctx.oblige('apply.shared', record.get('shared') is sp, detail='clients start from the server parameters')
    ctx.oblige('apply.server.once', len(sopt.calls) == 1,
               detail='the server optimizer is applied exactly once per round (also when no example was seen)')
    if len(sopt.calls) != 1:
      return
    gr, s_, p_ = sopt.calls[0]
    N = NSUM(seq, n)
    mean = z3.If(N > 0, DSUM(seq, ptid, n) / N, 0)
    ctx.oblige('apply.post', z3.And(tree_val(ctx, gr) == mean) if (p_ is sp and isinstance(s_, OptStV)
                                                                   and s_.term.eq(ost)) else False,
               detail='server optimizer is applied to (example-weighted mean of client deltas, server opt state, '
                      'server params); the mean is sum(n_i * delta_i) / sum(n_i), and exactly 0 when sum(n_i) = 0')
    f = r[0].cell(ctx).fields
    new_p, new_s = f.get('params'), f.get('opt_state')
    okf = isinstance(new_p, Ref) and isinstance(new_s, OptStV)
    ctx.oblige('apply.rounds', okf and r[0].addr != st.addr,
               detail='the result is a fresh well-formed ServerState(params, opt_state): rounds compose')
    if okf:
      ctx.oblige('apply.state', z3.And(
          tree_val(ctx, new_p) == OPT_P(sopt.term, mean, ost, pval),
          new_s.term == OPT_S(sopt.term, tree_tid(ctx, gr), ost, ptid)),
          detail='new params / opt state are exactly what the server optimizer returned')
    d = r[1]
    okd = isinstance(d, Ref) and isinstance(d.cell(ctx), SymDictCell)
    ctx.oblige('apply.diag.type', okd)
    if okd:
      keys = d.cell(ctx).keys
      ctx.oblige('apply.diag.one', z3.And(z3.Length(keys) == n, z3.Implies(
          z3.And(0 <= j0, j0 < n), keys[j0] == CID(seq[j0]))),
          detail='exactly one diagnostics entry per participating client (ids are pairwise distinct)')
    old = st.cell(ctx).fields
    ctx.oblige('frame.state', old['params'] is sp and sp.cell(ctx).valid and sp.cell(ctx).val.eq(pval),
               detail="the caller's server state is neither modified nor donated")

  p.verify(f'{label}.apply', eng, body)

  # server_update + init in isolation
  def body_update(ctx):
    del sopt.calls[:]
    SS = eng._resolve_in(ctx, FA, 'ServerState')[0]
    eng.globals['ServerState'] = SS
    sp = new_tree(ctx, pval, 'param', tid=ptid)
    st = ctx.alloc(ObjCell(SS, dict(params=sp, opt_state=OptStV(ost)), owner='param'))
    m = new_tree(ctx, z3.Real('mean_delta'), 'param')
    kind, r = eng.run_function(ctx, ex_up.funcv(), [st, m])
    ok = kind == 'return' and len(sopt.calls) == 1 and sopt.calls[0][0] is m and sopt.calls[0][2] is sp
    ctx.oblige('update.def', ok, detail='server_update applies the server optimizer to the mean delta')
    kind, r = eng.run_function(ctx, ex_init.funcv(), [sp])
    ctx.oblige('init.def', kind == 'return' and r.cell(ctx).fields['params'] is sp and
               r.cell(ctx).fields['opt_state'].term.eq(OPT_INIT(sopt.term, ptid)))
  p.verify(f'{label}.server_update/init', eng, body_update)




def verify_fedavg_client(p, FA, label, with_server_params=False, keep_opt_state=False):
  """client_init/step/final of a FedAvg-shaped client trainer."""
  exs = {n: p.extract(FA, f'create_train_for_each_client.<locals>.{n}')
         for n in ('client_init', 'client_step', 'client_final')}
  Key = KeyT
  SPLIT0 = z3.Function('split0', Key, Key)
  SPLIT1 = z3.Function('split1', Key, Key)
  BatchT = z3.DeclareSort('BatchT1')
  G = z3.Function('grad_at_c', TreeId, BatchT, Key, R)
  copt = OptimizerV(z3.Const('client_optimizer', OptimizerT))
  g = real_globals()
  g['jax'].attrs['random'] = Module('jax.random', {'split': Handler(
      lambda ctx, k, num=2: (KeyV(SPLIT0(k.term)), KeyV(SPLIT1(k.term))), 'split')})
  g['client_optimizer'] = copt

  class BatchV1(Val):
    def __init__(self, term):
      self.term = term

  seen_sp = {}

  def grad_fn(ctx, prm, *rest):
    if with_server_params:
      spx, batch, key = rest
      seen_sp['sp'] = spx
    else:
      batch, key = rest
    return new_tree(ctx, G(tree_tid(ctx, prm), batch.term, key.term), label='grads')
  g['grad_fn'] = Handler(grad_fn, 'grad_fn')
  eng = Engine(g)
  w, pv = z3.Reals('server_params_at_c client_params_at_c')
  wt, ptid = z3.Const('server_params', TreeId), z3.Const('client_params', TreeId)
  k0 = z3.Const('rng', Key)
  os_ = z3.Const('opt_state', OptStateT)
  b = z3.Const('batch', BatchT)

  def body(ctx):
    del copt.calls[:]
    sp = new_tree(ctx, w, 'param', 'server params', tid=wt)
    kind, st = eng.run_function(ctx, exs['client_init'].funcv(), [sp, KeyV(k0)])
    get = lambda d, k: ctx.engine.getitem(ctx, d, k)
    ctx.oblige('client.init', kind == 'return' and get(st, 'params') is sp and get(st, 'rng').term.eq(k0)
               and get(st, 'opt_state').term.eq(OPT_INIT(copt.term, wt)),
               detail='every client starts from the server parameters, a fresh optimizer state and its own key')
    cp = new_tree(ctx, pv, 'param', 'client params', tid=ptid)
    items = [('params', cp), ('opt_state', OptStV(os_)), ('rng', KeyV(k0))]
    if with_server_params:
      items.append(('server_params', sp))
    state = ctx.alloc(DictCell(items, owner='param', label='client_step_state'))
    kind, nxt = eng.run_function(ctx, exs['client_step'].funcv(), [state, BatchV1(b)])
    ctx.oblige('client.step.noraise', kind == 'return')
    if kind == 'return':
      gval = G(ptid, b, SPLIT1(k0))
      ctx.oblige('client.fold', z3.And(
          tree_val(ctx, get(nxt, 'params')) == OPT_P(copt.term, gval, os_, pv),
          get(nxt, 'rng').term == SPLIT0(k0)) if len(copt.calls) == 1 and copt.calls[0][2] is cp else False,
          detail='one step = optimizer(grad(params, batch, split(rng)[1]), opt_state, params); rng <- split(rng)[0]')
      ctx.oblige('client.fold.state', isinstance(get(nxt, 'opt_state'), OptStV) and
                 get(nxt, 'opt_state').term.eq(OPT_S(copt.term, tree_tid(ctx, copt.calls[0][0]), os_, ptid))
                 if copt.calls else False, detail='the optimizer state is threaded through the steps')
    if with_server_params and kind == 'return':
      ctx.oblige('client.prox.anchor', seen_sp.get('sp') is sp and get(nxt, 'server_params') is sp,
                 detail="the proximal term is anchored at the round's server parameters, carried unchanged")
    kind, d = eng.run_function(ctx, exs['client_final'].funcv(), [sp, state])
    ctx.oblige('client.delta', kind == 'return' and tree_val(ctx, d) == w - pv,
               detail='delta = server params - locally trained params (sign)')
  p.verify(f'{label}.create_train_for_each_client', eng, body)


