"""Mechanical extraction of function ASTs from /repo (re-read on every run).

What is dropped: docstrings (expression statements that are constants), type
annotations, comments.  Decorators are evaluated by the engine through the
library table (jit = identity + donation bookkeeping, dataclass = identity).
"""
from __future__ import annotations

import ast
import hashlib
import os

from .core import FuncV, Undecided

REPO = os.environ.get('VERIF_REPO', '/repo')

_cache = {}


def parse(relpath):
  path = os.path.join(REPO, relpath)
  if path not in _cache:
    try:
      src = open(path, encoding='utf-8').read()
    except OSError as e:
      raise Undecided(f'extraction: cannot read {path}: {e}')
    try:
      tree = ast.parse(src)
    except SyntaxError as e:
      raise Undecided(f'extraction: {path} does not parse: {e}')
    _cache[path] = (src, tree)
  return _cache[path]


def find(relpath, qualname):
  """Returns (node, source_segment). qualname like 'A.f' or 'f.<locals>.g'."""
  src, tree = parse(relpath)
  parts = [p for p in qualname.split('.') if p != '<locals>']
  node = tree
  for p in parts:
    found = None
    # search direct children first, then any depth that is not a nested scope
    stack = list(ast.iter_child_nodes(node))
    while stack:
      n = stack.pop(0)
      if isinstance(n, (ast.FunctionDef, ast.ClassDef, ast.AsyncFunctionDef)):
        if n.name == p:
          found = n
          break
        continue
      stack.extend(ast.iter_child_nodes(n))
    if found is None:
      raise Undecided(f'extraction: {relpath}::{qualname} not found (at {p})')
    node = found
  seg = ast.get_source_segment(src, node) or ''
  return node, seg


class Extracted:

  def __init__(self, relpath, qualname):
    self.relpath, self.qualname = relpath, qualname
    self.node, self.source = find(relpath, qualname)
    self.sha = hashlib.sha256(self.source.encode()).hexdigest()[:16]
    self.lineno = self.node.lineno

  @property
  def path(self):
    return f'{self.relpath}::{self.qualname}'

  def funcv(self, loops=None, frames=()):
    if not isinstance(self.node, ast.FunctionDef):
      raise Undecided(f'{self.path} is not a function')
    f = FuncV(self.node, frames, name=self.qualname, loops=loops or {})
    f.relpath = self.relpath
    return f

  def record(self):
    return {'function': self.path, 'sha256_16': self.sha, 'line': self.lineno}


def module_constant(relpath, name):
  """Evaluates a module-level `NAME = <literal expr>` with ast.literal_eval."""
  src, tree = parse(relpath)
  for n in tree.body:
    if isinstance(n, ast.Assign):
      for t in n.targets:
        if isinstance(t, ast.Name) and t.id == name:
          try:
            return ast.literal_eval(n.value)
          except Exception:
            return n.value
  raise Undecided(f'extraction: constant {name} not found in {relpath}')


def source_of(relpath):
  return parse(relpath)[0]
