"""Proof-script support: a Proof collects functions under contract, obligations,
lemmas, trusted facts, and bounded stand-ins for one property."""
from __future__ import annotations

import time
import z3

from .core import *  # noqa
from .engine import *  # noqa
from .extract import Extracted
from . import solve


class Proof:

  def __init__(self, prop_id, tier='quick', seed=0):
    self.prop_id = prop_id
    self.tier = tier
    self.seed = seed
    self.sink = Sink()
    self.functions = {}      # path -> Extracted
    self.trusted = []        # strings
    self.assumptions = []    # strings
    self.not_covered = []
    self.native_sweeps = set()   # (driver, checker) pairs registered for replay: also run as cross-checks
    self.bounded = []        # bounded stand-ins: dicts
    self.lemmas = {}         # name -> z3 formula (proved by own obligations)
    self.paths = 0
    self.notes = []
    self.replayers = {}      # obligation-name prefix -> callable(ob) -> dict
    self.t0 = time.time()
    self.engine_stats = {}

  # -- bookkeeping
  def extract(self, relpath, qualname):
    ex = Extracted(relpath, qualname)
    self.functions[ex.path] = ex
    return ex

  def extract_class(self, relpath, clsname, loops=None, contracted=()):
    """ClassModel with *every* method of the class in /repo (so that a helper
    method introduced by a refactor is found and inlined).  `contracted` names
    are registered as functions under contract; the others are inlined callees."""
    import ast as _ast
    from .extract import find
    node, _ = find(relpath, clsname)
    methods = {}
    for n in node.body:
      if isinstance(n, _ast.FunctionDef):
        ex = Extracted(relpath, f'{clsname}.{n.name}')
        if n.name in contracted:
          self.functions[ex.path] = ex
        fv = ex.funcv(loops=(loops or {}).get(n.name))
        decs = [_ast.unparse(d) for d in n.decorator_list]
        if 'staticmethod' in decs:
          fv = StaticMethodV(fv)
        elif 'property' in decs:
          fv = PropertyV(fv)
        elif any(d.startswith('abc.') for d in decs):
          continue
        methods[n.name] = fv
    return ClassModel(clsname, methods)

  def trust(self, *items):
    for i in items:
      if i not in self.trusted:
        self.trusted.append(i)

  def assume_note(self, *items):
    for i in items:
      if i not in self.assumptions:
        self.assumptions.append(i)

  # -- direct obligations (lemmas, relational steps over contracts)
  def oblige(self, name, hyps, goal, kind='lemma', detail='', model_vars=None,
             fn=''):
    ob = Obligation(name, list(hyps), goal if not isinstance(goal, bool)
                    else z3.BoolVal(goal), kind, detail, fn, 0, model_vars or {})
    self.sink.add(ob)
    return ob

  def prove_lemma(self, name, vars_, body, detail='', hyps=()):
    """Obliges `forall vars. body` (vars are free constants in the VC) and
    returns a Lemma that scripts instantiate as hints."""
    self.oblige(f'lemma.{name}', list(hyps), body, kind='lemma', detail=detail)
    self.lemmas[name] = Lemma(name, vars_, body)
    return self.lemmas[name]

  # -- running a function under contract
  def verify(self, fn_name, engine, body):
    """body(ctx) sets up inputs, runs the function, emits postconditions."""
    n = engine.explore(self.sink, fn_name, body)
    self.paths += n
    return n

  def replayer(self, prefix, fn):
    self.replayers[prefix] = fn

  def native(self, prefix, driver, fn, to_input=None):
    """Registers a native replay: obligations whose function name starts with
    `prefix` are replayed by `driver` (checker `fn`) on the input built from
    the solver model, then by the driver's bounded sweep of that checker."""
    def mk(ob):
      model = (ob.result or {}).get('model') or {}
      inp = None
      if model and to_input is not None:
        try:
          inp = to_input(model)
        except Exception:
          inp = None
      d = {'script': driver, 'sweep': {'mode': 'sweep', 'fn': fn}}
      d['payload'] = ({'mode': 'one', 'fn': fn, 'input': inp} if inp is not None
                      else {'mode': 'sweep', 'fn': fn})
      return d
    self.replayers[prefix] = mk
    self.native_sweeps.add((driver, fn))
