"""pyvc core: symbolic execution of real Python function ASTs into z3 obligations.

Nothing here is specific to fedjax.  A *proof script* (pyvc/props/Cxx.py)
extracts FunctionDefs from /repo (extract.py), builds symbolic arguments,
attaches loop invariants, and calls Engine.run; every definedness condition,
callee precondition, loop-invariant step and postcondition becomes a named
Obligation (assumptions |- goal) that solve.py discharges.

Semantics assumed (listed in every evidence file):
  * int is mathematical Z; // and % are floor division / modulo
  * float is R (REAL mode) unless a script uses z3 FP terms explicitly
  * left-to-right evaluation; and/or short-circuit (definedness of the right
    operand is obliged under the left operand's guard)
  * one thread; dict preserves insertion order
  * every local read obliges bound(x); list index / next() oblige in-range
"""
from __future__ import annotations

import ast
import copy
import itertools
import z3

# ---------------------------------------------------------------------------
# errors / signals


class Undecided(Exception):
  """The engine cannot decide (outside subset, binding lost): exit code 2."""


class Unsupported(Undecided):
  pass


_counter = itertools.count()


def fresh_name(base):
  return f'{base}!{next(_counter)}'


def FreshInt(base='i'):
  return z3.Int(fresh_name(base))


def FreshBool(base='b'):
  return z3.Bool(fresh_name(base))


def FreshReal(base='r'):
  return z3.Real(fresh_name(base))


def FreshConst(sort, base='c'):
  return z3.Const(fresh_name(base), sort)


def is_z3(x):
  return isinstance(x, z3.ExprRef)


def is_bool(x):
  return isinstance(x, bool) or isinstance(x, z3.BoolRef)


def is_int(x):
  if isinstance(x, bool):
    return False
  if isinstance(x, int):
    return True
  return isinstance(x, z3.ArithRef) and x.is_int()


def is_real(x):
  if isinstance(x, float):
    return True
  return isinstance(x, z3.ArithRef) and x.is_real()


def is_num(x):
  return is_int(x) or is_real(x) or isinstance(x, bool)


def to_z3(x):
  """Python concrete -> z3 term (numbers and bools only)."""
  if is_z3(x):
    return x
  if isinstance(x, bool):
    return z3.BoolVal(x)
  if isinstance(x, int):
    return z3.IntVal(x)
  if isinstance(x, float):
    return z3.RealVal(repr(x))
  raise Unsupported(f'cannot lift {x!r} to z3')


def zbool(x):
  if isinstance(x, bool):
    return z3.BoolVal(x)
  if isinstance(x, z3.BoolRef):
    return x
  raise Unsupported(f'not a bool: {x!r}')


def zand(*xs):
  xs = [x for x in xs if not (isinstance(x, bool) and x)]
  if any(isinstance(x, bool) and not x for x in xs):
    return z3.BoolVal(False)
  if not xs:
    return z3.BoolVal(True)
  return z3.And(*[zbool(x) for x in xs]) if len(xs) > 1 else zbool(xs[0])


def zor(*xs):
  xs = [x for x in xs if not (isinstance(x, bool) and not x)]
  if any(isinstance(x, bool) and x for x in xs):
    return z3.BoolVal(True)
  if not xs:
    return z3.BoolVal(False)
  return z3.Or(*[zbool(x) for x in xs]) if len(xs) > 1 else zbool(xs[0])


def znot(x):
  if isinstance(x, bool):
    return not x
  return z3.Not(x)


def zite(c, a, b):
  if isinstance(c, bool):
    return a if c else b
  if not is_z3(a) and not is_z3(b) and type(a) is type(b) and a == b:
    return a
  a, b = to_z3(a), to_z3(b)
  if a.sort() != b.sort():
    if is_int(a) and is_real(b):
      a = z3.ToReal(a)
    elif is_real(a) and is_int(b):
      b = z3.ToReal(b)
    else:
      raise Unsupported(f'ite of different sorts {a.sort()} {b.sort()}')
  return z3.If(c, a, b)


def py_floordiv(a, d):
  """Python floor division on mathematical integers."""
  if isinstance(a, int) and isinstance(d, int):
    return a // d
  a, d = to_z3(a), to_z3(d)
  if z3.is_int_value(d):
    dv = d.as_long()
    if dv > 0:
      return a / d
    return (-a) / (-d)
  return z3.If(d > 0, a / d, (-a) / (-d))


def py_mod(a, d):
  if isinstance(a, int) and isinstance(d, int):
    return a % d
  a, d = to_z3(a), to_z3(d)
  return a - d * py_floordiv(a, d)


def zmin(a, b):
  if not is_z3(a) and not is_z3(b):
    return min(a, b)
  return zite(to_z3(a) <= to_z3(b), a, b)


def zmax(a, b):
  if not is_z3(a) and not is_z3(b):
    return max(a, b)
  return zite(to_z3(a) >= to_z3(b), a, b)


def slice_bounds(n, lo, hi):
  """CPython slice clamping for step 1: returns (start, stop) with
  0 <= start <= n, 0 <= stop <= n; the slice is s[start:max(start,stop)].
  lo/hi may be None."""
  def clamp(x, default):
    if x is None:
      return default
    if not is_z3(x) and not is_z3(n):
      if x < 0:
        x += n
        return max(x, 0)
      return min(x, n)
    x = to_z3(x)
    nn = to_z3(n)
    return z3.If(x < 0, z3.If(x + nn < 0, z3.IntVal(0), x + nn),
                 z3.If(x > nn, nn, x))
  start = clamp(lo, 0)
  stop = clamp(hi, n)
  return start, stop


def seq_slice(s, lo, hi):
  """s[lo:hi] on a z3 Seq with CPython clamping."""
  n = z3.Length(s)
  start, stop = slice_bounds(n, lo, hi)
  start, stop = to_z3(start), to_z3(stop)
  ln = z3.If(stop > start, stop - start, z3.IntVal(0))
  return z3.SubSeq(s, start, ln), start, ln


# ---------------------------------------------------------------------------
# values


class Val:
  """Base class of engine-level structured values.

  Concrete python ints/bools/strs/None/tuples and raw z3 terms are values too.
  """

  def getattr(self, ctx, name):
    raise Unsupported(f'{type(self).__name__}.{name}')

  def setattr(self, ctx, name, value):
    raise Unsupported(f'store {type(self).__name__}.{name}')

  def call(self, ctx, args, kwargs):
    raise Unsupported(f'call of {type(self).__name__}')

  def method(self, ctx, name, args, kwargs):
    f = self.getattr(ctx, name)
    return ctx.engine.call_value(ctx, f, args, kwargs)

  def getitem(self, ctx, idx):
    raise Unsupported(f'{type(self).__name__}[...]')

  def setitem(self, ctx, idx, value):
    raise Unsupported(f'store {type(self).__name__}[...]')

  def length(self, ctx):
    raise Unsupported(f'len({type(self).__name__})')

  def truth(self, ctx):
    return zbool(to_z3(self.length(ctx)) != 0)

  def iterate(self, ctx):
    """Returns an IterSpec."""
    raise Unsupported(f'iter({type(self).__name__})')

  def binop(self, ctx, op, other, reflected):
    raise Unsupported(f'{type(self).__name__} {op}')

  def compare(self, ctx, op, other):
    raise Unsupported(f'{type(self).__name__} cmp {op}')

  def contains(self, ctx, item):
    raise Unsupported(f'in {type(self).__name__}')

  def fresh_like(self, ctx, base):
    raise Unsupported(f'havoc of {type(self).__name__}')

  def same(self, other):
    """z3 Bool: this value equals other (used by self-composition)."""
    raise Unsupported(f'equality of {type(self).__name__}')


class SliceV(Val):

  def __init__(self, lo, hi, step=None):
    self.lo, self.hi, self.step = lo, hi, step

  def getattr(self, ctx, name):
    if name in ('start', 'stop', 'step'):
      return {'start': self.lo, 'stop': self.hi, 'step': self.step}[name]
    raise Unsupported(f'slice.{name}')

  def __repr__(self):
    return f'SliceV({self.lo},{self.hi},{self.step})'


class StrV(Val):
  """An unknown string (f-strings in messages); carries no information."""

  def binop(self, ctx, op, other, reflected):
    return StrV()

  def method(self, ctx, name, args, kwargs):
    return StrV()


class FStrV(StrV):
  """A string built from known pieces: python strs and (value, format spec,
  conversion) triples.  Library contracts pattern-match on the pieces (e.g. a
  checkpoint name is [base, (round, '08d')]); everything else treats it as an
  unknown string."""

  def __init__(self, parts):
    self.parts = list(parts)

  def normalized(self):
    out = []
    for p in self.parts:
      if isinstance(p, tuple) and isinstance(p[0], str) and p[1] is None and p[2] == -1:
        p = p[0]
      if isinstance(p, tuple) and isinstance(p[0], FStrV) and p[1] is None and p[2] == -1:
        out.extend(p[0].parts)
        continue
      if isinstance(p, str) and out and isinstance(out[-1], str):
        out[-1] += p
      elif p != '':
        out.append(p)
    if all(isinstance(p, str) for p in out):
      return ''.join(out)
    self.parts = out
    return self

  def binop(self, ctx, op, other, reflected):
    if op == 'Add':
      o = other.parts if isinstance(other, FStrV) else ([other] if isinstance(other, str) else None)
      if o is None:
        return StrV()
      return FStrV(o + self.parts if reflected else self.parts + o).normalized()
    return StrV()

  def method(self, ctx, name, args, kwargs):
    return StrV()


class ExcV(Val):
  """An exception instance."""

  def __init__(self, name, args=()):
    self.name = name
    self.args = args

  def __repr__(self):
    return f'ExcV({self.name})'


class ExcClass(Val):

  def __init__(self, name):
    self.name = name

  def call(self, ctx, args, kwargs):
    return ExcV(self.name, tuple(args))


class Handler(Val):
  """A library function given by a python handler fn(ctx, *args, **kwargs)."""

  def __init__(self, fn, name=None):
    self.fn = fn
    self.name = name or getattr(fn, '__name__', 'handler')

  def call(self, ctx, args, kwargs):
    return self.fn(ctx, *args, **kwargs)

  def __repr__(self):
    return f'Handler({self.name})'


class Module(Val):
  """A namespace (np, jnp, os.path, ...) mapping attribute names to values."""

  def __init__(self, name, attrs=None):
    self.name = name
    self.attrs = dict(attrs or {})

  def getattr(self, ctx, name):
    if name not in self.attrs:
      raise Unsupported(f'no library contract for {self.name}.{name}')
    return self.attrs[name]

  def __repr__(self):
    return f'Module({self.name})'


class FuncV(Val):
  """A python function given by its AST; calls are inlined."""

  def __init__(self, fdef, frames, name=None, loops=None, defaults=None):
    self.fdef = fdef
    self.frames = list(frames)  # lexical frame ids (outermost first)
    self.name = name or getattr(fdef, 'name', '<lambda>')
    self.loops = loops or {}
    self.defaults = defaults

  def call(self, ctx, args, kwargs):
    return ctx.engine.inline_call(ctx, self, args, kwargs)

  def __repr__(self):
    return f'FuncV({self.name})'


class BoundMethod(Val):

  def __init__(self, selfv, func):
    self.selfv, self.func = selfv, func

  def call(self, ctx, args, kwargs):
    return ctx.engine.call_value(ctx, self.func, [self.selfv] + list(args),
                                 kwargs)


class OptV(Val):
  """A value that may be None: is_none is a z3 Bool, val the non-None value."""

  def __init__(self, is_none, val):
    self.is_none = is_none
    self.val = val

  def _need(self, ctx, what):
    ctx.oblige(f'notnone.{what}', znot(self.is_none),
               kind='definedness', detail=f'{what} on a value that may be None')
    return self.val

  def getattr(self, ctx, name):
    return ctx.engine.getattr(ctx, self._need(ctx, 'attr ' + name), name)

  def call(self, ctx, args, kwargs):
    return ctx.engine.call_value(ctx, self._need(ctx, 'call'), args, kwargs)

  def method(self, ctx, name, args, kwargs):
    return ctx.engine.call_method(ctx, self._need(ctx, 'attr ' + name), name, args, kwargs)

  def getitem(self, ctx, idx):
    return ctx.engine.getitem(ctx, self._need(ctx, 'subscript'), idx)

  def truth(self, ctx):
    return zand(znot(self.is_none), ctx.engine.truth(ctx, self.val))

  def fresh_like(self, ctx, base):
    return OptV(ctx.fresh(base + '_none', 'bool'),
                ctx.engine.fresh_like(ctx, self.val, base))

  def compare(self, ctx, op, other):
    v = self._need(ctx, 'compare')
    return ctx.engine.compare(ctx, op, v, other)

  def unpack(self, ctx, n):
    v = self._need(ctx, 'unpacking')
    if isinstance(v, tuple):
      return list(v)
    if hasattr(v, 'unpack'):
      return v.unpack(ctx, n)
    return ctx.engine.concrete_items(ctx, v)

  def binop(self, ctx, op, other, reflected):
    v = self._need(ctx, 'arithmetic')
    if reflected:
      return ctx.engine.binop(ctx, op, other, v)
    return ctx.engine.binop(ctx, op, v, other)

  @property
  def term(self):
    return self.val


class Ref(Val):
  """Reference to a mutable heap cell (list / dict / object / array)."""

  def __init__(self, addr):
    self.addr = addr

  def cell(self, ctx):
    return ctx.heap[self.addr]

  def getattr(self, ctx, name):
    return self.cell(ctx).getattr(ctx, self, name)

  def setattr(self, ctx, name, value):
    return self.cell(ctx).setattr(ctx, self, name, value)

  def method(self, ctx, name, args, kwargs):
    return self.cell(ctx).method(ctx, self, name, args, kwargs)

  def getitem(self, ctx, idx):
    return self.cell(ctx).getitem(ctx, self, idx)

  def setitem(self, ctx, idx, value):
    return self.cell(ctx).setitem(ctx, self, idx, value)

  def length(self, ctx):
    return self.cell(ctx).length(ctx, self)

  def truth(self, ctx):
    return self.cell(ctx).truth(ctx, self)

  def iterate(self, ctx):
    return self.cell(ctx).iterate(ctx, self)

  def contains(self, ctx, item):
    return self.cell(ctx).contains(ctx, self, item)

  def binop(self, ctx, op, other, reflected):
    return self.cell(ctx).binop(ctx, self, op, other, reflected)

  def compare(self, ctx, op, other):
    return self.cell(ctx).compare(ctx, self, op, other)

  def call(self, ctx, args, kwargs):
    return self.cell(ctx).call(ctx, self, args, kwargs)

  def fresh_like(self, ctx, base):
    # havoc of a reference variable keeps the reference (re-binding to another
    # object inside a loop needs an explicit sort in the loop contract)
    return self

  def __repr__(self):
    return f'Ref({self.addr})'


class Cell:
  """Heap cell base: owner is 'param' (caller's object) or 'local'."""
  owner = 'local'
  label = ''

  def clone(self):
    return copy.copy(self)

  def getattr(self, ctx, ref, name):
    raise Unsupported(f'{type(self).__name__}.{name}')

  def setattr(self, ctx, ref, name, value):
    raise Unsupported(f'store {type(self).__name__}.{name}')

  def method(self, ctx, ref, name, args, kwargs):
    f = self.getattr(ctx, ref, name)
    return ctx.engine.call_value(ctx, f, args, kwargs)

  def getitem(self, ctx, ref, idx):
    raise Unsupported(f'{type(self).__name__}[...]')

  def setitem(self, ctx, ref, idx, value):
    raise Unsupported(f'store {type(self).__name__}[...]')

  def length(self, ctx, ref):
    raise Unsupported(f'len({type(self).__name__})')

  def truth(self, ctx, ref):
    return zbool(to_z3(self.length(ctx, ref)) != 0)

  def iterate(self, ctx, ref):
    raise Unsupported(f'iter({type(self).__name__})')

  def contains(self, ctx, ref, item):
    raise Unsupported(f'in {type(self).__name__}')

  def binop(self, ctx, ref, op, other, reflected):
    raise Unsupported(f'{type(self).__name__} {op}')

  def compare(self, ctx, ref, op, other):
    raise Unsupported(f'{type(self).__name__} cmp {op}')

  def call(self, ctx, ref, args, kwargs):
    raise Unsupported(f'call {type(self).__name__}')

  def havoc(self, ctx, base):
    raise Unsupported(f'havoc {type(self).__name__}')

  def check_write(self, ctx, ref, what):
    """Frame condition: stores into caller-owned objects are violations unless
    the function contract lists the object under `modifies`."""
    if self.owner == 'param' and ref.addr not in ctx.modifies:
      ctx.oblige(f'frame.{what}', False, kind='frame',
                 detail=f'store into caller-owned object {self.label or ref.addr} ({what})')


class Codec:
  """How python-level values are stored as elements of a z3 Seq."""

  def __init__(self, sort, enc=None, dec=None):
    self.sort = sort
    self.enc = enc or (lambda v: to_z3(v))
    self.dec = dec or (lambda t: t)


INT = Codec(z3.IntSort())
BOOL = Codec(z3.BoolSort())
REAL = Codec(z3.RealSort())


class ListCell(Cell):
  """A python list (or 1-D numpy array when is_array) as a z3 Seq."""

  def __init__(self, seq, codec, is_array=False, owner='local', label=''):
    self.seq = seq
    self.codec = codec
    self.is_array = is_array
    self.owner = owner
    self.label = label

  def length(self, ctx, ref):
    return z3.Length(self.seq)

  def _index(self, ctx, idx, what):
    n = z3.Length(self.seq)
    i = to_z3(idx)
    ctx.oblige(f'index.{what}', z3.And(i >= -n, i < n), kind='definedness',
               detail=f'IndexError: {what}')
    return z3.If(i < 0, i + n, i)

  def getitem(self, ctx, ref, idx):
    if isinstance(idx, SliceV):
      if idx.step not in (None, 1):
        raise Unsupported('slice step')
      sub, _, _ = seq_slice(self.seq, idx.lo, idx.hi)
      return ctx.alloc(ListCell(sub, self.codec, self.is_array))
    if isinstance(idx, Ref) and isinstance(idx.cell(ctx), ListCell):
      raise Unsupported('fancy indexing on a plain list cell')
    i = self._index(ctx, idx, 'load')
    return self.codec.dec(self.seq[i])

  def setitem(self, ctx, ref, idx, value):
    self.check_write(ctx, ref, 'setitem')
    n = z3.Length(self.seq)
    if isinstance(idx, SliceV):
      if idx.step not in (None, 1):
        raise Unsupported('slice step')
      start, stop = slice_bounds(n, idx.lo, idx.hi)
      start, stop = to_z3(start), to_z3(stop)
      ln = z3.If(stop > start, stop - start, z3.IntVal(0))
      if isinstance(value, Ref) and isinstance(value.cell(ctx), ListCell):
        rhs = value.cell(ctx).seq
        if self.is_array:
          # numpy: shapes must match (length-1 broadcasting is obliged away)
          ctx.oblige('setslice.shape', z3.Length(rhs) == ln, kind='definedness',
                     detail='ValueError: could not broadcast in slice assignment')
      elif self.is_array:
        raise Unsupported('array slice assignment from a non-array')
      else:
        raise Unsupported('list slice assignment')
      new = z3.Concat(z3.SubSeq(self.seq, 0, start), rhs,
                      z3.SubSeq(self.seq, start + ln, n - start - ln))
      ctx.set_cell(ref.addr, self._with(new))
      return
    i = self._index(ctx, idx, 'store')
    new = z3.Concat(z3.SubSeq(self.seq, 0, i), z3.Unit(self.codec.enc(value)),
                    z3.SubSeq(self.seq, i + 1, n - i - 1))
    ctx.set_cell(ref.addr, self._with(new))

  def _with(self, seq):
    c = self.clone()
    c.seq = seq
    return c

  def method(self, ctx, ref, name, args, kwargs):
    if name == 'append' and not self.is_array:
      self.check_write(ctx, ref, 'append')
      ctx.set_cell(ref.addr, self._with(
          z3.Concat(self.seq, z3.Unit(self.codec.enc(args[0])))))
      return None
    if name == 'clear' and not self.is_array:
      self.check_write(ctx, ref, 'clear')
      ctx.set_cell(ref.addr, self._with(z3.Empty(self.seq.sort())))
      return None
    if name == 'copy':
      return ctx.alloc(ListCell(self.seq, self.codec, self.is_array))
    if name == 'reverse' and not self.is_array:
      # over-approximation: a list of the same length whose first and last elements are swapped images
      self.check_write(ctx, ref, 'reverse')
      rev = ctx.fresh('reversed', self.seq.sort())
      n = z3.Length(self.seq)
      ctx.assume(z3.And(z3.Length(rev) == n,
                        z3.Implies(n >= 1, z3.And(rev[0] == self.seq[n - 1], rev[n - 1] == self.seq[0]))))
      ctx.set_cell(ref.addr, self._with(rev))
      return None
    raise Unsupported(f'list.{name}')

  def getattr(self, ctx, ref, name):
    if self.is_array and name == 'shape':
      return (z3.Length(self.seq),)
    if self.is_array and name == 'size':
      return z3.Length(self.seq)
    raise Unsupported(f'list attr {name}')

  def iterate(self, ctx, ref):
    return IterSpec(seq=self.seq, codec=self.codec)

  def binop(self, ctx, ref, op, other, reflected):
    if op == 'Add' and isinstance(other, Ref) and not self.is_array:
      oc = other.cell(ctx)
      if isinstance(oc, ListCell):
        a, b = (oc.seq, self.seq) if reflected else (self.seq, oc.seq)
        return ctx.alloc(ListCell(z3.Concat(a, b), self.codec))
      if isinstance(oc, PyListCell):
        o = z3.Empty(self.seq.sort())
        for x in oc.items:
          o = z3.Concat(o, z3.Unit(self.codec.enc(x)))
        a, b = (o, self.seq) if reflected else (self.seq, o)
        return ctx.alloc(ListCell(z3.Concat(a, b), self.codec))
    raise Unsupported(f'list {op}')

  def havoc(self, ctx, base):
    return self._with(ctx.fresh(base, self.seq.sort()))

  def contains(self, ctx, ref, item):
    return z3.Contains(self.seq, z3.Unit(self.codec.enc(item)))


class ArrayCell(Cell):
  """A 1-D numpy array used with point reads / writes: z3 Array Int->Int plus its length."""

  def __init__(self, arr, n, owner='local', label=''):
    self.arr, self.n, self.owner, self.label = arr, n, owner, label

  def length(self, ctx, ref):
    return self.n

  def _idx(self, ctx, idx, what):
    i = to_z3(idx)
    n = to_z3(self.n)
    ctx.oblige(f'index.{what}', z3.And(i >= -n, i < n), kind='definedness', detail=f'IndexError: {what}')
    return z3.If(i < 0, i + n, i)

  def getitem(self, ctx, ref, idx):
    if isinstance(idx, (SliceV, Ref)):
      raise Unsupported('slice / fancy read of an ArrayCell')
    return z3.Select(self.arr, self._idx(ctx, idx, 'load'))

  def setitem(self, ctx, ref, idx, value):
    self.check_write(ctx, ref, 'setitem')
    if isinstance(idx, (SliceV, Ref)):
      raise Unsupported('slice store into an ArrayCell')
    c = self.clone()
    c.arr = z3.Store(self.arr, self._idx(ctx, idx, 'store'), to_z3(value))
    ctx.set_cell(ref.addr, c)

  def havoc(self, ctx, base):
    c = self.clone()
    c.arr = ctx.fresh(base, self.arr.sort())
    return c

  def term(self, ctx):
    return self.arr


class PyListCell(Cell):
  """A list with concrete structure (python list of engine values)."""

  def __init__(self, items, owner='local', label=''):
    self.items = list(items)
    self.owner = owner
    self.label = label

  def clone(self):
    c = copy.copy(self)
    c.items = list(self.items)
    return c

  def length(self, ctx, ref):
    return len(self.items)

  def getitem(self, ctx, ref, idx):
    if isinstance(idx, SliceV):
      lo = idx.lo if not is_z3(idx.lo) else None
      if is_z3(idx.lo) or is_z3(idx.hi) or idx.step not in (None, 1):
        raise Unsupported('symbolic slice of a concrete list')
      return ctx.alloc(PyListCell(self.items[idx.lo:idx.hi]))
    if is_z3(idx):
      idx = self._concretize(ctx, idx, 'load')
    if not -len(self.items) <= idx < len(self.items):
      ctx.oblige('index.load', False, kind='definedness',
                 detail='IndexError on concrete list')
      raise PathDead()
    return self.items[idx]

  def _concretize(self, ctx, idx, what):
    """A symbolic index into a list of known length: finite case split."""
    s = z3.simplify(idx)
    if z3.is_int_value(s):
      return s.as_long()
    n = len(self.items)
    ctx.oblige(f'index.{what}', z3.And(idx >= -n, idx < n), kind='definedness',
               detail='IndexError: list index out of range')
    for j in range(n):
      if ctx.branch(z3.Or(idx == j, idx == j - n)):
        return j
    raise PathDead()

  def havoc(self, ctx, base):
    c = self.clone()
    items = []
    for i, v in enumerate(self.items):
      if isinstance(v, Ref):
        items.append(ctx.alloc(v.cell(ctx).havoc(ctx, f'{base}[{i}]')))
      else:
        items.append(ctx.engine.fresh_like(ctx, v, f'{base}[{i}]'))
    c.items = items
    return c

  def setitem(self, ctx, ref, idx, value):
    self.check_write(ctx, ref, 'setitem')
    if isinstance(idx, SliceV):
      raise Unsupported('slice store into concrete list')
    if is_z3(idx):
      idx = self._concretize(ctx, idx, 'store')
    c = self.clone()
    c.items[idx] = value
    ctx.set_cell(ref.addr, c)

  def method(self, ctx, ref, name, args, kwargs):
    if name == 'append':
      self.check_write(ctx, ref, 'append')
      c = self.clone()
      c.items.append(args[0])
      ctx.set_cell(ref.addr, c)
      return None
    if name == 'clear':
      self.check_write(ctx, ref, 'clear')
      c = self.clone()
      c.items = []
      ctx.set_cell(ref.addr, c)
      return None
    if name == 'reverse':
      self.check_write(ctx, ref, 'reverse')
      c = self.clone()
      c.items = list(reversed(c.items))
      ctx.set_cell(ref.addr, c)
      return None
    if name == 'pop':
      self.check_write(ctx, ref, 'pop')
      i = args[0] if args else -1
      if is_z3(i):
        raise Unsupported('pop at a symbolic index')
      if not self.items or not -len(self.items) <= i < len(self.items):
        ctx.oblige('index.pop', False, kind='definedness', detail='IndexError: pop from empty list / index out of range')
        raise PathDead()
      c = self.clone()
      v = c.items.pop(i)
      ctx.set_cell(ref.addr, c)
      return v
    if name == 'insert':
      self.check_write(ctx, ref, 'insert')
      if is_z3(args[0]):
        raise Unsupported('insert at a symbolic index')
      c = self.clone()
      c.items.insert(args[0], args[1])
      ctx.set_cell(ref.addr, c)
      return None
    if name == 'sort':
      self.check_write(ctx, ref, 'sort')
      key = kwargs.get('key')
      rev = kwargs.get('reverse', False)
      ks = []
      for it in self.items:
        k = ctx.engine.call_value(ctx, key, [it], {}) if key is not None else it
        if is_z3(k):
          k = z3.simplify(k)
          if not z3.is_int_value(k):
            raise Unsupported('sort with symbolic keys')
          k = k.as_long()
        ks.append(k)
      if is_z3(rev):
        raise Unsupported('sort with a symbolic reverse flag')
      c = self.clone()
      order = sorted(range(len(ks)), key=lambda i: ks[i], reverse=bool(rev))   # stable, like list.sort
      c.items = [self.items[i] for i in order]
      ctx.set_cell(ref.addr, c)
      return None
    raise Unsupported(f'pylist.{name}')

  def iterate(self, ctx, ref):
    return IterSpec(items=list(self.items))

  def binop(self, ctx, ref, op, other, reflected):
    if op == 'Add' and isinstance(other, Ref):
      oc = other.cell(ctx)
      if isinstance(oc, PyListCell):
        a, b = (oc.items, self.items) if reflected else (self.items, oc.items)
        return ctx.alloc(PyListCell(a + b))
    raise Unsupported(f'pylist {op}')


class ObjCell(Cell):
  """A python object with named fields; methods come from `cls` (ClassModel)."""

  def __init__(self, cls, fields=None, owner='local', label=''):
    self.cls = cls
    self.fields = dict(fields or {})
    self.owner = owner
    self.label = label

  def clone(self):
    c = copy.copy(self)
    c.fields = dict(self.fields)
    return c

  def getattr(self, ctx, ref, name):
    if name in self.fields:
      return self.fields[name]
    if self.cls is not None:
      m = self.cls.lookup(name)
      if m is not None:
        if isinstance(m, PropertyV):
          return ctx.engine.call_value(ctx, m.func, [ref], {})
        if isinstance(m, StaticMethodV):
          return m.func
        if isinstance(m, ClassMethodV):
          return m
        return BoundMethod(ref, m)
    if name == 'replace' and self.cls is not None and self.cls.dc_fields is not None:
      # fedjax.core.dataclasses.dataclass adds replace(**updates) = dataclasses.replace(self, **updates)
      cell = self

      def replace(c, **updates):
        names = [n for n, _ in cell.cls.dc_fields]
        for k in updates:
          if k not in names:
            c.oblige('replace.field', False, kind='definedness', detail=f'TypeError: unexpected field {k} in replace()')
            raise PathDead()
        fields = dict(c.heap[ref.addr].fields)
        fields.update(updates)
        return c.alloc(ObjCell(cell.cls, fields, label=cell.label))
      return Handler(replace, 'dataclass.replace')
    ctx.oblige(f'attr.{name}', False, kind='definedness',
               detail=f'AttributeError: {self.label or "object"}.{name}')
    raise PathDead()

  def setattr(self, ctx, ref, name, value):
    self.check_write(ctx, ref, f'setattr {name}')
    if self.cls is not None and self.cls.frozen and not ctx.in_init_of(ref):
      ctx.oblige(f'frozen.{name}', False, kind='definedness',
                 detail='FrozenInstanceError')
    c = self.clone()
    c.fields[name] = value
    ctx.set_cell(ref.addr, c)

  def truth(self, ctx, ref):
    return True

  def call(self, ctx, ref, args, kwargs):
    m = self.cls.lookup('__call__') if self.cls is not None else None
    if m is None:
      raise Unsupported(f'call of {self.label or "object"}')
    return ctx.engine.call_value(ctx, m, [ref] + list(args), kwargs)

  def havoc(self, ctx, base):
    c = self.clone()
    for k, v in self.fields.items():
      c.fields[k] = ctx.engine.fresh_like(ctx, v, f'{base}.{k}')
    return c


class PropertyV(Val):

  def __init__(self, func):
    self.func = func


class ClassMethodV(Val):

  def __init__(self, func, cls=None):
    self.func, self.cls = func, cls

  def call(self, ctx, args, kwargs):
    return ctx.engine.call_value(ctx, self.func, [self.cls] + list(args), kwargs)


class StaticMethodV(Val):

  def __init__(self, func):
    self.func = func

  def call(self, ctx, args, kwargs):
    return ctx.engine.call_value(ctx, self.func, args, kwargs)


class ClassModel(Val):
  """A python class: methods are FuncV/Handler values; call = construct."""

  def __init__(self, name, methods=None, frozen=False, fields=None,
               bases=()):
    self.name = name
    self.methods = dict(methods or {})
    self.frozen = frozen
    self.dc_fields = fields  # dataclass field list [(name, default)] or None
    self.bases = bases

  def lookup(self, name):
    if name in self.methods:
      return self.methods[name]
    for b in self.bases:
      m = b.lookup(name)
      if m is not None:
        return m
    return None

  def call(self, ctx, args, kwargs):
    ref = ctx.alloc(ObjCell(self, {}, label=self.name))
    init = self.lookup('__init__')
    if init is not None:
      ctx.init_stack.append(ref.addr)
      try:
        ctx.engine.call_value(ctx, init, [ref] + list(args), kwargs)
      finally:
        ctx.init_stack.pop()
    elif self.dc_fields is not None:
      vals = {}
      names = [n for n, _ in self.dc_fields]
      for n, a in zip(names, args):
        vals[n] = a
      for k, v in kwargs.items():
        if k not in names:
          ctx.oblige('ctor.kw', False, kind='definedness',
                     detail=f'TypeError: unexpected keyword {k}')
        vals[k] = v
      for n, d in self.dc_fields:
        if n not in vals:
          if d is _NODEFAULT:
            ctx.oblige('ctor.missing', False, kind='definedness',
                       detail=f'TypeError: missing {n}')
            raise PathDead()
          vals[n] = d
      c = ctx.heap[ref.addr].clone()
      c.fields = vals
      ctx.set_cell(ref.addr, c)
    return ref

  def getattr(self, ctx, name):
    m = self.lookup(name)
    if m is None:
      raise Unsupported(f'class attr {self.name}.{name}')
    return m

  def __repr__(self):
    return f'ClassModel({self.name})'


_NODEFAULT = object()


class IterSpec:
  """What a for-loop iterates over.

  Exactly one of: items (concrete python list), seq (z3 Seq + codec),
  rng (start, stop, step) ints, or custom (object with has_next/next).
  pos_addr: heap address of a shared position (one-pass iterators).
  """

  def __init__(self, items=None, seq=None, codec=None, rng=None, pos=None,
               custom=None):
    self.items, self.seq, self.codec, self.rng = items, seq, codec, rng
    self.pos = pos
    self.custom = custom


class IterCell(Cell):
  """A one-pass iterator: pos is its current position in `seq`, or — for an
  iterator over a live python list (`src`) — in that list's current content."""

  def __init__(self, seq, codec, pos=0, owner='local', label='', src=None):
    self._seq, self.codec, self.pos = seq, codec, pos
    self.owner = owner
    self.label = label
    self.src = src

  def cur_seq(self, ctx):
    if self.src is not None:
      return ctx.heap[self.src.addr].seq
    return self._seq

  @property
  def seq(self):
    if self.src is not None:
      raise Unsupported('live list iterator needs a context (use cur_seq)')
    return self._seq

  def iterate(self, ctx, ref):
    return IterSpec(seq=self.cur_seq(ctx), codec=self.codec, pos=ref)

  def havoc(self, ctx, base):
    c = self.clone()
    c.pos = ctx.fresh(base + '_pos')
    return c

  def truth(self, ctx, ref):
    return True


class PathDead(Exception):
  """The current path cannot continue (an obligation `False` was emitted)."""


# ---------------------------------------------------------------------------
# obligations and contexts


class Obligation:

  def __init__(self, name, assumptions, goal, kind, detail, fn, lineno,
               model_vars=None):
    self.name = name
    self.assumptions = list(assumptions)
    self.goal = goal
    self.kind = kind
    self.detail = detail
    self.fn = fn
    self.lineno = lineno
    self.model_vars = model_vars or {}
    self.result = None  # filled by solve

  def formula(self):
    return z3.And(*self.assumptions, z3.Not(self.goal)) if self.assumptions \
        else z3.Not(self.goal)


class Sink:
  """Collects obligations of one proof script."""

  def __init__(self):
    self.obligations = []
    self.counts = {}
    self.assumed = []  # names of trusted facts used (for the evidence)
    self._seen = set()
    self.trivial = set()  # names of obligations decided (true) during execution

  def add(self, ob):
    key = (ob.name, ob.formula().sexpr())
    if key in self._seen:
      return
    self._seen.add(key)
    n = self.counts.get(ob.name, 0)
    self.counts[ob.name] = n + 1
    if n:
      ob.name = f'{ob.name}#{n}'
    self.obligations.append(ob)


class Ctx:
  """One symbolic path (fork-by-replay): path condition, frames, heap, ghost.

  Forking is done by re-execution: `choose(n)` consults the decision schedule
  of this run; the driver (Engine.explore) re-runs the function once per
  schedule.  Fresh names are deterministic per run, so obligations on shared
  prefixes are identical terms and are de-duplicated by the sink.
  """

  def __init__(self, engine, sink, fn_name='', schedule=()):
    self.engine = engine
    self.sink = sink
    self.pc = []
    self.frames = {}
    self.stack = []  # frame ids, innermost last
    self.heap = {}
    self.ghost = {}
    self.modifies = set()
    self.fn_name = fn_name
    self.lineno = 0
    self.init_stack = []
    self.model_vars = {}
    self.on_yield = None
    self.tags = {}
    self.schedule = list(schedule)
    self.dpos = 0
    self.pending = []  # alternative schedules discovered on this run
    self.loop_guard = []  # stack of sets of havoced addresses (None = no loop)
    self.alloc_epoch = 0
    self.names = itertools.count()

  # -- deterministic fresh symbols
  def fresh(self, base, sort=None):
    nm = f'{base}!{next(self.names)}'
    if sort is None:
      return z3.Int(nm)
    if isinstance(sort, str):
      return {'int': z3.Int, 'bool': z3.Bool, 'real': z3.Real}[sort](nm)
    return z3.Const(nm, sort)

  # -- forking
  def choose(self, n):
    if self.dpos < len(self.schedule):
      d = self.schedule[self.dpos]
    else:
      d = 0
      self.schedule.append(0)
      for j in range(1, n):
        self.pending.append(self.schedule[:self.dpos] + [j])
    self.dpos += 1
    return d

  def branch(self, cond):
    """Returns a python bool, forking on symbolic conditions."""
    if isinstance(cond, bool):
      return cond
    simp = z3.simplify(cond)  # only to detect constants; pc keeps the original
    if z3.is_true(simp):
      return True
    if z3.is_false(simp):
      return False
    # already decided on this path (syntactically): no fork
    neg = z3.Not(cond)
    for x in self.pc:
      if x.eq(cond):
        return True
      if x.eq(neg) or (z3.is_not(cond) and x.eq(cond.arg(0))):
        return False
    if self.choose(2) == 0:
      self.pc.append(cond)
      return True
    self.pc.append(z3.Not(cond))
    return False

  # -- assumptions / obligations
  def assume(self, f):
    if isinstance(f, bool):
      if not f:
        self.pc.append(z3.BoolVal(False))
      return
    self.pc.append(f)

  def oblige(self, name, goal, kind='post', detail=''):
    full = f'{self.fn_name}:{name}' if self.fn_name else name
    if isinstance(goal, bool):
      if goal:
        # decided while executing (a structural fact): nothing for the solver, but the name is part of the
        # contract of the pinned tree, so that the same obligation failing on a changed tree is recognised
        self.sink.trivial.add(full)
        return
      goal = z3.BoolVal(False)
    ob = Obligation(full, self.pc, goal, kind, detail, self.fn_name,
                    self.lineno, self.model_vars)
    self.sink.add(ob)
    # once obliged, later reasoning on this path may rely on it
    self.pc.append(goal)

  # -- heap
  def alloc(self, cell):
    addr = next(self.names)
    self.heap[addr] = cell
    return Ref(addr)

  def set_cell(self, addr, cell):
    if self.loop_guard:
      g = self.loop_guard[-1]
      if g is not None and addr < g[0] and addr not in g[1]:
        raise Undecided(
            f'loop body mutates object {self.heap[addr].label or addr} that the '
            'loop rule did not havoc (add it to Loop(mutates=...))')
    self.heap[addr] = cell

  def in_init_of(self, ref):
    return ref.addr in self.init_stack

  # -- frames
  def push_frame(self, lexical_parents=()):
    fid = next(self.names)
    self.frames[fid] = {'$parents': tuple(lexical_parents)}
    self.stack.append(fid)
    return fid

  def pop_frame(self):
    return self.stack.pop()

  def cur_frame(self):
    return self.frames[self.stack[-1]]

  def lookup(self, name):
    fid = self.stack[-1]
    f = self.frames[fid]
    if name in f:
      return f[name]
    for p in reversed(f['$parents']):
      if name in self.frames[p]:
        return self.frames[p][name]
    g = self.engine.globals
    if name in g:
      return g[name]
    v = self.engine.resolve_global(self, name)
    if v is not None:
      return v[0]
    raise KeyError(name)

  def store(self, name, value):
    f = self.cur_frame()
    nl = f.get('$nonlocal', ())
    if name in nl:
      for p in reversed(f['$parents']):
        if name in self.frames[p]:
          self.frames[p][name] = value
          return
    f[name] = value

  def delete(self, name):
    f = self.cur_frame()
    if name in f:
      del f[name]


UNBOUND = object()


class MaybeUnbound(Val):
  """A local that is bound only when `bound` holds (after a loop/branch)."""

  def __init__(self, bound, val):
    self.bound, self.val = bound, val


class LemmaInst:
  """An instance of a lemma that is proved by its own obligation."""

  def __init__(self, name, formula):
    self.name, self.formula = name, formula


class Lemma:
  """forall vars. body — proved once (Proof.prove_lemma), instantiated by substitution."""

  def __init__(self, name, vars_, body):
    self.name, self.vars, self.body = name, list(vars_), body

  def __call__(self, *terms):
    assert len(terms) == len(self.vars)
    return LemmaInst(self.name, z3.substitute(
        self.body, *[(v, to_z3(t)) for v, t in zip(self.vars, terms)]))


class SeqV(Val):
  """An immutable iterable given as a z3 Seq and an element codec (a tuple, a
  generator argument, ...).  Iteration is one pass in order."""

  def __init__(self, seq, codec):
    self.seq, self.codec = seq, codec

  @property
  def term(self):
    return self.seq

  def iterate(self, ctx):
    return IterSpec(seq=self.seq, codec=self.codec)

  def length(self, ctx):
    return z3.Length(self.seq)

  def getitem(self, ctx, idx):
    if isinstance(idx, SliceV):
      return SeqV(seq_slice(self.seq, idx.lo, idx.hi)[0], self.codec)
    n = z3.Length(self.seq)
    i = to_z3(idx)
    ctx.oblige('index.seq', z3.And(i >= -n, i < n), kind='definedness', detail='IndexError')
    return self.codec.dec(self.seq[z3.If(i < 0, i + n, i)])

  def make_iter(self, ctx):
    return ctx.alloc(IterCell(self.seq, self.codec, 0))

  def to_list(self, ctx):
    return ctx.alloc(ListCell(self.seq, self.codec))

  def key_set(self, ctx):
    # set(iterable) of a symbolic sequence: the iteration order of the result is the hash order of its
    # elements, which for str / bytes elements depends on the per-process hash seed (PYTHONHASHSEED)
    return SeqV(ctx.fresh('hash_order_of_set', self.seq.sort()), self.codec)

  def truth(self, ctx):
    return z3.Length(self.seq) != 0

  def binop(self, ctx, op, other, reflected):
    if op != 'Add':
      raise Unsupported(f'sequence {op}')
    if isinstance(other, tuple):
      o = z3.Empty(self.seq.sort())
      for x in other:
        o = z3.Concat(o, z3.Unit(self.codec.enc(x)))
    elif isinstance(other, SeqV):
      o = other.seq
    else:
      raise Unsupported('sequence + non-sequence')
    return SeqV(z3.Concat(o, self.seq) if reflected else z3.Concat(self.seq, o), self.codec)

  def fresh_like(self, ctx, base):
    return SeqV(ctx.fresh(base, self.seq.sort()), self.codec)
