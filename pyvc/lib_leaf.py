"""Leaf-wise pytree loops: `for l, r in zip(leaves, jax.random.split(rng, len(leaves)))`.

Leaves, rotated leaves, shapes ... are opaque ids (z3 Int); keys are an uninterpreted sort;
split(rng, n)[j] is SPLIT(rng, n, j).  Lists are z3 sequences of ids, so the loops are
verified with invariants at an arbitrary leaf index (no bound on the number of leaves)."""
from __future__ import annotations

import z3

from .script import *  # noqa

I = z3.IntSort()
IS = z3.SeqSort(I)
Key = z3.DeclareSort('Key')
TD = z3.DeclareSort('TreeDef')
SPLIT = z3.Function('split', Key, I, I, Key)


class IdV(Val):
  def __init__(self, term):
    self.term = term


IDS = Codec(I, enc=lambda v: v.term, dec=lambda t: IdV(t))


class KeyV(Val):
  def __init__(self, term):
    self.term = term


class KeysV(Val):
  """jax.random.split(key, num)"""

  def __init__(self, key, num):
    self.key, self.num = key, num

  def getitem(self, ctx, idx):
    i = to_z3(idx)
    ctx.oblige('index.keys', z3.And(i >= -self.num, i < self.num), kind='definedness', detail='IndexError: rngs[i]')
    return KeyV(SPLIT(self.key, self.num, z3.If(i < 0, i + self.num, i)))


class TreeV(Val):
  def __init__(self, tdef, seq):
    self.tdef, self.seq = tdef, seq


class ZipV(Val):
  def __init__(self, parts):
    self.parts = parts

  def iterate(self, ctx):
    lens, fns = [], []
    for part in self.parts:
      if isinstance(part, Ref) and isinstance(part.cell(ctx), ListCell):
        c = part.cell(ctx)
        lens.append(z3.Length(c.seq))
        fns.append(lambda q, c=c: c.codec.dec(c.seq[q]))
      elif isinstance(part, KeysV):
        lens.append(part.num)
        fns.append(lambda q, part=part: KeyV(SPLIT(part.key, part.num, q)))
      else:
        raise Unsupported('zip of something else')
    ctx.oblige('zip.lengths', z3.And(*[l == lens[0] for l in lens[1:]]), kind='pre',
               detail='zip() silently truncates: the zipped sequences have the same length')
    first = self.parts[0]
    if not (isinstance(first, Ref) and isinstance(first.cell(ctx), ListCell)):
      raise Unsupported('zip whose first part is not a list')
    spec = IterSpec(seq=first.cell(ctx).seq, codec=IDS)
    spec.item_fn = lambda q: tuple(f(q) for f in fns)
    return spec


def _flatten(ctx, tree):
  if isinstance(tree, TreeV):
    return (ctx.alloc(ListCell(tree.seq, IDS, owner='param', label='leaves')), tree.tdef)
  raise Unsupported('tree_flatten')


def _unflatten(ctx, tdef, lst):
  return TreeV(tdef, lst.cell(ctx).seq)


def _split(ctx, key, num=2):
  return KeysV(key.term, to_z3(num))


def jax_module():
  return Module('jax', {'tree_util': Module('jax.tree_util', {'tree_flatten': Handler(_flatten, 'tree_flatten'),
                                                              'tree_unflatten': Handler(_unflatten, 'tree_unflatten'),
                                                              'tree_leaves': Handler(lambda c, t: _flatten(c, t)[0], 'tree_leaves')}),
                        'random': Module('jax.random', {'split': Handler(_split, 'jax.random.split')})})


def engine(extra):
  g = {'jax': jax_module(), 'zip': Handler(lambda ctx, *parts: ZipV(parts), 'zip')}
  g.update(extra)
  eng = Engine(g)
  eng.on_empty_list = lambda ctx: ctx.alloc(ListCell(z3.Empty(IS), IDS))
  return eng
