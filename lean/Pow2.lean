import Mathlib.Data.Nat.Log
import Mathlib.Tactic.Ring
import Mathlib.Tactic.NormNum

/-! Facts about powers of two used as lemma instances by the C18 contracts
(`P2 e` in the verification conditions is `2 ^ e` on the naturals; Python `//` on
non-negative ints is `Nat.div`). -/

namespace Pow2

theorem p2_zero : (2:ℕ) ^ 0 = 1 := by norm_num

theorem p2_succ (e : ℕ) : (2:ℕ) ^ (e + 1) = 2 * 2 ^ e := by ring

theorem p2_pos (e : ℕ) : 1 ≤ (2:ℕ) ^ e := Nat.one_le_two_pow

theorem p2_gt_one (e : ℕ) : 1 < (2:ℕ) ^ e ↔ 1 ≤ e := by
  constructor
  · intro h
    by_contra hc
    have : e = 0 := by omega
    subst this
    simp at h
  · intro h
    exact Nat.one_lt_two_pow (by omega)

theorem p2_add (a b : ℕ) : (2:ℕ) ^ (a + b) = 2 ^ a * 2 ^ b := pow_add 2 a b

theorem p2_div_ge (a b : ℕ) (h : b ≤ a) : (2:ℕ) ^ a / 2 ^ b = 2 ^ (a - b) :=
  Nat.pow_div h (by norm_num)

theorem p2_div_lt (a b : ℕ) (h : a < b) : (2:ℕ) ^ a / 2 ^ b = 0 :=
  Nat.div_eq_of_lt (Nat.pow_lt_pow_right (by norm_num) h)

theorem p2_min (a b : ℕ) : min ((2:ℕ) ^ a) (2 ^ b) = 2 ^ (min a b) := by
  rcases le_total a b with h | h
  · have : (2:ℕ) ^ a ≤ 2 ^ b := Nat.pow_le_pow_right (by norm_num) h
    simp [min_eq_left h, min_eq_left this]
  · have : (2:ℕ) ^ b ≤ 2 ^ a := Nat.pow_le_pow_right (by norm_num) h
    simp [min_eq_right h, min_eq_right this]

theorem p2_mono (a b : ℕ) (h : a ≤ b) : (2:ℕ) ^ a ≤ 2 ^ b :=
  Nat.pow_le_pow_right (by norm_num) h

theorem p2_inj (a b : ℕ) (h : (2:ℕ) ^ a = 2 ^ b) : a = b :=
  Nat.pow_right_injective (le_refl 2) h

/-- `d = 2 ^ ⌈log2 s⌉` is the least power of two that is `≥ s`: it is `< 2 s`. -/
theorem clog_bounds (s : ℕ) (hs : 1 ≤ s) : s ≤ 2 ^ Nat.clog 2 s ∧ 2 ^ Nat.clog 2 s < 2 * s := by
  constructor
  · exact Nat.le_pow_clog (by norm_num) s
  · rcases Nat.lt_or_ge 1 s with h | h
    · have h1 : 2 ^ (Nat.clog 2 s - 1) < s := by
        have := Nat.pow_pred_clog_lt_self (b := 2) (by norm_num) h
        simpa [Nat.pred_eq_sub_one] using this
      have hc : 1 ≤ Nat.clog 2 s := Nat.clog_pos (by norm_num) h
      have : (2:ℕ) ^ Nat.clog 2 s = 2 * 2 ^ (Nat.clog 2 s - 1) := by
        conv_lhs => rw [show Nat.clog 2 s = (Nat.clog 2 s - 1) + 1 by omega]
        ring
      omega
    · have : s = 1 := by omega
      subst this
      simp

end Pow2

#print axioms Pow2.p2_zero
#print axioms Pow2.p2_succ
#print axioms Pow2.p2_pos
#print axioms Pow2.p2_gt_one
#print axioms Pow2.p2_add
#print axioms Pow2.p2_div_ge
#print axioms Pow2.p2_div_lt
#print axioms Pow2.p2_min
#print axioms Pow2.p2_mono
#print axioms Pow2.p2_inj
#print axioms Pow2.clog_bounds
