"""Shared harness of the native replay drivers (run under /venv/bin/python).

Payload (stdin, JSON): {"mode": "one"|"sweep", "fn": <name>, "input": {...},
"only": <witness to re-run>, "seed": int, "tier": "quick"|"thorough"}.
Each driver registers checkers  name -> (check(input) -> None | str,
sweep(tier, seed) -> iterable of inputs).  Output: one line
`NATIVE-RESULT {"failed": bool, "witness": ..., "message": ..., "cases": n}`.
"""
import json
import os
import sys
import traceback

os.environ.setdefault('JAX_PLATFORMS', 'cpu')
os.environ.setdefault('TF_CPP_MIN_LOG_LEVEL', '3')


def light_fedjax():
  """Makes `fedjax.<sub>` importable without running fedjax/__init__.py (which
  imports TensorFlow and every algorithm: ~20 s).  Sub-packages keep their own
  __init__; only the top-level package body is skipped."""
  import types
  if 'fedjax' in sys.modules:
    return
  repo = None
  for p in sys.path:
    if p and os.path.isdir(os.path.join(p, 'fedjax')):
      repo = p
      break
  if repo is None:
    return
  pkg = types.ModuleType('fedjax')
  pkg.__path__ = [os.path.join(repo, 'fedjax')]
  pkg.__file__ = os.path.join(repo, 'fedjax', '__init__.py')
  sys.modules['fedjax'] = pkg


import warnings  # noqa: E402
warnings.filterwarnings('ignore')


class CaseTimeout(BaseException):
  pass


def run_with_alarm(check, inp, seconds):
  import signal

  def on_alarm(signum, frame):
    raise CaseTimeout()
  old = signal.signal(signal.SIGALRM, on_alarm)
  signal.alarm(seconds)
  try:
    return check(inp)
  finally:
    signal.alarm(0)
    signal.signal(signal.SIGALRM, old)


def main(checkers):
  try:
    import resource
    lim = 40 * 1024 ** 3
    resource.setrlimit(resource.RLIMIT_AS, (lim, lim))
  except Exception:
    pass
  payload = json.loads(sys.stdin.read() or '{}')
  fn = payload.get('fn')
  mode = payload.get('mode', 'one')
  tier = payload.get('tier', 'quick')
  seed = int(payload.get('seed', 0) or 0)
  names = [fn] if fn and fn != '*' else list(checkers)
  cases = 0
  distinct = set()
  for name in names:
    if name not in checkers:
      continue
    check, sweep = checkers[name]
    if payload.get('only') is not None:
      inputs = [payload['only'].get('input', payload['only'])]
    elif mode == 'one':
      inputs = [payload.get('input', {})]
    else:
      inputs = sweep(tier, seed)
    for inp in inputs:
      cases += 1
      distinct.add(json.dumps(inp, sort_keys=True, default=str))
      try:
        msg = run_with_alarm(check, inp, int(payload.get('case_timeout', 120)))
      except CaseTimeout:
        msg = f'the real code did not return within {int(payload.get("case_timeout", 120))} s on this input (non-termination)'
      except Exception as e:  # the real code raised where the contract says it must not
        msg = f'{type(e).__name__}: {e}\n' + traceback.format_exc()[-800:]
      if msg:
        out = {'failed': True, 'witness': {'fn': name, 'input': inp},
               'message': str(msg)[:1500], 'cases': cases, 'distinct': len(distinct)}
        print('NATIVE-RESULT ' + json.dumps(out, default=str))
        return 0
  print('NATIVE-RESULT ' + json.dumps(
      {'failed': False, 'cases': cases, 'distinct': len(distinct)}))
  return 0
