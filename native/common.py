"""Shared harness of the native replay drivers (run under /venv/bin/python).

Payload (stdin, JSON): {"mode": "one"|"sweep", "fn": <name>, "input": {...},
"only": <witness to re-run>, "seed": int, "tier": "quick"|"thorough"}.
Each driver registers checkers  name -> (check(input) -> None | str,
sweep(tier, seed) -> iterable of inputs).  Output: one line
`NATIVE-RESULT {"failed": bool, "witness": ..., "message": ..., "cases": n}`.
"""
import json
import os
import sys
import traceback

os.environ.setdefault('JAX_PLATFORMS', 'cpu')


def main(checkers):
  payload = json.loads(sys.stdin.read() or '{}')
  fn = payload.get('fn')
  mode = payload.get('mode', 'one')
  tier = payload.get('tier', 'quick')
  seed = int(payload.get('seed', 0) or 0)
  names = [fn] if fn and fn != '*' else list(checkers)
  cases = 0
  distinct = set()
  for name in names:
    if name not in checkers:
      continue
    check, sweep = checkers[name]
    if payload.get('only') is not None:
      inputs = [payload['only'].get('input', payload['only'])]
    elif mode == 'one':
      inputs = [payload.get('input', {})]
    else:
      inputs = sweep(tier, seed)
    for inp in inputs:
      cases += 1
      distinct.add(json.dumps(inp, sort_keys=True, default=str))
      try:
        msg = check(inp)
      except Exception as e:  # the real code raised where the contract says it must not
        msg = f'{type(e).__name__}: {e}\n' + traceback.format_exc()[-800:]
      if msg:
        out = {'failed': True, 'witness': {'fn': name, 'input': inp},
               'message': str(msg)[:1500], 'cases': cases, 'distinct': len(distinct)}
        print('NATIVE-RESULT ' + json.dumps(out, default=str))
        return 0
  print('NATIVE-RESULT ' + json.dumps(
      {'failed': False, 'cases': cases, 'distinct': len(distinct)}))
  return 0
