"""Native replay / bounded driver for C06: masked losses / gradients on the real code."""
import sys

import numpy as np

from native import common
common.light_fedjax()
import jax
import jax.numpy as jnp
from fedjax.core import client_datasets as cds
from fedjax.core import models
from fedjax.algorithms import mime, agnostic_fed_avg

M = cds.EXAMPLE_MASK_KEY


def pel(params, batch, rng):
  return (batch['x'] @ params['w'] + params['b'] - batch['y']) ** 2


def reg(params):
  return 0.03 * (jnp.sum(params['w'] ** 2) + params['b'] ** 2) + 0.5 * params['b']


def pad(batch, size, rng):
  n = len(batch['y'])
  out = {}
  for k, v in batch.items():
    p = (rng.randn(size, *v.shape[1:]) * 7).astype(v.dtype)
    p[:n] = v
    out[k] = p
  out[M] = np.arange(size) < n
  return out


def close(a, b):
  return all(np.allclose(np.asarray(x), np.asarray(y), rtol=1e-4, atol=1e-5)
             for x, y in zip(jax.tree_util.tree_leaves(a), jax.tree_util.tree_leaves(b)))


def check_masked(inp):
  n, size, use_reg, seed = inp['n'], inp['size'], inp['reg'], inp['seed']
  rng = np.random.RandomState(seed)
  params = {'w': jnp.asarray(rng.randn(3).astype(np.float32)), 'b': jnp.asarray(np.float32(0.7))}
  data = {'x': rng.randn(n, 3).astype(np.float32), 'y': rng.randn(n).astype(np.float32),
          'domain_id': rng.randint(0, 2, size=n).astype(np.int32)}
  r = reg if use_reg else None
  gfn = models.grad(pel, r)
  key = jax.random.PRNGKey(0)
  if n > 0:
    want = gfn(params, {k: jnp.asarray(v) for k, v in data.items()}, key)
  else:
    want = jax.grad(reg)(params) if use_reg else jax.tree_util.tree_map(jnp.zeros_like, params)
  got = gfn(params, {k: jnp.asarray(v) for k, v in pad(data, size, rng).items()}, key)
  if any(np.isnan(np.asarray(x)).any() for x in jax.tree_util.tree_leaves(got)):
    return f'NaN gradient (n={n}, size={size}, reg={use_reg})'
  if not close(got, want):
    return f'gradient of the padded batch differs from the unpadded one (n={n}, padded to {size}, reg={use_reg}): {got} vs {want}'
  # a loss that is EXACTLY zero on some real rows (hinge): those rows are still examples - the mean is over the mask, not
  # over the rows with a non-zero loss
  if n > 0:
    def hinge(p_, b_, k_):
      return jnp.maximum(0.0, 1.0 - jnp.sign(b_['y']) * (b_['x'] @ p_['w'] + p_['b']) * 0.3)
    dj = {k: jnp.asarray(v) for k, v in data.items()}
    zero_rows = int((np.asarray(hinge(params, dj, key)) == 0).sum())
    gh = models.grad(hinge, r)
    want_h = gh(params, dj, key)
    got_h = gh(params, {k: jnp.asarray(v) for k, v in pad(data, size, rng).items()}, key)
    if not close(got_h, want_h):
      return (f'hinge loss ({zero_rows} of {n} real rows have loss exactly 0): gradient of the padded batch {got_h} differs from '
              f'the unpadded one {want_h} (padded to {size}, reg={use_reg})')
    ref_g = jax.grad(lambda p_: jnp.mean(hinge(p_, dj, key)) + (reg(p_) if use_reg else 0.0))(params)
    if not close(want_h, ref_g):
      return f'hinge loss: grad() on the unpadded batch {want_h} differs from jax.grad of mean loss + regularizer {ref_g}'
  # the Model-based entry points are the same functions: model_grad(model, reg) = grad(model_per_example_loss(model), reg)
  mdl = models.Model(init=None, apply_for_train=lambda p_, b_, k_: b_['x'] @ p_['w'] + p_['b'],
                     apply_for_eval=None, train_loss=lambda b_, out: (out - b_['y']) ** 2, eval_metrics={})
  got_m = models.model_grad(mdl, r)(params, {k: jnp.asarray(v) for k, v in pad(data, size, rng).items()}, key)
  if not close(got_m, want):
    return f'model_grad of the padded batch differs from grad of the unpadded one (n={n}, padded to {size}, reg={use_reg})'
  pel_m = models.model_per_example_loss(mdl)
  if n > 0 and not np.allclose(np.asarray(pel_m(params, data, key)), np.asarray(pel(params, data, key)), rtol=1e-5, atol=1e-6):
    return 'model_per_example_loss differs from train_loss(batch, apply_for_train(params, batch, rng))'
  # average loss over different batchings
  def ref_loss():
    if n == 0:
      return float(reg(params)) if use_reg else 0.0
    return float(jnp.mean(pel(params, data, key))) + (float(reg(params)) if use_reg else 0.0)
  ds = cds.ClientDataset(data)
  for bs, buckets in ((1, 1), (2, 1), (4, 2), (max(n, 1) + 3, 3)):
    batches = list(ds.padded_batch(batch_size=bs, num_batch_size_buckets=buckets))
    val = float(models.evaluate_average_loss(params, batches, key, pel, r))
    if np.isnan(val) or abs(val - ref_loss()) > 1e-4 * (1 + abs(ref_loss())):
      return f'average loss with padded batches of {bs}/{buckets}: {val}, expected {ref_loss()} (n={n}, reg={use_reg})'
  # the evaluator class algorithms use (HypCluster, Mime variants): same number through both of its entry points, for
  # several clients at once, whatever the padding geometry
  ev = models.AverageLossEvaluator(pel, r)
  for bs, buckets in ((2, 1), (max(n, 1) + 3, 3)):
    cl = [(b'a', list(ds.padded_batch(batch_size=bs, num_batch_size_buckets=buckets)), key),
          (b'b', list(ds.padded_batch(batch_size=bs + 1)), key)]
    for which, outs_ in (('evaluate_global_params', list(ev.evaluate_global_params(params, cl))),
                         ('evaluate_per_client_params', list(ev.evaluate_per_client_params(
                             [(c_, b_, k_, params) for c_, b_, k_ in cl])))):
      if [c_ for c_, _ in outs_] != [b'a', b'b']:
        return f'AverageLossEvaluator.{which}: results for {[c_ for c_, _ in outs_]}, expected one per client in order'
      for c_, v_ in outs_:
        if np.isnan(float(v_)) or abs(float(v_) - ref_loss()) > 1e-4 * (1 + abs(ref_loss())):
          return (f'AverageLossEvaluator.{which} with padded batches of {bs}/{buckets}: {float(v_)} for client {c_}, expected '
                  f'{ref_loss()} (n={n}, reg={use_reg})')
  # real rows at any position of a batch (a mask and-ed with a filter): [F, T, T, ...]
  if n >= 2:
    whole = {k_: np.concatenate([np.full_like(np.asarray(v)[:1], 9), np.asarray(v)]) for k_, v in data.items()}
    whole['__mask__'] = np.array([False] + [True] * n)
    val = float(models.evaluate_average_loss(params, [whole], key, pel, r))
    if np.isnan(val) or abs(val - ref_loss()) > 1e-4 * (1 + abs(ref_loss())):
      return (f'average loss of a batch whose first row is masked out (mask [F, T, ...]): {val}, expected {ref_loss()} '
              f'(n={n}, reg={use_reg})')
  # a batch list padded to a fixed number of batches: fully padded (all-False mask) batches, with garbage rows, anywhere
  if n > 0:
    real = list(ds.padded_batch(batch_size=2))
    padb = jax.tree_util.tree_map(lambda a: np.full_like(np.asarray(a), 7) if np.asarray(a).dtype != np.bool_ else np.zeros_like(np.asarray(a)),
                                 dict(real[0]))
    padb['__mask__'] = np.zeros_like(np.asarray(real[0]['__mask__']))
    for batches in (real + [padb], [padb] + real, real[:1] + [padb, padb] + real[1:]):
      val = float(models.evaluate_average_loss(params, batches, key, pel, r))
      if np.isnan(val) or abs(val - ref_loss()) > 1e-4 * (1 + abs(ref_loss())):
        return (f'average loss changes when fully padded batches are added to the batch list: {val}, expected {ref_loss()} '
                f'(n={n}, reg={use_reg})')
  if n > 0:
    val = float(models.evaluate_average_loss(params, list(ds.batch(batch_size=2)), key, pel, r))
    if abs(val - ref_loss()) > 1e-4 * (1 + abs(ref_loss())):
      return 'average loss over unpadded batches wrong'
  # mime full-batch gradient: independent of the padded batch size
  outs = []
  for bs in (1, 3, n + 2):
    fe = mime.create_grads_for_each_client(gfn)
    res = list(fe(params, [(b'c', list(ds.padded_batch(batch_size=bs)), key)]))
    (cid, (gsum, nsum)), = res
    outs.append((jax.tree_util.tree_map(lambda t: np.asarray(t) / max(float(nsum), 1.0), gsum), float(nsum)))
  for o in outs:
    if o[1] != n:
      return f'mime num_sum {o[1]} != number of examples {n}'
  # different batch sizes see different keys per batch; compare only for key-independent losses (ours)
  if not all(close(o[0], outs[0][0]) for o in outs):
    return 'mime full-batch gradient depends on the padded batch size'
  # agnostic domain metrics
  dm = agnostic_fed_avg.create_domain_metrics_for_each_client(pel, num_domains=2)
  for bs in (2, n + 3):
    (cid, out), = list(dm({'params': params, 'alpha': jnp.ones(2) / 2},
                         [(b'c', list(ds.padded_batch(batch_size=bs)), key)]))
    for d in (0, 1):
      sel = data['domain_id'] == d
      wl = float(np.sum(np.asarray(pel(params, data, key))[sel])) if n else 0.0
      if abs(float(out['domain_loss'][d]) - wl) > 1e-3 * (1 + abs(wl)) or float(out['domain_num'][d]) != int(sel.sum()):
        return f'per-domain sums wrong for domain {d} with padded batches of {bs}'


def sweep_masked(tier, seed):
  for n in (0, 1, 3, 5):
    for size in (max(n, 1), n + 1, n + 4):
      for r in (False, True):
        yield dict(n=n, size=size, reg=r, seed=seed)


def check_empty_round(inp):
  """A round in which no client has an example: the full-batch server gradient and the mean update are 0, not NaN,
  also inside a stateful (momentum) optimizer, so the next ordinary round is not poisoned."""
  from fedjax.algorithms import mime_lite
  from fedjax.core import optimizers
  which = inp['alg']
  rs = np.random.RandomState(0)

  def ds(n):
    return cds.ClientDataset({'x': rs.randn(n, 2).astype(np.float32), 'y': rs.randn(n).astype(np.float32)})
  hp = cds.ShuffleRepeatBatchHParams(batch_size=2, num_epochs=1, seed=1)
  php = cds.PaddedBatchHParams(batch_size=3)
  base = optimizers.sgd(0.05, momentum=0.9)
  alg = (mime.mime(pel, base, hp, php, 1.0) if which == 'mime' else mime_lite.mime_lite(pel, base, hp, php, 1.0))
  st = alg.init({'w': jnp.asarray([0.5, -0.5]), 'b': jnp.asarray(0.1)})
  rounds = [[0, 0], [3, 2]]
  for r, sizes in enumerate(rounds):
    clients = [(b'c%d' % i, ds(n), jax.random.PRNGKey(10 * r + i)) for i, n in enumerate(sizes)]
    st, _ = alg.apply(st, clients)
    for leaf in jax.tree_util.tree_leaves((st.params, st.opt_state)):
      if not np.all(np.isfinite(np.asarray(leaf))):
        return (f'{which}: after round {r + 1} (client sizes {sizes}; round 1 had no example at all) the server state contains '
                'NaN: the full-batch gradient of an empty cohort is 0/0 instead of 0')


def sweep_empty_round(tier, seed):
  yield dict(alg='mime')
  yield dict(alg='mime_lite')


def check_agnostic_round(inp):
  """One AgnosticFedAvg round: the statistics it feeds to the domain-weight update are sums over real examples,
  so the new domain weights / window / params cannot depend on how the evaluation batches are padded."""
  from fedjax.core import optimizers
  rs = np.random.RandomState(inp.get('seed', 0))
  clients = []
  for i, n in enumerate(inp['sizes']):
    clients.append((b'c%d' % i, cds.ClientDataset({'x': rs.randn(n, 2).astype(np.float32), 'y': rs.randn(n).astype(np.float32),
                                                    'domain_id': rs.randint(0, 2, n).astype(np.int32)}),
                    jax.random.PRNGKey(i)))
  outs = []
  for bs, buckets in inp['geometries']:
    alg = agnostic_fed_avg.agnostic_federated_averaging(
        pel, optimizers.sgd(0.01), optimizers.sgd(1.0),
        cds.ShuffleRepeatBatchHParams(batch_size=2, num_epochs=1, seed=0),
        cds.PaddedBatchHParams(batch_size=bs, num_batch_size_buckets=buckets), [0.4, 0.6], 0.5,
        init_domain_window=[1., 1.], regularizer=reg if inp['reg'] else None)
    st, _ = alg.apply(alg.init({'w': jnp.asarray([0.5, -0.5]), 'b': jnp.asarray(0.1)}), clients)
    outs.append((np.asarray(st.domain_weights), np.asarray(st.domain_window[-1]), st.params))
  for (bs, k), o in zip(inp['geometries'][1:], outs[1:]):
    if not (np.allclose(o[0], outs[0][0], rtol=1e-4, atol=1e-6) and np.allclose(o[1], outs[0][1]) and close(o[2], outs[0][2])):
      return (f'agnostic round (regularizer={inp["reg"]}, client sizes {inp["sizes"]}): domain weights {o[0]} with padded '
              f'batches of {bs} / {k} buckets differ from {outs[0][0]} with {inp["geometries"][0]}: the per-domain statistics '
              'depend on the padding geometry')


def sweep_agnostic_round(tier, seed):
  geo = [[1, 1], [3, 1], [8, 3], [16, 1]]
  for r in (False, True):
    yield dict(sizes=[7, 5, 1], geometries=geo, reg=r, seed=seed)
    if tier != 'quick':
      yield dict(sizes=[2, 0, 9], geometries=geo, reg=r, seed=seed + 1)


def check_hyp_assign(inp):
  """HypCluster assigns each client by its average loss over the padded evaluation batches: that loss is the mean over the
  REAL examples plus the regularizer ONCE, whatever the padding geometry (reference: direct computation on the raw arrays)."""
  from fedjax.algorithms import hyp_cluster
  from fedjax.core import optimizers

  def loss1(params, batch, rng):
    return (params['w'] - batch['x']) ** 2
  lam = inp['lam']
  regf = (lambda params: lam * params['w'] ** 2) if lam else None
  cl_params = [{'w': jnp.asarray(3.0)}, {'w': jnp.asarray(-2.5)}]
  xs = {b'a': [0.3, 0.2, 0.4, 0.3, 0.3], b'b': [2.9, 3.2, 3.1], b'c': [-2.0, -3.0], b'd': [0.26] * 7}
  clients = [(cid, cds.ClientDataset({'x': np.asarray(v, np.float32)}), jax.random.PRNGKey(i)) for i, (cid, v) in enumerate(xs.items())]
  want = {}
  for cid, v in xs.items():
    ls = [float(np.mean((float(pp['w']) - np.asarray(v, np.float64)) ** 2) + lam * float(pp['w']) ** 2) for pp in cl_params]
    if abs(ls[0] - ls[1]) < 1e-3:
      continue
    want[cid] = int(np.argmin(ls))
  for bs, k in inp['geometries']:
    alg = hyp_cluster.hyp_cluster(loss1, optimizers.sgd(0.1), optimizers.sgd(1.0),
                                  cds.PaddedBatchHParams(batch_size=bs, num_batch_size_buckets=k),
                                  cds.ShuffleRepeatBatchHParams(batch_size=2, num_epochs=1, seed=0), regularizer=regf)
    _, diag = alg.apply(alg.init(cl_params), clients)
    got = {cid: int(d['cluster_id']) for cid, d in diag.items()}
    for cid, w in want.items():
      if got[cid] != w:
        return (f'hyp_cluster (regularizer {lam} * w^2, padded batches of {bs} / {k} buckets): client {cid} with examples {xs[cid]} '
                f'is assigned to cluster {got[cid]}; its average loss over the real examples plus the regularizer once is minimal '
                f'for cluster {w}')


def check_mime_reg(inp):
  """Mime's full-batch server gradient with the regularizer option is grad(mean real loss + regularizer): once, not 1/N
  times, for every padding geometry (the momentum buffer after one round from a zero buffer is that gradient)."""
  from fedjax.core import optimizers
  rs = np.random.RandomState(inp.get('seed', 0))
  clients = [(b'c%d' % i, cds.ClientDataset({'x': rs.randn(n, 3).astype(np.float32), 'y': rs.randn(n).astype(np.float32)}),
              jax.random.PRNGKey(i)) for i, n in enumerate(inp['sizes'])]
  params = {'w': jnp.asarray(rs.randn(3).astype(np.float32)), 'b': jnp.asarray(np.float32(0.3))}
  r = reg if inp['reg'] else None
  allx = {k: jnp.asarray(np.concatenate([np.asarray(d.raw_examples[k]) for _, d, _ in clients])) for k in ('x', 'y')}
  want = jax.grad(lambda p_: jnp.mean(pel(p_, allx, None)) + (reg(p_) if inp['reg'] else 0.0))(params)
  for bs, k in inp['geometries']:
    alg = mime.mime(pel, optimizers.sgd(0.1, momentum=0.9), cds.ShuffleRepeatBatchHParams(batch_size=2, num_epochs=1, seed=0),
                    cds.PaddedBatchHParams(batch_size=bs, num_batch_size_buckets=k), 1.0, regularizer=r)
    st, _ = alg.apply(alg.init(params), clients)
    leaves = [np.asarray(l) for l in jax.tree_util.tree_leaves(st.opt_state) if hasattr(l, 'shape')]
    for name, w_ in (('w', want['w']), ('b', want['b'])):
      cand = [l for l in leaves if l.shape == np.asarray(w_).shape]
      if not any(np.allclose(l, np.asarray(w_), rtol=1e-4, atol=1e-5) for l in cand):
        return (f'mime (regularizer={inp["reg"]}, padded batches of {bs}/{k}): the momentum buffer after one round {cand} is not the '
                f'full-batch gradient of mean loss + regularizer {np.asarray(w_)} (leaf {name})')


def sweep_mime_reg(tier, seed):
  yield dict(sizes=[3, 5, 1], geometries=[[2, 1], [8, 3]], reg=True, seed=seed)
  yield dict(sizes=[3, 5, 1], geometries=[[4, 2]], reg=False, seed=seed)


def sweep_hyp_assign(tier, seed):
  geo = [[2, 1], [8, 3]] if tier == 'quick' else [[2, 1], [3, 1], [4, 2], [8, 3]]
  yield dict(lam=0.0, geometries=geo)
  yield dict(lam=0.5, geometries=geo)


CHECKERS = {'masked': (check_masked, sweep_masked), 'empty_round': (check_empty_round, sweep_empty_round),
            'hyp_assign': (check_hyp_assign, sweep_hyp_assign), 'mime_reg': (check_mime_reg, sweep_mime_reg),
            'agnostic_round': (check_agnostic_round, sweep_agnostic_round)}

if __name__ == '__main__':
  sys.exit(common.main(CHECKERS))
