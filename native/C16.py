"""Native bounded driver for C16: exhaustive-by-class round-trip sweep."""
import itertools
import os
import sys
import tempfile

import numpy as np

from native import common
common.light_fedjax()
import jax.numpy as jnp
from fedjax.core import serialization as ser

DTYPES = ['bool', 'int8', 'int16', 'int32', 'int64', 'uint8', 'uint16', 'uint32', 'uint64',
          'float16', 'float32', 'float64', 'complex64', 'complex128', 'bfloat16']
SHAPES = [(), (0,), (3,), (2, 3), (2, 0, 2), (2, 3, 4)]


def make(dtype, shape, layout, swapped):
  n = int(np.prod(shape)) if shape else 1
  base = (np.arange(n) % 5 + 1).reshape(shape)
  if dtype == 'bfloat16':
    a = np.asarray(jnp.asarray(base, dtype=jnp.bfloat16))
  else:
    a = base.astype(dtype)
  if swapped and a.dtype.itemsize > 1 and dtype != 'bfloat16':
    a = a.astype(a.dtype.newbyteorder())
  if layout == 'F':
    a = np.asfortranarray(a)
  elif layout == 'strided' and a.ndim >= 1 and a.shape[0] > 0:
    big = np.zeros((a.shape[0] * 2,) + a.shape[1:], a.dtype)
    big[::2] = a
    a = big[::2]
  return a


def same(a, b):
  if type(a) is not type(b):
    return f'type changed {type(a).__name__} -> {type(b).__name__}'
  if isinstance(a, np.ndarray):
    if a.shape != b.shape:
      return f'shape changed {a.shape} -> {b.shape}'
    if a.dtype != b.dtype:
      return f'dtype changed {a.dtype!r} -> {b.dtype!r}'
    if a.dtype == object:
      if a.tolist() != b.tolist() or any(type(x) is not type(y) for x, y in zip(a.ravel(), b.ravel())):
        return 'object elements changed'
    elif not np.array_equal(a.astype('complex128') if a.dtype.kind not in 'V' else a,
                            b.astype('complex128') if b.dtype.kind not in 'V' else b):
      return f'values changed {a.ravel()[:4]} -> {b.ravel()[:4]}'
    return None
  if isinstance(a, dict):
    if list(a) != list(b):
      return 'dict keys changed'
    for k in a:
      m = same(a[k], b[k])
      if m:
        return f'[{k!r}] {m}'
    return None
  if isinstance(a, list):
    if len(a) != len(b):
      return 'list length changed'
    for i, (x, y) in enumerate(zip(a, b)):
      m = same(x, y)
      if m:
        return f'[{i}] {m}'
    return None
  if isinstance(a, np.generic):
    return None if (a.dtype == b.dtype and a == b) else f'scalar changed {a!r} -> {b!r}'
  return None if a == b else f'value changed {a!r} -> {b!r}'


def rt(x):
  return ser.msgpack_deserialize(ser.msgpack_serialize(x))


def check_roundtrip(inp):
  kind = inp['kind']
  if kind == 'array':
    a = make(inp['dtype'], tuple(inp['shape']), inp['layout'], inp['swapped'])
    return same(a, rt(a)) and f"{inp}: {same(a, rt(a))}"
  if kind == 'jax':
    a = jnp.asarray(make(inp['dtype'], tuple(inp['shape']), 'C', False))
    b = rt(a)
    return same(np.asarray(a), b) and f'{inp}: {same(np.asarray(a), b)}'
  if kind == 'scalar':
    a = make(inp['dtype'], (), 'C', False)[()]
    b = rt(a)
    return same(a, b) and f'{inp}: {same(a, b)}'
  if kind == 'bytes':
    a = np.array([b'a', b'', b'\x00x', b'b', b'cc', b'd'][:inp['n']], dtype=object).reshape(inp['shape'])
    lay = inp.get('layout', 'C')
    if lay == 'F':
      a = np.asfortranarray(a)
    elif lay == 'T':
      a = a.T
    elif lay == 'strided':
      a = np.concatenate([a, a], axis=-1)[..., ::2] if a.ndim else a
    return same(a, rt(a)) and f'{inp}: {same(a, rt(a))}'
  if kind == 'python':
    for v in (1, -2 ** 40, 1.5, True, None, 'str', b'by', 1 + 2j):
      if same(v, rt(v)):
        return f'python scalar {v!r}: {same(v, rt(v))}'
    return None
  if kind == 'tree':
    t = {'a': [make('float32', (2, 3), 'F', False), {'b': make('int8', (), 'C', False)}],
         'c': {'d': [np.float16(2.5), 3, [np.array([b'x', b'y'], dtype=object)]]}}
    return same(t, rt(t)) and f'nested tree: {same(t, rt(t))}'
  if kind == 'reject':
    bad = {
        'tuple': (1, 2),
        'unicode_array': np.array(['a', 'bc']),
        'bytes_S_array': np.array([b'a', b'bc']),
        'structured': np.zeros(2, dtype=[('x', 'i4'), ('y', 'f8')]),
        'aligned_struct': np.zeros(2, dtype=np.dtype([('x', 'i1'), ('y', 'f8')], align=True)),
        'mixed_object': np.array([b'x', 'str', 3], dtype=object),
        'object_ints': np.array([1, 2], dtype=object),
    }[inp['what']]
    try:
      back = rt({'leaf': bad})['leaf']
    except Exception:  # rejected: fine
      return None
    m = same(bad, back)
    if m:
      return f"unsupported leaf {inp['what']} was accepted and silently altered: {m}"
    return None


def check_sequence(inp):
  """Deserialisation is a function of the bytes of THIS call: after a call that failed (truncated bytes, trailing bytes, a
  string-array / structured leaf written by another producer) a valid blob still gives back its value."""
  import msgpack
  from fedjax.core import serialization as ser
  from fedjax.core import sqlite_federated_data as sq
  good = {'w': np.arange(6, dtype=np.float32).reshape(2, 3), 'n': 3, 'ids': np.array([b'a', b'bc'], dtype=object)}
  blob = ser.msgpack_serialize(good)
  code = [c for c in range(1, 8)]
  bads = {'truncated': blob[:len(blob) // 2], 'trailing': blob + b'\x01', 'empty': b'',
          'two_values': blob + blob,
          'foreign_ext': msgpack.packb({'leaf': msgpack.ExtType(1, b'not an array')}, use_bin_type=True)}
  for step in inp['sequence']:
    if step == 'good':
      try:
        back = ser.msgpack_deserialize(blob)
      except Exception as e:  # pylint: disable=broad-except
        return f'a valid blob is rejected after the calls {inp["sequence"]}: {type(e).__name__}: {str(e)[:100]}'
      m = same(good, back)
      if m:
        return f'after the calls {inp["sequence"]} a valid blob deserialises to something else: {m} (got {back!r:.80})'
      z = sq.decompress_and_deserialize(__import__('zlib').compress(blob))
      if same(good, z):
        return f'decompress_and_deserialize after {inp["sequence"]}: {same(good, z)}'
    else:
      try:
        back = ser.msgpack_deserialize(bads[step])
      except Exception:  # rejected: fine
        continue
      if step in ('trailing', 'two_values', 'truncated', 'empty'):
        return f'{step} bytes were accepted (returned {back!r:.60}) instead of being rejected'


def sweep_sequence(tier, seed):
  for bad in ('truncated', 'trailing', 'empty', 'two_values', 'foreign_ext'):
    yield dict(sequence=['good', bad, 'good'])
    yield dict(sequence=[bad, bad, 'good', 'good'])


def sweep_roundtrip(tier, seed):
  for dt in DTYPES:
    for sh in SHAPES:
      for layout in ('C', 'F', 'strided'):
        for sw in (False, True):
          yield dict(kind='array', dtype=dt, shape=list(sh), layout=layout, swapped=sw)
    yield dict(kind='scalar', dtype=dt)
    if dt not in ('float64', 'int64', 'uint64', 'complex128'):
      yield dict(kind='jax', dtype=dt, shape=[2, 2])
      yield dict(kind='jax', dtype=dt, shape=[])
  for n, sh in ((0, [0]), (1, [1]), (4, [4]), (4, [2, 2]), (0, [0, 3])):
    yield dict(kind='bytes', n=n, shape=sh)
  for lay in ('F', 'T', 'strided'):
    yield dict(kind='bytes', n=6, shape=[2, 3], layout=lay)
    yield dict(kind='bytes', n=4, shape=[4], layout=lay)
  yield dict(kind='python')
  yield dict(kind='tree')
  for w in ('tuple', 'unicode_array', 'bytes_S_array', 'structured', 'aligned_struct', 'mixed_object',
            'object_ints'):
    yield dict(kind='reject', what=w)


def check_sqlite(inp):
  from fedjax.core import sqlite_federated_data as sq
  n = inp['n']
  table = {f'id{i}\x00'.encode() * (i % 2 + 1): {
      'x': make('float32', (i + 1, 2), 'F', False), 'y': make('int64', (i + 1,), 'C', False),
      'z': np.array([b'w'] * (i + 1), dtype=object)} for i in range(n)}
  if n >= 1:
    # a client without examples is a client: it is listed, has size 0 and can be fetched
    table[b'empty'] = {'x': np.zeros((0, 2), np.float32), 'y': np.zeros((0,), np.int64), 'z': np.array([], dtype=object)}
  with tempfile.TemporaryDirectory() as d:
    path = os.path.join(d, 'f.sqlite')
    with sq.SQLiteFederatedDataBuilder(path) as b:
      b.add_many(table.items())
    fd = sq.SQLiteFederatedData.new(path)
    if sorted(fd.client_ids()) != sorted(table):
      return 'client ids changed'
    if dict(fd.client_sizes()) != {k: len(v['y']) for k, v in table.items()}:
      return 'sizes changed'
    # the three iterators of ONE dataset object alive at once: read back side by side they still give every client
    rows = list(zip(fd.client_ids(), fd.client_sizes(), fd.clients()))
    if len(rows) != len(table) or any(not (a == b_[0] == c_[0] and b_[1] == len(table[a]['y'])) for a, b_, c_ in rows):
      return (f'zip(client_ids(), client_sizes(), clients()) of a freshly written dataset reads back {len(rows)} consistent rows, '
              f'wrote {len(table)} clients')
    for k, v in table.items():
      # every per-client read path, zero-example clients included
      try:
        sz, one = fd.client_size(k), fd.get_client(k)
      except KeyError as e:
        return f'client {k!r} ({len(v["y"])} examples) was written through the builder but client_size / get_client raise KeyError({e})'
      if sz != len(v['y']) or same(v, one.raw_examples):
        return f'client_size({k!r}) = {sz} / get_client differ from what was written ({len(v["y"])} examples)'
    for k, ds in fd.clients():
      m = same(table[k], ds.raw_examples)
      if m:
        return f'examples of {k!r}: {m}'


def check_axioms(inp):
  """The NumPy facts the proof assumes (np_axioms in pyvc/props/C16.py), tested on concrete dtypes."""
  import jax.numpy as jnp
  name = inp['dtype']
  dt = np.dtype(jnp.bfloat16) if name == 'bfloat16' else np.dtype([tuple(x) for x in name] if isinstance(name, list) else name)

  def named(n_):
    try:
      return np.dtype(n_)
    except TypeError:
      return None
  for d in (dt, dt.newbyteorder('>') , dt.newbyteorder('<')):
    struct = d.fields is not None
    if name == 'bfloat16':
      if np.dtype(d.str) == d:
        return 'axiom: the type string of bfloat16 is expected NOT to denote bfloat16'
      continue
    if not struct and not d.hasobject:
      if np.dtype(d.name) != d.newbyteorder('='):
        return f'axiom name->native fails for {d!r}'
      if np.dtype(d.str) != d:
        return f'axiom str->dtype fails for {d!r}'
    if struct and (named(d.name) == d or named(d.str) == d):
      return f'axiom: structured dtype {d!r} is expected not to be named by .name / .str'
  a = np.arange(6, dtype=dt).reshape(2, 3) if dt.fields is None and dt.kind in 'iufc' and name != 'bfloat16' else None
  if a is not None:
    for arr in (a, np.asfortranarray(a), a[:, ::2]):
      if not np.array_equal(np.frombuffer(arr.tobytes('C'), dtype=arr.dtype).reshape(arr.shape), arr):
        return f'axiom: frombuffer(tobytes("C")) is not the identity for {dt!r}'
  if np.ascontiguousarray(np.zeros((), np.float32)).ndim != 1:
    return 'axiom: ascontiguousarray of a 0-d array is expected to be 1-d'


def sweep_axioms(tier, seed):
  for n in ('bool', 'int8', 'uint8', 'int16', 'uint16', 'int32', 'uint32', 'int64', 'uint64', 'float16', 'float32', 'float64',
            'complex64', 'complex128', 'bfloat16'):
    yield dict(dtype=n)
  yield dict(dtype=[('a', 'i4'), ('b', 'f8')])


CHECKERS = {'axioms': (check_axioms, sweep_axioms), 'roundtrip': (check_roundtrip, sweep_roundtrip),
            'sqlite': (check_sqlite, lambda t, s: [dict(n=0), dict(n=1), dict(n=4)]),
            'sequence': (check_sequence, sweep_sequence)}

if __name__ == '__main__':
  sys.exit(common.main(CHECKERS))
