"""Native replay / bounded driver for C20: packaged preprocessors and models."""
import itertools
import sys

import numpy as np

from native import common
import fedjax
import jax
import jax.numpy as jnp
from fedjax.datasets import cifar100, emnist, shakespeare
from fedjax.models import shakespeare as shk_model


def check_shakespeare(inp):
  snippets, s = inp['snippets'], inp['sequence_length']
  raw = [bytes(x) for x in snippets]
  ex = {'snippets': np.array(raw, dtype=object)}
  out = shakespeare.preprocess_client(b'id', ex, s)
  x, y = out['x'], out['y']
  want = []
  for sn in raw:
    want.append(shakespeare.BOS)
    for b in sn:
      pos = shakespeare_vocab().find(bytes([b]))
      want.append(3 + shakespeare_vocab().rfind(bytes([b])) if pos >= 0 else shakespeare.OOV)
    want.append(shakespeare.EOS)
  L = len(want)
  fx, fy = x.reshape(-1), y.reshape(-1)
  if x.shape != y.shape or (x.size and x.shape[1] != s):
    return f'shape {x.shape} / {y.shape}'
  n = max(L - 1, 0)
  pad_len = -(-n // s) * s
  if fx.size != pad_len:
    return f'padded length {fx.size}, expected the least multiple of {s} >= {n}: {pad_len}'
  if fx[:n].tolist() != want[:-1] if L else fx.size:
    return f'inputs {fx[:n].tolist()} != label stream {want[:-1]}'
  if L and fy[:n].tolist() != want[1:]:
    return 'targets are not the inputs shifted by one'
  if np.any(fx[n:] != shakespeare.PAD) or np.any(fy[n:] != shakespeare.PAD):
    return 'padding is not PAD'
  if fx.size and (fx.min() < 0 or max(fx.max(), fy.max()) >= shakespeare.VOCAB_SIZE):
    return 'label outside the vocabulary'


def shakespeare_vocab():
  return b'dhlptx@DHLPTX $(,048cgkoswCGKOSW[_#\'/37;?bfjnrvzBFJNRVZ"&*.26:\naeimquyAEIMQUY]!%)-159\r'


def sweep_shakespeare(tier, seed):
  for s in (2, 3, 5):
    for sn in ([], [[]], [[100]], [[100, 104], []], [[1, 2, 3, 100]], [[100] * 4, [104] * 5], [[108] * 9]):
      yield dict(snippets=sn, sequence_length=s)


def check_ids(inp):
  import inspect
  src = inspect.getsource(shk_model.create_lstm_model)
  ns = {}
  body = [l for l in src.splitlines() if l.strip().startswith(('pad =', 'bos =', 'eos =', 'oov =', 'full_vocab_size ='))]
  exec('vocab_size = 86\n' + '\n'.join(l.strip() for l in body), ns)
  want = dict(pad=shakespeare.PAD, bos=shakespeare.BOS, eos=shakespeare.EOS, oov=shakespeare.OOV,
              full_vocab_size=shakespeare.VOCAB_SIZE)
  for k, v in want.items():
    if ns.get(k) != v:
      return f'shakespeare model assumes {k} = {ns.get(k)} but the packaged dataset produces {k} = {v}'
  # behavioural: accuracy_no_eos must ignore EOS targets of the dataset
  model = shk_model.create_lstm_model()
  m = model.eval_metrics['accuracy_no_eos']
  if shakespeare.EOS not in m.masked_target_values or shakespeare.PAD not in m.masked_target_values:
    return f'accuracy_no_eos masks {m.masked_target_values}, which does not contain the dataset EOS id {shakespeare.EOS}'
  # Stack Overflow model: the in-vocabulary accuracy never credits a special label - OOV included - and the OOV rate counts
  # exactly the tokenizer's OOV id (tokenizer built on a tiny vocabulary: no download)
  from fedjax.datasets import stackoverflow as so_data
  from fedjax.models import stackoverflow as so_model
  vocab = ['the', 'a', 'cat', 'sat', 'on']
  tok = so_data.StackoverflowTokenizer(vocab=vocab)
  batch = tok.as_preprocess_batch(6)({'tokens': np.array([b'the cat zzz sat', b'qqq on a', b'xx yy'], dtype=object)})
  V = len(vocab)
  oov_id = V + 3
  if int(batch['y'].max()) > oov_id or not (batch['y'] == oov_id).any():
    return f'tokenizer labels {batch["y"].tolist()} do not use OOV id {oov_id} (test input must contain unknown words)'
  smodel = so_model.create_lstm_model(vocab_size=V, embed_size=4, lstm_hidden_size=5, lstm_num_layers=1)
  logits = jax.nn.one_hot(batch['y'], V + 4) * 10.0           # "perfect" predictions: every target is the argmax
  y = np.asarray(batch['y'])
  keep = (y != 0) & (y != 2)
  want_acc = float(((y != oov_id) & (y > 2) & keep).sum() / keep.sum())
  for nm, want in (('accuracy_in_vocab', want_acc), ('accuracy_no_eos', 1.0),
                   ('token_oov_rate', float((y[y != 0] == oov_id).mean()))):
    m = smodel.eval_metrics[nm]
    got = float(fedjax.metrics.evaluate_batch(m, {'y': jnp.asarray(y)}, logits).result()) if hasattr(fedjax, 'metrics') else None
    if got is None or abs(got - want) > 1e-6:
      return (f'stackoverflow model {nm} on perfect predictions of tokenizer output with OOV words: {got}, the definition '
              f'(special labels pad/bos/eos/oov = 0/1/2/{oov_id} never credited) gives {want}')
  # the packaged models' TRAINING loss ignores the dataset's padding label, with and without the expected_length option:
  # padding a sentence further (a larger max_length) does not change its loss
  from fedjax.core import metrics as fm
  for el in (None, 13.3):
    lm = so_model.create_lstm_model(vocab_size=V, embed_size=4, lstm_hidden_size=5, lstm_num_layers=1, expected_length=el)
    losses = []
    for ml in (6, 11):
      bt = tok.as_preprocess_batch(ml)({'tokens': np.array([b'the cat zzz sat', b'qqq on a', b'xx yy'], dtype=object)})
      lg = jnp.asarray(np.random.RandomState(0).randn(3, 1, V + 4).astype(np.float32)).repeat(bt['y'].shape[1], axis=1)
      got = np.asarray(lm.train_loss(bt, lg))
      yb = np.asarray(bt['y'])
      ref = np.asarray(fm.unreduced_cross_entropy_loss(jnp.asarray(yb), lg))
      want = (ref * (yb != 0)).sum(-1) * (1.0 if el is None else 1.0 / el)
      if not np.allclose(got, want, rtol=1e-5, atol=1e-6):
        return (f'stackoverflow train_loss(expected_length={el}) on tokenizer output padded to {ml}: {got.tolist()}, the sum over '
                f'non-PAD tokens gives {want.tolist()} (the loss counts padding label {0})')
      losses.append(got)
    if not np.allclose(losses[0], losses[1], rtol=1e-5, atol=1e-6):
      return f'stackoverflow train_loss(expected_length={el}) depends on how far the sentences are padded: {losses[0].tolist()} vs {losses[1].tolist()}'
  sh = shk_model.create_lstm_model()
  yb = np.array([[5, 7, 2, 0, 0, 0], [9, 2, 0, 0, 0, 0]], np.int32)
  lg = jnp.asarray(np.random.RandomState(1).randn(2, 6, shakespeare.VOCAB_SIZE).astype(np.float32))
  ref = np.asarray(fm.unreduced_cross_entropy_loss(jnp.asarray(yb), lg))
  if not np.allclose(np.asarray(sh.train_loss({'y': jnp.asarray(yb)}, lg)), (ref * (yb != shakespeare.PAD)).mean(-1), rtol=1e-5, atol=1e-6):
    return 'shakespeare train_loss is not the mean over positions of the non-PAD token losses'
  # the packaged TASK wires dataset and model together: the model the task returns scores exactly the labels the task's
  # dataset produces and counts its OOV label (load_split stubbed with an in-memory split: no network)
  from fedjax.training import tasks
  real_load = shakespeare.load_split
  shakespeare.load_split = lambda split, mode='sqlite', cache_dir=None: fedjax.InMemoryFederatedData(
      {b'c0': {'snippets': np.array([b'To be, \xc3\xa9or not~', b'\x00that is'], dtype=object)}})
  try:
    _, test, tmodel = tasks.get_task('SHAKESPEARE_CHARACTER')
    tparams = tmodel.init(jax.random.PRNGKey(0))
    for cid, dset in test.clients():
      y = dset.all_examples()['y']
      batch = next(iter(dset.padded_batch(batch_size=2)))
      width = tmodel.apply_for_eval(tparams, batch).shape[-1]
      if width != shakespeare.VOCAB_SIZE:
        return (f"get_task('SHAKESPEARE_CHARACTER'): the model scores {width} labels, the task's dataset produces labels in "
                f'[0, {shakespeare.VOCAB_SIZE})')
      nonpad = y != shakespeare.PAD
      want_rate = float((y[nonpad] == shakespeare.OOV).mean())
      got = fedjax.evaluate_model(tmodel, tparams, dset.padded_batch(batch_size=2))
      if want_rate <= 0 or abs(float(got['token_oov_rate']) - want_rate) > 1e-6 or abs(float(got['num_tokens']) - float(nonpad.sum())) > 1e-6:
        return (f"get_task('SHAKESPEARE_CHARACTER'): token_oov_rate {float(got['token_oov_rate'])} / num_tokens "
                f"{float(got['num_tokens'])}; the dataset labels give {want_rate} / {float(nonpad.sum())} (OOV id {shakespeare.OOV})")
  finally:
    shakespeare.load_split = real_load


def check_cifar(inp):
  import tensorflow as tf
  kind, h, w, seed = inp['image'], inp['crop_height'], inp['crop_width'], inp.get('seed', 0)
  rng = np.random.RandomState(seed)
  if kind == 'random':
    img = rng.randint(0, 256, size=(2, 32, 32, 3)).astype(np.uint8)
  elif kind == 'constant':
    img = np.full((2, 32, 32, 3), 77, np.uint8)
  else:
    img = (100 + rng.randint(0, 2, size=(2, 32, 32, 3))).astype(np.uint8)
    img[:, :, :, 1:] = 100
  got = cifar100.preprocess_image_tff(img, h, w, distort=False)
  crop = tf.image.resize_with_crop_or_pad(tf.convert_to_tensor(img), h, w)
  want = tf.image.per_image_standardization(tf.cast(crop, tf.float32)).numpy()
  if got.shape != want.shape:
    return f'shape {got.shape} != {want.shape}'
  err = float(np.abs(got - want).max())
  if err > 1e-3:
    return f'{kind} image, crop {h}x{w}: max abs difference {err:.4f} to tf.image.per_image_standardization of the centre crop'
  np.random.seed(seed)
  d = cifar100.preprocess_image_tff(img, h, w, distort=True)
  if d.shape != (2, h, w, 3):
    return f'training crop has shape {d.shape}'
  if kind == 'random' and (h, w) in ((24, 24), (5, 7), (17, 32)):
    # every training crop is the standardisation of a sub-window of ITS image, as it is or mirrored left-right (a
    # horizontal flip); drawn for several seeds so that both flip outcomes occur
    for sd in range(seed, seed + 4):
      np.random.seed(sd)
      dd = np.asarray(cifar100.preprocess_image_tff(img, h, w, distort=True))
      for n_ in range(2):
        found = False
        for i_ in range(32 - h + 1):
          for j_ in range(32 - w + 1):
            win = img[n_, i_:i_ + h, j_:j_ + w].astype(np.float32)
            std = (win - win.mean()) / max(float(win.std()), 1.0 / np.sqrt(win.size))   # TF's definition (checked above)
            if np.abs(std - dd[n_]).max() < 1e-3 or np.abs(std[:, ::-1] - dd[n_]).max() < 1e-3:
              found = True
              break
          if found:
            break
        if not found:
          return (f'training crop {h}x{w} (numpy seed {sd}, image {n_}) is not the standardised sub-window of its image, neither as it '
                  'is nor mirrored left-right (e.g. flipped upside down)')
  # the public batch wrapper agrees with the function it wraps (non-square crops included) and passes the labels through
  ys = np.arange(2, dtype=np.int32)
  b = cifar100.preprocess_batch_tff({'x': img, 'y': ys}, crop_height=h, crop_width=w)
  if set(b) != {'x', 'y'} or b['x'].shape != want.shape or float(np.abs(b['x'] - want).max()) > 1e-3 or not np.array_equal(b['y'], ys):
    return (f'preprocess_batch_tff(crop_height={h}, crop_width={w}): x has shape {b["x"].shape}, the standardised centre crop has '
            f'{want.shape}; wrapper and preprocess_image_tff disagree')
  np.random.seed(seed)
  bd = cifar100.preprocess_batch_tff({'x': img, 'y': ys}, crop_height=h, crop_width=w, distort=True)
  if bd['x'].shape != (2, h, w, 3):
    return f'preprocess_batch_tff(distort=True) gives shape {bd["x"].shape} for a {h}x{w} crop'


def sweep_cifar(tier, seed):
  for kind in ('random', 'lowcontrast', 'constant'):
    for h, w in ((24, 24), (1, 1), (32, 32), (5, 7), (31, 2), (17, 32), (3, 3)):
      yield dict(image=kind, crop_height=h, crop_width=w, seed=seed)


def check_emnist(inp):
  n, fmt = inp['num'], inp['fmt']
  # the 16-hex-digit hash may itself contain an 'f' followed by four digits, on either side of the range
  hashes = {25: b'0123456789abcdef:', 26: b'a3f2345bc9d01e77:', 27: b'a3f0007bc9d01e77:'}
  cid = (hashes[fmt] if fmt >= 25 else b'') + b'f%04d_%02d' % (n, 7)
  want = 0 if 2100 <= n <= 2599 else 1
  if emnist.domain_id(cid) != want:
    return f'domain_id({cid!r}) = {emnist.domain_id(cid)}, expected {want}'
  for bad in (b'', b'f123_4', cid + b'x'):
    try:
      emnist.domain_id(bad)
      return f'domain_id accepted the malformed id {bad!r}'
    except ValueError:
      pass


def sweep_emnist(tier, seed):
  for n in (0, 2099, 2100, 2101, 2350, 2599, 2600, 4099):
    for fmt in (25, 8, 26, 27):
      yield dict(num=n, fmt=fmt)


def check_rows(inp):
  from fedjax.models import emnist as em_models, cifar100 as c_models, stackoverflow as so_models
  rng = np.random.RandomState(inp['seed'])
  specs = {
      'emnist_conv': (lambda: em_models.create_conv_model(only_digits=True), lambda n: {
          'x': rng.rand(n, 28, 28, 1).astype(np.float32), 'y': rng.randint(0, 10, n).astype(np.int32)}),
      'emnist_dense': (lambda: em_models.create_dense_model(only_digits=True, hidden_units=8), lambda n: {
          'x': rng.rand(n, 28, 28, 1).astype(np.float32), 'y': rng.randint(0, 10, n).astype(np.int32)}),
      'emnist_logistic': (lambda: em_models.create_logistic_model(only_digits=True), lambda n: {
          'x': rng.rand(n, 28, 28, 1).astype(np.float32), 'y': rng.randint(0, 10, n).astype(np.int32)}),
      'cifar_logistic': (lambda: c_models.create_logistic_model(), lambda n: {
          'x': rng.rand(n, 24, 24, 3).astype(np.float32), 'y': rng.randint(0, 100, n).astype(np.int32)}),
      'shakespeare_lstm': (lambda: shk_model.create_lstm_model(embed_size=4, lstm_hidden_size=6, lstm_num_layers=1), lambda n: {
          'x': rng.randint(1, 80, (n, 5)).astype(np.int32), 'y': rng.randint(1, 80, (n, 5)).astype(np.int32)}),
      'stackoverflow_lstm': (lambda: so_models.create_lstm_model(vocab_size=20, embed_size=4, lstm_hidden_size=6,
                                                                lstm_num_layers=1), lambda n: {
          'x': rng.randint(1, 20, (n, 5)).astype(np.int32), 'y': rng.randint(1, 20, (n, 5)).astype(np.int32)}),
  }
  mk, data = specs[inp['model']]
  model = mk()
  params = model.init(jax.random.PRNGKey(0))
  n = inp['n']
  batch = data(n)
  full = np.asarray(model.apply_for_eval(params, batch))
  loss = np.asarray(model.train_loss(batch, model.apply_for_eval(params, batch)))
  for i in range(n):
    one = {k: v[i:i + 1] for k, v in batch.items()}
    o = np.asarray(model.apply_for_eval(params, one))
    if not np.allclose(o[0], full[i], rtol=1e-4, atol=1e-5):
      return f"{inp['model']}: row {i} of a batch of {n} is scored differently from the same row alone"
    l1 = np.asarray(model.train_loss(one, model.apply_for_eval(params, one)))
    if not np.allclose(l1[0], loss[i], rtol=1e-4, atol=1e-5):
      return f"{inp['model']}: loss of row {i} depends on the other rows"


def sweep_rows(tier, seed):
  for m in ('emnist_conv', 'emnist_dense', 'emnist_logistic', 'cifar_logistic', 'shakespeare_lstm', 'stackoverflow_lstm'):
    for n in (2, 4):
      yield dict(model=m, n=n, seed=seed)


def check_packaged(inp):
  kind = inp['kind']
  return {'shakespeare': check_shakespeare, 'ids': check_ids, 'cifar': check_cifar, 'emnist': check_emnist}[kind](inp)


def sweep_packaged(tier, seed):
  yield dict(kind='ids')
  for x in sweep_shakespeare(tier, seed):
    yield dict(x, kind='shakespeare')
  for x in sweep_emnist(tier, seed):
    yield dict(x, kind='emnist')
  for x in sweep_cifar(tier, seed):
    yield dict(x, kind='cifar')


CHECKERS = {'packaged': (check_packaged, sweep_packaged), 'rows': (check_rows, sweep_rows)}

if __name__ == '__main__':
  sys.exit(common.main(CHECKERS))
