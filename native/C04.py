"""Native replay / bounded driver for C04 (real ShuffleRepeatBatchView)."""
import itertools
import sys

import numpy as np

from native import common
common.light_fedjax()
from fedjax.core import client_datasets as cds


def ds(n):
  return cds.ClientDataset({'x': np.arange(n, dtype=np.int64)})


def expected_steps(n, b, e, s, drop):
  if e is None and s is None:
    return None
  if e is None:
    return s
  t = n * e
  k = t // b if drop else -(-t // b)
  return k if s is None else min(s, k)


def check_steps(inp):
  n, b = inp['N'], inp['batch_size']
  e, s, drop = inp['num_epochs'], inp['num_steps'], bool(inp['drop_remainder'])
  if n < 1 or b < 1 or (e is not None and e < 0) or (s is not None and s < 0):
    return None
  want = expected_steps(n, b, e, s, drop)
  view = ds(n).shuffle_repeat_batch(batch_size=b, num_epochs=e, num_steps=s,
                                    drop_remainder=drop, seed=1)
  if want is None:
    got = sum(1 for _ in itertools.islice(iter(view), 50))
    return None if got == 50 else f'unbounded stream stopped after {got} batches'
  if want > 3000:
    return None
  got = sum(1 for _ in view)
  if got != want:
    return f'{got} batches, documented count {want} for {inp}'


def sweep_steps(tier, seed):
  hi = 8 if tier == 'quick' else 14
  for n in range(1, hi):
    for b in range(1, hi + 3):
      for e in (None, 0, 1, 2, 3):
        for s in (None, 0, 1, 4, 9):
          for drop in (False, True):
            yield dict(N=n, batch_size=b, num_epochs=e, num_steps=s, drop_remainder=drop)


def check_iter(inp):
  n, b, k = inp['N'], inp['batch_size'], inp['num_steps']
  skip, seed = bool(inp['skip_shuffle']), inp['seed']
  if n < 1 or b < 1:
    return None
  if k is None:
    k = 3 * (n // b + 2)
  k = min(k, 400)
  d = ds(n)
  keep = d.raw_examples['x'].copy()
  view = d.shuffle_repeat_batch(batch_size=b, num_epochs=None, num_steps=k, seed=seed,
                                skip_shuffle=skip)
  first = [x['x'].copy() for x in view]
  if len(first) != k:
    return f'{len(first)} batches instead of {k}'
  if any(len(x) != b for x in first):
    return f'batch sizes {[len(x) for x in first]} != {b}'
  stream = np.concatenate(first) if first else np.zeros(0, np.int64)
  if np.any((stream < 0) | (stream >= n)):
    return 'index outside the dataset'
  wins = [stream[i:i + n] for i in range(0, len(stream) - n + 1, n)]
  for w in wins:
    if sorted(w.tolist()) != list(range(n)):
      return f'window {w.tolist()} is not a permutation of the dataset'
    if skip and w.tolist() != list(range(n)):
      return f'skip_shuffle window {w.tolist()} is not the original order'
  if skip and stream.tolist() != [i % n for i in range(len(stream))]:
    return 'skip_shuffle stream is not cyclic'
  if seed is not None and k >= 2:
    # two live iterators of the SAME view (zip(view, view)): each must still see the standalone stream
    inter = [(a['x'].copy(), c['x'].copy()) for a, c in zip(view, view)]
    for j, (a, c) in enumerate(inter):
      if not (np.array_equal(a, first[j]) and np.array_equal(c, first[j])):
        return (f'interleaved iteration of one view (zip(view, view)), batch {j}: {a.tolist()} / {c.tolist()} instead of '
                f'{first[j].tolist()}: iterators of a view share state')
  if seed is not None:
    second = [x['x'].copy() for x in view]
    if len(second) != len(first) or any(not np.array_equal(a, c) for a, c in zip(first, second)):
      return 'fixed seed: second iteration differs'
  if not np.array_equal(d.raw_examples['x'], keep):
    return 'dataset mutated'
  # a consumer (or an in-place preprocessor) that works on the batches it is given: batches are the consumer's own arrays, so
  # the dataset keeps its content and later passes give the same stream
  for x in view:
    x['x'] += 1000
  if not np.array_equal(d.raw_examples['x'], keep):
    return (f'in-place work on the yielded batches changed the dataset (skip_shuffle={skip}, N={n}, batch_size={b}): batches alias '
            'the storage of the ClientDataset')
  if seed is not None:
    third = [x['x'].copy() for x in view]
    if any(not np.array_equal(a, c) for a, c in zip(first, third)):
      return 'after in-place work on the batches of one pass, the next pass yields different batches'
  if not skip and n >= 5 and len(wins) >= 4 and all(
      w.tolist() == wins[0].tolist() for w in wins):
    return 'windows are never re-shuffled'


def sweep_iter(tier, seed):
  # datasets larger than any small-integer index type (2^8, 2^16) can hold, with small batches
  for n, b in ((257, 20), (300, 256), (65537, 4096)) if tier != 'quick' else ((257, 20), (300, 256)):
    for skip in (False, True):
      yield dict(N=n, batch_size=b, num_steps=2 * (n // b) + 3, skip_shuffle=skip, seed=seed + n)
  hi = 8 if tier == 'quick' else 13
  for n in range(1, hi):
    for b in range(1, 2 * hi):
      for k in (0, 1, 2, 7, None):
        for skip in (False, True):
          yield dict(N=n, batch_size=b, num_steps=k, skip_shuffle=skip, seed=(seed + n * 31 + b) % 1000)


def check_sliced(inp):
  """A slice of a client dataset (any start / stop / step, after the parent was measured) is a client dataset: its N is
  the number of rows the slice holds, and the shuffled stream covers exactly those rows."""
  size, sl, b = inp['size'], slice(*inp['slice']), inp['batch_size']
  parent = ds(size)
  len(parent)
  list(parent.shuffle_repeat_batch(batch_size=2, num_epochs=1, seed=0))
  d = parent[sl]
  rows = np.arange(size, dtype=np.int64)[sl]
  if len(d) != len(rows):
    return f'len(dataset[{inp["slice"]}]) of a {size}-example dataset is {len(d)}; the slice holds {len(rows)} examples'
  if len(rows) == 0:
    return None
  got = [x['x'] for x in d.shuffle_repeat_batch(batch_size=b, num_epochs=1, seed=3)]
  want_n = -(-len(rows) // b)
  if len(got) != want_n or any(len(x) != b for x in got):
    return (f'dataset[{inp["slice"]}] ({len(rows)} examples), batch_size {b}, one epoch: {len(got)} batches of sizes '
            f'{[len(x) for x in got]}, documented {want_n} batches of {b}')
  stream = np.concatenate(got)
  if sorted(stream[:len(rows)].tolist()) != sorted(rows.tolist()):
    return f'dataset[{inp["slice"]}]: the first window {stream[:len(rows)].tolist()} is not a permutation of its rows {rows.tolist()}'


def sweep_sliced(tier, seed):
  for size, sl in ((7, (None, None, 2)), (7, (1, None, 2)), (8, (None, None, 3)), (9, (2, 8, 4)), (6, (1, 5, None)), (5, (None, None, -1)),
                   (5, (4, 0, -2)), (6, (3, 3, None))):
    for b in (1, 2, 3):
      yield dict(size=size, slice=list(sl), batch_size=b)


def check_entry(inp):
  """ClientDataset.shuffle_repeat_batch(hparams, **overrides): the number of batches is the documented function of the
  EFFECTIVE hyper-parameters, i.e. hparams with every keyword override applied - None and other falsy values included."""
  n, b = inp['N'], inp['batch_size']
  base = dict(batch_size=b, num_epochs=inp['hp_epochs'], num_steps=inp['hp_steps'], drop_remainder=inp['hp_drop'], seed=5)
  ov = dict(inp['override'])
  eff = dict(base, **ov)
  want = expected_steps(n, eff['batch_size'], eff['num_epochs'], eff['num_steps'], eff['drop_remainder'])
  view = ds(n).shuffle_repeat_batch(cds.ShuffleRepeatBatchHParams(**base), **ov)
  got = sum(1 for _ in itertools.islice(iter(view), 200))
  if want is None:
    want = 200   # infinite stream
  if got != want:
    return (f'shuffle_repeat_batch(ShuffleRepeatBatchHParams({base}), **{ov}) on {n} examples yields {got} batches; the '
            f'documented count for the effective hyper-parameters {eff} is {want}')


def sweep_entry(tier, seed):
  for n, b in ((5, 2), (6, 3), (1, 4)):
    for hp_e, hp_s in ((1, 3), (2, None), (None, 4), (3, 2)):
      for ov in ({'num_epochs': None}, {'num_steps': None}, {'drop_remainder': False}, {'drop_remainder': True},
                 {'num_epochs': None, 'num_steps': 7}, {'num_steps': 0}, {'num_epochs': 0}, {'batch_size': 1}):
        eff_e = ov.get('num_epochs', hp_e)
        eff_s = ov.get('num_steps', hp_s)
        if tier == 'quick' and eff_e is None and eff_s is None and n == 6:
          continue
        yield dict(N=n, batch_size=b, hp_epochs=hp_e, hp_steps=hp_s, hp_drop=True, override=ov)


CHECKERS = {'steps': (check_steps, sweep_steps), 'iter': (check_iter, sweep_iter), 'entry': (check_entry, sweep_entry),
            'sliced': (check_sliced, sweep_sliced)}

if __name__ == '__main__':
  sys.exit(common.main(CHECKERS))
