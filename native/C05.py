"""Native replay / bounded driver for C05: metric monoid on the real metrics."""
import itertools
import sys

import numpy as np

from native import common
common.light_fedjax()
import jax
import jax.numpy as jnp
from fedjax.core import metrics as M
from fedjax.core import models
from fedjax.core import client_datasets as cds


def class_model(metric_map):
  def apply_for_eval(params, batch):
    return batch['logits']
  return models.Model(init=None, apply_for_train=None, apply_for_eval=apply_for_eval, train_loss=None,
                      eval_metrics=metric_map)


def data(n, seed, seq):
  rng = np.random.RandomState(seed)
  if seq:
    y = rng.randint(0, 4, size=(n, 5)).astype(np.int32)
    y[rng.rand(n) < 0.3] = 0  # fully masked sequences
    logits = rng.randn(n, 5, 4).astype(np.float32)
  else:
    y = rng.randint(0, 3, size=(n,)).astype(np.int32)
    logits = rng.randn(n, 3).astype(np.float32)
    logits[rng.rand(n) < 0.3] = 1.0  # ties
  return {'y': y, 'logits': logits, 'domain_id': rng.randint(0, 2, size=(n,)).astype(np.int32)}


def metrics_for(seq):
  if seq:
    mm = {
        'tok_ce': M.SequenceTokenCrossEntropyLoss(), 'seq_ce': M.SequenceCrossEntropyLoss(),
        'tok_acc': M.SequenceTokenAccuracy(), 'tok_top2': M.SequenceTokenTopKAccuracy(k=2),
        'tok_count': M.SequenceTokenCount(), 'seq_count': M.SequenceCount(),
        'trunc': M.SequenceTruncationRate(eos_target_value=3), 'oov': M.SequenceTokenOOVRate(oov_target_values=(2,)),
        'len': M.SequenceLength(), 'tok_acc_pp': M.SequenceTokenAccuracy(per_position=True),
    }
  else:
    mm = {'ce': M.CrossEntropyLoss(), 'acc': M.Accuracy(), 'top2': M.TopKAccuracy(k=2),
          'cm': M.ConfusionMatrix(num_classes=3)}
    mm['pd_acc'] = M.PerDomainMetric(M.Accuracy(), num_domains=2)
  return mm


def batches(d, n, sizes, pad_to, seed, scatter=False):
  rng = np.random.RandomState(seed + 1)
  out = []
  start = 0
  for bi, s in enumerate(sizes):
    idx = list(range(start, min(start + s, n)))
    start += s
    b = {k: v[idx] for k, v in d.items()}
    c = len(idx)
    # pad_to: one size for all batches, or one per batch (mixed padded sizes, as padded_batch with several buckets gives)
    size = max(pad_to[bi] if isinstance(pad_to, (list, tuple)) else pad_to, c)
    pb = {}
    for k, v in b.items():
      padv = np.zeros((size,) + v.shape[1:], v.dtype)
      padv[:c] = v
      # arbitrary in-domain garbage in the padded rows
      if size > c:
        if k == 'logits':
          padv[c:] = rng.randn(*padv[c:].shape) * 5
        elif k == 'y':
          padv[c:] = rng.randint(0, 3, size=padv[c:].shape)
        else:
          padv[c:] = rng.randint(0, 2, size=padv[c:].shape)
      pb[k] = padv
    pb[cds.EXAMPLE_MASK_KEY] = np.arange(size) < c
    if scatter and c >= 1 and size > c:
      # masked rows anywhere in the batch, not only at its end: the last row is real, padding rows sit before it
      perm = list(range(c - 1)) + list(range(c, size)) + [c - 1]
      pb = {k: v[perm] for k, v in pb.items()}
    out.append(pb)
  return out


def close(a, b):
  return np.allclose(np.asarray(a, np.float64), np.asarray(b, np.float64), rtol=1e-4, atol=1e-5)


def check_monoid(inp):
  n, seq, seed = inp['n'], inp['seq'], inp['seed']
  d = data(n, seed, seq)
  mm = metrics_for(seq)
  model = class_model(mm)
  # reference: merge single-example stats one by one
  ref = {}
  for k, m in mm.items():
    st = m.zero()
    for i in range(n):
      ex = {kk: jnp.asarray(v[i]) for kk, v in d.items()}
      st = st.merge(m.evaluate_example(ex, jnp.asarray(d['logits'][i])))
    ref[k] = np.asarray(st.result())
    if np.isnan(ref[k]).any():
      return f'{k}: NaN from merging single-example statistics'
  # the per-client evaluator class (what the packaged evaluation functions and algorithms call): both entry points, two
  # clients with different batchings of the same examples, must give the reference for each client
  sizes0, pad0 = inp['partitions'][-1]
  sizes1, pad1 = inp['partitions'][min(3, len(inp['partitions']) - 1)]
  me = models.ModelEvaluator(model)
  cl = [(b'a', batches(d, n, sizes0, pad0, seed)), (b'b', batches(d, n, sizes1, pad1, seed))]
  for which, outs in (('evaluate_global_params', list(me.evaluate_global_params(None, cl))),
                      ('evaluate_per_client_params', list(me.evaluate_per_client_params([(c, b, {'unused': jnp.zeros(1)}) for c, b in cl])))):
    if [c for c, _ in outs] != [b'a', b'b']:
      return f'ModelEvaluator.{which}: results for {[c for c, _ in outs]}, expected one per client in order'
    for c, got in outs:
      for k in mm:
        g = np.asarray(got[k])
        if np.isnan(g).any() or not close(g, ref[k]):
          return (f'ModelEvaluator.{which}, client {c}: {k} = {g}, single-example merge gives {ref[k]} '
                  f'(partitions {sizes0}/{pad0} and {sizes1}/{pad1})')
  for sizes, pad in inp['partitions']:
    bs = batches(d, n, sizes, pad, seed)
    for order in (bs, bs[::-1], batches(d, n, sizes, pad, seed, scatter=True)):
      got = models.evaluate_model(model, None, order)
      for k in mm:
        g = np.asarray(got[k])
        if np.isnan(g).any():
          return f'{k}: NaN for partition {sizes} padded to {pad}'
        if not close(g, ref[k]):
          return f'{k}: partition {sizes} padded to {pad} gives {g}, single-example merge gives {ref[k]}'
  # merge laws on real stats
  for k, m in mm.items():
    exs = [m.evaluate_example({kk: jnp.asarray(v[i]) for kk, v in d.items()}, jnp.asarray(d['logits'][i]))
           for i in range(min(n, 3))]
    if len(exs) == 3:
      a, b, c = exs
      l, r = a.merge(b).merge(c), a.merge(b.merge(c))
      if not close(l.result(), r.result()):
        return f'{k}: merge is not associative'
      if not close(a.merge(b).result(), b.merge(a).result()):
        return f'{k}: merge is not commutative'
      z = m.zero()
      if not (close(a.merge(z).result(), a.result()) and close(z.merge(a).result(), a.result())):
        return f'{k}: zero is not an identity'
      rr = b.merge(c).merge(a)
      if not close(rr.result(), l.result()):
        return f'{k}: regrouping changes the result'
      ref3 = m.zero().merge(a).merge(b).merge(c)
      for nm, st in (('(a+b)+c', l), ('a+(b+c)', r), ('(b+c)+a', rr)):
        if not close(st.result(), ref3.result()):
          return (f'{k}: merging single-example statistics as {nm} gives {np.asarray(st.result())}, the fold '
                  f'from zero() gives {np.asarray(ref3.result())}')
  # metrics that differ in ONE constructor argument, batch-evaluated in the same process: evaluate_batch is jitted with the
  # metric as a static argument, so a field left out of ==/hash would silently reuse the other metric's trace
  if seq and n > 0:
    ncls = d['logits'].shape[-1]
    variants = [(M.SequenceTokenAccuracy, dict(logits_mask=None)),
                (M.SequenceTokenAccuracy, dict(logits_mask=tuple([0.0] + [-1e9] * (ncls - 1)))),
                (M.SequenceTokenAccuracy, dict(logits_mask=tuple([-1e9] + [0.0] * (ncls - 1)))),
                (M.SequenceTokenTopKAccuracy, dict(k=2, logits_mask=None)),
                (M.SequenceTokenTopKAccuracy, dict(k=2, logits_mask=tuple([-1e9] * (ncls - 1) + [0.0])))]
    pb = batches(d, n, [n], n + 1, seed)[0]
    for cls_, kw in variants:
      m = cls_(**kw)
      st = m.zero()
      for i in range(n):
        ex = {kk: jnp.asarray(v[i]) for kk, v in d.items()}
        st = st.merge(m.evaluate_example(ex, jnp.asarray(d['logits'][i])))
      got = M.evaluate_batch(m, {kk: jnp.asarray(v) for kk, v in pb.items() if kk != cds.EXAMPLE_MASK_KEY},
                             jnp.asarray(pb['logits']), jnp.asarray(pb[cds.EXAMPLE_MASK_KEY])).result()
      if not close(got, st.result()):
        return (f'{cls_.__name__}({kw}): batched evaluation {np.asarray(got)} differs from the merge of single-example '
                f'statistics {np.asarray(st.result())} (another metric of the same class was batch-evaluated before in this process)')
  empty = models.evaluate_model(model, None, [])
  for k in mm:
    if np.any(np.asarray(empty[k]) != 0):
      return f'{k}: empty input does not give 0'
  allpad = batches(d, 0, [0], 4, seed)
  got = models.evaluate_model(model, None, allpad)
  for k in mm:
    if np.isnan(np.asarray(got[k])).any() or np.any(np.asarray(got[k]) != 0):
      return f'{k}: fully masked input does not give 0: {got[k]}'


def sweep_monoid(tier, seed):
  for seq in (False, True):
    for n in (1, 5, 7):
      parts = [([n], n), ([n], n + 3), ([1] * n, 2), ([2] * ((n + 1) // 2), 4), ([3, n], 8),
               # batches of different padded sizes, the smaller ones with masked rows of their own
               ([4, n], [8, 4]), ([2, 2, n], [6, 3, 5]), ([n, 0], [n + 2, 2])]
      yield dict(n=n, seq=seq, seed=seed, partitions=parts)


CHECKERS = {'monoid': (check_monoid, sweep_monoid)}

if __name__ == '__main__':
  sys.exit(common.main(CHECKERS))
