"""Native replay / bounded driver for C18: Walsh-Hadamard transform and structured rotation."""
import math
import sys

import numpy as np

from native import common
common.light_fedjax()
import jax
import jax.numpy as jnp
import scipy.linalg
from fedjax.aggregators import walsh_hadamard as wh


def sylvester(n):
  h = np.array([[1.0]])
  while h.shape[0] < n:
    h = np.block([[h, h], [h, -h]])
  return h


def fwht(v):
  """Textbook butterfly (Sylvester order) for the large sizes."""
  v = v.copy()
  h = 1
  while h < len(v):
    v = v.reshape(-1, 2, h)
    v = np.stack([v[:, 0, :] + v[:, 1, :], v[:, 0, :] - v[:, 1, :]], axis=1).reshape(-1)
    h *= 2
  return v


def check_wht(inp):
  a, b = int(inp.get('a', 3)), inp.get('b')
  if a > 14:
    a = 14
  n = 2 ** a
  x = np.random.RandomState(inp.get('seed', 0)).randn(n).astype(np.float32)
  valid = b is None or (b >= 1 and a <= 8 * b)
  try:
    if b is None:
      y = wh.walsh_hadamard_transform(jnp.asarray(x))
    else:
      y = wh.walsh_hadamard_transform(jnp.asarray(x), 2 ** int(b))
  except ValueError as e:
    if valid:
      return f'n=2^{a}, small_n=2^{b}: ValueError for a valid block size: {e}'
    return None
  except Exception as e:  # pylint: disable=broad-except
    return f'n=2^{a}, small_n={"default" if b is None else 2 ** int(b)}: {type(e).__name__}: {str(e)[:160]}'
  if not valid:
    return f'n=2^{a}, small_n=2^{b}: no ValueError for an invalid block size'
  want = fwht(x.astype(np.float64)) if n > 2048 else sylvester(n) @ x.astype(np.float64)
  y = np.asarray(y, np.float64)
  if y.shape != want.shape:
    return f'shape {y.shape}'
  err = np.abs(y - want).max() / max(1.0, np.abs(want).max())
  if err > 1e-4:
    return f'n=2^{a}, small_n={"default" if b is None else 2 ** int(b)}: transform differs from H_n x (relative error {err:.3g})'
  yy = np.asarray(wh.walsh_hadamard_transform(jnp.asarray(y, jnp.float32)) if b is None else
                  wh.walsh_hadamard_transform(jnp.asarray(y, jnp.float32), 2 ** int(b)), np.float64)
  if np.abs(yy - n * x).max() > 1e-3 * n * max(1.0, np.abs(x).max()):
    return f'n=2^{a}: applying the transform twice is not n * x'


def sweep_wht(tier, seed):
  if tier != 'thorough':
    for a in (0, 1, 7, 8):
      yield dict(a=a, b=None, seed=seed)
    for a, b in ((0, 1), (1, 1), (3, 1), (4, 2), (5, 2), (7, 3), (8, 8), (9, 8), (6, 1)):
      yield dict(a=a, b=b, seed=seed)
    yield dict(a=9, b=1, seed=seed)   # 9 blocks: invalid
    return
  for a in range(0, 11):
    yield dict(a=a, b=None, seed=seed)
  for a in (0, 1, 2, 3, 4, 5, 8, 9, 10):
    for b in (1, 2, 3, 5, 8):
      if a <= 8 * b and -(-a // b) >= 8:
        continue        # 8 einsum axes: XLA needs minutes to compile; (7, 1) below has 7
      yield dict(a=a, b=b, seed=seed)
  yield dict(a=7, b=1, seed=seed)
  yield dict(a=9, b=1, seed=seed)   # 9 blocks: invalid
  yield dict(a=12, b=None, seed=seed)
  yield dict(a=14, b=None, seed=seed)


def check_rotation(inp):
  dims = tuple(int(inp.get(f'dim{j}', 0)) for j in range(4) if f'dim{j}' in inp)
  dims = tuple(min(max(d, 1), 40) for d in dims)
  same = inp.get('same_key', True)
  rs = np.random.RandomState(inp.get('seed', 0))
  x = jnp.asarray(np.asarray(rs.randn(*dims), np.float32))
  k1 = jax.random.PRNGKey(inp.get('seed', 0) + 7)
  try:
    r, shp = wh.structured_rotation(x, k1)
  except Exception as e:  # pylint: disable=broad-except
    return f'structured_rotation of shape {dims}: {type(e).__name__}: {str(e)[:160]}'
  size = int(np.prod(dims)) if dims else 1
  d = 1 << max(0, math.ceil(math.log2(size)))
  if r.shape != (d,):
    return f'rotated shape {r.shape}, expected ({d},)'
  nx, nr = float(jnp.linalg.norm(x.reshape(-1))), float(jnp.linalg.norm(r))
  if abs(nx - nr) > 1e-3 * max(1.0, nx):
    return f'shape {dims}: ||rotation|| = {nr:.5f} but ||x|| = {nx:.5f}'
  try:
    y = wh.inverse_structured_rotation(r, k1, shp)
  except Exception as e:  # pylint: disable=broad-except
    return f'inverse_structured_rotation of a rotated array of shape {dims}: {type(e).__name__}: {str(e)[:160]}'
  if y.shape != x.shape:
    return f'inverse returns shape {y.shape} for an input of shape {x.shape}'
  if float(jnp.abs(y - x).max()) > 1e-3 * max(1.0, float(jnp.abs(x).max())):
    return f'shape {dims}: inverse(rotation(x)) differs from x by {float(jnp.abs(y - x).max()):.4g}'
  # pytree versions: every tree structure - nested containers, a one-element list, a bare array (its own only leaf), no leaf
  for name, tree in (('nested', {'a': x, 'b': (x * 2, jnp.ones((3,)))}), ('one-element list', [x + 1]),
                     ('bare array', x * 3 + 1), ('single-entry dict', {'w': x - 1}), ('empty', {})):
    rt, st = wh.structured_rotation_pytree(tree, k1)
    try:
      back = wh.inverse_structured_rotation_pytree(rt, k1, st)
    except Exception as e:  # pylint: disable=broad-except
      return f'inverse_structured_rotation_pytree ({name}) with a leaf of shape {dims}: {type(e).__name__}: {str(e)[:160]}'
    if jax.tree_util.tree_structure(back) != jax.tree_util.tree_structure(tree):
      return f'pytree ({name}): structure {jax.tree_util.tree_structure(back)} != {jax.tree_util.tree_structure(tree)}'
    for u, v in zip(jax.tree_util.tree_leaves(tree), jax.tree_util.tree_leaves(back)):
      if u.shape != v.shape or float(jnp.abs(u - v).max()) > 1e-3 * max(1.0, float(jnp.abs(u).max())):
        return (f'pytree ({name}) with a leaf of shape {dims}: inverse_structured_rotation_pytree(structured_rotation_pytree(t, k), k) '
                f'differs from t by {float(jnp.abs(u - v).max()):.4g}')


def check_rotation_zero(inp):
  """All real inputs: an all-zero vector (any shape), alone or as a leaf, rotates to zeros (norm 0 preserved) and comes back."""
  shape = tuple(inp['shape'])
  k = jax.random.PRNGKey(inp.get('seed', 0))
  x = jnp.zeros(shape, jnp.float32)
  r, shp = wh.structured_rotation(x, k)
  if not np.all(np.isfinite(np.asarray(r))) or float(jnp.abs(r).max() if r.size else 0.0) != 0.0:
    return f'structured_rotation of zeros{shape} gives {np.asarray(r).ravel()[:4].tolist()} (norm 0 must be preserved, no NaN)'
  y = wh.inverse_structured_rotation(r, k, shp)
  if y.shape != x.shape or not np.array_equal(np.asarray(y), np.asarray(x)):
    return f'inverse rotation of rotated zeros{shape} gives {np.asarray(y).ravel()[:4].tolist()} with shape {y.shape}'
  tree = {'w': jnp.ones((3,)), 'zero': x}
  rt, st = wh.structured_rotation_pytree(tree, k)
  back = wh.inverse_structured_rotation_pytree(rt, k, st)
  for nm in tree:
    if not np.allclose(np.asarray(back[nm]), np.asarray(tree[nm]), atol=1e-5, equal_nan=False):
      return f'pytree with an all-zero leaf of shape {shape}: leaf {nm!r} comes back as {np.asarray(back[nm]).ravel()[:4].tolist()}'


def sweep_rotation_zero(tier, seed):
  for shape in ((), (1,), (4,), (5,), (2, 3)):
    yield dict(shape=list(shape), seed=seed)


def sweep_rotation(tier, seed):
  for dims in ((), (1,), (2,), (3,), (5,), (8,), (9,), (3, 5), (1, 1), (4, 4), (2, 3, 5), (7, 1, 2), (33,), (40, 40)):
    yield dict({f'dim{j}': d for j, d in enumerate(dims)}, seed=seed)


def check_bounded(inp):
  kind = inp['kind']
  if kind == 'had':
    n = inp['n']
    if not np.array_equal(scipy.linalg.hadamard(n), sylvester(n)):
      return f'scipy.linalg.hadamard({n}) is not the Sylvester matrix'
    if not np.array_equal(np.asarray(wh.hadamard_matrix(n, jnp.float32)), sylvester(n)):
      return f'hadamard_matrix({n}) is not the Sylvester matrix'
  if kind == 'log2':
    k = inp['k']
    for s, want in ((2 ** k, k), (2 ** k + 1, k + 1), (max(2 ** k - 1, 1), k if k > 1 else (0 if k == 0 else (1 if 2 ** k - 1 > 1 else 0)))):
      want = 0 if s == 1 else (s - 1).bit_length()
      if math.ceil(math.log2(s)) != want:
        return f'math.ceil(math.log2({s})) = {math.ceil(math.log2(s))}, expected {want}'
  if kind == 'keys':
    s = inp['seed']
    x = jnp.asarray(np.random.RandomState(s).randn(64).astype(np.float32))
    r1, _ = wh.structured_rotation(x, jax.random.PRNGKey(s))
    r2, _ = wh.structured_rotation(x, jax.random.PRNGKey(s + 1000))
    r3, _ = wh.structured_rotation(x, jax.random.PRNGKey(s))
    if float(jnp.abs(r1 - r2).max()) < 1e-6:
      return f'keys {s} and {s + 1000} give the same rotation'
    if float(jnp.abs(r1 - r3).max()) != 0.0:
      return 'the same key gives two different rotations'
  if kind == 'empty_shape':
    if jnp.array(()).dtype.kind != 'f' or jnp.array((2, 3)).dtype.kind != 'i':
      return 'T-JAX dtype of jnp.array(shape) changed'


def sweep_bounded(tier, seed):
  for n in (1, 2, 4, 8, 16, 32, 64, 128, 256):
    yield dict(kind='had', n=n)
  for k in range(0, 41):
    yield dict(kind='log2', k=k)
  for s in range(32 if tier == 'thorough' else 6):
    yield dict(kind='keys', seed=s)
  yield dict(kind='empty_shape')
  for x in sweep_wht(tier, seed):
    yield dict(x, kind='wht')


def check_bounded_all(inp):
  if inp.get('kind') == 'wht':
    return check_wht(inp)
  return check_bounded(inp)


CHECKERS = {'wht': (check_wht, sweep_wht), 'rotation': (check_rotation, sweep_rotation),
            'bounded': (check_bounded_all, sweep_bounded), 'rotation_zero': (check_rotation_zero, sweep_rotation_zero)}

if __name__ == '__main__':
  sys.exit(common.main(CHECKERS))
