"""Native replay / bounded driver for C15."""
import itertools
import sys

import numpy as np

from native import common
common.light_fedjax()
from fedjax.core import client_datasets as cds
from native.C03 import ref_pick


def make(sizes, pre):
  out = []
  base = 0
  for n in sizes:
    out.append(cds.ClientDataset({'x': np.arange(base, base + n, dtype=np.int64),
                                  'y': np.arange(base, base + n, dtype=np.float32).reshape(n, 1)}, pre))
    base += n
  return out, base


def check_pbcd(inp):
  sizes, b, k = inp['sizes'], inp['batch_size'], inp['num_batch_size_buckets']
  pre = cds.BatchPreprocessor([lambda e: {**e, 'z': e['x'] + 1}])
  dsets, total = make(sizes, pre)
  gen = inp.get('generator', True)
  src = (d for d in dsets) if gen else dsets
  batches = list(cds.padded_batch_client_datasets(src, batch_size=b, num_batch_size_buckets=k))
  M = cds.EXAMPLE_MASK_KEY
  real = []
  for i, bt in enumerate(batches):
    m = bt[M]
    c = int(m.sum())
    if not np.array_equal(m, np.arange(len(m)) < c):
      return f'mask not a prefix in batch {i}'
    last = i == len(batches) - 1
    if not last and (c != b or len(m) != b):
      return f'non-final batch {i} has {c}/{len(m)} rows'
    if last:
      want = ref_pick(c, b, k) if c % b else b
      if len(m) != want:
        return f'final batch size {len(m)} for {c} real rows, bucket rule gives {want}'
    for key in ('x', 'y', 'z'):
      if len(bt[key]) != len(m):
        return 'inconsistent rows'
      if np.any(bt[key][c:] != 0):
        return 'padding not zero'
    if not np.array_equal(bt['z'][:c], bt['x'][:c] + 1):
      return 'preprocessor not applied exactly once'
    real.append(bt['x'][:c])
  if all(n_ > 0 for n_ in sizes) and len(batches) != -(-total // b):
    return (f'client sizes {sizes}, batch_size {b}: {len(batches)} batches (real rows per batch {[int(x[M].sum()) for x in batches]}), '
            f'the concatenation of {total} rows fills {-(-total // b)}')
  cat = np.concatenate(real) if real else np.zeros(0, np.int64)
  if cat.tolist() != list(range(total)):
    return f'rows lost, duplicated or reordered: {cat.tolist()} vs 0..{total - 1}'
  # every way of saying the same hyper-parameters gives the same batches: an hparams object, an hparams object with keyword
  # overrides (falsy / smaller values included), and the federated-data wrapper over the same clients
  from fedjax.core import federated_data as fdm
  from fedjax.core import in_memory_federated_data as imfd

  def same(got, what):
    if len(got) != len(batches):
      return f'{what}: {len(got)} batches, the keyword form gives {len(batches)}'
    for g_, w_ in zip(got, batches):
      if set(g_) != set(w_) or any(not np.array_equal(g_[kk], w_[kk]) for kk in w_):
        return f'{what}: batches differ from the keyword form (batch sizes {[len(x[M]) for x in got]} vs {[len(x[M]) for x in batches]})'
  hp_exact = cds.PaddedBatchHParams(batch_size=b, num_batch_size_buckets=k)
  hp_other = cds.PaddedBatchHParams(batch_size=b + 5, num_batch_size_buckets=k + 1)
  msg = same(list(cds.padded_batch_client_datasets(iter(dsets), hp_exact)), 'padded_batch_client_datasets(hparams)') or \
      same(list(cds.padded_batch_client_datasets(iter(dsets), hp_other, batch_size=b, num_batch_size_buckets=k)),
           'padded_batch_client_datasets(hparams, batch_size=..., num_batch_size_buckets=...)')
  if msg:
    return msg
  if all(len(d_) > 0 for d_ in dsets):
    fd_ = imfd.InMemoryFederatedData({b'c%03d' % i: dict(d_.raw_examples) for i, d_ in enumerate(dsets)}).preprocess_batch(
        lambda e: {**e, 'z': e['x'] + 1})
    msg = same(list(fdm.padded_batch_federated_data(fd_, batch_size=b, num_batch_size_buckets=k)),
               'padded_batch_federated_data(batch_size=..., num_batch_size_buckets=...)') or \
        same(list(fdm.padded_batch_federated_data(fd_, hp_exact)), 'padded_batch_federated_data(hparams)') or \
        same(list(fdm.padded_batch_federated_data(fd_, hp_other, batch_size=b, num_batch_size_buckets=k)),
             'padded_batch_federated_data(hparams, batch_size=..., num_batch_size_buckets=...)')
    if msg:
      return msg
  # rejections
  if len(dsets) >= 2:
    other = cds.ClientDataset(dsets[-1].raw_examples, cds.BatchPreprocessor([lambda e: e]))
    try:
      list(cds.padded_batch_client_datasets(dsets[:-1] + [other], batch_size=b))
      return 'different preprocessor objects accepted'
    except ValueError:
      pass
    # ... in either order: clients with the library default preprocessor first, a custom one later
    plain = [cds.ClientDataset(dict(d_.raw_examples)) for d_ in dsets[:-1]]
    try:
      list(cds.padded_batch_client_datasets(plain + [dsets[-1]], batch_size=b))
      return 'clients with the default preprocessor followed by a client with another preprocessor were accepted'
    except ValueError:
      pass
    other = cds.ClientDataset({'x': dsets[-1].raw_examples['x']}, pre)
    try:
      list(cds.padded_batch_client_datasets(dsets[:-1] + [other], batch_size=b))
      return 'different feature sets accepted'
    except ValueError:
      pass


def sweep_pbcd(tier, seed):
  rng = np.random.RandomState(seed)
  top = 4 if tier == 'quick' else 5
  for b in (1, 2, 3, 4, 7):
    for k in (1, 2, 3):
      for nds in range(0, top):
        for sizes in itertools.product((0, 1, b - 1, b, b + 1, 2 * b, 2 * b + 1), repeat=nds):
          if any(s < 0 for s in sizes):
            continue
          if nds >= 3 and rng.rand() > (0.25 if tier == 'quick' else 0.6):
            continue
          yield dict(sizes=list(sizes), batch_size=b, num_batch_size_buckets=k)


def check_bshuf(inp):
  n, bs, seed = inp['n'], inp['buffer_size'], inp['seed']
  src = list(range(n))
  gen = (x for x in src)
  out = list(cds.buffered_shuffle(gen, bs, np.random.RandomState(seed)))
  if sorted(out) != src:
    return f'buffered_shuffle output {out} is not a permutation of the input'
  out2 = list(cds.buffered_shuffle(iter(src), bs, np.random.RandomState(seed)))
  if out != out2:
    return 'same seed, different order'


def sweep_bshuf(tier, seed):
  for n in range(0, 12):
    for bs in range(1, 15):
      for s in range(3):
        yield dict(n=n, buffer_size=bs, seed=seed + s)


def check_bsbcd(inp):
  sizes, b, bs, seed = inp['sizes'], inp['batch_size'], inp['buffer_size'], inp['seed']
  pre = cds.BatchPreprocessor([lambda e: {**e, 'z': e['x'] + 1}])
  dsets, total = make(sizes, pre)
  out = list(cds.buffered_shuffle_batch_client_datasets(
      (d for d in dsets), b, bs, np.random.RandomState(seed)))
  xs = np.concatenate([o['x'] for o in out]) if out else np.zeros(0, np.int64)
  if sorted(xs.tolist()) != list(range(total)):
    return f'examples lost or duplicated: {sorted(xs.tolist())}'
  if any(len(o['x']) != b for o in out[:-1]) or (out and not 1 <= len(out[-1]['x']) <= b):
    return 'batch sizes wrong'
  for o in out:
    if not np.array_equal(o['z'], o['x'] + 1):
      return 'preprocessor not applied once'


def sweep_bsbcd(tier, seed):
  for sizes in ([], [0], [3], [0, 2, 0], [1, 4, 2], [5, 5], [2, 0, 7, 1]):
    for b in (1, 2, 3, 5):
      for bs in (1, 2, 4, 50):
        yield dict(sizes=sizes, batch_size=b, buffer_size=bs, seed=seed)


def check_rep(inp):
  from fedjax.core import federated_data as fd
  n, passes, gen = inp['n'], inp['passes'], inp['generator']
  base = list(range(n))
  it = fd.RepeatableIterator((x for x in base) if gen else base)
  for p in range(passes):
    got = list(itertools.islice(it, 3 * n + 5))
    if got != base:
      return f'pass {p} yields {got} instead of {base}'


def sweep_rep(tier, seed):
  for n in range(0, 6):
    for passes in (1, 2, 4):
      for gen in (False, True):
        yield dict(n=n, passes=passes, generator=gen)


def check_srbfd(inp):
  """shuffle_repeat_batch_federated_data: reproducible for a fixed seed (0 included), every example once per pass."""
  import itertools
  from fedjax.core import federated_data as fdm, in_memory_federated_data as imfd
  n_clients, seed = inp['clients'], inp['seed']
  data = {b'c%02d' % i: {'x': np.arange(i * 100, i * 100 + (i % 3) + 2)} for i in range(n_clients)}
  fd = imfd.InMemoryFederatedData(data)
  total = sum(len(v['x']) for v in data.values())
  runs = []
  for _ in range(3):
    it = fdm.shuffle_repeat_batch_federated_data(fd, batch_size=2, client_buffer_size=3, example_buffer_size=4, seed=seed)
    runs.append([b['x'].tolist() for b in itertools.islice(it, total)])
  if runs[0] != runs[1] or runs[0] != runs[2]:
    return f'shuffle_repeat_batch_federated_data(seed={seed}): three runs with the same seed give different batch streams'
  # (the example-level buffer spans passes of the client stream, so the stream is not pass-aligned: only membership is checked)
  valid = {x for v in data.values() for x in v['x'].tolist()}
  if any(x not in valid for b in runs[0] for x in b) or any(len(b) != 2 for b in runs[0]):
    return f'shuffle_repeat_batch_federated_data(seed={seed}): a batch is not 2 examples of the dataset'


def sweep_srbfd(tier, seed):
  for sd in (0, 1, 7):
    for nc in (1, 2, 5):
      yield dict(clients=nc, seed=sd)


CHECKERS = {'srbfd': (check_srbfd, sweep_srbfd), 'pbcd': (check_pbcd, sweep_pbcd), 'bshuf': (check_bshuf, sweep_bshuf),
            'bsbcd': (check_bsbcd, sweep_bsbcd), 'rep': (check_rep, sweep_rep)}

if __name__ == '__main__':
  sys.exit(common.main(CHECKERS))
