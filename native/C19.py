"""Native replay / bounded driver for C19: fault injection on the real
maybe_download / maybe_lzma_decompress / validate_file."""
import hashlib
import io
import lzma
import os
import shutil
import sys
import tempfile

from native import common
common.light_fedjax()
from fedjax.datasets import downloads

BLOCK = 1 << 18


class Boom(Exception):
  pass


class FakeRaw:
  def __init__(self, payload, fail_at_block):
    self.buf = io.BytesIO(payload)
    self.n = 0
    self.fail = fail_at_block

  def read(self, size):
    if self.fail is not None and self.n == self.fail:
      raise Boom('connection dropped')
    self.n += 1
    return self.buf.read(size)


class FakeResp:
  def __init__(self, payload, fail_at_block, bad_status, no_length=False):
    if bad_status:
      # an HTTP error answer has a body of its own (the error document), with its own content-length
      payload = b'<html><body>503 Service Unavailable</body></html>' * 3
    self.headers = {} if no_length else {'content-length': str(len(payload))}
    self.raw = FakeRaw(payload, fail_at_block)
    self.bad = bad_status

  def raise_for_status(self):
    if self.bad:
      raise Boom('HTTP 503')


class Killed(BaseException):
  pass


def payload_of(size):
  return bytes((i * 7 + 3) % 251 for i in range(size)) if size < 4096 else os.urandom(size)


def check_download(inp):
  size, faults = inp['size'], inp['faults']
  payload = payload_of(size)
  calls = {'n': 0}
  real_get = downloads.requests.get
  with tempfile.TemporaryDirectory() as d:
    final = os.path.join(d, 'data.bin')
    try:
      for f in faults + [None]:
        def fake_get(url, stream=True, _f=f):
          calls['n'] += 1
          if _f == 'connect':
            raise Boom('no route')
          return FakeResp(payload, _f if isinstance(_f, int) else None, _f == 'status', no_length=(_f == 'nolength'))
        downloads.requests.get = fake_get
        real_log, real_time = downloads.log, downloads.time.time
        try:
          if inp.get('log_fault') is not None and f is not None:
            # the DEFAULT progress reporter with a stderr that breaks at its k-th line (a clock that makes every block log)
            clock, lines = {'t': 0.0}, {'n': 0}

            def fake_time():
              clock['t'] += 2.0
              return clock['t']

            def bad_log(*a, **k):
              if a and str(a[0]).startswith(('Downloading', 'Reusing')):
                return
              lines['n'] += 1
              if lines['n'] == inp['log_fault']:
                raise BrokenPipeError('stderr is gone')
            downloads.log, downloads.time.time = bad_log, fake_time
            try:
              got = downloads.maybe_download('http://x/y/data.bin', d)
            except (Boom, OSError):
              got = None
          else:
            got = downloads.maybe_download('http://x/y/data.bin', d, progress_=range)
        except Boom:
          got = None
        except KeyError:
          if f != 'nolength':
            raise
          got = None           # a response without content-length: refusing it is fine, caching a truncated file is not
        finally:
          downloads.log, downloads.time.time = real_log, real_time
        if os.path.exists(final) and open(final, 'rb').read() != payload:
          return (f'after fault {f!r} (faults so far {faults}): {final} exists with '
                  f'{os.path.getsize(final)} of {size} bytes')
        if f is None and (got != final or not os.path.exists(final)):
          return 'a fault-free call did not produce the cached file'
      before = calls['n']
      downloads.maybe_download('http://x/y/data.bin', d, progress_=range)
      if calls['n'] != before:
        return 'a complete cached file was fetched again'
    finally:
      downloads.requests.get = real_get


def sweep_download(tier, seed):
  for size in (0, 1, BLOCK - 1, BLOCK, BLOCK + 1, 3 * BLOCK):
    nblocks = -(-size // BLOCK)
    yield dict(size=size, faults=[])
    for f in ['connect', 'status', 'nolength'] + list(range(nblocks)):
      yield dict(size=size, faults=[f])
      yield dict(size=size, faults=[f, f])
      yield dict(size=size, faults=[f, 'connect', f])
      yield dict(size=size, faults=[f] * 4)
    for k in range(1, nblocks + 2):
      yield dict(size=size, faults=['log'], log_fault=k)


def check_lzma(inp):
  size, fail_after = inp['size'], inp['fail_after']
  content = payload_of(size)
  with tempfile.TemporaryDirectory() as d:
    src = os.path.join(d, 'data.bin.lzma')
    with lzma.open(src, 'wb') as f:
      f.write(content)
    final = os.path.join(d, 'data.bin')
    if inp.get('stale') is not None:
      # what a killed process (no handler runs) leaves behind: the temporary file with some prefix or junk in it
      with open(final + '.partial', 'wb') as f:
        f.write(b'\xff' * inp['stale'])
    real_copy = downloads.shutil.copyfileobj
    if fail_after is not None:
      def bad_copy(fi, fo, *a):
        fo.write(fi.read(fail_after))
        fo.flush()
        if inp.get('kind') == 'interrupt':
          raise Killed('Ctrl-C / SystemExit / kill: not an Exception')
        raise Boom('disk full / interrupted')
      downloads.shutil.copyfileobj = bad_copy
    # what is ON DISK under the temporary name when it is renamed is what a kill right after the rename leaves behind
    real_rename = downloads.os.rename
    at_rename = []

    def checked_rename(a, b, *aa, **kk):
      at_rename.append(os.path.getsize(a))
      return real_rename(a, b, *aa, **kk)
    downloads.os.rename = checked_rename
    try:
      try:
        downloads.maybe_lzma_decompress(src)
      except (Boom, Killed):
        pass
      except Exception as e:   # pylint: disable=broad-except
        if fail_after is None:
          return (f'a call that met no I/O error failed with {type(e).__name__}: {e} '
                  f'(stale .partial of {inp.get("stale")} bytes from an earlier crash): the cache is never repaired')
        raise
    finally:
      downloads.shutil.copyfileobj = real_copy
      downloads.os.rename = real_rename
    if fail_after is None and at_rename and at_rename[0] != size:
      return (f'the decompressed file is renamed to its final name while only {at_rename[0]} of {size} bytes are on disk '
              '(not yet flushed / closed): a kill or an I/O error at that point leaves a truncated file under the final name')
    if os.path.exists(final) and open(final, 'rb').read() != content:
      return (f'interrupted decompression after {fail_after} bytes left {final} with '
              f'{os.path.getsize(final)} of {size} bytes under the final name')
    try:
      got = downloads.maybe_lzma_decompress(src)
    except Exception as e:   # pylint: disable=broad-except
      return (f'after an interruption ({inp.get("kind", "oserror")}) at {fail_after} bytes every later call fails with '
              f'{type(e).__name__}: {e}: the cache is never repaired')
    if got != final or open(final, 'rb').read() != content:
      return 'a later call did not repair the decompressed file'


def check_lzma_truncated(inp):
  """A compressed file that ends early (an interrupted copy of the archive): decompression fails, nothing appears under the
  final name, and with the complete archive a later call produces the complete file."""
  size, cut = inp['size'], inp['cut']
  content = payload_of(size)
  with tempfile.TemporaryDirectory() as d:
    src = os.path.join(d, 'data.bin.lzma')
    with lzma.open(src, 'wb') as f:
      f.write(content)
    full = open(src, 'rb').read()
    final = os.path.join(d, 'data.bin')
    k = max(0, min(len(full) - 1, int(cut * len(full)) if isinstance(cut, float) else cut))
    for _ in range(inp.get('repeat', 1)):
      with open(src, 'wb') as f:
        f.write(full[:k])
      try:
        downloads.maybe_lzma_decompress(src)
        returned = True
      except Exception:  # pylint: disable=broad-except
        returned = False
      if os.path.exists(final) and open(final, 'rb').read() != content:
        return (f'an archive cut after {k} of {len(full)} bytes: maybe_lzma_decompress {"returned" if returned else "raised"} and '
                f'left {os.path.getsize(final)} of {size} bytes under the final name')
    with open(src, 'wb') as f:
      f.write(full)
    try:
      got = downloads.maybe_lzma_decompress(src)
    except Exception as e:  # pylint: disable=broad-except
      return f'with the complete archive a later call fails: {type(e).__name__}: {e}'
    if got != final or open(final, 'rb').read() != content:
      return (f'after a truncated archive (cut at {k} of {len(full)} bytes) a later call with the complete archive returns '
              f'{os.path.getsize(final)} of {size} bytes: the truncated output was cached')


def sweep_lzma_truncated(tier, seed):
  for size in (1, 1000, (1 << 18) + 17, 3 * (1 << 18) + 17):
    for cut in (0, 1, 0.5, 0.9, 10 ** 9):
      yield dict(size=size, cut=cut)
    yield dict(size=size, cut=0.5, repeat=2)


def sweep_lzma(tier, seed):
  for size in (0, 1, 1000, 1 << 20):
    yield dict(size=size, fail_after=None)
    for fa in (0, 1, size // 2, max(size - 1, 0)):
      yield dict(size=size, fail_after=fa)
      yield dict(size=size, fail_after=fa, kind='interrupt')
    for stale in (0, 7, size + 5):
      yield dict(size=size, fail_after=None, stale=stale)


def check_validate(inp):
  data = payload_of(inp['size'])
  with tempfile.TemporaryDirectory() as d:
    p = os.path.join(d, 'f')
    open(p, 'wb').write(data)
    good = hashlib.sha256(data).hexdigest()
    downloads.validate_file(p, len(data), good)
    for n, h in ((len(data) + 1, good), (len(data), 'x' + good[1:]), (max(len(data) - 1, 0) if data else 1, good)):
      try:
        downloads.validate_file(p, n, h)
        return f'validate_file accepted size={n} hash-ok={h == good}'
      except ValueError:
        pass


def _make_tff(path, nclients):
  import sqlite3
  import numpy as np
  import tensorflow as tf
  con = sqlite3.connect(path)
  con.execute('CREATE TABLE examples (split_name TEXT NOT NULL, client_id TEXT NOT NULL, serialized_example_proto BLOB NOT NULL);')
  con.execute('CREATE TABLE client_metadata (client_id TEXT NOT NULL, split_name TEXT NOT NULL, num_examples INTEGER NOT NULL);')
  for sp in ('train', 'test'):
    for c in range(nclients):
      for e in range(2):
        ex = tf.train.Example(features=tf.train.Features(feature={
            'coarse_label': tf.train.Feature(int64_list=tf.train.Int64List(value=[c % 20])),
            'label': tf.train.Feature(int64_list=tf.train.Int64List(value=[c])),
            'image': tf.train.Feature(int64_list=tf.train.Int64List(value=((np.arange(32 * 32 * 3) + c + e) % 256).tolist()))}))
        con.execute('INSERT INTO examples VALUES (?, ?, ?);', [sp, f'{sp}{c}', ex.SerializeToString()])
      con.execute('INSERT INTO client_metadata VALUES (?, ?, ?);', [f'{sp}{c}', sp, 2])
  con.commit()
  con.close()


def check_cifar(inp):
  """cifar100.load_split on a tiny TFF-format database (download / decompress stubbed out, size + digest tables set from a
  reference conversion): an error at the k-th client of the conversion, or a stale temporary, must not leave a file that a
  later call reuses as the dataset; order and arguments of the validations."""
  from fedjax.datasets import cifar100
  split, nclients, crash_at = inp['split'], inp['clients'], inp['crash_at']
  saved = (cifar100.downloads.maybe_download, cifar100.downloads.maybe_lzma_decompress, cifar100.downloads.validate_file,
           cifar100._parse_tf_examples, dict(cifar100._FEDJAX_SQLITE_NUM_BYTES), dict(cifar100._FEDJAX_SQLITE_HEXDIGEST))
  real_validate = downloads.validate_file
  with tempfile.TemporaryDirectory() as ref_d, tempfile.TemporaryDirectory() as d:
    try:
      calls = []

      def setup(dirname):
        tff = os.path.join(dirname, 'cifar100.sqlite')
        _make_tff(tff, nclients)
        cifar100.downloads.maybe_download = lambda url, cache_dir=None, progress_=None: calls.append('download') or tff + '.lzma'
        cifar100.downloads.maybe_lzma_decompress = lambda p_: calls.append('decompress') or tff

        def validate(path, nbytes, digest):
          calls.append(('validate', os.path.basename(path), nbytes, digest))
          if not path.endswith('.lzma'):
            real_validate(path, nbytes, digest)
        cifar100.downloads.validate_file = validate
      # reference conversion: fixes the expected size / digest of this tiny dataset
      setup(ref_d)
      cifar100.downloads.validate_file = lambda *a, **k: None
      ref = cifar100.load_split(split, cache_dir=ref_d)
      ref_ids = list(ref.client_ids())
      ref_path = os.path.join(ref_d, f'federated_cifar100_{split}.sqlite')
      data = open(ref_path, 'rb').read()
      cifar100._FEDJAX_SQLITE_NUM_BYTES[split] = len(data)
      cifar100._FEDJAX_SQLITE_HEXDIGEST[split] = hashlib.sha256(data).hexdigest()
      del ref
      setup(d)
      final = os.path.join(d, f'federated_cifar100_{split}.sqlite')
      if inp.get('stale'):
        with open(final + '.partial', 'wb') as f:
          f.write(b'stale bytes of an earlier killed conversion')
      if crash_at is not None:
        real_parse = cifar100._parse_tf_examples
        n = {'c': 0}

        def crashing(vs):
          n['c'] += 1
          if n['c'] == crash_at:
            raise Boom('disk full / killed during the conversion')
          return real_parse(vs)
        cifar100._parse_tf_examples = crashing
        try:
          cifar100.load_split(split, cache_dir=d)
        except Boom:
          pass
        cifar100._parse_tf_examples = real_parse
        if os.path.exists(final) and open(final, 'rb').read() != data:
          return (f'an error at client {crash_at} of {nclients} of the conversion left {os.path.basename(final)} under its '
                  f'final name with {os.path.getsize(final)} of {len(data)} bytes: later calls reuse it as the dataset')
      del calls[:]
      try:
        got = cifar100.load_split(split, cache_dir=d)
      except Exception as e:  # pylint: disable=broad-except
        return f'a later call without any fault failed with {type(e).__name__}: {e} (directory: {sorted(os.listdir(d))})'
      ids = list(got.client_ids())
      if ids != ref_ids:
        return f'after an interrupted conversion a later call returns clients {ids}, the complete dataset has {ref_ids}'
      if not os.path.exists(final) or open(final, 'rb').read() != data:
        return 'a successful call did not leave the complete converted file under its final name'
      names = [c if isinstance(c, str) else c[0] for c in calls]
      if names[:3] != ['download', 'validate', 'decompress']:
        return f'the downloaded archive is not validated before it is decompressed: calls {names}'
      if calls[1][2:] != (cifar100._TFF_SQLITE_COMPRESSED_NUM_BYTES, cifar100._TFF_SQLITE_COMPRESSED_HEXDIGEST):
        return 'the archive is validated against other constants than the pinned size / digest'
      conv = [c for c in calls[3:] if not isinstance(c, str)]
      if len(conv) != 1 or conv[0][2:] != (len(data), cifar100._FEDJAX_SQLITE_HEXDIGEST[split]):
        return f'the converted file is not validated once against the size / digest of split {split!r}: {conv}'
      del calls[:]
      again = cifar100.load_split(split, cache_dir=d)
      if list(again.client_ids()) != ref_ids or any(not isinstance(c, str) and not c[1].endswith('.lzma') for c in calls):
        return 'a complete converted file is not simply reused'
    finally:
      (cifar100.downloads.maybe_download, cifar100.downloads.maybe_lzma_decompress, cifar100.downloads.validate_file,
       cifar100._parse_tf_examples) = saved[:4]
      cifar100._FEDJAX_SQLITE_NUM_BYTES.update(saved[4])
      cifar100._FEDJAX_SQLITE_HEXDIGEST.update(saved[5])


def sweep_cifar(tier, seed):
  yield dict(split='train', clients=3, crash_at=None)
  yield dict(split='train', clients=3, crash_at=1)
  yield dict(split='test', clients=3, crash_at=3)
  yield dict(split='train', clients=3, crash_at=None, stale=True)
  if tier != 'quick':
    yield dict(split='test', clients=4, crash_at=2, stale=True)
    yield dict(split='train', clients=4, crash_at=4)


CHECKERS = {'download': (check_download, sweep_download), 'lzma': (check_lzma, sweep_lzma),
            'validate': (check_validate, lambda t, s: [dict(size=0), dict(size=10)]),
            'cifar': (check_cifar, sweep_cifar), 'lzma_truncated': (check_lzma_truncated, sweep_lzma_truncated)}

if __name__ == '__main__':
  sys.exit(common.main(CHECKERS))
