"""Native replay / bounded driver for C11: stochastic quantizers and compression aggregators."""
import math
import sys

import numpy as np

from native import common
common.light_fedjax()
import haiku as hk
import jax
import jax.numpy as jnp
from fedjax.aggregators import compression as cp
from fedjax.core import tree_util

VECS = {
    'rand': lambda rs: rs.randn(7).astype(np.float32),
    'size1': lambda rs: np.array([0.37], np.float32),
    'const': lambda rs: np.full((5,), 2.5, np.float32),
    'zeros': lambda rs: np.zeros((4,), np.float32),
    'grid': lambda rs: np.array([0., 1., 2., 3., 1., 3.], np.float32),
    'dyn': lambda rs: np.array([1e-30, -1e-12, 1.0, 1e12], np.float32),
    'neg': lambda rs: -np.abs(rs.randn(6)).astype(np.float32),
    'mat': lambda rs: rs.randn(3, 4).astype(np.float32),
    'outlier': lambda rs: np.concatenate([[-10.0, 6.0], 0.1 * rs.randn(18)]).astype(np.float32),
    'tiny': lambda rs: (np.array([0., 1., 2., 3., 4.]) * 2.0 ** -30).astype(np.float32),
    'huge': lambda rs: np.array([-3e38, 0., 1., 3e38], np.float32),
}


def vec_of(inp):
  if 'values' in inp:
    return np.array(inp['values'], np.float32)
  return VECS[inp.get('vec', 'rand')](np.random.RandomState(inp.get('seed', 0)))


def check_quantizers(inp):
  kind = inp['kind']
  v = vec_of(inp)
  L = int(inp.get('num_levels', 4))
  keys = [jax.random.PRNGKey(1000 * inp.get('seed', 0) + i) for i in range(int(inp.get('draws', 40)))]
  m, M = float(v.min()), float(v.max())
  tol = 1e-5 * max(abs(m), abs(M), M - m)
  outs = []
  for k in keys:
    if kind == 'usq':
      y = np.asarray(cp.uniform_stochastic_quantize(jnp.asarray(v), L, k))
    elif kind == 'bin':
      y = np.asarray(cp.binary_stochastic_quantize(jnp.asarray(v), k))
    elif kind == 'tern':
      y = np.asarray(cp.terngrad_quantize(jnp.asarray(v), k))
    elif kind == 'drive':
      y = np.asarray(cp.drive_pytree({'w': jnp.asarray(v), 'b': jnp.ones((2,))})['w'])
    if not np.all(np.isfinite(y)):
      return f'{kind} quantizer produced NaN/Inf for the finite input {v.tolist()} -> {y.tolist()}'
    if y.shape != v.shape:
      return f'{kind}: shape {y.shape} for input {v.shape}'
    outs.append(y.astype(np.float64))
    if kind in ('usq', 'bin'):
      levels = L if kind == 'usq' else 2
      step = (M - m) / (levels - 1)
      if np.any(y < m - tol) or np.any(y > M + tol):
        return f'{kind}: output {y.tolist()} leaves [{m}, {M}]'
      if np.any(np.abs(y - v) > step + tol):
        return f'{kind}: error larger than one grid step for {v.tolist()} -> {y.tolist()} (levels {levels})'
      if step > 0:
        q = (y.astype(np.float64) - m) / step
        if np.any(np.abs(q - np.round(q)) > 1e-3):
          return f'{kind}: output {y.tolist()} is not on the {levels}-level grid of [{m}, {M}]'
      if step == 0 and not np.array_equal(y, v):
        return f'{kind}: a constant vector does not pass through: {v.tolist()} -> {y.tolist()}'
      if kind == 'usq' and inp.get('vec') == 'tiny' and L == 5 and not np.allclose(y, v, rtol=1e-5, atol=0):
        return f'usq: a small-range vector on the 5-level grid does not pass through: {v.tolist()} -> {y.tolist()}'
      if kind == 'usq' and inp.get('vec') == 'grid' and L == 4 and not np.allclose(y, v, atol=1e-5):
        return f'usq: a vector on the grid does not pass through: {v.tolist()} -> {y.tolist()}'
    if kind == 'tern':
      sg = float(np.std(v))
      c = np.clip(v, -2.5 * sg, 2.5 * sg)
      s = float(np.abs(c).max())
      if np.any(np.minimum.reduce([np.abs(y), np.abs(y - s), np.abs(y + s)]) > 1e-5 * max(1.0, s)):
        return f'terngrad: output {y.tolist()} is not in {{-s, 0, s}} for s = {s}'
    if kind == 'drive' and kind == 'drive':
      n1 = float(np.abs(v).sum())
      if n1 > 0:
        want = float((v.astype(np.float64) ** 2).sum()) / n1 * np.sign(v)
        if not np.allclose(y, want, rtol=1e-4, atol=1e-6):
          return f'drive: {y.tolist()} != ||x||^2/||x||_1 sign(x) = {want.tolist()}'
      elif np.any(y != 0):
        return 'drive: an all-zero leaf is not quantized to zero'
  if kind in ('usq', 'bin', 'tern') and len(keys) >= 200:
    mean = np.mean(outs, axis=0)
    want = v.astype(np.float64)
    # per-draw standard deviation of a two-point variable on levels a distance w apart, mean at distance e from one: sqrt(e (w - e))
    if kind == 'tern':
      sg = float(np.std(v))
      want = np.clip(want, -2.5 * sg, 2.5 * sg)
      w = float(np.abs(want).max())
      e = np.abs(want)
    else:
      w = (M - m) / ((L if kind == 'usq' else 2) - 1)
      e = np.mod(want - m, w) if w > 0 else np.zeros_like(want)
    sd = np.sqrt(np.maximum(e * (w - e), 0) + 1e-12) / math.sqrt(len(outs))
    if np.any(np.abs(mean - want) > 6 * sd + 1e-4 * max(1.0, np.abs(want).max())):
      return f'{kind}: the mean over {len(keys)} keys {mean.tolist()} is not the input {want.tolist()} (biased)'


def sweep_quantizers(tier, seed):
  many = 400 if tier == 'thorough' else 200
  for kind in ('usq', 'bin', 'tern', 'drive'):
    for vec in ('rand', 'outlier', 'tiny', 'size1', 'const', 'zeros', 'grid', 'dyn', 'neg', 'mat'):
      for L in ((2, 4, 5, 17) if kind == 'usq' else (4,)):
        yield dict(kind=kind, vec=vec, num_levels=L, seed=seed, draws=(many if vec in ('rand', 'mat', 'outlier') and L == 4 else 8))


def _aggs():
  k = jax.random.PRNGKey(7)
  return {'uniform': (cp.uniform_stochastic_quantizer(4, k), math.log2(4), lambda p, key: cp.uniform_stochastic_quantize_pytree(p, 4, key)),
          'arithmetic': (cp.uniform_stochastic_quantizer(4, k, 'arithmetic'), None,
                         lambda p, key: cp.uniform_stochastic_quantize_pytree(p, 4, key)),
          'rotated': (cp.rotated_uniform_stochastic_quantizer(4, k), math.log2(4), None),
          'drive': (cp.structured_drive_quantizer(k), 1.0, None),
          'terngrad': (cp.terngrad_quantizer(k), math.log2(3), lambda p, key: cp.terngrad_quantize_pytree(p, key))}


def check_aggregators(inp):
  name = inp['agg']
  agg, per_param, quant = _aggs()[name]
  rs = np.random.RandomState(inp.get('seed', 0))
  nc = int(inp.get('clients', 3))
  # 40 coordinates: two rounds with independent noise coincide with probability < 1e-8
  clients = [(b'c%d' % i, {'w': jnp.asarray(rs.randn(8, 4).astype(np.float32)), 'b': jnp.asarray(rs.randn(8).astype(np.float32))},
              float(rs.randint(1, 5))) for i in range(nc)]
  if name == 'arithmetic':
    # leaves that occupy fewer distinct levels than num_levels: a size-1 leaf, a constant leaf, a two-valued leaf
    clients = [(cid, dict(p, one=jnp.asarray([0.7 + i_], jnp.float32), const=jnp.zeros(5, jnp.float32),
                          two=jnp.asarray([1.0, -1.0, 1.0, -1.0, 1.0, 1.0], jnp.float32)), w)
               for i_, (cid, p, w) in enumerate(clients)]
  state = agg.init()
  seen_keys = [np.asarray(state.rng).tolist()]
  prev_out = None
  size, leaves = 40, 2
  all_clients = clients
  for rnd in range(int(inp.get('rounds', 3))):
    st_key = state.rng
    if name == 'arithmetic':   # cohorts of different sizes: a round's bit count is the mean over THIS round's clients
      clients = all_clients[:max(1, nc - rnd % 2)]
    out, new_state = agg.apply(iter(clients), state)
    for leaf in jax.tree_util.tree_leaves(out):
      if not np.all(np.isfinite(np.asarray(leaf))):
        return f'{name}: aggregate contains NaN/Inf'
    if per_param is None:
      # documented: the mean over this round's clients of the arithmetic code length of their quantized trees
      _, use = jax.random.split(st_key)
      seq = hk.PRNGSequence(use)
      def code_len(leaf):
        # documented: k * log2(e (d + k) / k) + d * H + 2 * 32 + 2, k = number of DISTINCT values present, H their entropy
        v = np.nan_to_num(np.asarray(leaf, np.float64)).ravel()
        _, counts = np.unique(v, return_counts=True)
        k_, d_ = len(counts), v.size
        pr = counts / d_
        return k_ * np.log2(np.e * (d_ + k_) / k_) + d_ * float(-(pr * np.log2(pr)).sum()) + 66
      per_client = [sum(code_len(l) for l in jax.tree_util.tree_leaves(quant(p, next(seq)))) for _, p, _ in clients]
      want_bits = sum(per_client) / len(per_client)
    else:
      want_bits = per_param * size + 64 * leaves
    got = float(new_state.num_bits) - float(state.num_bits)
    if abs(got - want_bits) > 1e-3 * max(1.0, abs(want_bits) * 1e-2):
      return f'{name}: round {rnd} adds {got} bits, documented formula gives {want_bits}'
    key = np.asarray(new_state.rng).tolist()
    if key in seen_keys:
      return f'{name}: the state key of round {rnd + 1} repeats an earlier state key (same randomness in two rounds)'
    seen_keys.append(key)
    if quant is not None:
      _, use = jax.random.split(st_key)
      seq = hk.PRNGSequence(use)
      qs = [(quant(p, next(seq)), w) for _, p, w in clients]
      want = tree_util.tree_mean(iter(qs))
      for a, b in zip(jax.tree_util.tree_leaves(out), jax.tree_util.tree_leaves(want)):
        if not np.allclose(np.asarray(a), np.asarray(b), rtol=1e-5, atol=1e-6):
          return f'{name}: the aggregate is not the weighted mean of the per-client quantized trees (keys split(state.rng)[1] sequence)'
    # exact mean bound for the grid quantizers
    exact = tree_util.tree_mean(iter([(p, w) for _, p, w in clients]))
    if name in ('uniform', 'arithmetic'):
      for k_ in ('w', 'b'):  # (the extra small leaves of the arithmetic case are on-grid: exact)
        bound = max(float(p[k_].max() - p[k_].min()) / 3 for _, p, _ in clients)
        if float(jnp.abs(out[k_] - exact[k_]).max()) > bound + 1e-5:
          return f'{name}: aggregate further from the exact weighted mean than the largest per-client grid step'
    if prev_out is not None and name != 'drive':
      if all(np.array_equal(np.asarray(a), np.asarray(b)) for a, b in zip(jax.tree_util.tree_leaves(out),
                                                                         jax.tree_util.tree_leaves(prev_out))):
        return f'{name}: two consecutive rounds on the same inputs give the bit-identical aggregate (same randomness)'
    prev_out = out
    state = new_state
  # two clients with the same update inside one apply(): with independent noise the mean leaves the two-level grid
  if name in ('uniform', 'terngrad'):
    agg2 = cp.uniform_stochastic_quantizer(2, jax.random.PRNGKey(3)) if name == 'uniform' else agg
    p0 = {'w': jnp.asarray(rs.rand(40).astype(np.float32))}
    out2, _ = agg2.apply(iter([(b'a', p0, 1.0), (b'b', p0, 1.0)]), agg2.init())
    y = np.asarray(out2['w'])
    lv = np.unique(np.round(y, 5))
    if len(lv) <= 2:   # positive inputs: levels {m, M} resp. {0, s}; independent noise adds the midpoint
      return f'{name}: two clients with the same update get the same quantization noise (their mean stays on the quantization levels)'
  if name in ('drive', 'rotated'):
    # rotation-based aggregators: two clients with the same update must not get the same randomness - the mean of two
    # independently quantized copies differs from one quantized copy (first client key is the same in both calls)
    p0 = {'w': jnp.asarray(rs.randn(40).astype(np.float32)), 'b': jnp.asarray(rs.randn(7).astype(np.float32))}
    one, _ = agg.apply(iter([(b'a', p0, 1.0)]), agg.init())
    two, _ = agg.apply(iter([(b'a', p0, 1.0), (b'b', p0, 1.0)]), agg.init())
    if all(np.allclose(np.asarray(a), np.asarray(b), rtol=1e-6, atol=1e-7) for a, b in zip(jax.tree_util.tree_leaves(one), jax.tree_util.tree_leaves(two))):
      return (f'{name}: two clients with the same update are quantized with the same randomness (their mean equals the result '
              'for one client)')
  if quant is not None:
    same = [(b'a', all_clients[0][1], 1.0), (b'b', all_clients[0][1], 1.0)]
    _, use = jax.random.split(agg.init().rng)
    seq = hk.PRNGSequence(use)
    q1, q2 = quant(same[0][1], next(seq)), quant(same[1][1], next(seq))
    if all(np.array_equal(np.asarray(a), np.asarray(b)) for a, b in zip(jax.tree_util.tree_leaves(q1), jax.tree_util.tree_leaves(q2))):
      return f'{name}: two clients with the same update get the same quantization noise'


def sweep_aggregators(tier, seed):
  for a in ('uniform', 'arithmetic', 'rotated', 'drive', 'terngrad'):
    yield dict(agg=a, seed=seed, clients=3, rounds=3)
    if tier == 'thorough':
      yield dict(agg=a, seed=seed + 1, clients=1, rounds=5)


def check_zero_leaf(inp):
  """Aggregators on trees with an all-zero leaf and a scalar leaf."""
  name = inp['agg']
  agg = _aggs()[name][0]
  clients = [(b'c%d' % i, {'w': jnp.zeros((4,)), 'b': jnp.ones((3,)) * (i + 1)}, 1.0) for i in range(2)]
  out, _ = agg.apply(iter(clients), agg.init())
  for leaf in jax.tree_util.tree_leaves(out):
    if not np.all(np.isfinite(np.asarray(leaf))):
      return f'{name}: an all-zero leaf makes the aggregate NaN/Inf: {jax.tree_util.tree_map(lambda x: np.asarray(x).tolist(), out)}'


def check_leafwise(inp):
  """The pytree quantizers work LEAF BY LEAF: each leaf is quantized onto the grid between ITS OWN minimum and maximum
  (values stay in the leaf's range, error at most one step of the leaf's grid; constant / all-zero leaves pass through),
  whatever the ranges of the other leaves."""
  rs = np.random.RandomState(inp.get('seed', 0))
  tree = {'big': jnp.asarray((rs.randn(30) * 50).astype(np.float32)), 'small': jnp.asarray((rs.rand(12) * 1e-2).astype(np.float32)),
          'bias': jnp.zeros(4, jnp.float32), 'const': jnp.full((3,), 2.0, jnp.float32), 'neg': jnp.asarray([-7.0, -6.5, -6.0], jnp.float32)}
  levels = inp['levels']
  for d in range(3):
    key = jax.random.PRNGKey(inp.get('seed', 0) * 10 + d)
    q = cp.uniform_stochastic_quantize_pytree(tree, levels, key)
    for nm, leaf in tree.items():
      x, y = np.asarray(leaf, np.float64), np.asarray(q[nm], np.float64)
      lo, hi = x.min(), x.max()
      step = (hi - lo) / (levels - 1)
      if y.shape != x.shape or (y < lo - 1e-5 * (1 + abs(lo))).any() or (y > hi + 1e-5 * (1 + abs(hi))).any():
        return f'uniform_stochastic_quantize_pytree ({levels} levels): leaf {nm!r} left its own range [{lo}, {hi}]: {y.tolist()[:6]}'
      if (np.abs(y - x) > step * (1 + 1e-4) + 1e-6).any():
        return (f'uniform_stochastic_quantize_pytree ({levels} levels): leaf {nm!r} is off by {np.abs(y - x).max()} > one step '
                f'{step} of its own grid')
    t = cp.terngrad_quantize_pytree(tree, key)
    for nm, leaf in tree.items():
      x, y = np.asarray(leaf, np.float64), np.asarray(t[nm], np.float64)
      s_ = np.abs(np.clip(x, x.mean() - 2.5 * x.std(), x.mean() + 2.5 * x.std())).max() if False else None
      lv = np.unique(np.round(np.abs(y[y != 0]), 6))
      if len(lv) > 1:
        return f'terngrad_quantize_pytree: leaf {nm!r} has more than one non-zero magnitude {lv.tolist()} (levels are per leaf: {{-s, 0, +s}})'
      if len(lv) == 1 and lv[0] > np.abs(x).max() * (1 + 1e-5) + 1e-7:
        return f'terngrad_quantize_pytree: leaf {nm!r} magnitude {lv[0]} exceeds the largest magnitude {np.abs(x).max()} of the leaf'


def sweep_leafwise(tier, seed):
  for lv in (2, 4, 17):
    yield dict(levels=lv, seed=seed)


def sweep_zero_leaf(tier, seed):
  for a in ('uniform', 'rotated', 'drive', 'terngrad'):
    yield dict(agg=a)


CHECKERS = {'quantizers': (check_quantizers, sweep_quantizers), 'aggregators': (check_aggregators, sweep_aggregators),
            'zero_leaf': (check_zero_leaf, sweep_zero_leaf), 'leafwise': (check_leafwise, sweep_leafwise)}

if __name__ == '__main__':
  sys.exit(common.main(CHECKERS))
