"""Native replay / bounded driver for C14: metrics vs independent numpy references."""
import itertools
import sys

import numpy as np

from native import common
common.light_fedjax()
import jax.numpy as jnp
from fedjax.core import metrics as M


def rank(scores, t):
  s = scores[t]
  return int(np.sum(scores > s) + np.sum((scores == s)[:t]))


def topk_ref(scores, t, k):
  return 1.0 if rank(scores, t) < max(k, 0) else 0.0


def logsoftmax(x):
  x = np.asarray(x, np.float64)
  m = x.max(-1, keepdims=True)
  return x - m - np.log(np.exp(x - m).sum(-1, keepdims=True))


def res(stat):
  return np.asarray(stat.result(), np.float64)


def check_metrics(inp):
  seed, n, L = inp['seed'], inp['classes'], inp['length']
  rng = np.random.RandomState(seed)
  # classification with ties
  scores = rng.randint(0, 3, size=n).astype(np.float32)
  t = int(rng.randint(0, n))
  ex = {'y': jnp.asarray(t)}
  if res(M.Accuracy().evaluate_example(ex, jnp.asarray(scores))) != (1.0 if int(np.argmax(scores)) == t else 0.0):
    return 'Accuracy differs from the reference (first maximal class)'
  for k in range(-n - 1, n + 3):
    got = float(res(M.TopKAccuracy(k=k).evaluate_example(ex, jnp.asarray(scores))))
    if got != topk_ref(scores, t, k):
      return f'TopKAccuracy(k={k}) on scores {scores.tolist()} target {t}: {got}, reference {topk_ref(scores, t, k)}'
  if float(res(M.TopKAccuracy(k=1).evaluate_example(ex, jnp.asarray(scores)))) != float(
      res(M.Accuracy().evaluate_example(ex, jnp.asarray(scores)))):
    return 'top-1 accuracy != accuracy'
  ce = float(res(M.CrossEntropyLoss().evaluate_example(ex, jnp.asarray(scores))))
  if abs(ce + logsoftmax(scores)[t]) > 1e-4:
    return 'CrossEntropyLoss differs from -log_softmax[target]'
  cm = np.asarray(M.ConfusionMatrix(num_classes=n).evaluate_example(ex, jnp.asarray(scores)).result())
  want = np.zeros((n, n))
  want[t, int(np.argmax(scores))] = 1
  if not np.array_equal(cm, want):
    return 'ConfusionMatrix is not one count at (target, predicted)'
  # sequences
  tg = rng.randint(0, n, size=L).astype(np.int32)
  if inp.get('all_masked'):
    tg[:] = 0
  sc = rng.randint(0, 3, size=(L, n)).astype(np.float32)
  mvs = tuple(inp.get('masked', (0,)))
  w = np.array([0.0 if v in mvs else 1.0 for v in tg])
  exs = {'y': jnp.asarray(tg)}
  pr = jnp.asarray(sc)
  lm = np.zeros(n, np.float32)
  lm[0] = -np.inf if inp.get('mask_class0') else 0.0
  if inp.get('logits_mask') is not None:
    lm = np.asarray(inp['logits_mask'], np.float32)

  def mean(num, den):
    return float(num / den) if den > 0 else 0.0
  masked_sc = sc + lm
  corr = np.array([1.0 if int(np.argmax(masked_sc[i])) == tg[i] else 0.0 for i in range(L)])
  got = float(res(M.SequenceTokenAccuracy(masked_target_values=mvs, logits_mask=tuple(lm.tolist())).evaluate_example(exs, pr)))
  if abs(got - mean((corr * w).sum(), w.sum())) > 1e-6:
    return f'SequenceTokenAccuracy {got} != reference {mean((corr * w).sum(), w.sum())}'
  pp = np.asarray(M.SequenceTokenAccuracy(masked_target_values=mvs, logits_mask=tuple(lm.tolist()),
                                          per_position=True).evaluate_example(exs, pr).result())
  if not np.allclose(pp, corr * w):
    return 'SequenceTokenAccuracy(per_position) differs from the per-position definition'
  for k in range(-n - 1, n + 2):
    hit = np.array([topk_ref(masked_sc[i], tg[i], k) for i in range(L)])
    got = float(res(M.SequenceTokenTopKAccuracy(k=k, masked_target_values=mvs,
                                                logits_mask=tuple(lm.tolist())).evaluate_example(exs, pr)))
    if abs(got - mean((hit * w).sum(), w.sum())) > 1e-6:
      return f'SequenceTokenTopKAccuracy(k={k}): {got} != reference {mean((hit * w).sum(), w.sum())} (scores {masked_sc.tolist()}, targets {tg.tolist()})'
    ppk = np.asarray(M.SequenceTokenTopKAccuracy(k=k, masked_target_values=mvs, logits_mask=tuple(lm.tolist()),
                                                 per_position=True).evaluate_example(exs, pr).result())
    if not np.allclose(ppk, hit * w):
      return f'SequenceTokenTopKAccuracy(k={k}, per_position) differs from the per-position definition'
  lp = logsoftmax(sc)
  tl = np.array([-lp[i, tg[i]] for i in range(L)])
  got = float(res(M.SequenceTokenCrossEntropyLoss(masked_target_values=mvs).evaluate_example(exs, pr)))
  if abs(got - mean((tl * w).sum(), w.sum())) > 1e-4:
    return 'SequenceTokenCrossEntropyLoss differs'
  got = float(res(M.SequenceCrossEntropyLoss(masked_target_values=mvs).evaluate_example(exs, pr)))
  if abs(got - mean((tl * w).sum(), 1.0 if w.any() else 0.0)) > 1e-4:
    return 'SequenceCrossEntropyLoss differs'
  # saturated logits: every non-masked token is predicted with a gap of 40, so its float32 loss is exactly 0;
  # the sequence still counts (weight 1) whenever it has a non-masked token
  sat = np.zeros_like(sc)
  sat[np.arange(L), tg] = 40.0
  st_sat = M.SequenceCrossEntropyLoss(masked_target_values=mvs).evaluate_example(exs, jnp.asarray(sat))
  if float(st_sat.weight) != (1.0 if w.any() else 0.0):
    return (f'SequenceCrossEntropyLoss on saturated logits: weight {float(st_sat.weight)}, the definition says '
            f'{1.0 if w.any() else 0.0} (targets {tg.tolist()}, masked values {mvs})')
  # extreme magnitudes: finite logits of any size have the finite loss logsumexp(z) - z[target] (float64 reference)
  for scale in (100.0, 1e4, 3e37):
    big = (sc - 1.0) * scale                     # entries in {-scale, 0, scale}
    b64 = big.astype(np.float64)
    mx = b64.max(axis=1)
    want_tl = np.log(np.exp(b64 - mx[:, None]).sum(axis=1)) + (mx - b64[np.arange(L), tg])   # no cancellation
    got = float(res(M.SequenceTokenCrossEntropyLoss(masked_target_values=mvs).evaluate_example(exs, jnp.asarray(big))))
    want = mean((want_tl * w).sum(), w.sum())
    if not (np.isfinite(got) and abs(got - want) <= 1e-5 * max(1.0, abs(want))):
      return (f'SequenceTokenCrossEntropyLoss on logits of magnitude {scale}: {got}, reference (float64 logsumexp) {want} '
              f'(logits {big.tolist()}, targets {tg.tolist()})')
    got1 = float(res(M.CrossEntropyLoss().evaluate_example({'y': jnp.asarray(int(tg[0]))}, jnp.asarray(big[0]))))
    if not (np.isfinite(got1) and abs(got1 - want_tl[0]) <= 1e-5 * max(1.0, abs(want_tl[0]))):
      return (f'CrossEntropyLoss on logits {big[0].tolist()} target {int(tg[0])}: {got1}, reference {want_tl[0]}')
  if float(res(M.SequenceTokenCount(masked_target_values=mvs).evaluate_example(exs, pr))) != w.sum():
    return 'SequenceTokenCount differs'
  if float(res(M.SequenceCount(masked_target_values=mvs).evaluate_example(exs, pr))) != float(w.any()):
    return 'SequenceCount differs'
  if abs(float(res(M.SequenceLength(masked_target_values=mvs).evaluate_example(exs, pr))) - mean(w.sum(), float(w.any()))) > 1e-6:
    return 'SequenceLength differs'
  eos = n - 1
  tr = float(res(M.SequenceTruncationRate(eos_target_value=eos, masked_target_values=mvs).evaluate_example(exs, pr)))
  if tr != (1.0 if (w.any() and not (tg == eos).any()) else 0.0):
    return 'SequenceTruncationRate differs'
  for oov in ((1,), (1, 2), (2, 2), ()):
    if not oov:
      continue
    is_oov = np.array([1.0 if v in oov else 0.0 for v in tg])
    got = float(res(M.SequenceTokenOOVRate(oov_target_values=oov, masked_target_values=mvs).evaluate_example(exs, pr)))
    if abs(got - mean((is_oov * w).sum(), w.sum())) > 1e-6:
      return f'SequenceTokenOOVRate(oov_target_values={oov}) on targets {tg.tolist()}: {got}, reference {mean((is_oov * w).sum(), w.sum())}'
  # per-domain restriction
  base = M.Accuracy()
  pd = M.PerDomainMetric(base, num_domains=3)
  for d in range(3):
    st = pd.evaluate_example({'y': jnp.asarray(t), 'domain_id': jnp.asarray(d)}, jnp.asarray(scores))
    r = np.asarray(st.result())
    b = float(res(base.evaluate_example(ex, jnp.asarray(scores))))
    want = np.zeros(3)
    want[d] = b
    if not np.allclose(r, want):
      return 'PerDomainMetric row d is not the base metric on domain d'
  # an infinite per-example loss (target class under a -inf logit) stays in its own domain
  if n >= 2:
    pdl = M.PerDomainMetric(M.CrossEntropyLoss(), num_domains=3)
    sc = np.zeros(n, np.float32)
    sc[0] = -np.inf
    st = pdl.evaluate_example({'y': jnp.asarray(0), 'domain_id': jnp.asarray(1)}, jnp.asarray(sc))
    acc = np.asarray(st.accum)
    if not (np.isinf(acc[1]) and acc[0] == 0 and acc[2] == 0):
      return f'PerDomainMetric: an infinite loss in domain 1 leaks into the other domains: accum = {acc.tolist()} (expected [0, inf, 0])'


def sweep_metrics(tier, seed):
  for s in range(6):
    for n in (1, 2, 4):
      for L in (1, 3, 5):
        yield dict(seed=seed + s, classes=n, length=L)
  yield dict(seed=seed, classes=3, length=4, all_masked=True)
  yield dict(seed=seed, classes=3, length=4, mask_class0=True)
  # logits masks are ADDED to the scores: finite and +inf entries count like -inf ones
  for lmk in ([0.0, 2.5, -2.5], [0.0, float('inf'), 0.0], [-1.5, 0.0, float('-inf')], [3.0, 0.0, 0.0]):
    yield dict(seed=seed + 1, classes=3, length=5, logits_mask=lmk)
    yield dict(seed=seed + 2, classes=3, length=4, logits_mask=lmk)
  yield dict(seed=seed, classes=4, length=4, masked=[0, 1])
  # masked_target_values=() means: mask nothing (label 0 counts like any other)
  yield dict(seed=seed, classes=3, length=5, masked=[])
  yield dict(seed=seed + 3, classes=2, length=4, masked=[])


CHECKERS = {'metrics': (check_metrics, sweep_metrics)}

if __name__ == '__main__':
  sys.exit(common.main(CHECKERS))
