"""Native replay / bounded driver for C07 (real tree_util / mean_aggregator)."""
import itertools
import sys

import numpy as np

from native import common
common.light_fedjax()
import jax
import jax.numpy as jnp
from fedjax.core import tree_util
from fedjax.aggregators import aggregator


def trees_for(n, seed, mixed=False):
  rng = np.random.RandomState(seed)
  if mixed:
    # the same tree structure with different leaf dtypes per client, narrowest first (int32 / float16, then float32)
    dts = [(np.int32, np.float16), (np.float32, np.float32), (np.int32, np.float32), (np.float32, np.float16)]
    return [{'a': jnp.asarray((rng.randn(3) * 4).astype(dts[i % 4][0])),
             'b': {'c': jnp.asarray((rng.randn(2, 2) * 300).astype(dts[i % 4][1])),
                   'd': jnp.asarray(rng.randint(-3, 3, size=()).astype(np.float32))}} for i in range(n)]
  return [{'a': jnp.asarray(rng.randn(3).astype(np.float32)),
           'b': {'c': jnp.asarray(rng.randn(2, 2).astype(np.float32)),
                 'd': jnp.asarray(rng.randint(-3, 3, size=()).astype(np.float32))}} for _ in range(n)]


def check_tree(inp):
  n, weights, seed = inp['n'], inp['weights'], inp.get('seed', 0)
  trees = trees_for(n, seed, inp.get('mixed', False))
  keep = [jax.tree_util.tree_map(lambda x: np.array(x), t) for t in trees]
  W = float(sum(weights))
  leaves = lambda t: jax.tree_util.tree_leaves(t)
  want = [sum(np.asarray(l[i], np.float64) * w for l, w in zip(map(leaves, keep), weights)) / W
          if W > 0 else np.zeros_like(leaves(keep[0])[i]) for i in range(len(leaves(keep[0])))]
  for label, fn in (
      ('tree_mean(list)', lambda: tree_util.tree_mean(list(zip(trees, weights)))),
      ('tree_mean(generator)', lambda: tree_util.tree_mean((t, w) for t, w in zip(trees, weights))),
      ('mean_aggregator', lambda: aggregator.mean_aggregator().apply(
          ((str(i).encode(), t, w) for i, (t, w) in enumerate(zip(trees, weights))), None)[0]),
      ('tree_mean(reversed)', lambda: tree_util.tree_mean(list(zip(trees, weights))[::-1]))):
    got = fn()
    if len(leaves(got)) != len(want):
      return f'{label}: the result has {len(leaves(got))} leaves instead of {len(want)} (got {got!r:.80}) for weights {weights}'
    for g, w_, ks in zip(leaves(got), want, zip(*map(leaves, keep))):
      g = np.asarray(g)
      if np.isnan(g).any():
        return f'{label}: NaN for weights {weights}'
      if not np.allclose(g, w_, rtol=1e-4, atol=1e-5):
        return f'{label}: {g} is not the weighted mean {w_} for weights {weights}'
      if W > 0:
        st = np.stack(ks)
        if (g < st.min(0) - 1e-4).any() or (g > st.max(0) + 1e-4).any():
          return f'{label}: outside the [min, max] hull for weights {weights}'
  # weights are inputs too: numpy scalars / 0-d / shape-(1,) arrays, writable or read-only (what jax.device_get returns), are
  # neither modified nor required to be writable, and the same call gives the same mean again
  if n >= 1 and W > 0:
    for mk_w in (lambda w: np.float32(w), lambda w: np.array(w, np.float64), lambda w: np.array([w], np.float32), 'readonly'):
      if mk_w == 'readonly':
        ws = [np.array(w, np.float32) for w in weights]
        for a in ws:
          a.setflags(write=False)
      else:
        ws = [mk_w(w) for w in weights]
      keep_w = [np.array(a, copy=True) for a in ws]
      try:
        first = tree_util.tree_mean(list(zip(trees, ws)))
        second = aggregator.mean_aggregator().apply(((str(i).encode(), t, w) for i, (t, w) in enumerate(zip(trees, ws))), None)[0]
      except Exception as e:  # pylint: disable=broad-except
        return f'weights of type {type(ws[0]).__name__}{getattr(ws[0], "shape", "")} (read-only: {mk_w == "readonly"}): {type(e).__name__}: {str(e)[:120]}'
      if any(not np.array_equal(a, b) for a, b in zip(ws, keep_w)):
        return (f'the weights passed in were modified: {[np.asarray(a).tolist() for a in ws]} after the call, '
                f'{[np.asarray(a).tolist() for a in keep_w]} before (numpy += on the caller\'s object)')
      for g1, g2, w_ in zip(leaves(first), leaves(second), want):
        if not (np.allclose(np.asarray(g1).reshape(w_.shape), w_, rtol=1e-4, atol=1e-5) and
                np.allclose(np.asarray(g2).reshape(w_.shape), w_, rtol=1e-4, atol=1e-5)):
          return f'aggregating the same (trees, numpy weights) twice gives {np.asarray(g1)} then {np.asarray(g2)}, the mean is {w_}'
  # the aggregator averages ENTRIES: equal client ids (a client sampled twice, dummy ids) do not merge entries
  if n >= 2 and W > 0:
    for ids in ([b'same'] * n, [None] * n, [0] * n):
      got = aggregator.mean_aggregator().apply(((i_, t, w) for i_, t, w in zip(ids, trees, weights)), None)[0]
      for g, w_ in zip(leaves(got), want):
        if not np.allclose(np.asarray(g), w_, rtol=1e-4, atol=1e-5):
          return (f'mean_aggregator with {n} entries that all carry the client id {ids[0]!r}: {np.asarray(g)} is not the weighted '
                  f'mean {w_} of the entries (weights {weights})')
  s = tree_util.tree_sum(t for t in trees)
  for g, ks in zip(leaves(s), zip(*map(leaves, keep))):
    if not np.allclose(np.asarray(g), np.sum(np.stack(ks), 0), rtol=1e-4, atol=1e-5):
      return 'tree_sum wrong'
  tree_util.tree_sum(trees)
  tree_util.tree_mean(list(zip(trees, weights)))
  for t, k in zip(trees, keep):
    for a, b in zip(leaves(t), leaves(k)):
      try:
        if not np.array_equal(np.asarray(a), b):
          return 'an input array was modified'
      except Exception as e:  # deleted / donated buffer
        return f'an input array was invalidated: {type(e).__name__}'
  for mx in inp.get('clips', [0.0, 0.5, 100.0]):
    for t in trees + [jax.tree_util.tree_map(jnp.zeros_like, trees[0])]:
      c = tree_util.tree_clip_by_global_norm(t, mx)
      nt = float(tree_util.tree_l2_norm(t))
      nc = float(tree_util.tree_l2_norm(c))
      if any(np.isnan(np.asarray(x)).any() for x in leaves(c)):
        return f'tree_clip_by_global_norm gives NaN (norm {nt}, bound {mx})'
      if nc > mx * (1 + 1e-4) + 1e-6:
        return f'clipped norm {nc} exceeds the bound {mx}'
      if nt <= mx and not all(np.allclose(np.asarray(a), np.asarray(b)) for a, b in zip(leaves(c), leaves(t))):
        return 'clip is not the identity below the bound'
      if nt > 0:
        s_ = nc / nt
        if not all(np.allclose(np.asarray(a), s_ * np.asarray(b), atol=1e-5) for a, b in zip(leaves(c), leaves(t))):
          return 'clip changed the direction'


def sweep_tree(tier, seed):
  for ws in ([1.0, 1.0], [1.0, 3.0], [2.0, 1.0, 1.0], [1.0, 1.0, 1.0, 1.0]):
    yield dict(n=len(ws), weights=ws, seed=seed, mixed=True, clips=[])
  for n in (1, 2, 4):
    for ws in itertools.product((0.0, 0.25, 1.0, 3.0), repeat=n):
      yield dict(n=n, weights=list(ws), seed=seed)


CHECKERS = {'tree': (check_tree, sweep_tree)}

if __name__ == '__main__':
  sys.exit(common.main(CHECKERS))
