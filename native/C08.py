"""Native replay / bounded driver for C08: the three FederatedData
implementations are compared with a reference mapping under sequences of view
operations."""
import itertools
import os
import sys
import tempfile

import numpy as np

from native import common
common.light_fedjax()
from fedjax.core import client_datasets as cds
from fedjax.core import federated_data as fd
from fedjax.core import in_memory_federated_data as imfd
from fedjax.core import sqlite_federated_data as sqfd

IDS = [b'', b'a', b'a\x00', b'a\x00\x00', b'ab', b'b', b'b\x00a', b'c']


def ref_isr(cs, ce, ns, ne, x):
  def inr(lo, hi):
    return (lo is None or lo <= x) and (hi is None or x < hi)
  return inr(cs, ce) and inr(ns, ne)


def check_isr(inp):
  vals = [None, 1, 3, 5]
  for cs, ce, ns, ne in itertools.product(vals, repeat=4):
    s, e = fd.intersect_slice_ranges(cs, ce, ns, ne)
    for x in range(0, 7):
      got = (s is None or s <= x) and (e is None or x < e)
      if got != ref_isr(cs, ce, ns, ne, x):
        return f'intersect_slice_ranges({cs},{ce},{ns},{ne}) = ({s},{e}) wrong at {x}'
  # client ids are bytes: b'' is a bound like any other (the empty range as a stop), not "unset"
  bvals = [None, b'', b'a', b'a\x00', b'c']
  probes = [b'', b'\x00', b'a', b'a\x00', b'b', b'c', b'd']
  for cs, ce, ns, ne in itertools.product(bvals, repeat=4):
    s, e = fd.intersect_slice_ranges(cs, ce, ns, ne)
    for x in probes:
      got = (s is None or s <= x) and (e is None or x < e)
      want = ((cs is None or cs <= x) and (ce is None or x < ce) and (ns is None or ns <= x) and (ne is None or x < ne))
      if got != want:
        return f'intersect_slice_ranges({cs!r},{ce!r},{ns!r},{ne!r}) = ({s!r},{e!r}) wrong at id {x!r}'


def table(n):
  return {cid: {'x': np.arange(i + 1, dtype=np.int32) + 10 * i,
                'y': np.ones((i + 1, 2), np.float32) * i} for i, cid in enumerate(IDS[:n])}


def build_all(n, tmp):
  t = table(n)
  mem = imfd.InMemoryFederatedData(dict(t)) if n else None
  path = os.path.join(tmp, f'd{n}.sqlite')
  if not os.path.exists(path):
    with sqfd.SQLiteFederatedDataBuilder(path) as b:
      # rows in an order that is neither sorted nor reverse sorted: nothing may rely on the file's row order
      items = sorted(t.items())
      b.add_many(items[1::2] + items[0::2][::-1])
  sq = sqfd.SQLiteFederatedData.new(path)
  sub = fd.SubsetFederatedData(sqfd.SQLiteFederatedData.new(path), list(t)) if True else None
  return t, {'mem': mem, 'sqlite': sq, 'subset': sub}


def cpre(cid, ex):
  return {**ex, 'z': ex['x'] + len(cid)}


def bpre(ex):
  return {**ex, 'w': ex['x'] * 2}


def apply_ops(t, views, ops):
  """ops: list of ['slice', lo, hi] | ['pc'] | ['pb'] | ['subset', [idx...]]"""
  ref = dict(t)
  chain = []
  for op in ops:
    if op[0] == 'slice':
      lo = None if op[1] is None else IDS[op[1]]
      hi = None if op[2] is None else IDS[op[2]]
      ref = {k: v for k, v in ref.items() if (lo is None or lo <= k) and (hi is None or k < hi)}
      views = {n: (v.slice(lo, hi) if v is not None else None) for n, v in views.items()}
    elif op[0] == 'pc':
      chain.append('c')
      views = {n: (v.preprocess_client(cpre) if v is not None else None) for n, v in views.items()}
    elif op[0] == 'pb':
      chain.append('b')
      views = {n: (v.preprocess_batch(bpre) if v is not None else None) for n, v in views.items()}
    elif op[0] == 'subset':
      ids = [IDS[i] for i in op[1] if IDS[i] in ref]
      ref = {k: v for k, v in ref.items() if k in ids}
      views = {n: (fd.SubsetFederatedData(v, ids) if v is not None else None)
               for n, v in views.items()}
  return ref, chain, views


def expected(cid, ex, chain):
  out = dict(ex)
  for c in chain:
    if c == 'c':
      out = cpre(cid, out)
  for c in chain:
    if c == 'b':
      out = bpre(out)
  return out


def same(a, b):
  return set(a) == set(b) and all(np.array_equal(a[k], b[k]) for k in a)


def check_views(inp):
  n, ops = inp['n'], inp['ops']
  with tempfile.TemporaryDirectory() as tmp:
    t, views = build_all(n, tmp)
    if views['mem'] is None:
      return None
    before = {k: {f: a.copy() for f, a in v.items()} for k, v in t.items()}
    parents = dict(views)
    parent_ids = {nm: sorted(v.client_ids()) for nm, v in parents.items()}
    ref, chain, vs = apply_ops(t, views, ops)
    for nm, v in vs.items():
      ids = list(v.client_ids())
      if sorted(ids) != sorted(ref):
        return f'{nm}: client_ids {sorted(ids)} != {sorted(ref)} after {ops}'
      if v.num_clients() != len(ref):
        return f'{nm}: num_clients {v.num_clients()} != {len(ref)}'
      got = list(v.clients())
      if sorted(k for k, _ in got) != sorted(ref):
        return f'{nm}: clients() ids wrong after {ops}'
      if [k for k, _ in got] != [k for k, _ in v.clients()]:
        return f'{nm}: clients() order not deterministic'
      if nm.startswith('mem') and ([k for k, _ in got] != sorted(ref) or [k for k, _ in v.client_sizes()] != sorted(ref)):
        return (f'{nm}: clients() / client_sizes() of the view {ops} iterate in {[k for k, _ in got]}, not in sorted order '
                '(set / hash order: differs between processes)')
      for k, dsx in got:
        if not same(dsx.all_examples(), expected(k, ref[k], chain)):
          return f'{nm}: examples of {k!r} wrong after {ops} (preprocessor order?)'
      for k in IDS:
        if k in ref:
          try:
            one = v.get_client(k)
          except KeyError:
            return f'{nm}: get_client({k!r}) raised KeyError inside the view {ops}'
          if not same(one.all_examples(), expected(k, ref[k], chain)):
            return f'{nm}: get_client({k!r}) wrong'
          if 'c' not in chain and v.client_size(k) != len(ref[k]['x']):
            return f'{nm}: client_size({k!r}) wrong'
        else:
          for call in (v.get_client, v.client_size, lambda kk: list(v.get_clients([kk]))):
            try:
              call(k)
              return f'{nm}: id {k!r} outside the view {ops} did not raise KeyError'
            except KeyError:
              pass
      order = sorted(ref, reverse=True)
      if [k for k, _ in v.get_clients(order)] != order:
        return f'{nm}: get_clients not in request order'
      # the request is an Iterable: a generator, iter(list) or another view's client_ids() is answered like the list
      for what, req in (('iter(list)', iter(list(order))), ('generator', (k for k in order)), ('client_ids()', v.client_ids())):
        got_ids = [k for k, _ in v.get_clients(req)]
        want_ids = order if what != 'client_ids()' else list(v.client_ids())
        if got_ids != want_ids:
          return f'{nm}: get_clients({what}) returns {got_ids}, the same request as a list returns {want_ids}'
      if ref:
        it = v.shuffled_clients(buffer_size=3, seed=1)
        one_pass = [k for k, _ in itertools.islice(it, len(ref))]
        if sorted(one_pass) != sorted(ref):
          return f'{nm}: shuffled pass {one_pass} is not each client once'
      sizes = dict(v.client_sizes())
      if 'c' not in chain and sizes != {k: len(ref[k]['x']) for k in ref}:
        return f'{nm}: client_sizes wrong'
      # two access paths of the same object consumed interleaved: each still sees what it sees alone
      alone_ids, alone_sizes, alone_cl = list(v.client_ids()), list(v.client_sizes()), [k for k, _ in v.clients()]
      zipped = list(zip(v.client_ids(), v.client_sizes(), v.clients()))
      if [a for a, _, _ in zipped] != alone_ids or [b_ for _, b_, _ in zipped] != alone_sizes or \
          [c_[0] for _, _, c_ in zipped] != alone_cl:
        return (f'{nm}: zip(client_ids(), client_sizes(), clients()) of the view {ops} gives '
                f'{[(a, b_, c_[0]) for a, b_, c_ in zipped]}; alone they give {alone_ids} / {alone_sizes} / {alone_cl}')
      if len(ref) >= 2:
        it = v.shuffled_clients(buffer_size=2, seed=1)
        head = [next(it)[0]]
        mid = [k for k, _ in v.clients()]          # a full pass in the middle of a shuffled pass
        rest = [k for k, _ in itertools.islice(it, len(ref) - 1)]
        if mid != alone_cl or sorted(head + rest) != sorted(ref):
          return (f'{nm}: a clients() pass in the middle of a shuffled pass: clients() gave {mid} (alone {alone_cl}), the shuffled '
                  f'pass visited {head + rest} instead of each of {sorted(ref)} once')
    for nm, v in parents.items():
      if sorted(v.client_ids()) != parent_ids[nm]:
        return f'{nm}: deriving a view changed the parent'
    for k, v in t.items():
      if not same(v, before[k]):
        return 'input table mutated'


def sweep_views(tier, seed):
  rng = np.random.RandomState(seed)
  bounds = [None, 0, 1, 2, 3, 4, 5, 7]
  for n in (1, 3, 5, 8):
    yield dict(n=n, ops=[])
    for lo in bounds:
      for hi in bounds:
        yield dict(n=n, ops=[['slice', lo, hi]])
    for _ in range(30 if tier == 'quick' else 150):
      ops = []
      for _ in range(rng.randint(1, 5)):
        r = rng.randint(5)
        if r <= 1:
          ops.append(['slice', bounds[rng.randint(len(bounds))], bounds[rng.randint(len(bounds))]])
        elif r == 2:
          ops.append(['pc'])
        elif r == 3:
          ops.append(['pb'])
        else:
          ops.append(['subset', sorted(set(rng.randint(0, 8, size=rng.randint(0, 5)).tolist()))])
      yield dict(n=n, ops=ops)


def check_chains(inp):
  order = []
  c = fd.ClientPreprocessor()
  c1 = c.append(lambda i, e: (order.append('c1'), {**e, 'a': e['x']})[1])
  c2 = c1.append(lambda i, e: (order.append('c2'), {**e, 'b': e['a']})[1])
  if len(c._fns) != 0 or len(c1._fns) != 1 or len(c2._fns) != 2:
    return 'ClientPreprocessor.append mutated the receiver'
  ex = {'x': np.arange(3)}
  out = c2(b'id', ex)
  if order != ['c1', 'c2'] or set(out) != {'x', 'a', 'b'} or set(ex) != {'x'}:
    return 'ClientPreprocessor order / copy wrong'
  order.clear()
  b = cds.BatchPreprocessor()
  b1 = b.append(lambda e: (order.append('b1'), {**e, 'a': e['x']})[1])
  b2 = b1.append(lambda e: (order.append('b2'), {**e, 'b': e['a']})[1])
  if len(b._fns) != 0 or len(b1._fns) != 1 or len(b2._fns) != 2:
    return 'BatchPreprocessor.append mutated the receiver'
  out = b2(ex)
  if order != ['b1', 'b2'] or set(out) != {'x', 'a', 'b'} or set(ex) != {'x'}:
    return 'BatchPreprocessor order / copy wrong'
  if b(ex) is not ex:
    return 'empty chain should return its input'


CHECKERS = {'isr': (check_isr, lambda t, s: [{}]), 'views': (check_views, sweep_views),
            'chains': (check_chains, lambda t, s: [{}])}

if __name__ == '__main__':
  sys.exit(common.main(CHECKERS))
