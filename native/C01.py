"""Native replay / bounded driver for C01: real federated_averaging vs an
independent numpy/jax reference of the mathematical definition."""
import sys

import os
# several host devices: the pmap backend then really packs several clients into one block
os.environ['XLA_FLAGS'] = (os.environ.get('XLA_FLAGS', '') + ' --xla_force_host_platform_device_count=3').strip()
import numpy as np

from native import common
common.light_fedjax()
import jax
import jax.numpy as jnp
from fedjax.algorithms import fed_avg
from fedjax.core import client_datasets as cds
from fedjax.core import models, optimizers, tree_util


def pel(params, batch, rng):
  return (batch['x'] @ params['w'] + params['b'] - batch['y']) ** 2


def pel_keyed(params, batch, rng):
  # a loss that USES its per-step key (input dropout): each local step must get its own single-use key
  keep = jax.random.bernoulli(rng, 0.7, batch['x'].shape)
  return ((batch['x'] * keep) @ params['w'] + params['b'] - batch['y']) ** 2


def make_opt(name):
  return {'sgd': lambda: optimizers.sgd(0.1), 'momentum': lambda: optimizers.sgd(0.1, momentum=0.9),
          'adam': lambda: optimizers.adam(0.05)}[name]()


def reference_round(grad_fn, copt, sopt, hp, state, clients):
  """Definition: server_opt(weighted mean of (w - w_client)), clients trained sequentially."""
  deltas, weights = [], []
  for cid, ds, key in clients:
    p = state.params
    os_ = copt.init(p)
    rng = key
    steps = 0
    for batch in ds.shuffle_repeat_batch(hp):
      steps += 1
      if len(batch['y']) != hp.batch_size:
        raise AssertionError(f'a client with {len(ds)} examples is trained on a batch of {len(batch["y"])} rows; every batch of its '
                             f'stream has batch_size = {hp.batch_size} rows (short datasets wrap around)')
      rng, use = jax.random.split(rng)
      g = grad_fn(p, batch, use)
      os_, p = copt.apply(g, os_, p)
    if hp.num_epochs is not None and hp.num_steps is None:
      # documented: ceil (floor with drop_remainder) of N * num_epochs / batch_size local steps, counted over the whole stream
      want = (len(ds) * hp.num_epochs) // hp.batch_size if hp.drop_remainder else -(-(len(ds) * hp.num_epochs) // hp.batch_size)
      if steps != want:
        raise AssertionError(f'a client with {len(ds)} examples takes {steps} local steps for num_epochs={hp.num_epochs}, '
                             f'batch_size={hp.batch_size}, drop_remainder={hp.drop_remainder}; the definition has {want}')
    deltas.append(jax.tree_util.tree_map(lambda a, b: np.asarray(a, np.float64) - np.asarray(b, np.float64),
                                         state.params, p))
    weights.append(float(len(ds)))
  W = sum(weights)
  if W > 0:
    mean = jax.tree_util.tree_map(lambda *xs: sum(x * w for x, w in zip(xs, weights)) / W, *deltas)
  else:
    mean = jax.tree_util.tree_map(lambda a: np.zeros_like(np.asarray(a, np.float64)), state.params)
  mean = jax.tree_util.tree_map(lambda a: jnp.asarray(a, jnp.float32), mean)
  opt_state, params = sopt.apply(mean, state.opt_state, state.params)
  return fed_avg.ServerState(params, opt_state)


def check_round(inp):
  sizes_rounds, bs, copt_n, sopt_n, seed = inp['rounds'], inp['batch_size'], inp['copt'], inp['sopt'], inp['seed']
  rng = np.random.RandomState(seed)
  grad_fn = models.grad(pel_keyed if inp.get('keyed') else pel)
  copt, sopt = make_opt(copt_n), make_opt(sopt_n)
  hp = cds.ShuffleRepeatBatchHParams(batch_size=bs, num_epochs=inp.get('epochs', 1), seed=3,
                                     drop_remainder=inp.get('drop', False))
  alg = fed_avg.federated_averaging(grad_fn, copt, sopt, hp)
  params = {'w': jnp.asarray(rng.randn(2).astype(np.float32)), 'b': jnp.asarray(np.float32(0.3))}
  st = alg.init(params)
  ref = alg.init(params)
  for r, sizes in enumerate(sizes_rounds):
    clients = []
    for i, n in enumerate(sizes):
      d = cds.ClientDataset({'x': rng.randn(n, 2).astype(np.float32), 'y': rng.randn(n).astype(np.float32)})
      clients.append((f'c{i}'.encode(), d, jax.random.PRNGKey(100 * r + i)))
    before = jax.tree_util.tree_map(np.array, st.params)
    new, diag = alg.apply(st, clients)
    ref = reference_round(grad_fn, copt, sopt, hp, ref, clients)
    got_rev, _ = alg.apply(st, clients[::-1])
    for a, b in zip(jax.tree_util.tree_leaves(new.params), jax.tree_util.tree_leaves(ref.params)):
      if np.isnan(np.asarray(a)).any():
        return f'round {r + 1}: NaN parameters for client sizes {sizes}'
      if not np.allclose(np.asarray(a), np.asarray(b), rtol=2e-4, atol=2e-5):
        return (f'round {r + 1}, client sizes {sizes}, client opt {copt_n}, server opt {sopt_n}: params {np.asarray(a)} '
                f'differ from the definition {np.asarray(b)}')
    for a, b in zip(jax.tree_util.tree_leaves(new.params), jax.tree_util.tree_leaves(got_rev.params)):
      if not np.allclose(np.asarray(a), np.asarray(b), rtol=2e-4, atol=2e-5):
        return f'round {r + 1}: result depends on the order of the clients'
    if sorted(diag) != sorted(c[0] for c in clients):
      return f'round {r + 1}: diagnostics keys {sorted(diag)}'
    for a, b in zip(jax.tree_util.tree_leaves(st.params), jax.tree_util.tree_leaves(before)):
      if not np.array_equal(np.asarray(a), b):
        return 'input server state was modified'
    if sopt_n == 'sgd' and sum(sizes) == 0:
      for a, b in zip(jax.tree_util.tree_leaves(new.params), jax.tree_util.tree_leaves(before)):
        if not np.allclose(np.asarray(a), b):
          return 'a round without examples changed the parameters under plain SGD'
    if inp.get('backends'):
      # same round under the other backends (the algorithm binds its backend when it is constructed)
      from fedjax.core import for_each_client as fec
      for be in inp['backends']:
        with fec.for_each_client_backend(be):
          alg_b = fed_avg.federated_averaging(grad_fn, copt, sopt, hp)
          try:
            new_b, diag_b = alg_b.apply(st, clients)
          except Exception as e:  # pylint: disable=broad-except
            return f'round {r + 1} under the {be} backend: {type(e).__name__}: {str(e)[:200]}'
        for a, b in zip(jax.tree_util.tree_leaves(new_b.params), jax.tree_util.tree_leaves(ref.params)):
          if not np.allclose(np.asarray(a), np.asarray(b), rtol=2e-4, atol=2e-5):
            return (f'round {r + 1}, client sizes {sizes} (in this order), {be} backend: params {np.asarray(a)} differ from the '
                    f'definition {np.asarray(b)} (the result depends on the execution backend)')
        if sorted(diag_b) != sorted(c[0] for c in clients):
          return f'round {r + 1} under the {be} backend: diagnostics keys {sorted(diag_b)}'
    st = new
    ref = fed_avg.ServerState(new.params, new.opt_state)


def sweep_round(tier, seed):
  for copt in ('sgd', 'momentum'):
    for sopt in ('sgd', 'momentum', 'adam'):
      yield dict(rounds=[[3, 0, 5], [0, 0], [4, 1]], batch_size=2, copt=copt, sopt=sopt, seed=seed)
      yield dict(rounds=[[1], [], [2, 7]], batch_size=3, copt=copt, sopt=sopt, seed=seed + 1, epochs=2)
  yield dict(rounds=[[5, 4]], batch_size=4, copt='sgd', sopt='sgd', seed=seed, drop=True)
  yield dict(rounds=[[3, 1, 2]], batch_size=7, copt='sgd', sopt='sgd', seed=seed, epochs=2)
  yield dict(rounds=[[5, 0, 3], [4]], batch_size=2, copt='sgd', sopt='sgd', seed=seed, epochs=2, keyed=True)
  yield dict(rounds=[[5, 2, 7]], batch_size=3, copt='sgd', sopt='sgd', seed=seed, epochs=3)
  yield dict(rounds=[[5, 2, 7]], batch_size=3, copt='momentum', sopt='sgd', seed=seed, epochs=2, drop=True)
  # all three backends; full batches only (pmap stacks the batches of a block), clients listed small to large and shuffled
  yield dict(rounds=[[2, 4, 6], [4, 6, 2, 0]], batch_size=2, copt='sgd', sopt='sgd', seed=seed, backends=['debug', 'pmap'])
  yield dict(rounds=[[6, 2, 4]], batch_size=2, copt='momentum', sopt='adam', seed=seed + 2, backends=['pmap'])


CHECKERS = {'round': (check_round, sweep_round)}

if __name__ == '__main__':
  sys.exit(common.main(CHECKERS))
