"""Native replay / bounded driver for C17: invariants along multi-round histories."""
import sys

import os
# several host devices: the pmap backend then really packs several clients into one block
os.environ['XLA_FLAGS'] = (os.environ.get('XLA_FLAGS', '') + ' --xla_force_host_platform_device_count=3').strip()
import numpy as np

from native import common
import fedjax
import haiku as hk
import jax
import jax.numpy as jnp
from fedjax.algorithms import agnostic_fed_avg, apfl, hyp_cluster, mime_lite
from fedjax.core import client_datasets as cds
from fedjax.core import models, optimizers, tree_util


def pel(params, batch, rng):
  return (batch['x'] @ params['w'] + params['b'] - batch['y']) ** 2


def clients_for(r, sizes, shift=0.0):
  rng = np.random.RandomState(70 + r)
  out = []
  for i, n in enumerate(sizes):
    x = rng.randn(n, 2).astype(np.float32)
    out.append((f'c{i}'.encode(), cds.ClientDataset({
        'x': x, 'y': (x @ np.array([1.0, -2.0], np.float32) + shift * (i % 2) * 5).astype(np.float32),
        'domain_id': (np.arange(n) % 2 if r % 2 == 0 else np.zeros(n)).astype(np.int32)}), jax.random.PRNGKey(13 * r + i)))
  return out


def p0(s=0.0):
  return {'w': jnp.asarray(np.array([0.4 + s, -0.3], np.float32)), 'b': jnp.asarray(np.float32(0.2))}


def leaves_equal(a, b):
  return all(np.array_equal(np.asarray(x), np.asarray(y)) for x, y in
             zip(jax.tree_util.tree_leaves(a), jax.tree_util.tree_leaves(b)))


def check_invariants(inp):
  which, rounds = inp['which'], inp['rounds']
  grad_fn = models.grad(pel)
  sgd, mom = optimizers.sgd(0.05), optimizers.sgd(0.05, momentum=0.9)
  hp = cds.ShuffleRepeatBatchHParams(batch_size=2, seed=2)
  php = cds.PaddedBatchHParams(batch_size=4)
  if which == 'agnostic':
    W = inp.get('window', 3)
    alg = agnostic_fed_avg.agnostic_federated_averaging(pel, sgd, mom, hp, php, inp.get('init_weights', [0.3, 0.7]), 0.5,
                                                        domain_window_size=W, init_domain_window=[1., 1.])
    st = alg.init(p0())
    kept = []
    for r, sizes in enumerate(rounds):
      cl = clients_for(r, sizes)
      kept.append((r, st, [np.array(x) for x in st.domain_window], np.array(st.domain_weights)))
      counts = np.zeros(2)
      for _, d, _ in cl:
        for dd in (0, 1):
          counts[dd] += int((d.raw_examples['domain_id'] == dd).sum())
      prev = [np.asarray(x) for x in st.domain_window]
      st, _ = alg.apply(st, cl)
      w = np.asarray(st.domain_weights)
      if np.isnan(w).any() or (w < 0).any() or abs(w.sum() - 1) > 1e-5:
        return f'agnostic: round {r + 1} domain weights {w} are not a probability vector'
      if len(st.domain_window) != W:
        return f'agnostic: window length {len(st.domain_window)} != {W} after round {r + 1}'
      for r0, s0, w0, dw0 in kept:
        if len(s0.domain_window) != len(w0) or not all(np.array_equal(np.asarray(a), b) for a, b in zip(s0.domain_window, w0)) \
            or not np.array_equal(np.asarray(s0.domain_weights), dw0):
          return (f'agnostic: the state that entered round {r0 + 1} no longer holds its window / weights after round {r + 1} '
                  f'(window now {[np.asarray(a).tolist() for a in s0.domain_window]}, was {[b.tolist() for b in w0]}): '
                  'a returned state shares its window list with the input state')
      want = prev[1:] + [counts]
      if not all(np.allclose(a, b) for a, b in zip([np.asarray(x) for x in st.domain_window], want)):
        return f'agnostic: window after round {r + 1} is not (old window without oldest) + [this round counts]'
  elif which == 'apfl':
    alg = apfl.adaptive_personalized_federated_learning(grad_fn, optimizers.sgd(5.0), mom, hp, inp.get('coef', 0.9))
    st = alg.init(p0())
    seen = set()
    ev = None
    if inp.get('eval'):
      # the packaged APFL evaluation, interleaved with training on clients that never trained: it reads the table only
      from fedjax.core import metrics as M
      emodel = models.Model(init=None, apply_for_train=None, train_loss=None,
                            apply_for_eval=lambda params, ex: jnp.stack([ex['x'] @ params['w'] + params['b'],
                                                                          jnp.zeros(len(ex['y']))], axis=-1),
                            eval_metrics={'acc': M.Accuracy()})
      ev = apfl.eval_adaptive_personalized_federated_learning(emodel, cds.PaddedBatchHParams(batch_size=4))
    for r, sizes in enumerate(rounds):
      cl = clients_for(r, sizes, shift=3.0)
      st, _ = alg.apply(st, cl)
      seen |= {c[0] for c in cl}
      if ev is not None:
        held = [(b'held%d' % i, cds.ClientDataset({'x': np.ones((3, 2), np.float32), 'y': np.zeros(3, np.int32)}))
                for i in range(2)]
        before = set(st.client_states)
        list(ev(st, held + [(c[0], cds.ClientDataset({'x': np.ones((2, 2), np.float32), 'y': np.zeros(2, np.int32)}))
                            for c in cl]))
        if set(st.client_states) != before:
          return (f'apfl: evaluating after round {r + 1} inserted client states for {set(st.client_states) - before} into the '
                  'server state it was given (clients that never participated in training)')
      if not set(st.client_states) <= seen:
        return f'apfl: client state stored for non-participants {set(st.client_states) - seen}'
      for cid, cs in st.client_states.items():
        for leaf in jax.tree_util.tree_leaves(cs.interpolation_coefficients):
          a = np.asarray(leaf)
          if (a < 0).any() or (a > 1).any() or np.isnan(a).any():
            return f'apfl: interpolation coefficient {a} of {cid} outside [0, 1] after round {r + 1}'
  elif which == 'hyp':
    alg = hyp_cluster.hyp_cluster(pel, sgd, mom, php, hp)
    st = alg.init([p0(0.0), p0(3.0), p0(-5.0)])
    for r, sizes in enumerate(rounds):
      cl = clients_for(r, sizes, shift=1.0)
      before = st
      st, diag = alg.apply(st, cl)
      assign = {cid: int(d['cluster_id']) for cid, d in diag.items()}
      ev = models.AverageLossEvaluator(pel)
      for cid, ds, rng in cl:
        if len(ds) == 0:
          continue
        losses = [float(jnp.mean(pel(pp, ds.all_examples(), None))) for pp in before.cluster_params]
        if losses[assign[cid]] > min(losses) + 1e-4 * (1 + abs(min(losses))):
          return f'hyp: client {cid} assigned to cluster {assign[cid]} with loss {losses[assign[cid]]} > min {min(losses)}'
      for k in range(3):
        members = [cid for cid, ds, _ in cl if assign[cid] == k and len(ds) > 0]
        if not members:
          if not (leaves_equal(before.cluster_params[k], st.cluster_params[k]) and
                  leaves_equal(before.opt_states[k], st.opt_states[k])):
            return f'hyp: cluster {k} has no client in round {r + 1} but its params / optimizer state changed'
  elif which == 'hyp_eval':
    # the packaged evaluator: on EVERY call each client is evaluated with the cluster of minimal average train loss under the
    # cluster params OF THAT CALL (one evaluator object reused across calls, as an experiment loop does)
    from fedjax.core import metrics as M
    emodel = models.Model(init=None, apply_for_train=lambda p_, b_, k_: b_['x'] @ p_['w'] + p_['b'], train_loss=lambda b_, o: (o - b_['y']) ** 2,
                          apply_for_eval=lambda p_, b_: jnp.stack([b_['x'] @ p_['w'] + p_['b'], jnp.zeros(len(b_['y']))], axis=-1),
                          eval_metrics={'acc': M.Accuracy()})
    ev = hyp_cluster.HypClusterEvaluator(emodel)
    cl = clients_for(0, [4, 3, 5], shift=1.0)
    test = [(cid, cds.ClientDataset({'x': np.asarray(d.raw_examples['x']), 'y': (np.asarray(d.raw_examples['y']) > 0).astype(np.int32)}))
            for cid, d, _ in cl]
    for params_list in ([p0(0.0), p0(3.0)], [p0(3.0), p0(0.0)], [p0(-5.0), p0(0.2)]):
      got = dict(ev.evaluate_clients(params_list, cl, test, php))
      for (cid, d, _), (_, td) in zip(cl, test):
        losses = [float(jnp.mean(pel(pp, d.all_examples(), None))) for pp in params_list]
        k_ = int(np.argmin(losses))
        if abs(losses[0] - losses[1]) < 1e-3:
          continue
        want = float(models.evaluate_model(emodel, params_list[k_], td.padded_batch(php))['acc'])
        other = float(models.evaluate_model(emodel, params_list[1 - k_], td.padded_batch(php))['acc'])
        if abs(float(got[cid]['acc']) - want) > 1e-6 and abs(want - other) > 1e-6:
          return (f'HypClusterEvaluator (reused across calls): client {cid} is evaluated with accuracy {float(got[cid]["acc"])}; its '
                  f'cluster of minimal train loss under the params of THIS call ({k_}, losses {losses}) gives {want}')
  elif which == 'hyp_pmap':
    # the same rounds with the algorithm built under the pmap backend (it returns clients in another order: by decreasing
    # batch count): every delta still goes to ITS client's cluster with ITS client's weight - same states as under jit
    from fedjax.core import for_each_client as fec
    init = [p0(0.0), p0(3.0), p0(-5.0)]
    ref_alg = hyp_cluster.hyp_cluster(pel, sgd, mom, php, hp)
    with fec.for_each_client_backend('pmap'):
      pm_alg = hyp_cluster.hyp_cluster(pel, sgd, mom, php, hp)
    s_ref, s_pm = ref_alg.init(init), pm_alg.init(init)
    for r, sizes in enumerate(rounds):
      cl = clients_for(r, sizes, shift=1.0)
      s_ref, d_ref = ref_alg.apply(s_ref, cl)
      s_pm, d_pm = pm_alg.apply(s_pm, cl)
      if {c: int(d['cluster_id']) for c, d in d_ref.items()} != {c: int(d['cluster_id']) for c, d in d_pm.items()}:
        return f'hyp under pmap: round {r + 1} assigns clients differently than under jit'
      for k in range(3):
        if not all(np.allclose(np.asarray(a), np.asarray(b), rtol=2e-4, atol=2e-5) for a, b in zip(
            jax.tree_util.tree_leaves(s_ref.cluster_params[k]), jax.tree_util.tree_leaves(s_pm.cluster_params[k]))):
          return (f'hyp under the pmap backend, round {r + 1} (client sizes {sizes}, listed by increasing batch count): cluster {k} '
                  f'params {jax.tree_util.tree_map(lambda a: np.asarray(a).tolist(), s_pm.cluster_params[k])} differ from the jit '
                  f'backend {jax.tree_util.tree_map(lambda a: np.asarray(a).tolist(), s_ref.cluster_params[k])}: deltas reach '
                  'the wrong cluster / weight when the backend re-orders the clients')
  elif which == 'mimelite':
    bound = inp.get('clip', 0.01)
    alg = mime_lite.mime_lite(pel, optimizers.sgd(0.5), hp, php, 1.0, client_delta_clip_norm=bound)
    st = alg.init(p0())
    for r, sizes in enumerate(rounds):
      cl = clients_for(r, sizes)
      new, diag = alg.apply(st, cl)
      step = float(tree_util.tree_l2_norm(jax.tree_util.tree_map(lambda a, b: a - b, st.params, new.params)))
      if step > bound * (1 + 1e-4) + 1e-6:
        return f'mime_lite: server moved by {step} > clip bound {bound}: an unclipped client update was aggregated'
      for cid, d in diag.items():
        if float(d['clipped_delta_l2_norm']) > bound * (1 + 1e-4) + 1e-6:
          return f'mime_lite: clipped norm {float(d["clipped_delta_l2_norm"])} exceeds {bound}'
      st = new
  elif which == 'ignore':
    params = hk.data_structures.to_immutable_dict({'lin': {'w': jnp.ones(3), 'b': jnp.zeros(1)},
                                                   'emb': {'table': jnp.arange(4.0)}})
    grads = jax.tree_util.tree_map(lambda x: jnp.ones_like(x) * 0.5, params)
    # plain nested dicts are params too: same contract, and the caller's params (inner per-module dicts included) keep
    # their values - the optimizer returns new params, it does not write into the ones it was given
    plain = {'lin': {'w': jnp.ones(3), 'b': jnp.zeros(1)}, 'emb': {'table': jnp.arange(4.0)}}
    pgrads = jax.tree_util.tree_map(lambda x: jnp.ones_like(x) * 0.5, plain)
    snap = jax.tree_util.tree_map(np.asarray, plain)
    popt = optimizers.ignore_grads_haiku(optimizers.sgd(0.1), [('emb', 'table')])
    _, pout = popt.apply(pgrads, popt.init(plain), plain)
    if not leaves_equal(plain, snap) or sorted(plain) != sorted(snap) or any(sorted(plain[m_]) != sorted(snap[m_]) for m_ in snap):
      return ('ignore_grads_haiku.apply on plain nested dict params changed the params it was given: '
              f'{jax.tree_util.tree_map(lambda a: np.asarray(a).tolist(), plain)}')
    if not np.array_equal(np.asarray(pout['emb']['table']), np.asarray(snap['emb']['table'])) or \
        not np.allclose(np.asarray(pout['lin']['w']), np.asarray(snap['lin']['w']) - 0.05):
      return 'ignore_grads_haiku on plain nested dict params: ignored entry changed or trainable entry not updated like sgd'
    for base in (optimizers.sgd(0.1), optimizers.sgd(0.1, momentum=0.9), optimizers.adam(0.1)):
      # two ignored parameters of the SAME module (freezing a whole layer), for two steps
      names2 = [('lin', 'w'), ('lin', 'b')]
      opt2 = optimizers.ignore_grads_haiku(base, names2)
      st2, cur = opt2.init(params), params
      for _ in range(2):
        st2, cur = opt2.apply(grads, st2, cur)
      for m, n in names2:
        if not np.array_equal(np.asarray(cur[m][n]), np.asarray(params[m][n])):
          return f'ignore_grads_haiku changed the ignored parameter {m}/{n} when {names2} are ignored'
      names = [('emb', 'table'), ('lin', 'b')]
      opt = optimizers.ignore_grads_haiku(base, names)
      s = opt.init(params)
      s2, out = opt.apply(grads, s, params)
      for m, n in names:
        if not np.array_equal(np.asarray(out[m][n]), np.asarray(params[m][n])):
          return f'ignore_grads_haiku changed the ignored parameter {m}/{n}'
      tr = hk.data_structures.to_immutable_dict({'lin': {'w': params['lin']['w']}})
      tg = hk.data_structures.to_immutable_dict({'lin': {'w': grads['lin']['w']}})
      _, ref = base.apply(tg, base.init(tr), tr)
      if not np.allclose(np.asarray(out['lin']['w']), np.asarray(ref['lin']['w'])):
        return 'ignore_grads_haiku: trainable parameters are not updated like the base optimizer does'


def check_eg(inp):
  w = jnp.asarray(inp['w'], jnp.float32)
  loss = jnp.asarray(inp['loss'], jnp.float32)
  for step in range(inp.get('steps', 1)):
    w = agnostic_fed_avg.update_domain_weights(w, loss, inp['lr'], 'eg')
    a = np.asarray(w, np.float64)
    if np.isnan(a).any() or (a < 0).any() or abs(a.sum() - 1) > 1e-5:
      return (f'update_domain_weights step {step + 1}: {a} (sum {a.sum()!r}) is not a probability vector '
              f'(from w={inp["w"]}, loss={inp["loss"]}, lr={inp["lr"]})')


def sweep_eg(tier, seed):
  rs = np.random.RandomState(seed)
  fixed = [([0.3, 0.7], [1.0, 2.0]), ([1e-4, 0.9999], [0.5, 0.1]), ([0.0, 0.4, 0.6], [3.0, 1.0, 0.0]),
           ([1e-6, 1e-6, 1 - 2e-6], [0.0, 5.0, 1.0]), ([1.0], [2.0]), ([0.25] * 4, [0.0] * 4),
           ([0.5, 0.5], [-3.0, 40.0])]
  for w, l in fixed:
    for lr in (0.0, 0.1, 1.0):
      yield dict(w=w, loss=l, lr=lr, steps=3)
  for _ in range({'quick': 10}.get(tier, 200)):
    n = int(rs.randint(1, 7))
    w = rs.dirichlet(np.full(n, 0.05))   # sparse-ish: many tiny entries
    yield dict(w=[float(x) for x in w], loss=[float(x) for x in rs.uniform(0, 6, n)], lr=float(rs.choice([0.01, 0.5, 2.0])),
               steps=2)


def sweep_invariants(tier, seed):
  R = [[3, 4], [2, 0, 5], [0, 0], [4, 1], [3]]
  yield dict(which='agnostic', rounds=R, window=2, init_weights=[0.0002, 0.9998])
  yield dict(which='agnostic', rounds=R, window=3)
  yield dict(which='agnostic', rounds=R, window=1)
  yield dict(which='apfl', rounds=R, coef=0.9)
  yield dict(which='apfl', rounds=R, coef=0.0)
  yield dict(which='apfl', rounds=R, coef=0.5, eval=True)
  yield dict(which='hyp', rounds=[[4, 3, 5], [3, 0, 4], [0, 0], [5], [2, 2]])
  yield dict(which='hyp_pmap', rounds=[[2, 6, 4], [4, 2, 8, 6]])
  yield dict(which='hyp_eval', rounds=[])
  yield dict(which='mimelite', rounds=R)
  yield dict(which='mimelite', rounds=R, clip=0.0)
  yield dict(which='mimelite', rounds=R, clip=0.5)
  yield dict(which='ignore', rounds=[])


CHECKERS = {'invariants': (check_invariants, sweep_invariants), 'eg': (check_eg, sweep_eg)}

if __name__ == '__main__':
  sys.exit(common.main(CHECKERS))
